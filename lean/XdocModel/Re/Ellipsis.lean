import XdocModel.Py.Str
/-!
# `checker._ellipsis_match`, index-free

`re.split(r'\s*\.\.\.\s*', want)`: leftmost matches, both `\s*` greedy, i.e. a separator is a
maximal run of whitespace, three dots, a maximal run of whitespace. Note that a run of four
dots `....` splits as `'' , '.'` (the first three dots are taken).
-/
namespace Xdoc.Re
open Xdoc Py

variable {α : Type} [DecidableEq α]

/-- remainder after the leftmost occurrence of `w` in `s` (Python: `i = s.find(w)`, `s[i+len(w):]`) -/
def findAfter (w : List α) : List α → Option (List α)
  | [] => dropPrefix? w []
  | c :: s =>
    match dropPrefix? w (c :: s) with
    | some r => some r
    | none => findAfter w s

/-- the `for w in ws: startpos = got.find(w, startpos, endpos)` loop over the middle slice -/
def matchMid : List (List α) → List α → Bool
  | [], _ => true
  | w :: ws, s =>
    match findAfter w s with
    | none => false
    | some r => matchMid ws r

/-- `got` = `first ++ mid ++ last` with the middle pieces found left to right in `mid` -/
def ellipsisPieces (first : List α) (mids : List (List α)) (last : List α) (got : List α) : Bool :=
  match dropPrefix? first got with
  | none => false
  | some rest =>
    match dropPrefix? last.reverse rest.reverse with
    | none => false
    | some midRev => matchMid mids midRev.reverse

def dots : Str := ['.', '.', '.']

/-- does `s` start with `\s*\.\.\.` ? returns the rest after the dots -/
def sepStart (s : Str) : Option Str := dropPrefix? dots (s.dropWhile isSpace)

/-- `re.split(r'\s*\.\.\.\s*', s)` -/
def splitEllipsisGo : Nat → Str → Str → List Str
  | 0, _, acc => [acc.reverse]
  | _, [], acc => [acc.reverse]
  | fuel + 1, c :: s, acc =>
    match sepStart (c :: s) with
    | some rest => acc.reverse :: splitEllipsisGo fuel (rest.dropWhile isSpace) []
    | none => splitEllipsisGo fuel s (c :: acc)

def splitEllipsis (s : Str) : List Str := splitEllipsisGo s.length s []

/-- `checker._ellipsis_match(got, want)` -/
def ellipsisMatch (got want : Str) : Bool :=
  if !contains dots want then want == got
  else
    match splitEllipsis want with
    | [] => false
    | [_] => false   -- `assert len(ws) >= 2`; unreachable when `...` occurs in `want`
    | first :: rest => ellipsisPieces first rest.dropLast (rest.getLast?.getD []) got

end Xdoc.Re

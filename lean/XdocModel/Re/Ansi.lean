import XdocModel.Re.Scan
/-!
# `utils.strip_ansi` : introducer (`\x9B` or `\x1B[`), parameters `0`..`?`, intermediates
space..slash, one final character `@`..`~` (IGNORECASE); replaced by nothing

The three classes are pairwise disjoint, so greedy matching never needs to backtrack.
IGNORECASE adds exactly U+0130, U+0131, U+017F, U+212A to `[@-~]` (case-folding partners of
`i`, `I`, `s`/`S`, `k`/`K`) and nothing to the other two classes; table-checked on every run.
-/
namespace Xdoc.Re
open Xdoc Py

def isCsiParam (c : Char) : Bool := 0x30 ≤ c.toNat && c.toNat ≤ 0x3F   -- [0-?]
def isCsiInter (c : Char) : Bool := 0x20 ≤ c.toNat && c.toNat ≤ 0x2F   -- space .. slash
def isCsiFinal (c : Char) : Bool :=                                      -- [@-~] with IGNORECASE
  let n := c.toNat
  (0x40 ≤ n && n ≤ 0x7E) || n == 0x130 || n == 0x131 || n == 0x17F || n == 0x212A

attribute [irreducible] isCsiFinal

/-- after the introducer: parameters, intermediates, one final character -/
def ansiTail (s : Str) : Option Str :=
  match (s.dropWhile isCsiParam).dropWhile isCsiInter with
  | c :: r => if isCsiFinal c then some r else none
  | [] => none

def ansiStep : Str → Option (Str × Str)
  | c :: s =>
    if c.toNat == 0x9B then (ansiTail s).map fun r => ([], r)
    else if c.toNat == 0x1B then
      match s with
      | d :: s' => if d == '[' then (ansiTail s').map fun r => ([], r) else none
      | [] => none
    else none
  | [] => none

def stripAnsi (s : Str) : Str := sub ansiStep s

end Xdoc.Re

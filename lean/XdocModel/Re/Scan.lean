import XdocModel.Py.Str
/-!
# `re.sub` as a left-to-right scan

`scan step fuel s` models `re.sub(pattern, repl, s)` for patterns that never match the empty
string in a way that changes the text: at each position `step` either recognises a match
(returning the replacement text and the rest of the input after the match) or declines, in
which case one character is copied. `fuel = s.length` is always enough because every match
consumes at least one character (`scan_fuel` lemmas in `Lemmas/Scan.lean`).
-/
namespace Xdoc.Re
open Xdoc Py

def scan (step : Str → Option (Str × Str)) : Nat → Str → Str
  | 0, s => s
  | _, [] => []
  | fuel + 1, c :: s =>
    match step (c :: s) with
    | some (out, rest) => out ++ scan step fuel rest
    | none => c :: scan step fuel s

/-- `re.sub` over the whole string -/
def sub (step : Str → Option (Str × Str)) (s : Str) : Str := scan step s.length s

end Xdoc.Re

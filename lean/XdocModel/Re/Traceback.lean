import XdocModel.Re.Prefix
/-!
# `checker._EXCEPTION_RE.search` : header line, lazy stack, first later line starting with `\w`

`^hdr\s*$ (?P<stack>.*?) ^(?P<msg>\w+.*)` with VERBOSE|MULTILINE|DOTALL. `^`/`$` only look at
`\n`. `\s*$` after the header may run over following blank lines. The message group is
everything from the first later line that starts with a word character to the END of the text
(DOTALL). If a header line has no such later line the search goes on with later header lines,
which cannot succeed either (their candidates are a subset), so the result is `none`.
-/
namespace Xdoc.Re
open Xdoc Py

def tbHeaders : List Str :=
  ["Traceback (most recent call last):".toList, "Traceback (innermost last):".toList]

/-- is `l` (a line without its `\n`) a header line: header text then only whitespace -/
def isTbHeaderLine (l : Str) : Bool :=
  tbHeaders.any fun h => match dropPrefix? h l with
    | some r => r.all isSpace
    | none => false

/-- first line starting with a word char: return the text from there to the end (lines re-joined) -/
def firstWordLineOn : List Str → Option Str
  | [] => none
  | l :: ls =>
    match l with
    | c :: _ => if isWord c then some (joinWith ['\n'] (l :: ls)) else firstWordLineOn ls
    | [] => firstWordLineOn ls

def excSearchLines : List Str → Option Str
  | [] => none
  | l :: ls =>
    if isTbHeaderLine l then
      match firstWordLineOn ls with
      | some m => some m
      | none => excSearchLines ls
    else excSearchLines ls

/-- `_EXCEPTION_RE.search(s).group('msg')` -/
def excSearch (s : Str) : Option Str := excSearchLines (splitOn '\n' s)

end Xdoc.Re

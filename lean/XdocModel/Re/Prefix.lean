import XdocModel.Re.Scan
import XdocModel.Generated
/-!
# `re.sub(r"(\W|^)[uU]([rR]?['\"])", r'\1\2', s)` (and the `[bB]` twin)

Left-to-right: a non-word character followed by the letter, an optional `r`/`R` and a quote
loses the letter; the non-word character is *consumed* by the match (so in `'u'` the opening
quote is consumed and `u'` after it is not rewritten... but `'u'` itself starts with `'` + `u` + `'`
and is rewritten to `''`, faithfully). At position 0 the `^` alternative applies as well.
-/
namespace Xdoc.Re
open Xdoc Py

/-- regex `\w` for str patterns -/
def isWord (c : Char) : Bool := isAsciiWord c || inRanges Generated.wordRanges c.toNat

attribute [irreducible] isWord

/-- `[uU]([rR]?['"])` at the head of `s`: returns the kept group 2 and the rest -/
def prefixTail (lo up : Char) : Str → Option (Str × Str)
  | l :: s =>
    if l == lo || l == up then
      match s with
      | r :: q :: s' =>
        if (r == 'r' || r == 'R') && isQuote q then some ([r, q], s')
        else if isQuote r then some ([r], q :: s')
        else none
      | [q] => if isQuote q then some ([q], []) else none
      | [] => none
    else none
  | [] => none

def prefixStep (lo up : Char) : Str → Option (Str × Str)
  | c :: s =>
    if !isWord c then (prefixTail lo up s).map fun (kept, rest) => (c :: kept, rest)
    else none
  | [] => none

def removePrefixes (lo up : Char) (s : Str) : Str :=
  match prefixTail lo up s with
  | some (kept, rest) => kept ++ sub (prefixStep lo up) rest
  | none => sub (prefixStep lo up) s

end Xdoc.Re

import XdocModel.Re.Scan
import XdocModel.Generated
/-!
# `checker.remove_blankline_marker` and `checker.TRAILING_WS`

`re.sub('(?<=\n)M\n|M\n|\nM|M', '\n', s)` : the first alternative is subsumed by the second.
`re.sub('[ \t]*$', '', s, MULTILINE)` : delete every maximal run of blanks that is followed by
`\n` or by the end of the text (`$` does not match before other line terminators).
-/
namespace Xdoc.Re
open Xdoc Py

def marker : Str := Generated.blanklineMarker.toList

def blankStep (s : Str) : Option (Str × Str) :=
  match dropPrefix? marker s with
  | some r =>
    match r with
    | '\n' :: r' => some (['\n'], r')
    | _ => some (['\n'], r)
  | none =>
    match s with
    | '\n' :: s' => (dropPrefix? marker s').map fun r => (['\n'], r)
    | _ => none

def removeBlanklineMarker (s : Str) : Str := sub blankStep s

/-- right-to-left formulation: a blank is dropped iff what follows it (already processed)
    is empty or starts with `\n`. -/
def stripTrailingWs : Str → Str
  | [] => []
  | c :: s =>
    let r := stripTrailingWs s
    if isBlank c && (match r with | [] => true | d :: _ => d == '\n') then r else c :: r

end Xdoc.Re

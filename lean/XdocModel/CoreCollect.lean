import XdocModel.Google
import XdocModel.Part
/-!
# Model of `core.py` : docstring → examples (`parse_docstr_examples` and its three styles),
# `unique_callname`

Cut lines. The doctest parser (`DoctestParser.parse`, properties C13/C14) is not part of this
model: the freeform grouping takes the parser's output (`FPiece`s: text pieces and parts with their
`line_offset`) as input — `none` when the parser raised `DoctestParseError` —, and the google path
takes, per example block, whether its eager `_parse()` succeeded (`gOk`). Everything else is
computed: block filtering by `example_tags`, numbering, `lineno` arithmetic, the freeform
`curr_offset` / ignore rule / re-basing of the part offsets / `docsrc`, the `auto` fallback rule
(freeform exactly when the google pass *yielded* nothing), and the swallowing of parse errors.
Only `asone=True` (the default, the only value reachable without `parser_kw`) is modelled.
-/
namespace Xdoc.Core
open Xdoc Py Google

inductive FPiece where
  | text (s : Str)
  | part (p : Part)
  deriving Repr

/-- `DocTest` as far as collection is concerned -/
structure Ex where
  callname : Str
  num : Nat
  lineno : Nat
  docsrc : Str
  blockType : Option Str := none
  /-- `_parts` when they were set by the freeform path (offsets re-based), else `none` -/
  parts : Option (List Part) := none
  deriving DecidableEq, Repr

def exampleTags : List Str := Generated.googleExampleTags.map String.toList

/-- `type.startswith(example_tags)` -/
def isExampleKey (key : Str) : Bool := exampleTags.any fun t => startsWith t key

def exampleBlocks (docstr : Str) : List Block := (splitGoogle docstr).filter fun b => isExampleKey b.key

/-- one `DocTest` per example block: `num` from `enumerate`, `lineno = lineno + offset + 1` -/
def googleExOf (callname : Str) (lineno : Nat) (num : Nat) (b : Block) : Ex :=
  { callname := callname, num := num, lineno := lineno + b.offset + 1, docsrc := b.text,
    blockType := some b.key }

def enumFrom {α β : Type} (f : Nat → α → β) : Nat → List α → List β
  | _, [] => []
  | n, a :: as => f n a :: enumFrom f (n + 1) as

/-- all examples the google generator would yield if no block failed to parse -/
def googleAll (docstr callname : Str) (lineno : Nat) : List Ex :=
  enumFrom (googleExOf callname lineno) 0 (exampleBlocks docstr)

/-- the generator yields until the first block whose eager parse raises; `true` = it raised.
    `gOk` is padded with `true`. -/
def takeOk {α : Type} : List α → List Bool → List α × Bool
  | [], _ => ([], false)
  | a :: as, [] => let r := takeOk as []; (a :: r.1, r.2)
  | a :: as, ok :: oks => if ok then (let r := takeOk as oks; (a :: r.1, r.2)) else ([], true)

def googleYield (docstr callname : Str) (lineno : Nat) (gOk : List Bool) : List Ex × Bool :=
  takeOk (googleAll docstr callname lineno) gOk

/-! ## freeform -/

def skipPatterns : List Str := Generated.freeformSkipPatterns.map fun p => (p.toList).map fun c =>
  if 'A' ≤ c ∧ c ≤ 'Z' then Char.ofNat (c.toNat + 32) else c

/-- `str.lower` as far as it can produce ASCII characters: `A`–`Z` and the Kelvin sign -/
def lowerChar (c : Char) : Char :=
  if 'A' ≤ c ∧ c ≤ 'Z' then Char.ofNat (c.toNat + 32) else if c.toNat = 0x212A then 'k' else c

/-- `_start_ignoring(prev)` -/
def startIgnoring (prev : Option Str) : Bool :=
  match prev with
  | some s => skipPatterns.any fun p => endsWith p ((strip s).map lowerChar)
  | none => false

structure FState where
  curParts : List Part := []        -- in order
  currOffset : Nat := 0
  prevText : Option Str := none     -- `prev_part` when it is a `str`
  ignoring : Bool := false

def fstep (st : FState) : FPiece → FState
  | .text s =>
    { st with currOffset := if st.curParts.isEmpty then st.currOffset + (countChar '\n' s + 1) else st.currOffset,
              ignoring := false, prevText := some s }
  | .part p =>
    if st.ignoring || startIgnoring st.prevText then
      { st with ignoring := true, prevText := none,
                currOffset := if st.curParts.isEmpty then st.currOffset + p.nLines else st.currOffset }
    else { st with curParts := st.curParts ++ [p], prevText := none }

/-- `doctest_from_parts` : the source text of the example -/
def docsrcOfParts (parts : List Part) : Str :=
  let nested := parts.map fun p =>
    let orig := p.origLines.getD []
    match p.want with
    | none => orig
    | some w => orig ++ splitLines w
  dedent (joinWith ['\n'] nested.flatten)

def rebase (parts : List Part) : List Part :=
  match parts with
  | [] => []
  | p0 :: _ => parts.map fun p => { p with lineOffset := p.lineOffset - p0.lineOffset }

/-- `parse_freeform_docstr_examples` on the parser's output -/
def freeform (pieces : List FPiece) (callname : Str) (lineno : Nat) : List Ex :=
  let st := pieces.foldl fstep {}
  match st.curParts with
  | [] => []
  | ps => [{ callname := callname, num := 0, lineno := lineno + st.currOffset,
             docsrc := docsrcOfParts ps, parts := some (rebase ps) }]

/-- the freeform generator behind `parse_docstr_examples`: a parser error yields nothing -/
def freeformYield (pieces : Option (List FPiece)) (callname : Str) (lineno : Nat) : List Ex :=
  match pieces with
  | none => []
  | some ps => freeform ps callname lineno

inductive Style where
  | freeform | google | auto
  deriving DecidableEq, Repr

/-- `list(parse_docstr_examples(docstr, callname, lineno=lineno, style=style))` :
    `DoctestParseError` / `MalformedDocstr` end the generator with a warning -/
def parseDocstrExamples (style : Style) (docstr callname : Str) (lineno : Nat)
    (gOk : List Bool) (pieces : Option (List FPiece)) : List Ex :=
  match style with
  | .freeform => freeformYield pieces callname lineno
  | .google => (googleYield docstr callname lineno gOk).1
  | .auto =>
    -- `n_found == 0` : freeform, also when the FIRST google block raised (the error is swallowed)
    match (googleYield docstr callname lineno gOk).1 with
    | [] => freeformYield pieces callname lineno
    | g => g

/-! ## identifiers -/

/-- decimal digits of `str(num)` -/
def natStr (n : Nat) : Str := (toString n).toList

/-- `DocTest.unique_callname` -/
def uniqueCallname (e : Ex) : Str := e.callname ++ [':'] ++ natStr e.num

end Xdoc.Core

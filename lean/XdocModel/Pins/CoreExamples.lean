import XdocModel.Generated
/-! Pins: the source texts the hand-written matchers of topic `CoreExamples` were derived from.
    An edited pattern in the xdoctest sources changes `Generated.lean` and breaks the `rfl`. -/
namespace Xdoc.Pins.CoreExamples

theorem pin_src_core_handler : Generated.src_core_handler = "Exception" := rfl

theorem pin_src_core_swallow : Generated.src_core_swallow = "if isinstance(ex, exceptions.MalformedDocstr):\n    pass\nelif isinstance(ex, exceptions.DoctestParseError):\n    pass\nelse:\n    raise" := rfl

theorem pin_src_auto_handler : Generated.src_auto_handler = "except Exception:\n    if n_found > 0:\n        raise" := rfl

end Xdoc.Pins.CoreExamples

import XdocModel.Generated
/-! Pins: the source texts the hand-written matchers of topic `Runner` were derived from.
    An edited pattern in the xdoctest sources changes `Generated.lean` and breaks the `rfl`. -/
namespace Xdoc.Pins.Runner

theorem pin_disablePatterns : Generated.disablePatterns = [">>>\\s*#\\s*DISABLE", ">>>\\s*#\\s*UNSTABLE", ">>>\\s*#\\s*FAILING", ">>>\\s*#\\s*SCRIPT", ">>>\\s*#\\s*SLOW_DOCTEST"] := by decide

theorem pin_disablePatternsPytest : Generated.disablePatternsPytest = [">>>\\s*#\\s*pytest.skip"] := by decide

theorem pin_disableKeywords : Generated.disableKeywords = ["DISABLE", "UNSTABLE", "FAILING", "SCRIPT", "SLOW_DOCTEST"] := by decide

theorem pin_disableKeywordsPytest : Generated.disableKeywordsPytest = ["pytest.skip"] := by decide

theorem pin_zeroAllCommands : Generated.zeroAllCommands = ["zero-all", "zero", "zero_all", "zero-args"] := by decide

theorem pin_src_disable_join : Generated.src_disable_join = "'|'.join(disable_patterns)" := rfl

theorem pin_src_disable_match : Generated.src_disable_match = "re.match(pattern, self.docsrc, flags=re.IGNORECASE)" := rfl

theorem pin_src_run_examples_n_total : Generated.src_run_examples_n_total = "len(enabled_examples)" := rfl

theorem pin_src_run_examples_n_passed : Generated.src_run_examples_n_passed = "sum((s['passed'] for s in summaries))" := rfl

theorem pin_src_run_examples_n_failed : Generated.src_run_examples_n_failed = "sum((s['failed'] for s in summaries))" := rfl

theorem pin_src_run_examples_n_skipped : Generated.src_run_examples_n_skipped = "sum((s['skipped'] for s in summaries))" := rfl

theorem pin_src_run_examples_on_error : Generated.src_run_examples_on_error = "'return'" := rfl

theorem pin_src_gather_all : Generated.src_gather_all = "command == 'all' or command == 'dump'" := rfl

theorem pin_src_main_n_failed : Generated.src_main_n_failed = "run_summary.get('n_failed', 0)" := rfl

theorem pin_src_main_exit_test : Generated.src_main_exit_test = "n_failed > 0" := rfl

theorem pin_src_main_exit_then : Generated.src_main_exit_then = "return 1" := rfl

theorem pin_src_main_exit_else : Generated.src_main_exit_else = "return 0" := rfl

theorem pin_src_plugin_runtest : Generated.src_plugin_runtest = "if self.dtest.is_disabled(pytest=True):\n    pytest.skip('doctest encountered global skip directive')\nself.dtest.run(on_error='raise')\nif not self.dtest.anything_ran():\n    pytest.skip('doctest is empty or all parts were skipped')" := rfl

theorem pin_src_anything_ran : Generated.src_anything_ran = "len(self.logged_stdout) > 0" := rfl

end Xdoc.Pins.Runner

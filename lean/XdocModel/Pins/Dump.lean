import XdocModel.Generated
/-! Pins: the source texts the hand-written matchers of topic `Dump` were derived from.
    An edited pattern in the xdoctest sources changes `Generated.lean` and breaks the `rfl`. -/
namespace Xdoc.Pins.Dump

theorem pin_src_dump_func_name : Generated.src_dump_func_name = "'test_' + example.modname.replace('.', '_') + '_' + example.callname.replace('.', '_')" := rfl

theorem pin_src_dump_docstr_lines : Generated.src_dump_docstr_lines = "['\"\"\"', 'converted from {}'.format(example.node), '\"\"\"']" := rfl

theorem pin_src_dump_func_text : Generated.src_dump_func_text = "'def {}():\\n'.format(func_name) + utils.indent(body)" := rfl

theorem pin_src_dump_module_text : Generated.src_dump_module_text = "'\\n\\n\\n'.join(module_lines)" := rfl

theorem pin_src_dump_body_part : Generated.src_dump_body_part = "part.format_part(linenos=False, want=False, prefix=False, colored=False, partnos=False)" := rfl

theorem pin_src_dump_star_filter : Generated.src_dump_star_filter = "if ' import *' in line:\n    continue" := rfl

theorem pin_src_dump_want_block : Generated.src_dump_want_block = "if part.want:\n    want_text = '# doctest want:\\n'\n    want_text += utils.indent(part.want, '# ')\n    body_part += '\\n' + want_text" := rfl

theorem pin_src_indent : Generated.src_indent = "return prefix + text.replace('\\n', '\\n' + prefix)" := rfl

end Xdoc.Pins.Dump

import XdocModel.Generated
/-! The model reads flag defaults with `lookup … |>.getD false`; the real code raises `KeyError`
    for an unknown key. This obligation makes sure every key the model reads is present in the
    regenerated `DEFAULT_RUNTIME_STATE`, so the `getD` default is never used. -/
namespace Xdoc.Pins.Defaults

def requiredBoolKeys : List String :=
  ["DONT_ACCEPT_BLANKLINE", "ELLIPSIS", "IGNORE_WHITESPACE", "IGNORE_EXCEPTION_DETAIL",
   "NORMALIZE_WHITESPACE", "IGNORE_WANT", "NORMALIZE_REPR", "REPORT_CDIFF", "REPORT_NDIFF",
   "REPORT_UDIFF", "SKIP"]

theorem default_keys_present :
    requiredBoolKeys.all (fun k => (Generated.defaultRuntimeStateBools.lookup k).isSome) = true := by
  decide

theorem requires_is_a_set : Generated.defaultRuntimeStateSets.contains "REQUIRES" = true := by decide

end Xdoc.Pins.Defaults

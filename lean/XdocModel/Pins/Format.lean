import XdocModel.Generated
/-! Pins: the source texts the hand-written matchers of topic `Format` were derived from.
    An edited pattern in the xdoctest sources changes `Generated.lean` and breaks the `rfl`. -/
namespace Xdoc.Pins.Format

theorem pin_src_indent : Generated.src_indent = "return prefix + text.replace('\\n', '\\n' + prefix)" := rfl

theorem pin_src_add_line_numbers_fmt : Generated.src_add_line_numbers_fmt = "'{count:{n_digits}d} {line}'" := rfl

theorem pin_src_format_part_want_fmt : Generated.src_format_part_want_fmt = "' ' * n_spaces + '{line}'" := rfl

theorem pin_src_format_part_start : Generated.src_format_part_start = "startline + self.line_offset" := rfl

theorem pin_src_format_part_endline : Generated.src_format_part_endline = "startline + self.n_lines" := rfl

theorem pin_src_format_part_n_digits : Generated.src_format_part_n_digits = "max(1, endline)" := rfl

theorem pin_src_format_parts_endline : Generated.src_format_parts_endline = "startline + n_lines" := rfl

theorem pin_src_format_parts_n_lines : Generated.src_format_parts_n_lines = "sum((p.n_lines for p in self._parts))" := rfl

theorem pin_src_format_src_join : Generated.src_format_src_join = "'\\n'.join(formated_parts)" := rfl

end Xdoc.Pins.Format

import XdocModel.Generated
/-! Pins: the source texts the hand-written matchers of topic `Isolation` were derived from.
    An edited pattern in the xdoctest sources changes `Generated.lean` and breaks the `rfl`. -/
namespace Xdoc.Pins.Isolation

theorem pin_src_run_skeleton : Generated.src_run_skeleton = "on_error = self.config.getvalue('on_error', on_error)\nverbose = self.config.getvalue('verbose', verbose)\nif on_error not in {'raise', 'return'}:\n    raise KeyError(on_error)\nself._parse()\nself._pre_run(verbose)\nself.logged_evals.clear()\nself.logged_stdout.clear()\nself._unmatched_stdout = []\nself._skipped_parts = []\nself.exc_info = None\nself._suppressed_stdout = verbose <= 1\ndefault_state = self.config['default_runtime_state']\nrunstate = self._runstate = directive.RuntimeState(default_state)\nrunstate.set_report_style(self.config['reportchoice'].lower())\ndid_pre_import = False\nneeds_capture = True\ntry: asyncio.get_running_loop(); is_running_in_loop = True except RuntimeError: is_running_in_loop = False\nDEBUG = global_state.DEBUG_DOCTEST\ncap = utils.CaptureStdout(suppress=self._suppressed_stdout, enabled=needs_capture)\nwith warnings.catch_warnings(record=True) as self.warn_list: <part loop>\nif self.exc_info is None:\n    self.failed_part = None\nif len(self._skipped_parts) == len(self._parts):\n    if self.mode == 'pytest':\n        import pytest\n        pytest.skip()\nsummary = self._post_run(verbose)\nself.global_namespace.clear()\nreturn summary" := rfl

theorem pin_src_test_globals : Generated.src_test_globals = "test_globals = self.global_namespace\nif self.module is None:\n    compileflags = 0\nelse:\n    test_globals.update(self.module.__dict__)\n    compileflags = self._extract_future_flags(test_globals)\ncompileflags |= __future__.print_function.compiler_flag\ncompileflags |= __future__.division.compiler_flag\ncompileflags |= ast.PyCF_ALLOW_TOP_LEVEL_AWAIT\nreturn (test_globals, compileflags)" := rfl

theorem pin_src_runtime_state_init : Generated.src_runtime_state_init = "self._global_state = copy.deepcopy(DEFAULT_RUNTIME_STATE)\nif default_state:\n    self._global_state.update(copy.deepcopy(default_state))\nself._inline_state = {}" := rfl

end Xdoc.Pins.Isolation

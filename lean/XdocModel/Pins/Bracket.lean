import XdocModel.Generated
/-! Pins: the source texts the hand-written matchers of topic `Bracket` were derived from.
    An edited pattern in the xdoctest sources changes `Generated.lean` and breaks the `rfl`. -/
namespace Xdoc.Pins.Bracket

theorem pin_src_run_brackets : Generated.src_run_brackets = "cap = utils.CaptureStdout(suppress=self._suppressed_stdout, enabled=needs_capture)\nwith warnings.catch_warnings(record=True) as self.warn_list\nwith cap" := rfl

theorem pin_src_capture_start : Generated.src_capture_start = "if self.enabled:\n    self.text = ''\n    self.started = True\n    sys.stdout = self.cap_stdout" := rfl

theorem pin_src_capture_stop : Generated.src_capture_stop = "if self.enabled:\n    self.started = False\n    sys.stdout = self.orig_stdout" := rfl

theorem pin_src_capture_enter : Generated.src_capture_enter = "self.start()\nreturn self" := rfl

theorem pin_src_capture_exit : Generated.src_capture_exit = "if self.enabled:\n    try:\n        self.log_part()\n    except Exception:\n        raise\n    finally:\n        self.stop()\nif trace is not None:\n    return False" := rfl

theorem pin_src_capture_orig : Generated.src_capture_orig = "self.orig_stdout = sys.stdout" := rfl

theorem pin_src_ppc_enter : Generated.src_ppc_enter = "if self.index < 0:\n    self.index = max(0, len(sys.path) + self.index + 1)\nsys.path.insert(self.index, self.dpath)" := rfl

theorem pin_src_ppc_exit_skeleton : Generated.src_ppc_exit_skeleton = "need_recover = False\nif len(sys.path) <= self.index\n  need_recover = True\nelse\n  if sys.path[self.index] != self.dpath\n    need_recover = True\nif need_recover\n  try\n    real_index = sys.path.index(self.dpath)\n  except ValueError\n    raise RuntimeError\n  else\n    sys.path.pop(real_index)\n    warnings.warn\nelse\n  sys.path.pop(self.index)" := rfl

theorem pin_src_custom_import_modpath : Generated.src_custom_import_modpath = "try\n  with PythonPathContext(dpath, index=index)\n    module = import_module_from_name(modname)\nexcept Exception\n  raise RuntimeError\nreturn module" := rfl

end Xdoc.Pins.Bracket

import XdocModel.Generated
/-! Pins: the source texts the hand-written matchers of topic `Directive` were derived from.
    An edited pattern in the xdoctest sources changes `Generated.lean` and breaks the `rfl`. -/
namespace Xdoc.Pins.Directive

theorem pin_src_DIRECTIVE_PATTERNS : Generated.src_DIRECTIVE_PATTERNS = "['x?doctest:\\\\s*' + named('style2', '.*'), 'x?doc:\\\\s*' + named('style3', '.*')]" := rfl

theorem pin_src_DIRECTIVE_RE : Generated.src_DIRECTIVE_RE = "re.compile('|'.join(DIRECTIVE_PATTERNS), flags=re.IGNORECASE)" := rfl

theorem pin_src_COMMANDS : Generated.src_COMMANDS = "list(DEFAULT_RUNTIME_STATE.keys()) + ['REQUIRES']" := rfl

end Xdoc.Pins.Directive

import XdocModel.Generated
/-! Pins: the source texts the hand-written matchers of topic `Parser` were derived from.
    An edited pattern in the xdoctest sources changes `Generated.lean` and breaks the `rfl`. -/
namespace Xdoc.Pins.Parser

theorem pin_src_INDENT_RE : Generated.src_INDENT_RE = "re.compile('^([ ]*)(?=\\\\S)', re.MULTILINE)" := rfl

theorem pin_src_parse_handler : Generated.src_parse_handler = "Exception" := rfl

theorem pin_src_parse_reraise : Generated.src_parse_reraise = "raise exceptions.DoctestParseError('Failed to parse doctest in {}'.format(failpoint), string=string, info=info, orig_ex=orig_ex)" := rfl

theorem pin_src_parse_min_indent : Generated.src_parse_min_indent = "_min_indentation(string)" := rfl

theorem pin_src_complete_prefix_test : Generated.src_complete_prefix_test = "prefix.strip() not in {'>>>', '...', ''}" := rfl

theorem pin_src_triple_quote_test : Generated.src_triple_quote_test = "any((\"'''\" in s or '\"\"\"' in s for s in source_parts))" := rfl

end Xdoc.Pins.Parser

import XdocModel.Generated
/-! Pins: the source texts the hand-written matchers of topic `Collect` were derived from.
    An edited pattern in the xdoctest sources changes `Generated.lean` and breaks the `rfl`. -/
namespace Xdoc.Pins.Collect

theorem pin_src_google_tag_pattern : Generated.src_google_tag_pattern = "'^' + '(' + '|'.join(tag_aliases.keys()) + ') *::? *$'" := rfl

theorem pin_src_google_tag_aliases : Generated.src_google_tag_aliases = "dict([(item, group[0]) for group in tag_groups for item in group])" := rfl

theorem pin_src_valid_exts : Generated.src_valid_exts = "['.py']" := rfl

theorem pin_src_valid_func_types : Generated.src_valid_func_types = "(types.FunctionType, types.BuiltinFunctionType, types.MethodType, classmethod, staticmethod, property)" := rfl

end Xdoc.Pins.Collect

import XdocModel.Generated
/-! Pins: the source texts the hand-written matchers of topic `Checker` were derived from.
    An edited pattern in the xdoctest sources changes `Generated.lean` and breaks the `rfl`. -/
namespace Xdoc.Pins.Checker

theorem pin_src_unicode_literal_re : Generated.src_unicode_literal_re = "re.compile('(\\\\W|^)[uU]([rR]?[\\\\\\'\\\\\"])', re.UNICODE)" := rfl

theorem pin_src_bytes_literal_re : Generated.src_bytes_literal_re = "re.compile('(\\\\W|^)[bB]([rR]?[\\\\\\'\\\\\"])', re.UNICODE)" := rfl

theorem pin_src_TRAILING_WS : Generated.src_TRAILING_WS = "re.compile('[ \\\\t]*$', re.UNICODE | re.MULTILINE)" := rfl

theorem pin_src_EXCEPTION_RE : Generated.src_EXCEPTION_RE = "re.compile(\"\\n    # Grab the traceback header.  Different versions of Python have\\n    # said different things on the first traceback line.\\n    ^(?P<hdr> Traceback\\\\ \\\\(\\n        (?: most\\\\ recent\\\\ call\\\\ last\\n        |   innermost\\\\ last\\n        ) \\\\) :\\n    )\\n    \\\\s* $                # toss trailing whitespace on the header.\\n    (?P<stack> .*?)      # don't blink: absorb stuff until...\\n    ^ (?P<msg> \\\\w+ .*)   #     a line *starts* with alphanum.\\n    \", re.VERBOSE | re.MULTILINE | re.DOTALL)" := rfl

theorem pin_blanklineMarker : Generated.blanklineMarker = "<BLANKLINE>" := rfl

theorem pin_ellipsisMarker : Generated.ellipsisMarker = "..." := rfl

theorem pin_src_ellipsis_split : Generated.src_ellipsis_split = "'\\\\s*{}\\\\s*'.format(re.escape(ELLIPSIS_MARKER))" := rfl

theorem pin_src_blankline_pattern : Generated.src_blankline_pattern = "'|'.join(['{pos_lb}{marker}\\n', '{marker}\\n', '\\n{marker}', '{marker}']).format(marker=BLANKLINE_MARKER, pos_lb=pos_lb)" := rfl

theorem pin_src_pos_lb : Generated.src_pos_lb = "'(?<=\\n)'" := rfl

theorem pin_src_ignore_ws_sub : Generated.src_ignore_ws_sub = "'\\\\s'" := rfl

theorem pin_src_remove_prefixes_repl : Generated.src_remove_prefixes_repl = "'\\\\1\\\\2'" := rfl

theorem pin_src_ansi_escape : Generated.src_ansi_escape = "re.compile('(\\\\x9B|\\\\x1B\\\\[)[0-?]*[ -/]*[@-~]', flags=re.IGNORECASE)" := rfl

end Xdoc.Pins.Checker

import XdocModel.Generated
/-! Pins of `_find_docstr_startpos_workaround` (only reachable when the docstring node has no `end_lineno`, or when
    `Generated.docstartUsesNodeLineno` is false): built by harness/props/C08.py in workaround mode only.
    Pins: the source texts the hand-written matchers of topic `DocstrWorkaround` were derived from.
    An edited pattern in the xdoctest sources changes `Generated.lean` and breaks the `rfl`. -/
namespace Xdoc.Pins.DocstrWorkaround

theorem pin_src_docstr_end_pattern : Generated.src_docstr_end_pattern = "re.escape(trip) + '\\\\s*#.*$'" := rfl

theorem pin_src_docstr_trips : Generated.src_docstr_trips = "(\"'''\", '\"\"\"')" := rfl

theorem pin_src_docstr_cand_start : Generated.src_docstr_cand_start = "stop - nlines - 1" := rfl

theorem pin_src_docstr_startswith : Generated.src_docstr_startswith = "(trip, 'r' + trip, 'u' + trip)" := rfl

end Xdoc.Pins.DocstrWorkaround

import XdocModel.Generated
/-! Pins: the source texts the hand-written matchers of topic `Import` were derived from.
    An edited pattern in the xdoctest sources changes `Generated.lean` and breaks the `rfl`. -/
namespace Xdoc.Pins.Import

theorem pin_src_import_candidate_fnames : Generated.src_import_candidate_fnames = "[_fname_we + '.py']" := rfl

theorem pin_src_import_fname_we : Generated.src_import_fname_we = "modname.replace('.', os.path.sep)" := rfl

theorem pin_src_import_isvalid : Generated.src_import_isvalid = "while subdir and normpath(subdir) != base ;; if not exists(join(subdir, '__init__.py'))" := rfl

theorem pin_src_import_check_dpath : Generated.src_import_check_dpath = "if exists(modpath) ;; if isfile(join(modpath, '__init__.py')) ;; if _isvalid(modpath, dpath) ;; if isfile(modpath) ;; if _isvalid(modpath, dpath)" := rfl

theorem pin_src_import_normalize_modpath : Generated.src_import_normalize_modpath = "if hide_init ;; if basename(modpath) == '__init__.py' ;; if exists(modpath_with_init) ;; if hide_main ;; if basename(modpath) == '__main__.py' ;; if exists(parallel_init)" := rfl

theorem pin_src_import_split_modpath : Generated.src_import_split_modpath = "if check ;; if not exists(modpath_) ;; if not exists(modpath) ;; if isdir(modpath_) and (not exists(join(modpath, '__init__.py'))) ;; while exists(join(dpath, '__init__.py'))" := rfl

theorem pin_src_import_modpath_to_modname : Generated.src_import_modpath_to_modname = "if check and relativeto is None ;; if not exists(modpath) ;; if relativeto ;; if '.' in modname" := rfl

end Xdoc.Pins.Import

import XdocModel.Generated
/-! Pins: the source texts the hand-written matchers of topic `Ellipsis` were derived from.
    An edited pattern in the xdoctest sources changes `Generated.lean` and breaks the `rfl`. -/
namespace Xdoc.Pins.Ellipsis

theorem pin_src_ellipsis_split : Generated.src_ellipsis_split = "'\\\\s*{}\\\\s*'.format(re.escape(ELLIPSIS_MARKER))" := rfl

theorem pin_ellipsisMarker : Generated.ellipsisMarker = "..." := rfl

end Xdoc.Pins.Ellipsis

import XdocModel.Generated
/-! Pins: the source texts the hand-written matchers of topic `Capture` were derived from.
    An edited pattern in the xdoctest sources changes `Generated.lean` and breaks the `rfl`. -/
namespace Xdoc.Pins.Capture

theorem pin_src_cap_log_part : Generated.src_cap_log_part = "self.cap_stdout.seek(self._pos)\ntext = self.cap_stdout.read()\nself._pos = self.cap_stdout.tell()\nself.parts.append(text)\nself.text = text" := rfl

theorem pin_src_cap_start : Generated.src_cap_start = "if self.enabled:\n    self.text = ''\n    self.started = True\n    sys.stdout = self.cap_stdout" := rfl

theorem pin_src_cap_stop : Generated.src_cap_stop = "if self.enabled:\n    self.started = False\n    sys.stdout = self.orig_stdout" := rfl

theorem pin_src_cap_exit : Generated.src_cap_exit = "if self.enabled:\n    try:\n        self.log_part()\n    except Exception:\n        raise\n    finally:\n        self.stop()\nif trace is not None:\n    return False" := rfl

theorem pin_src_tee_write : Generated.src_tee_write = "if self.redirect is not None:\n    self.redirect.write(msg)\nreturn super(TeeStringIO, self).write(msg)" := rfl

end Xdoc.Pins.Capture

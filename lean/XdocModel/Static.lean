import XdocModel.Py.Str
import XdocModel.Generated
/-!
# Model of `xdoctest/static_analysis.py` : `TopLevelVisitor`, docstring location, `package_modpaths`

What CPython's `ast.parse` says about a module is an input: the **mini-AST** `Tree` (built by the
harness with CPython's own `ast`, never with xdoctest code). A `Tree` is a *statement list*: every
constructor carries its right sibling `next`, so the type is a plain (non-nested) inductive and all
functions are structurally recursive. A compound statement with several statement-list fields
(`for`: body, orelse; `try`: body, each handler, orelse, finalbody; `with`; `match`: each case) is
passed as that many consecutive `comp` nodes in field order: exact for a visitor whose
`generic_visit` treats all fields uniformly and in order.

Computed by the model (xdoctest's own logic): which nodes are visited, the `_current_classname`
flag, the callname, the setter/deleter rule, the shape test of the main guard, the ordered map
with overwrite, the module docstring rule (`if docstr:`), and the line on which a docstring starts
(`_find_docstr_startpos_workaround`, from the source lines and the literal's end line).
-/
namespace Xdoc.Static
open Xdoc Py

/-- one entry of `node.decorator_list`, as far as the visitor looks at it -/
inductive Deco where
  | name (id : Str)        -- `ast.Name`
  | attr (attr : Str)      -- `ast.Attribute` : only `.attr` is inspected
  | other                  -- calls etc.
  /-- a name (or a call of a name) that an `import` statement of the module binds: a decorator that lives
      in ANOTHER module. The visitor treats it like any other name; `Dynamic.execModule` uses it: a
      `functools.wraps`-style wrapper made there has the decorated function's `__module__` but the
      decorator module's `__globals__`. -/
  | ext (id : Str)
  deriving DecidableEq, Repr

/-- `ast.get_docstring(node, clean=False)`, `node.body[0].end_lineno` and `.lineno` (1-based) -/
structure Doc where
  text : Str
  endLine : Nat
  /-- `node.body[0].lineno` (1-based): since CPython 3.8 the line on which the literal starts -/
  startLine : Nat
  deriving DecidableEq, Repr

/-- what `visit_If` inspects of `node.test` (each field read from CPython's `ast`):
    `isinstance(test, ast.Compare)`, `isinstance(test.ops[0], ast.Eq)`,
    `test.left.id` (`none`: no such attribute), `test.comparators[0].value` when it is a `str`
    (`none`: no such attribute or not a string) -/
structure Test where
  isCompare : Bool
  op0Eq : Bool
  leftId : Option Str
  comp0 : Option Str
  /-- `test.left.value` when it is a `str`, `test.comparators[0].id` (the guard written the other way round) -/
  leftStr : Option Str := none
  comp0Id : Option Str := none
  deriving DecidableEq, Repr

/-- a statement list -/
inductive Tree where
  | done
  /-- `def` / `async def` (the visitor of the latter delegates to the former) -/
  | func (isAsync : Bool) (name : Str) (decos : List Deco) (doc : Option Doc) (body : Tree) (next : Tree)
  | cls (name : Str) (decos : List Deco) (doc : Option Doc) (body : Tree) (next : Tree)
  /-- `if`; `runsThen`/`runsElse` say which branch an import of the module executes (used only by
      `Dynamic.execModule`, supplied by the generator) -/
  | ifs (test : Test) (runsThen runsElse : Bool) (body orelse : Tree) (next : Tree)
  /-- one statement-list field of any other compound statement -/
  | comp (runs : Bool) (body : Tree) (next : Tree)
  /-- `import` / `from … import` binding `name` to an object defined elsewhere (one node per bound
      name; the visitor does not look at it, `Dynamic.execModule` does) -/
  | imp (name : Str) (next : Tree)
  /-- module-level `target = src` where `src` is a plain name and `target` another one: a second name for whatever
      `src` is bound to. `visit_Assign` only records the target in `self.assignments`; `calldefs` is untouched
      (`Dynamic.execModule` binds the second key). Re-bindings of the SAME name (`f = wrapper(f)`, `f = f`) are
      passed as `other`: with a wrapper that keeps `__module__`, `__name__`, `__doc__` they change nothing visible. -/
  | alias (target src : Str) (next : Tree)
  /-- any other statement without statement-list fields -/
  | other (next : Tree)
  deriving Repr

structure Module where
  doc : Option Doc
  body : Tree
  deriving Repr

/-! ## docstring location : `_docnode_line_workaround` (CPython >= 3.8 branch) -/

def tripS : Str := "'''".toList
def tripD : Str := "\"\"\"".toList
def trips : List Str := [tripS, tripD]

/-- `re.sub(re.escape(trip) + r'\s*#.*$', trip, line)` on one line (no `\n` inside): cut after the
    first occurrence of `trip` that is followed by optional whitespace and `#` -/
def cutComment (trip : Str) : Str → Str
  | [] => []
  | c :: s =>
    match dropPrefix? trip (c :: s) with
    | some rest =>
      (match rest.dropWhile isSpace with
       | '#' :: _ => trip
       | _ => c :: cutComment trip s)
    | none => c :: cutComment trip s

/-- `endline_.endswith(trip)` after the comment cut and `strip()` -/
def endOk (trip line : Str) : Bool := endsWith trip (strip (cutComment trip line))

/-- ASCII `str.lower` of one character (only `R`/`U` matter to the caller) -/
def lowerAscii (c : Char) : Char :=
  if 'A' ≤ c ∧ c ≤ 'Z' then Char.ofNat (c.toNat + 32) else c

/-- `startline.strip().lower().startswith((trip, 'r' + trip, 'u' + trip))` -/
def startOk (trip line : Str) : Bool :=
  let s := (strip line).map lowerAscii
  startsWith trip s || startsWith ('r' :: trip) s || startsWith ('u' :: trip) s

inductive LocError where
  | index          -- IndexError
  deriving DecidableEq, Repr

/-- Python list indexing with an `int` that may be negative -/
def pyIndex {α : Type} (xs : List α) (i : Int) : Option α :=
  if 0 ≤ i then xs[i.toNat]? else
  if -(xs.length : Int) ≤ i then xs[(xs.length - (-i).toNat)]? else none

/-- one iteration of the `for trip in trips` loop; `some start` = `break` with that start -/
def tripStep (docNewlines : Nat) (src : List Str) (stop : Nat) (endline : Str) (trip : Str) :
    Except LocError (Option Int) :=
  if endOk trip endline then
    let cand : Int := (stop : Int) - docNewlines - 1
    match pyIndex src cand with
    | none => .error .index
    | some startline => if startOk trip startline then .ok (some cand) else .ok none
  else .ok none

/-- `_find_docstr_startpos_workaround(docstr, sourcelines, endpos)` : `(start, stop)`, 0-based -/
def findDocStart (docstr : Str) (src : List Str) (endpos : Nat) : Except LocError (Int × Nat) :=
  let stop := endpos + 1
  match src[stop - 1]? with
  | none => .error .index
  | some endline =>
    let n := countChar '\n' docstr
    -- start = endpos initially; a failed start test resets it to `stop - 1` (the same number)
    match tripStep n src stop endline tripS with
    | .error e => .error e
    | .ok (some s) => .ok (s, stop)
    | .ok none =>
      match tripStep n src stop endline tripD with
      | .error e => .error e
      | .ok (some s) => .ok (s, stop)
      | .ok none => .ok ((endpos : Int), stop)

/-- `(doclineno, doclineno_end)` of `_docnode_line_workaround` (branch taken when the node has
    `end_lineno`). Which of the two variants the code contains is read from the sources on every run
    (`Generated.docstartUsesNodeLineno`): the node's own `lineno`, or the start recovered from the end
    line by `_find_docstr_startpos_workaround`. -/
def docLines (src : List Str) (d : Doc) : Except LocError (Int × Nat) :=
  if Generated.docstartUsesNodeLineno then .ok ((d.startLine : Int), d.endLine)
  else
    match findDocStart d.text src (d.endLine - 1) with
    | .error e => .error e
    | .ok (start, stop) => .ok (start + 1, stop)

/-! ## the visitor -/

/-- `CallDefNode` (the fields the properties talk about) -/
structure CallDef where
  callname : Str
  doc : Option Str
  /-- `(doclineno, doclineno_end)`; `none` when there is no docstring (or, for a locator that
      fails, see `parseStaticCalldefs`) -/
  lines : Option (Int × Nat)
  deriving DecidableEq, Repr

/-- `calldefs[callname] = calldef` on an `OrderedDict` : a new key goes to the end, an existing key
    keeps its position and gets the new value -/
def insert (cd : CallDef) : List CallDef → List CallDef
  | [] => [cd]
  | x :: xs => if x.callname = cd.callname then cd :: xs else x :: insert cd xs

def keys (l : List CallDef) : List Str := l.map (·.callname)

/-- the two `return`s of `visit_FunctionDef` : an `ast.Attribute` decorator named `deleter`/`setter` -/
def skipDeco (ds : List Deco) : Bool :=
  ds.any fun d => match d with
    | .attr a => a == "deleter".toList || a == "setter".toList
    | _ => false

/-- `visit_If` : `__name__ == '__main__'` or `'__main__' == __name__` (in each form all three tests
    hold; an `AttributeError` in any of them is swallowed) -/
def isMainGuard (t : Test) : Bool :=
  t.isCompare && t.op0Eq &&
    ((t.leftId == some "__name__".toList && t.comp0 == some "__main__".toList) ||
     (t.leftStr == some "__main__".toList && t.comp0Id == some "__name__".toList))

def qualName (cur : Option Str) (name : Str) : Str :=
  match cur with
  | none => name
  | some c => c ++ ['.'] ++ name

/-- the locator is a parameter: the collection theorems hold for every locator -/
abbrev Locator := Doc → Option (Int × Nat)

def mkCallDef (loc : Locator) (callname : Str) (doc : Option Doc) : CallDef :=
  { callname := callname, doc := doc.map (·.text), lines := doc.bind loc }

structure St where
  calldefs : List CallDef := []
  cur : Option Str := none          -- `_current_classname`

/-- `TopLevelVisitor.visit` over a statement list -/
def visit (loc : Locator) : Tree → St → St
  | .done, st => st
  | .func _ name decos doc _ next, st =>
    -- no `generic_visit`: the body is never looked at
    let st := if skipDeco decos then st
              else { st with calldefs := insert (mkCallDef loc (qualName st.cur name) doc) st.calldefs }
    visit loc next st
  | .cls name _ doc body next, st =>
    match st.cur with
    | none =>
      let st1 : St := { calldefs := insert (mkCallDef loc name doc) st.calldefs, cur := some name }
      let st2 := visit loc body st1
      visit loc next { st2 with cur := none }
    | some _ => visit loc next st       -- a class inside a class: skipped with everything in it
  | .ifs test _ _ body orelse next, st =>
    -- the guarded block is ignored; its `else` branch (what an import runs) is visited
    if isMainGuard test then visit loc next (visit loc orelse st)
    else visit loc next (visit loc orelse (visit loc body st))
  | .comp _ body next, st => visit loc next (visit loc body st)
  | .imp _ next, st => visit loc next st
  | .alias _ _ next, st => visit loc next st
  | .other next, st => visit loc next st

def docName : Str := "__doc__".toList

/-- `visit_Module` : `if docstr:` (an empty docstring is falsy) -/
def moduleEntry (loc : Locator) (m : Module) : List CallDef :=
  match m.doc with
  | some d => if d.text.isEmpty then [] else [mkCallDef loc docName (some d)]
  | none => []

/-- `TopLevelVisitor.parse(source).calldefs` -/
def visitModule (loc : Locator) (m : Module) : List CallDef :=
  (visit loc m.body { calldefs := moduleEntry loc m, cur := none }).calldefs

/-! ### every docstring the visitor locates (to know whether a locator error aborts the parse) -/

def locatedDocs : Tree → Bool → List Doc
  | .done, _ => []
  | .func _ _ decos doc _ next, inCls =>
    (if skipDeco decos then [] else doc.toList) ++ locatedDocs next inCls
  | .cls _ _ doc body next, inCls =>
    (if inCls then [] else doc.toList ++ locatedDocs body true) ++ locatedDocs next inCls
  | .ifs test _ _ body orelse next, inCls =>
    (if isMainGuard test then locatedDocs orelse inCls else locatedDocs body inCls ++ locatedDocs orelse inCls)
      ++ locatedDocs next inCls
  | .comp _ body next, inCls => locatedDocs body inCls ++ locatedDocs next inCls
  | .imp _ next, inCls => locatedDocs next inCls
  | .alias _ _ next, inCls => locatedDocs next inCls
  | .other next, inCls => locatedDocs next inCls

/-- `parse_static_calldefs(source)` for the source lines `src`: an `IndexError` of the locator escapes -/
def parseStaticCalldefs (src : List Str) (m : Module) : Except LocError (List CallDef) :=
  let docs := m.doc.toList ++ locatedDocs m.body false
  if docs.any (fun d => match docLines src d with | .error _ => true | .ok _ => false) then .error .index
  else .ok (visitModule (fun d => match docLines src d with | .ok r => some r | .error _ => none) m)

/-! ## the declarative inventory of the property sentence -/

/-- what a class body contributes: its methods (plain / static / class / property getter, decorated
    or not, `async` or not), reached through any nesting of non-definition compound statements,
    except setters/deleters and code under a main guard (its `else` branch counts); nothing from nested classes -/
def methodsOf (loc : Locator) (cname : Str) : Tree → List CallDef
  | .done => []
  | .func _ name decos doc _ next =>
    (if skipDeco decos then [] else [mkCallDef loc (cname ++ ['.'] ++ name) doc]) ++ methodsOf loc cname next
  | .cls _ _ _ _ next => methodsOf loc cname next
  | .ifs test _ _ body orelse next =>
    (if isMainGuard test then methodsOf loc cname orelse else methodsOf loc cname body ++ methodsOf loc cname orelse)
      ++ methodsOf loc cname next
  | .comp _ body next => methodsOf loc cname body ++ methodsOf loc cname next
  | .imp _ next => methodsOf loc cname next
  | .alias _ _ next => methodsOf loc cname next
  | .other next => methodsOf loc cname next

/-- module level: every function, every class followed by its methods -/
def topLevel (loc : Locator) : Tree → List CallDef
  | .done => []
  | .func _ name decos doc _ next =>
    (if skipDeco decos then [] else [mkCallDef loc name doc]) ++ topLevel loc next
  | .cls name _ doc body next =>
    mkCallDef loc name doc :: methodsOf loc name body ++ topLevel loc next
  | .ifs test _ _ body orelse next =>
    (if isMainGuard test then topLevel loc orelse else topLevel loc body ++ topLevel loc orelse) ++ topLevel loc next
  | .comp _ body next => topLevel loc body ++ topLevel loc next
  | .imp _ next => topLevel loc next
  | .alias _ _ next => topLevel loc next
  | .other next => topLevel loc next

def inventory (loc : Locator) (m : Module) : List CallDef :=
  moduleEntry loc m ++ topLevel loc m.body

/-! ### the regions that must not matter -/

/-- replace by inert statements everything the property says is NOT collected: function bodies,
    classes nested in a class, property setters/deleters, the block guarded by `if __name__ == '__main__':` (either order; its `else` branch stays) -/
def prune : Tree → Bool → Tree
  | .done, _ => .done
  | .func a name decos doc _ next, inCls =>
    if skipDeco decos then .other (prune next inCls)
    else .func a name decos doc .done (prune next inCls)
  | .cls name decos doc body next, inCls =>
    if inCls then .other (prune next inCls)
    else .cls name decos doc (prune body true) (prune next inCls)
  | .ifs test r1 r2 body orelse next, inCls =>
    if isMainGuard test then .ifs test r1 r2 .done (prune orelse inCls) (prune next inCls)
    else .ifs test r1 r2 (prune body inCls) (prune orelse inCls) (prune next inCls)
  | .comp r body next, inCls => .comp r (prune body inCls) (prune next inCls)
  | .imp n next, inCls => .imp n (prune next inCls)
  | .alias t s next, inCls => .alias t s (prune next inCls)
  | .other next, inCls => .other (prune next inCls)

/-! ## `package_modpaths` over a finite directory tree -/

/-- a directory listing (in `os.scandir` order); every constructor carries the rest of the listing -/
inductive Fs where
  | nil
  | file (name : Str) (rest : Fs)                 -- anything `os.walk` reports in `fnames`
  | dir (name : Str) (sub : Fs) (rest : Fs)       -- anything it reports in `dnames` (links followed)
  deriving Repr

def initPy : Str := "__init__.py".toList

/-- `exists(join(dpath, name))` for a direct entry -/
def hasEntry (n : Str) : Fs → Bool
  | .nil => false
  | .file m rest => m == n || hasEntry n rest
  | .dir m _ rest => m == n || hasEntry n rest

/-- `os.path.splitext(fname)[1]` for a name without separators: from the last dot, unless only dots
    precede it -/
def splitExt (fname : Str) : Str :=
  match rfindIdx? '.' fname with
  | none => []
  | some i => if (fname.take i).all (· == '.') then [] else fname.drop i

structure WalkCfg where
  withPkg : Bool := false
  withMod : Bool := true
  recursive : Bool := true
  validExts : List Str := [".py".toList]

/-- the `for fname in fnames` loop -/
def yieldFiles (cfg : WalkCfg) (path : List Str) : Fs → List (List Str)
  | .nil => []
  | .file n rest =>
    (if cfg.validExts.contains (splitExt n) && n != initPy then [path ++ [n]] else []) ++ yieldFiles cfg path rest
  | .dir _ _ rest => yieldFiles cfg path rest

/-- the `for dname in dnames` loop (`with_pkg`) -/
def yieldInits (path : List Str) : Fs → List (List Str)
  | .nil => []
  | .file _ rest => yieldInits path rest
  | .dir n sub rest =>
    (if hasEntry initPy sub then [path ++ [n, initPy]] else []) ++ yieldInits path rest

def yieldHere (cfg : WalkCfg) (path : List Str) (l : Fs) : List (List Str) :=
  (if cfg.withMod then yieldFiles cfg path l else []) ++ (if cfg.withPkg then yieldInits path l else [])

/-- `os.walk` below a directory that was accepted: every sub-directory is checked (`check = True`) -/
def walkSubs (cfg : WalkCfg) (path : List Str) : Fs → List (List Str)
  | .nil => []
  | .file _ rest => walkSubs cfg path rest
  | .dir n sub rest =>
    (if hasEntry initPy sub then yieldHere cfg (path ++ [n]) sub ++ walkSubs cfg (path ++ [n]) sub else [])
      ++ walkSubs cfg path rest

inductive Root where
  | file              -- `isfile(pkgpath)`
  | dir (l : Fs)
  deriving Repr

/-- `list(package_modpaths(pkgpath, with_pkg, with_mod, recursive=..., check=...))` as paths relative
    to `pkgpath` (`[]` = `pkgpath` itself) -/
def packageModpaths (cfg : WalkCfg) (check : Bool) : Root → List (List Str)
  | .file => [[]]
  | .dir l =>
    (if cfg.withPkg && (!check || hasEntry initPy l) then [[initPy]] else []) ++
    (if hasEntry initPy l || !check then
       yieldHere cfg [] l ++ (if cfg.recursive then walkSubs cfg [] l else [])
     else [])

end Xdoc.Static

import XdocModel.Checker
import XdocModel.Lemmas.Ellipsis
/-! Helper lemmas about the normalisation steps of `checker.normalize` (C05). -/
namespace Xdoc
open Py Re

namespace Py

theorem isSpace_space : isSpace ' ' = true := by decide +kernel

theorem deleteWs_append (a b : Str) : deleteWs (a ++ b) = deleteWs a ++ deleteWs b := by
  simp [deleteWs]

theorem deleteWs_idem (s : Str) : deleteWs (deleteWs s) = deleteWs s := by
  simp [deleteWs, List.filter_filter]

theorem wordsAux_flatten (acc s : Str) :
    (wordsAux acc s).flatten = acc.reverse ++ deleteWs s := by
  induction s generalizing acc with
  | nil =>
    simp only [wordsAux, deleteWs, List.filter_nil, List.append_nil]
    split
    · rename_i h; simp at h; simp [h]
    · simp
  | cons c s ih =>
    simp only [wordsAux]
    by_cases hc : isSpace c = true
    · simp only [hc, ↓reduceIte]
      split
      · rename_i h; simp at h; subst h
        rw [ih]; simp [deleteWs, hc]
      · simp only [List.flatten_cons, ih]
        simp [deleteWs, hc]
    · simp only [hc, Bool.false_eq_true, ↓reduceIte]
      rw [ih]; simp [deleteWs, hc]

theorem words_flatten (s : Str) : (words s).flatten = deleteWs s := by
  simp [words, wordsAux_flatten]

theorem deleteWs_joinWith_space (ws : List Str) :
    deleteWs (joinWith [' '] ws) = deleteWs ws.flatten := by
  induction ws with
  | nil => simp [joinWith]
  | cons x xs ih =>
    cases xs with
    | nil => simp [joinWith]
    | cons y ys =>
      simp only [joinWith, deleteWs_append, ih, List.flatten_cons]
      simp [deleteWs, isSpace_space]

/-- collapsing whitespace runs keeps exactly the non-whitespace characters -/
theorem deleteWs_collapse (s : Str) : deleteWs (collapse s) = deleteWs s := by
  simp [collapse, deleteWs_joinWith_space, words_flatten, deleteWs_idem]

/-- `contains` is monotone under extension on the left -/
theorem contains_cons_of_contains {α : Type} [DecidableEq α] {w : List α} {c : α} {s : List α}
    (h : contains w s = true) : contains w (c :: s) = true := by
  simp [contains, h]

theorem contains_of_infix {α : Type} [DecidableEq α] {w s t : List α} (hst : s <:+: t)
    (h : contains w s = true) : contains w t = true := by
  obtain ⟨x, r, rfl⟩ := contains_iff.mp h
  obtain ⟨a, b, rfl⟩ := hst
  exact contains_iff.mpr ⟨a ++ x, r ++ b, by simp⟩

end Py

theorem deleteWs_wsNorm (f : Flags) (s : Str) : deleteWs (wsNorm f s) = deleteWs s := by
  unfold wsNorm
  cases h1 : f.normWs <;> cases h2 : f.ignWs <;>
    simp [deleteWs_collapse, deleteWs_idem]

/-- the quote-stripping relation: `a'` is `a`, or (only when enabled) `a` without one pair of
    identical surrounding quotes -/
inductive UnqRel (nr : Bool) : Str → Str → Prop
  | same (a) : UnqRel nr a a
  | unq (q : Char) (a a' : Str) : nr = true → (q = '"' ∨ q = '\'') → unquote? q a = some a' →
      UnqRel nr a a'

theorem normReprStep_rel (f : Flags) (a b : Str) : UnqRel true a (normReprStep f a b) := by
  unfold normReprStep
  split
  · exact .same _
  · split
    · rename_i a' h1
      split
      · exact .unq '"' _ _ rfl (Or.inl rfl) h1
      · split
        · rename_i a'' h2
          split
          · exact .unq '\'' _ _ rfl (Or.inr rfl) h2
          · exact .same _
        · exact .same _
    · split
      · rename_i a'' h2
        split
        · exact .unq '\'' _ _ rfl (Or.inr rfl) h2
        · exact .same _
      · exact .same _

theorem unquote?_infix {q : Char} {a a' : Str} (h : unquote? q a = some a') : a' <:+: a := by
  unfold unquote? at h
  split at h
  · cases h
    exact List.IsInfix.trans (List.dropLast_prefix _).isInfix (List.drop_suffix _ _).isInfix
  · cases h

theorem UnqRel.infix {nr : Bool} {a a' : Str} (h : UnqRel nr a a') : a' <:+: a := by
  cases h with
  | same => exact List.infix_refl _
  | unq q a a' _ _ h => exact unquote?_infix h

theorem unquote?_deleteWs {q : Char} (hq : isSpace q = false) {a a' : Str}
    (h : unquote? q a = some a') : unquote? q (deleteWs a) = some (deleteWs a') := by
  unfold unquote? at h
  split at h
  · rename_i hc
    cases h
    simp only [Bool.and_eq_true, beq_iff_eq] at hc
    obtain ⟨h1, h2⟩ := hc
    cases a with
    | nil => simp at h1
    | cons c t =>
      simp at h1; subst h1
      rcases List.eq_nil_or_concat t with rfl | ⟨t', d, rfl⟩
      · simp [unquote?, deleteWs, hq]
      · rw [List.concat_eq_append] at h2 ⊢
        have e : ∀ (x : Char) (l : Str) (y : Char), (x :: (l ++ [y])).getLast? = some y := by
          intro x l y
          rw [← List.cons_append, List.getLast?_concat]
        have : d = c := by rw [e] at h2; exact Option.some.inj h2
        subst this
        simp [unquote?, deleteWs, hq, List.filter_append, e]
  · cases h

theorem isSpace_dquote : isSpace '"' = false := by decide +kernel
theorem isSpace_squote : isSpace '\'' = false := by decide +kernel

theorem UnqRel.deleteWs {nr : Bool} {a a' : Str} (h : UnqRel nr a a') :
    UnqRel nr (deleteWs a) (deleteWs a') := by
  cases h with
  | same => exact .same _
  | unq q a a' hnr hq h =>
    refine .unq q _ _ hnr hq (unquote?_deleteWs ?_ h)
    rcases hq with rfl | rfl
    · exact isSpace_dquote
    · exact isSpace_squote

end Xdoc

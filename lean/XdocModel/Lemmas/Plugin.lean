import XdocModel.Plugin
import XdocModel.Lemmas.Example
/-! The run loop does not depend on `on_error` / `mode` except for how a recorded failure leaves
    `run` (returned summary vs re-raised), and `logged_stdout` has one entry per executed part. -/
namespace Xdoc
open Py

variable {Env : Type}

/-- how the ending under `on_error='raise'` is obtained from the one under `'return'` -/
def liftEnd1 (s : RunState Env) : RunEnd → RunEnd
  | .returned => match s.failure with
    | some fl => .raised fl.kind
    | none => .returned
  | e => e

def liftEnd (s : RunState Env) : Option RunEnd → Option RunEnd
  | some e => some (liftEnd1 s e)
  | none => none

def liftStep : Step Env → Step Env
  | .continue s => .continue s
  | .stop s e => .stop s (liftEnd1 s e)

theorem applyAct_raise_ret (cfgR cfgN : RunCfg) (hR : cfgR.onError = .raise) (hN : cfgN.onError = .ret)
    (s : RunState Env) (i : Nat) (env' : Env) (a : Act) (hs : s.failure = none) :
    applyAct cfgR s i env' a = liftStep (applyAct cfgN s i env' a) := by
  cases a with
  | skip => simp [applyAct, liftStep]
  | ran out u => simp [applyAct, liftStep]
  | halt ex out fl =>
    cases fl with
    | none =>
      cases ex <;> simp [applyAct, liftStep, liftEnd1, hs]
    | some kt =>
      obtain ⟨k, tb⟩ := kt
      cases ex <;> simp [applyAct, liftStep, liftEnd1, endOf, hR, hN]
  | escape out => simp [applyAct, liftStep, liftEnd1]

theorem preStage_cfg (sat : Str → Option Bool) (cfgR cfgN : RunCfg) (himp : cfgR.importOk = cfgN.importOk)
    (rs0 : RState) (di : Bool) (p : RunPart) : preStage sat cfgR rs0 di p = preStage sat cfgN rs0 di p := by
  simp [preStage, himp]

theorem stepPart_raise_ret (sat : Str → Option Bool) (sem : Env → Nat → RunPart → ExecResult × Env)
    (cfgR cfgN : RunCfg) (hR : cfgR.onError = .raise) (hN : cfgN.onError = .ret)
    (himp : cfgR.importOk = cfgN.importOk) (s : RunState Env) (i : Nat) (p : RunPart) (hs : s.failure = none) :
    stepPart sat sem cfgR s i p = liftStep (stepPart sat sem cfgN s i p) := by
  unfold stepPart
  rw [preStage_cfg sat cfgR cfgN himp]
  split
  · exact applyAct_raise_ret cfgR cfgN hR hN s i s.env _ hs
  · exact applyAct_raise_ret cfgR cfgN hR hN _ i s.env _ hs
  · exact applyAct_raise_ret cfgR cfgN hR hN _ i s.env _ hs
  · exact applyAct_raise_ret cfgR cfgN hR hN _ i _ _ hs

theorem runLoop_raise_ret (sat : Str → Option Bool) (sem : Env → Nat → RunPart → ExecResult × Env)
    (cfgR cfgN : RunCfg) (hR : cfgR.onError = .raise) (hN : cfgN.onError = .ret)
    (himp : cfgR.importOk = cfgN.importOk) (ps : List RunPart) (s : RunState Env) (i : Nat)
    (hs : s.failure = none) :
    runLoop sat sem cfgR s i ps =
      ((runLoop sat sem cfgN s i ps).1, liftEnd (runLoop sat sem cfgN s i ps).1 (runLoop sat sem cfgN s i ps).2) := by
  induction ps generalizing s i with
  | nil => simp [runLoop, liftEnd]
  | cons p ps ih =>
    simp only [runLoop]
    rw [stepPart_raise_ret sat sem cfgR cfgN hR hN himp s i p hs]
    cases hstep : stepPart sat sem cfgN s i p with
    | «continue» s' =>
      simp only [liftStep]
      exact ih s' (i + 1) ((stepPart_continue hstep).failure ▸ hs)
    | stop s' e => simp [liftStep, liftEnd]

/-! ## `logged_stdout` has exactly one entry per executed part -/

def Step.state : Step Env → RunState Env
  | .continue s => s
  | .stop s _ => s

def LoggedOk (s : RunState Env) : Prop := s.logged.map Prod.fst = s.executed

theorem applyAct_logged {cfg : RunCfg} {s : RunState Env} {i : Nat} {env' : Env} {a : Act}
    (h : LoggedOk s) : LoggedOk (applyAct cfg s i env' a).state := by
  unfold LoggedOk at *
  cases a with
  | skip => simpa [applyAct, Step.state] using h
  | ran out u => simp [applyAct, Step.state, h]
  | halt ex out fl =>
    cases fl with
    | none => cases ex <;> simp [applyAct, Step.state, h]
    | some kt => obtain ⟨k, tb⟩ := kt; cases ex <;> simp [applyAct, Step.state, h]
  | escape out => simp [applyAct, Step.state, h]

theorem stepPart_logged {sat : Str → Option Bool} {sem : Env → Nat → RunPart → ExecResult × Env}
    {cfg : RunCfg} {s : RunState Env} {i : Nat} {p : RunPart}
    (h : LoggedOk s) : LoggedOk (stepPart sat sem cfg s i p).state := by
  unfold stepPart
  cases preStage sat cfg s.rs s.didImport p with
  | dirError => exact applyAct_logged h
  | skip rs => exact applyAct_logged (s := { s with rs := rs }) h
  | importFail rs => exact applyAct_logged (s := { s with rs := rs }) h
  | exec rs => exact applyAct_logged (s := { s with rs := rs, didImport := true }) h

theorem runLoop_logged (sat : Str → Option Bool) (sem : Env → Nat → RunPart → ExecResult × Env)
    (cfg : RunCfg) (ps : List RunPart) (s : RunState Env) (i : Nat) (h : LoggedOk s) :
    LoggedOk (runLoop sat sem cfg s i ps).1 := by
  induction ps generalizing s i with
  | nil => simpa [runLoop] using h
  | cons p ps ih =>
    simp only [runLoop]
    have := stepPart_logged (sat := sat) (sem := sem) (cfg := cfg) (i := i) (p := p) h
    cases hstep : stepPart sat sem cfg s i p with
    | «continue» s' => rw [hstep] at this; exact ih s' (i + 1) this
    | stop s' e => rw [hstep] at this; exact this

/-! ## `run` in terms of the loop -/

/-- the ending of `run` given the loop's result -/
def pluginEndingOf (cfg : RunCfg) (n : Nat) (s : RunState Env) : Option RunEnd → RunEnd
  | some e => e
  | none => if s.skipped.length == n && cfg.pytestMode then .pytestSkip else .returned

theorem run_eq (sat : Str → Option Bool) (sem : Env → Nat → RunPart → ExecResult × Env)
    (cfg : RunCfg) (env0 : Env) (parts : List RunPart) :
    (run sat sem cfg env0 parts).state =
      (runLoop sat sem cfg { env := env0, rs := RState.init cfg.defaults } 0 parts).1 ∧
    (run sat sem cfg env0 parts).summary =
      summaryOf parts.length (runLoop sat sem cfg { env := env0, rs := RState.init cfg.defaults } 0 parts).1 ∧
    (run sat sem cfg env0 parts).ending =
      pluginEndingOf cfg parts.length (runLoop sat sem cfg { env := env0, rs := RState.init cfg.defaults } 0 parts).1
        (runLoop sat sem cfg { env := env0, rs := RState.init cfg.defaults } 0 parts).2 := by
  unfold run
  simp only
  split <;> (try split) <;> simp_all [pluginEndingOf]

end Xdoc

import XdocModel.Google
/-!
# Lemmas about `split_google_docblocks` : the groups tile the lines, offsets are line indices
-/
namespace Xdoc.Google
open Xdoc Py

theorem dedentLines_length (ls : List Str) : (dedentLines ls).length = ls.length := by
  unfold dedentLines
  simp only
  split <;> simp

theorem prepLines_length (docstr : Str) : (prepLines docstr).length = (splitOn '\n' docstr).length := by
  unfold prepLines
  simp only
  have h0 := dedentLines_length (splitOn '\n' docstr)
  split
  · rename_i l0 l1 rest heq
    split
    · split
      · rw [dedentLines_length, ← h0, heq]; simp
      · rw [h0]
    · rw [h0]
  · rw [h0]

theorem trueIndents_length (prev : Option Nat) (ls : List Str) : (trueIndents prev ls).length = ls.length := by
  induction ls generalizing prev with
  | nil => rfl
  | cons l ls ih => simp [trueIndents, ih]

theorem labelGo_length (gid : Nat) (prev : Option Nat) (inTag : Bool) (l : List (Str × Option Nat)) :
    (labelGo gid prev inTag l).length = l.length := by
  induction l generalizing gid prev inTag with
  | nil => rfl
  | cons x xs ih =>
    obtain ⟨line, ind⟩ := x
    simp only [labelGo]
    split
    · simp [ih]
    · split <;> simp [ih]

theorem groupRuns_flatten (l : List (Nat × Str)) : (groupRuns l).flatten = l.map (·.2) := by
  induction l with
  | nil => rfl
  | cons x rest ih =>
    obtain ⟨g, s⟩ := x
    simp only [groupRuns]
    split
    · rename_i g' x' r' cur gs hr
      rw [hr] at ih
      simp only [List.flatten_cons] at ih
      split
      · simp only [List.flatten_cons, List.cons_append, List.map_cons]
        rw [ih]; simp
      · simp only [List.flatten_cons, List.map_cons]
        rw [ih]; simp
    · simp only [List.flatten_cons, List.map_cons]
      rw [ih]; simp

theorem groupRuns_ne_nil (l : List (Nat × Str)) : ∀ g ∈ groupRuns l, g ≠ [] := by
  induction l with
  | nil => simp [groupRuns]
  | cons x rest ih =>
    obtain ⟨g, s⟩ := x
    simp only [groupRuns]
    split
    · rename_i g' x' r' cur gs hr
      rw [hr] at ih
      split
      · intro y hy
        rcases List.mem_cons.mp hy with rfl | hy
        · simp
        · exact ih y (List.mem_cons_of_mem _ hy)
      · intro y hy
        rcases List.mem_cons.mp hy with rfl | hy
        · simp
        · exact ih y hy
    · intro y hy
      rcases List.mem_cons.mp hy with rfl | hy
      · simp
      · exact ih y hy

/-- the groups of a docstring are non-empty runs of its (prepared) lines, in order -/
theorem groupsOf_flatten (docstr : Str) : (groupsOf docstr).flatten = prepLines docstr := by
  unfold groupsOf
  simp only
  rw [groupRuns_flatten]
  apply List.map_snd_zip
  rw [labelGo_length, List.length_zip, trueIndents_length]
  simp

theorem groupsOf_ne_nil (docstr : Str) : ∀ g ∈ groupsOf docstr, g ≠ [] := by
  unfold groupsOf
  exact groupRuns_ne_nil _

/-- every block is made from one group, and its offset is the number of lines before that group -/
theorem mem_mkBlocks {off : Nat} {gs : List (List Str)} {b : Block} (h : b ∈ mkBlocks off gs) :
    ∃ pre g post, gs = pre ++ g :: post ∧ isBlankGroup g = false ∧
      b = blockOf g (off + pre.flatten.length) := by
  induction gs generalizing off with
  | nil => simp [mkBlocks] at h
  | cons g gs ih =>
    simp only [mkBlocks] at h
    split at h
    · obtain ⟨pre, g', post, h1, h2, h3⟩ := ih h
      refine ⟨g :: pre, g', post, by simp [h1], h2, ?_⟩
      rw [h3]; simp [Nat.add_assoc]
    · rcases List.mem_cons.mp h with rfl | h
      · rename_i hb
        exact ⟨[], g, gs, rfl, by simpa using hb, by simp⟩
      · obtain ⟨pre, g', post, h1, h2, h3⟩ := ih h
        refine ⟨g :: pre, g', post, by simp [h1], h2, ?_⟩
        rw [h3]; simp [Nat.add_assoc]

/-- the blocks come in the order of their groups: offsets strictly increase -/
theorem mkBlocks_offsets_ge {off : Nat} {gs : List (List Str)} {b : Block} (h : b ∈ mkBlocks off gs) :
    off ≤ b.offset := by
  obtain ⟨pre, g, post, _, _, h3⟩ := mem_mkBlocks h
  rw [h3]
  unfold blockOf
  split
  · split <;> simp
  · simp

theorem blockOf_offset (g : List Str) (off : Nat) : (blockOf g off).offset = off := by
  unfold blockOf
  split
  · split <;> rfl
  · rfl

theorem mkBlocks_sorted (off : Nat) (gs : List (List Str)) (hne : ∀ g ∈ gs, g ≠ []) :
    ((mkBlocks off gs).map (·.offset)).Pairwise (· < ·) := by
  induction gs generalizing off with
  | nil => simp [mkBlocks]
  | cons g gs ih =>
    have hg : 0 < g.length := List.length_pos_iff.mpr (hne g (by simp))
    have ih' := ih (off + g.length) (fun x hx => hne x (List.mem_cons_of_mem _ hx))
    simp only [mkBlocks]
    split
    · exact ih'
    · simp only [List.map_cons, List.pairwise_cons]
      refine ⟨?_, ih'⟩
      intro o ho
      obtain ⟨b, hb, rfl⟩ := List.mem_map.mp ho
      have := mkBlocks_offsets_ge hb
      rw [blockOf_offset]; omega

end Xdoc.Google

import XdocModel.Runner
import XdocModel.Plugin
import XdocModel.Lemmas.Example
/-! Helper lemmas about the runner loop, gathering, and the independence of the run loop from
    `on_error` / mode (used by C10 and C15). -/
namespace Xdoc
open Py

/-! ## summaries -/

/-- exactly one of the three flags (what `verdict_trichotomy` proves of every `run`) -/
def Summary.Exclusive (s : Summary) : Prop :=
  (s.passed = true ∧ s.failed = false ∧ s.skipped = false) ∨
  (s.passed = false ∧ s.failed = true ∧ s.skipped = false) ∨
  (s.passed = false ∧ s.failed = false ∧ s.skipped = true)

def Entry.summary? (e : Entry) : Option Summary :=
  match e.result with
  | .summary s => some s
  | _ => none

/-- the `else` branch of `_run_examples` : appended to `failed` -/
def Entry.inFailedBranch (e : Entry) : Bool :=
  match e.result with
  | .summary s => !s.skipped && !s.passed
  | _ => false

/-- the doctest's summary says `failed` -/
def Entry.failed (e : Entry) : Bool :=
  match e.result with
  | .summary s => s.failed
  | _ => false

def Entry.returns (e : Entry) : Prop := ∃ s, e.result = .summary s

theorem countTrue_append (f : Summary → Bool) (a b : List Summary) :
    countTrue f (a ++ b) = countTrue f a + countTrue f b := by
  simp [countTrue, List.filter_append]

theorem countTrue_exclusive (l : List Summary) (h : ∀ s ∈ l, s.Exclusive) :
    countTrue (·.passed) l + countTrue (·.failed) l + countTrue (·.skipped) l = l.length := by
  induction l with
  | nil => simp [countTrue]
  | cons s l ih =>
    have hs := h s (by simp)
    have ih := ih (fun t ht => h t (by simp [ht]))
    simp only [countTrue] at ih ⊢
    rcases hs with ⟨h1, h2, h3⟩ | ⟨h1, h2, h3⟩ | ⟨h1, h2, h3⟩ <;>
      simp [h1, h2, h3] <;> omega

/-- what `_run_examples` returns when every `run` call returns -/
def summaryOfReturns (es : List Entry) : RunSummary :=
  { nTotal := es.length,
    nPassed := countTrue (·.passed) (es.filterMap Entry.summary?),
    nFailed := countTrue (·.failed) (es.filterMap Entry.summary?),
    nSkipped := countTrue (·.skipped) (es.filterMap Entry.summary?),
    failed := es.filter Entry.inFailedBranch, ran := es }

/-- the loop when no call escapes and none is interrupted -/
theorem runLoopExamples_returns (es : List Entry) (a : LoopAcc) (h : ∀ e ∈ es, e.returns) :
    runLoopExamples es a = some
      { summaries := a.summaries ++ es.filterMap Entry.summary?,
        failed := a.failed ++ es.filter Entry.inFailedBranch,
        ran := a.ran ++ es } := by
  induction es generalizing a with
  | nil => simp [runLoopExamples]
  | cons e es ih =>
    obtain ⟨s, hs⟩ := h e (by simp)
    have ih := fun a => ih a (fun x hx => h x (by simp [hx]))
    simp only [runLoopExamples, hs]
    rw [ih]
    have h1 : Entry.summary? e = some s := by simp [Entry.summary?, hs]
    have h2 : Entry.inFailedBranch e = (!s.skipped && !s.passed) := by simp [Entry.inFailedBranch, hs]
    simp only [List.filterMap_cons, h1, List.filter_cons, h2, List.append_assoc, List.cons_append,
      List.nil_append]
    cases s.skipped <;> cases s.passed <;> simp

theorem runLoopExamples_none_iff (es : List Entry) (a : LoopAcc) :
    runLoopExamples es a = none ↔
      ∃ pre e post, es = pre ++ e :: post ∧ e.result = .escaped ∧ ∀ x ∈ pre, x.returns := by
  induction es generalizing a with
  | nil => simp [runLoopExamples]
  | cons e es ih =>
    cases hr : e.result with
    | escaped =>
      simp only [runLoopExamples, hr, true_iff]
      exact ⟨[], e, es, rfl, hr, by simp⟩
    | interrupt =>
      simp only [runLoopExamples, hr, reduceCtorEq, false_iff]
      rintro ⟨pre, x, post, heq, hx, hpre⟩
      cases pre with
      | nil => simp at heq; rw [← heq.1, hr] at hx; cases hx
      | cons p pre =>
        simp at heq
        obtain ⟨s, hs⟩ := hpre p (by simp)
        rw [← heq.1, hr] at hs; cases hs
    | summary s =>
      simp only [runLoopExamples, hr]
      rw [ih]
      constructor
      · rintro ⟨pre, x, post, heq, hx, hpre⟩
        refine ⟨e :: pre, x, post, by simp [heq], hx, ?_⟩
        intro y hy
        rcases List.mem_cons.mp hy with rfl | hy
        · exact ⟨s, hr⟩
        · exact hpre y hy
      · rintro ⟨pre, x, post, heq, hx, hpre⟩
        cases pre with
        | nil => simp at heq; rw [← heq.1, hr] at hx; cases hx
        | cons p pre =>
          simp at heq
          exact ⟨pre, x, post, heq.2, hx, fun y hy => hpre y (by simp [hy])⟩

/-! ## gathering -/

theorem mem_gather {cmd : Str} {ex zero : List Entry} {e : Entry} (h : e ∈ gather cmd ex zero) :
    e ∈ ex ∨ e ∈ zero := by
  unfold gather at h
  cases hg : gatherNamed cmd ex with
  | nil =>
    rw [hg] at h
    exact Or.inr (List.mem_filter.mp h).1
  | cons a l =>
    rw [hg] at h
    have : e ∈ gatherNamed cmd ex := hg ▸ h
    exact Or.inl (List.mem_filter.mp this).1

theorem colon_mem_uniqueCallname (d : Doc) : ':' ∈ d.uniqueCallname := by
  simp [Doc.uniqueCallname]

theorem uniqueCallname_ne_of_no_colon (d : Doc) (c : Str) (h : ':' ∉ c) : d.uniqueCallname ≠ c := by
  intro heq; exact h (heq ▸ colon_mem_uniqueCallname d)

/-- a key that occurs once selects exactly its element -/
theorem filter_key_eq_singleton {α β : Type} [DecidableEq β] (f : α → β) (l : List α) (a : α)
    (ha : a ∈ l) (hnd : (l.map f).Nodup) : l.filter (fun x => f x == f a) = [a] := by
  induction l with
  | nil => cases ha
  | cons x xs ih =>
    simp only [List.map_cons, List.nodup_cons] at hnd
    obtain ⟨hx, hnd⟩ := hnd
    rcases List.mem_cons.mp ha with rfl | ha
    · have : xs.filter (fun y => f y == f a) = [] := by
        rw [List.filter_eq_nil_iff]
        intro y hy hyx
        simp only [beq_iff_eq] at hyx
        exact hx (hyx ▸ List.mem_map_of_mem hy)
      simp [this]
    · have hne : ¬ f x = f a := by
        intro heq; exact hx (heq ▸ List.mem_map_of_mem ha)
      simp [hne, ih ha hnd]

end Xdoc

import XdocModel.Checker
import XdocModel.Lemmas.Checker
import XdocModel.Lemmas.Collapse
/-!
Helper lemmas about the quote step `norm_repr` of `checker.normalize` (C05, monotonicity of
NORMALIZE_REPR and of ELLIPSIS under NORMALIZE_REPR).

The central observation: `_check_match got want` (equality, or the wildcard relation with `want` as
the pattern) can only hold when `got` starts with at least as many copies of a quote character as
`want` does, because a quote is neither whitespace nor a dot and therefore belongs to the first
literal piece of the pattern. Removing one pair of surrounding quotes strictly lowers that count.
Hence, once `got` matches `want`, no unquoted version of `want` can match `got` as a pattern: the
second `norm_repr` call leaves `want` alone.
-/
namespace Xdoc
open Py Re

/-- number of leading copies of `q` -/
def lead (q : Char) : Str → Nat
  | [] => 0
  | c :: s => if c = q then lead q s + 1 else 0

theorem lead_prefix_le (q : Char) {p s : Str} (h : p <+: s) : lead q p ≤ lead q s := by
  induction p generalizing s with
  | nil => simp [lead]
  | cons c p ih =>
    obtain ⟨t, rfl⟩ := h
    simp only [List.cons_append, lead]
    split
    · have := ih (s := p ++ t) ⟨t, rfl⟩; omega
    · omega

/-- a separator starts with whitespace or a dot -/
theorem sepStart_head {c : Char} {s rest : Str} (h : sepStart (c :: s) = some rest) :
    isSpace c = true ∨ c = '.' := by
  by_cases hc : isSpace c = true
  · exact Or.inl hc
  · right
    have := sepStart_eq_some_iff.mp h
    simp only [List.dropWhile_cons, hc, Bool.false_eq_true, ↓reduceIte, dots, List.cons_append,
      List.cons.injEq] at this
    exact this.1

/-- the leading quotes of a text that contains `...` all belong to its first piece -/
theorem lead_split_head {q : Char} (hq : isSpace q = false) (hd : q ≠ '.') (s : Str)
    (h : 2 ≤ (splitEllipsis s).length) :
    ∃ p ps, splitEllipsis s = p :: ps ∧ lead q s ≤ lead q p := by
  induction s with
  | nil => simp [splitEllipsis_nil] at h
  | cons c s ih =>
    cases hs : sepStart (c :: s) with
    | some rest =>
      refine ⟨[], _, splitEllipsis_some hs, ?_⟩
      have hc : c ≠ q := by
        rcases sepStart_head hs with hc | hc
        · intro e; subst e; rw [hq] at hc; cases hc
        · intro e; subst e; exact hd hc
      simp [lead, hc]
    | none =>
      rw [splitEllipsis_none hs] at h ⊢
      cases hL : splitEllipsis s with
      | nil => exact absurd hL (splitEllipsis_ne_nil s)
      | cons p0 ps =>
        rw [hL] at h
        obtain ⟨p, ps', h1, h2⟩ := ih (by rw [hL]; simpa [prependHead] using h)
        rw [hL] at h1
        obtain ⟨rfl, rfl⟩ : p0 = p ∧ ps = ps' := by simpa using h1
        refine ⟨c :: p0, ps, by simp [prependHead], ?_⟩
        simp only [lead]
        split <;> omega

/-- a text matched by a pattern that contains `...` starts with the pattern's first piece -/
theorem ellipsisMatch_head_prefix {a b : Str} (hd : contains dots b = true)
    (h : ellipsisMatch a b = true) : ∃ p ps, splitEllipsis b = p :: ps ∧ p <+: a := by
  unfold ellipsisMatch at h
  simp only [hd, Bool.not_true, Bool.false_eq_true, ↓reduceIte] at h
  split at h
  · cases h
  · cases h
  · rename_i first rest _ _
    obtain ⟨mid, rfl, _⟩ := (ellipsisPieces_iff _ _ _ _).mp h
    exact ⟨first, rest, by assumption, ⟨mid ++ rest.getLast?.getD [], by simp⟩⟩

/-- ★ `_check_match a b` forces `a` to start with at least as many quotes as `b` -/
theorem lead_le_of_checkMatch {q : Char} (hq : isSpace q = false) (hd : q ≠ '.') (f : Flags)
    {a b : Str} (h : checkMatch f a b = true) : lead q b ≤ lead q a := by
  unfold checkMatch at h
  simp only [Bool.or_eq_true, beq_iff_eq, Bool.and_eq_true] at h
  rcases h with h | ⟨_, h⟩
  · subst h; exact Nat.le_refl _
  · cases hc : contains dots b with
    | false =>
      unfold ellipsisMatch at h
      simp only [hc, Bool.not_false, ↓reduceIte, beq_iff_eq] at h
      subst h; exact Nat.le_refl _
    | true =>
      obtain ⟨p, ps, h1, h2⟩ := ellipsisMatch_head_prefix hc h
      obtain ⟨p', ps', h3, h4⟩ := lead_split_head hq hd b ((contains_dots_iff_length b).mp hc)
      rw [h1] at h3
      obtain ⟨rfl, _⟩ : p = p' ∧ ps = ps' := by simpa using h3
      exact Nat.le_trans h4 (lead_prefix_le q h2)

/-- removing a pair of surrounding quotes strictly lowers the number of leading quotes -/
theorem lead_unquote_lt {q : Char} {w w0 : Str} (h : unquote? q w = some w0) :
    lead q w0 < lead q w := by
  unfold unquote? at h
  split at h
  · rename_i hc
    cases h
    simp only [Bool.and_eq_true, beq_iff_eq] at hc
    obtain ⟨h1, h2⟩ := hc
    cases w with
    | nil => simp at h1
    | cons c t =>
      simp only [List.head?_cons, Option.some.injEq] at h1; subst h1
      rcases List.eq_nil_or_concat t with rfl | ⟨t', d, rfl⟩
      · simp [lead]
      · rw [List.concat_eq_append]
        have : lead c t' ≤ lead c (t' ++ [d]) := lead_prefix_le c ⟨[d], rfl⟩
        simp [lead]
        omega
  · cases h

theorem quote_props {q : Char} (h : q = '"' ∨ q = '\'') : isSpace q = false ∧ q ≠ '.' := by
  rcases h with rfl | rfl
  · exact ⟨isSpace_dquote, by decide⟩
  · exact ⟨isSpace_squote, by decide⟩

/-- ★ once `a` matches `b`, no unquoted version of `b` matches `a` as a pattern -/
theorem unquote_no_rev_match (f : Flags) {a b b0 : Str} {q : Char} (hq : q = '"' ∨ q = '\'')
    (h : checkMatch f a b = true) (hu : unquote? q b = some b0) : checkMatch f b0 a = false := by
  obtain ⟨h1, h2⟩ := quote_props hq
  cases hc : checkMatch f b0 a with
  | false => rfl
  | true =>
    have l1 := lead_le_of_checkMatch h1 h2 f h
    have l2 := lead_le_of_checkMatch h1 h2 f hc
    have l3 := lead_unquote_lt hu
    omega

/-- `norm_repr(a, b)` returns `a` when `a` already matches `b` -/
theorem normReprStep_of_match (f : Flags) {a b : Str} (h : checkMatch f a b = true) :
    normReprStep f a b = a := by
  simp [normReprStep, h]

/-- ★ `norm_repr(b, a)` returns `b` when `a` matches `b` (the roles are swapped in the second
    call of `normalize`; with ELLIPSIS on `b` need not match `a`) -/
theorem normReprStep_of_rev_match (f : Flags) {a b : Str} (h : checkMatch f a b = true) :
    normReprStep f b a = b := by
  unfold normReprStep
  split
  · rfl
  · split
    · rename_i b' h1
      rw [unquote_no_rev_match f (Or.inl rfl) h h1]
      simp only [Bool.false_eq_true, ↓reduceIte]
      split
      · rename_i b'' h2
        rw [unquote_no_rev_match f (Or.inr rfl) h h2]
        simp
      · rfl
    · split
      · rename_i b'' h2
        rw [unquote_no_rev_match f (Or.inr rfl) h h2]
        simp
      · rfl

/-- the result of `norm_repr(a, b)`: `a` itself, or `a` without one pair of quotes and then it
    matches `b` -/
theorem normReprStep_cases (f : Flags) (a b : Str) :
    normReprStep f a b = a ∨
      ∃ q, (q = '"' ∨ q = '\'') ∧ unquote? q a = some (normReprStep f a b) ∧
        checkMatch f (normReprStep f a b) b = true := by
  unfold normReprStep
  split
  · exact Or.inl rfl
  · split
    · rename_i a' h1
      split
      · rename_i hm; exact Or.inr ⟨'"', Or.inl rfl, h1, hm⟩
      · split
        · rename_i a'' h2
          split
          · rename_i hm; exact Or.inr ⟨'\'', Or.inr rfl, h2, hm⟩
          · exact Or.inl rfl
        · exact Or.inl rfl
    · split
      · rename_i a'' h2
        split
        · rename_i hm; exact Or.inr ⟨'\'', Or.inr rfl, h2, hm⟩
        · exact Or.inl rfl
      · exact Or.inl rfl

/-- `norm_repr(a, b)` finds a match whenever `a` or one of its unquoted versions matches `b` -/
theorem normReprStep_finds (f : Flags) {a b a0 : Str} {q : Char} (hq : q = '"' ∨ q = '\'')
    (hu : unquote? q a = some a0) (hm : checkMatch f a0 b = true) :
    checkMatch f (normReprStep f a b) b = true := by
  unfold normReprStep
  split
  · assumption
  · split
    · rename_i a' h1
      split
      · assumption
      · rename_i hn
        split
        · rename_i a'' h2
          split
          · assumption
          · rename_i hn2
            rcases hq with rfl | rfl
            · rw [h1] at hu; cases hu; exact absurd hm hn
            · rw [h2] at hu; cases hu; exact absurd hm hn2
        · rename_i h2
          rcases hq with rfl | rfl
          · rw [h1] at hu; cases hu; exact absurd hm hn
          · rw [h2] at hu; cases hu
    · rename_i h1
      split
      · rename_i a'' h2
        split
        · assumption
        · rename_i hn2
          rcases hq with rfl | rfl
          · rw [h1] at hu; cases hu
          · rw [h2] at hu; cases hu; exact absurd hm hn2
      · rename_i h2
        rcases hq with rfl | rfl
        · rw [h1] at hu; cases hu
        · rw [h2] at hu; cases hu

/-- a text cannot be surrounded by both kinds of quotes -/
theorem unquote?_excl {a x y : Str} (h1 : unquote? '"' a = some x) (h2 : unquote? '\'' a = some y) :
    False := by
  unfold unquote? at h1 h2
  split at h1
  · rename_i c1
    split at h2
    · rename_i c2
      simp only [Bool.and_eq_true, beq_iff_eq] at c1 c2
      rw [c1.1] at c2
      exact absurd c2.1 (by decide)
    · cases h2
  · cases h1

/-- `norm_repr(b, a)` when `b` does not match `a` but `b` without its quotes is `a` -/
theorem normReprStep_unquotes (f : Flags) {a b : Str} {q : Char} (hq : q = '"' ∨ q = '\'')
    (hn : checkMatch f b a = false) (hu : unquote? q b = some a) : normReprStep f b a = a := by
  have hr : checkMatch f a a = true := by simp [checkMatch]
  unfold normReprStep
  rw [hn]
  simp only [Bool.false_eq_true, ↓reduceIte]
  rcases hq with rfl | rfl
  · rw [hu]; simp [hr]
  · cases h1 : unquote? '"' b with
    | some x => exact absurd (unquote?_excl h1 hu) id
    | none => simp [hu, hr]

/-- ★ if the first `norm_repr` call yields a got that matches the want, the second call leaves the
    want alone and the final comparison succeeds (any flags) -/
theorem nr_pass_of_first (f : Flags) (a b : Str)
    (h : checkMatch f (normReprStep f a b) b = true) :
    checkMatch f (normReprStep f a b) (normReprStep f b (normReprStep f a b)) = true := by
  rw [normReprStep_of_rev_match f h]; exact h

/-! ## the two `norm_repr` calls followed by the final comparison -/

/-- what `check_output` computes on the two per-string normal forms under NORMALIZE_REPR -/
def nrCore (f : Flags) (a b : Str) : Bool :=
  checkMatch f (normReprStep f a b) (normReprStep f b (normReprStep f a b))

/-- ★ a pair that matches without the quote step still matches with it (any flags, in
    particular ELLIPSIS on) -/
theorem nrCore_of_match (f : Flags) {a b : Str} (h : checkMatch f a b = true) :
    nrCore f a b = true := by
  unfold nrCore
  rw [normReprStep_of_match f h, normReprStep_of_rev_match f h]; exact h

theorem checkMatch_refl (f : Flags) (a : Str) : checkMatch f a a = true := by simp [checkMatch]

/-- ★ ELLIPSIS monotonicity of the quote step: fails only if the want is a quoted copy of the got
    that the got, read as a pattern, matches (then the second call keeps the quotes) -/
theorem nrCore_mono_ellipsis (f0 f1 : Flags) (h0 : f0.ellipsis = false) (a b : Str)
    (hguard : ∀ q, (q = '"' ∨ q = '\'') → unquote? q b = some a → ellipsisMatch b a = false)
    (h : nrCore f0 a b = true) : nrCore f1 a b = true := by
  unfold nrCore at h ⊢
  have eq0 : ∀ x y, checkMatch f0 x y = true → x = y := by
    intro x y hxy; simpa [checkMatch, h0] using hxy
  rcases normReprStep_cases f0 a b with ha | ⟨q, hq, hu, hm⟩
  · rw [ha] at h
    rcases normReprStep_cases f0 b a with hb | ⟨q, hq, hu, hm⟩
    · rw [hb] at h
      have : a = b := eq0 _ _ h
      subst this
      exact nr_pass_of_first f1 a a
        (by rw [normReprStep_of_match f1 (checkMatch_refl f1 a)]; exact checkMatch_refl f1 a)
    · rw [eq0 _ _ hm] at hu
      by_cases hp : checkMatch f1 (normReprStep f1 a b) b = true
      · exact nr_pass_of_first f1 a b hp
      · have ha1 : normReprStep f1 a b = a := by
          rcases normReprStep_cases f1 a b with h' | ⟨_, _, _, h'⟩
          · exact h'
          · exact absurd h' hp
        rw [ha1] at hp ⊢
        have hne : b ≠ a := by
          intro e; subst e; exact hp (checkMatch_refl f1 b)
        have hba : checkMatch f1 b a = false := by
          simp [checkMatch, hne, hguard q hq hu]
        rw [normReprStep_unquotes f1 hq hba hu]
        exact checkMatch_refl f1 a
  · rw [eq0 _ _ hm] at hu
    exact nr_pass_of_first f1 a b (normReprStep_finds f1 hq hu (checkMatch_refl f1 b))

/-- ★ the guard of `nrCore_mono_ellipsis` is exact: when it is violated and neither the got nor an
    unquoted version of it matches the want under ELLIPSIS, the pair matches with ELLIPSIS off and
    does not with ELLIPSIS on -/
theorem nrCore_ellipsis_fail (f0 f1 : Flags) (h0 : f0.ellipsis = false) (h1 : f1.ellipsis = true)
    (a b : Str) {q : Char} (hq : q = '"' ∨ q = '\'') (hu : unquote? q b = some a)
    (hm : ellipsisMatch b a = true)
    (hn : checkMatch f1 (normReprStep f1 a b) b = false) :
    nrCore f0 a b = true ∧ nrCore f1 a b = false := by
  have hn' : ¬ checkMatch f1 (normReprStep f1 a b) b = true := by simp [hn]
  have eq0 : ∀ x y, checkMatch f0 x y = true → x = y := by
    intro x y hxy; simpa [checkMatch, h0] using hxy
  have ha1 : normReprStep f1 a b = a := by
    rcases normReprStep_cases f1 a b with h' | ⟨_, _, _, h'⟩
    · exact h'
    · exact absurd h' hn'
  have hne : b ≠ a := by
    intro e; subst e
    rw [ha1] at hn'; exact hn' (checkMatch_refl f1 b)
  have ha0 : normReprStep f0 a b = a := by
    rcases normReprStep_cases f0 a b with h' | ⟨q', hq', hu', hm'⟩
    · exact h'
    · rw [eq0 _ _ hm'] at hu'
      exact absurd (normReprStep_finds f1 hq' hu' (checkMatch_refl f1 b)) hn'
  unfold nrCore
  constructor
  · rw [ha0]
    have hba : checkMatch f0 b a = false := by simp [checkMatch, h0, hne]
    rw [normReprStep_unquotes f0 hq hba hu]
    exact checkMatch_refl f0 a
  · rw [ha1]
    have hba : checkMatch f1 b a = true := by simp [checkMatch, h1, hm]
    rw [normReprStep_of_match f1 hba]
    rw [ha1] at hn; exact hn

/-- a text differs from its unquoted version -/
theorem unquote?_ne {q : Char} {b a : Str} (h : unquote? q b = some a) : b ≠ a := by
  intro e; subst e
  exact absurd (lead_unquote_lt h) (Nat.lt_irrefl _)

end Xdoc

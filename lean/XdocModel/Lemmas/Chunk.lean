import XdocModel.Parser
/-!
# Lemmas about `Parser.packageChunk` (used by C01, C18, C19; reusable for C13)

`packageChunk` is re-stated as `packageChunkSpec` — the same computation with the list of cut
points made explicit — and proved equal to it for all inputs. The cut list is strictly increasing,
starts with `0` and its other members are PS1 lines.
-/
namespace Xdoc.Parser
open Xdoc Py

/-! ## `dedupSorted` = `sorted(set(l))` -/

theorem mem_insertSorted {x a : Nat} {l : List Nat} : a ∈ insertSorted x l ↔ a = x ∨ a ∈ l := by
  induction l with
  | nil => simp [insertSorted]
  | cons y ys ih =>
    simp only [insertSorted]
    split
    · simp
    · split
      · rename_i h; subst h; simp
      · simp only [List.mem_cons, ih]; exact or_left_comm

theorem insertSorted_pairwise {x : Nat} {l : List Nat} (h : l.Pairwise (· < ·)) :
    (insertSorted x l).Pairwise (· < ·) := by
  induction l with
  | nil => simp [insertSorted]
  | cons y ys ih =>
    simp only [insertSorted]
    rw [List.pairwise_cons] at h
    split
    · rename_i hxy
      refine List.pairwise_cons.mpr ⟨?_, List.pairwise_cons.mpr h⟩
      intro a ha
      rcases List.mem_cons.mp ha with rfl | ha
      · exact hxy
      · exact Nat.lt_trans hxy (h.1 a ha)
    · split
      · exact List.pairwise_cons.mpr h
      · refine List.pairwise_cons.mpr ⟨?_, ih h.2⟩
        intro a ha
        rcases mem_insertSorted.mp ha with rfl | ha
        · omega
        · exact h.1 a ha

theorem mem_dedupSorted {a : Nat} {l : List Nat} : a ∈ dedupSorted l ↔ a ∈ l := by
  unfold dedupSorted
  induction l with
  | nil => simp
  | cons y ys ih => simp [List.foldr_cons, mem_insertSorted, ih]

theorem dedupSorted_pairwise_lt (l : List Nat) : (dedupSorted l).Pairwise (· < ·) := by
  unfold dedupSorted
  induction l with
  | nil => simp
  | cons y ys ih => simpa [List.foldr_cons] using insertSorted_pairwise ih

/-- a strictly increasing list of naturals that contains `0` starts with it -/
theorem head_of_sorted_mem_zero {l : List Nat} (h : l.Pairwise (· < ·)) (h0 : 0 ∈ l) :
    ∃ r, l = 0 :: r := by
  cases l with
  | nil => simp at h0
  | cons a r =>
    rcases List.mem_cons.mp h0 with h0 | h0
    · exact ⟨r, by rw [← h0]⟩
    · have := (List.pairwise_cons.mp h).1 0 h0; omega

/-- in a strictly increasing list the last element is the largest -/
theorem le_getLast_of_sorted {l : List Nat} (h : l.Pairwise (· < ·)) {a m : Nat} (ha : a ∈ l)
    (hm : l.getLast? = some m) : a ≤ m := by
  induction l with
  | nil => simp at ha
  | cons x xs ih =>
    rw [List.pairwise_cons] at h
    cases xs with
    | nil => simp at hm ha; omega
    | cons y ys =>
      have hm' : (y :: ys).getLast? = some m := by simpa [List.getLast?_cons_cons] using hm
      rcases List.mem_cons.mp ha with rfl | ha
      · have hmem : m ∈ (y :: ys) := List.mem_of_getLast? hm'
        exact Nat.le_of_lt (h.1 m hmem)
      · exact ih h.2 ha hm'

/-! ## `packageChunk` with explicit cut points -/

/-- one step of the directive-break loop of `_package_chunk` -/
def breakStep (execLines : List Str) (acc : List Nat × List (Nat × List Directive)) (p : Nat × Option Nat) :
    Except ParseError (List Nat × List (Nat × List Directive)) :=
  match extractDirectives (sliceFrom execLines p.1 p.2) with
  | .error e => .error e
  | .ok v =>
    match v with
    | [] => .ok acc
    | d :: _ =>
      .ok ((match d.inline, p.2 with
            | true, some s2 => acc.1 ++ [p.1] ++ [s2]
            | _, _ => acc.1 ++ [p.1]), acc.2 ++ [(p.1, v)])

/-- cut points forced by directives: `sorted(set([0] + break_linenos))`, or just `[0]` -/
def breakCuts (breaks : List Nat) : List Nat :=
  match breaks with
  | [] => [0]
  | _ => dedupSorted (0 :: breaks)

/-- the final-expression split adds the last PS1 line as a cut -/
def finalCuts (bs : List Nat) (split : Bool) (ps1s : List Nat) : Except ParseError (List Nat) :=
  if split then
    match ps1s.getLast? with
    | none => .error .index
    | some s2 => if s2 != bs.getLast?.getD 0 then .ok (bs ++ [s2]) else .ok bs
  else .ok bs

/-- the parts cut out at a list of cut points: all but the last without want -/
def partsOfCuts (mkMid : Nat → Nat → PPart) (mkLast : Nat → PPart) : List Nat → List PPart
  | [] => []
  | [a] => [mkLast a]
  | a :: b :: r => mkMid a b :: partsOfCuts mkMid mkLast (b :: r)

structure ChunkCtx where
  sourceLines : List Str
  wantLines : List Str
  execLines : List Str
  lineno : Nat
  dirMap : List (Nat × List Directive)
  modeHint : CompileMode

def ChunkCtx.mk' (c : ChunkCtx) (s1 : Nat) (s2 : Option Nat) (want : Option (List Str)) : PPart :=
  { part := { execLines := sliceFrom c.execLines s1 s2, wantLines := want,
              origLines := some (sliceFrom c.sourceLines s1 s2), lineOffset := c.lineno + s1 },
    directives := c.dirMap.lookup s1 }

def ChunkCtx.mkMid (c : ChunkCtx) (a b : Nat) : PPart := c.mk' a (some b) none

def ChunkCtx.mkLast (c : ChunkCtx) (a : Nat) : PPart :=
  let last := c.mk' a none (some c.wantLines)
  { last with part := { last.part with compileMode := if c.wantLines.isEmpty then .exec else c.modeHint } }

/-- `_package_chunk` with the list of cut points made explicit -/
def packageChunkSpec (rawSrc rawWant : List Str) (lineno : Nat) (facts : ChunkFacts) :
    Except ParseError (List PPart) :=
  let lineIndent := match rawSrc with | l :: _ => indentOf l | [] => 0
  let sourceLines := rawSrc.map (·.drop lineIndent)
  let wantLines := rawWant.map (·.drop lineIndent)
  let execLines := sourceLines.map (·.drop 4)
  match locatePs1 sourceLines facts with
  | .error e => .error e
  | .ok (ps1s, modeHint) =>
    match (ps1s.zip ((ps1s.drop 1).map some ++ [none])).foldlM (breakStep execLines) ([], []) with
    | .error e => .error e
    | .ok (breaks, dirMap) =>
      match finalCuts (breakCuts breaks) (!wantLines.isEmpty && (modeHint == .eval || modeHint == .single)) ps1s with
      | .error e => .error e
      | .ok cuts =>
        let c : ChunkCtx := { sourceLines, wantLines, execLines, lineno, dirMap, modeHint }
        .ok (partsOfCuts c.mkMid c.mkLast cuts)

theorem partsOfCuts_eq (mkMid : Nat → Nat → PPart) (mkLast : Nat → PPart) (a : Nat) (bs : List Nat) :
    partsOfCuts mkMid mkLast (a :: bs) =
      ((a :: bs).zip bs).map (fun x => mkMid x.1 x.2) ++ [mkLast ((a :: bs).getLast?.getD 0)] := by
  induction bs generalizing a with
  | nil => simp [partsOfCuts]
  | cons b r ih => simp [partsOfCuts, ih b, List.getLast?_cons_cons]

theorem partsOfCuts_append (mkMid : Nat → Nat → PPart) (mkLast : Nat → PPart) (a : Nat) (bs : List Nat) (s2 : Nat) :
    partsOfCuts mkMid mkLast ((a :: bs) ++ [s2]) =
      ((a :: bs).zip bs).map (fun x => mkMid x.1 x.2) ++
        [mkMid ((a :: bs).getLast?.getD 0) s2, mkLast s2] := by
  induction bs generalizing a with
  | nil => simp [partsOfCuts]
  | cons b r ih =>
    have := ih b
    simp only [List.cons_append] at this
    simp [partsOfCuts, this, List.getLast?_cons_cons]

theorem packageChunk_eq_spec (rawSrc rawWant : List Str) (lineno : Nat) (facts : ChunkFacts) :
    packageChunk rawSrc rawWant lineno facts = packageChunkSpec rawSrc rawWant lineno facts := by
  unfold packageChunk packageChunkSpec
  simp only [bind, Except.bind, pure, Except.pure]
  generalize (List.map (fun x => List.drop (match rawSrc with | l :: _ => indentOf l | [] => 0) x) rawSrc) = src
  generalize (List.map (fun x => List.drop (match rawSrc with | l :: _ => indentOf l | [] => 0) x) rawWant) = want
  cases locatePs1 src facts with
  | error e => rfl
  | ok v =>
    obtain ⟨ps1s, mode⟩ := v
    simp only
    have key : ∀ (f : (List Nat × List (Nat × List Directive)) → (Nat × Option Nat) → Except ParseError (List Nat × List (Nat × List Directive)))
        (_ : ∀ acc p, f acc p = breakStep (List.map (fun x => List.drop 4 x) src) acc p) init L,
        List.foldlM f init L = List.foldlM (breakStep (List.map (fun x => List.drop 4 x) src)) init L := by
      intro f hf init L
      have : f = breakStep (List.map (fun x => List.drop 4 x) src) := funext fun a => funext fun p => hf a p
      rw [this]
    split
    · next err heq =>
      rw [key _ ?h] at heq
      case h =>
        intro acc p
        unfold breakStep
        cases extractDirectives (sliceFrom (List.map (fun x => List.drop 4 x) src) p.fst p.snd) with
        | error e => rfl
        | ok v => cases v <;> rfl
      rw [heq]
    · next v heq =>
      rw [key _ ?h] at heq
      case h =>
        intro acc p
        unfold breakStep
        cases extractDirectives (sliceFrom (List.map (fun x => List.drop 4 x) src) p.fst p.snd) with
        | error e => rfl
        | ok v => cases v <;> rfl
      rw [heq]
      obtain ⟨breaks, dirMap⟩ := v
      simp only
      clear heq key
      cases breaks with
      | nil =>
        simp only [breakCuts, finalCuts]
        split
        · cases ps1s.getLast? with
          | none => rfl
          | some s2 =>
            simp only [List.getLast?_singleton, Option.getD_some]
            split
            · rename_i h; simp at h
              simp [h, partsOfCuts, ChunkCtx.mkMid, ChunkCtx.mkLast, ChunkCtx.mk']
            · rename_i h; simp at h
              simp [h, partsOfCuts, ChunkCtx.mkLast, ChunkCtx.mk']
        · simp [partsOfCuts, ChunkCtx.mkLast, ChunkCtx.mk']
      | cons b breaks =>
        simp only [breakCuts, finalCuts]
        obtain ⟨r, hr⟩ := head_of_sorted_mem_zero (dedupSorted_pairwise_lt (0 :: b :: breaks))
          (mem_dedupSorted.mpr (by simp))
        simp only [hr]
        have hs1 : (if (0 :: r).length < 2 then 0 else (0 :: r).getLast?.getD 0) = (0 :: r).getLast?.getD 0 := by
          cases r with
          | nil => simp
          | cons a r => simp; omega
        simp only [hs1]
        split
        · cases ps1s.getLast? with
          | none => rfl
          | some s2 =>
            simp only
            split
            · simp only [partsOfCuts_append]
              simp [ChunkCtx.mkMid, ChunkCtx.mkLast, ChunkCtx.mk']
            · simp only [partsOfCuts_eq]
              simp [ChunkCtx.mkMid, ChunkCtx.mkLast, ChunkCtx.mk']
        · simp only [partsOfCuts_eq]
          simp [ChunkCtx.mkMid, ChunkCtx.mkLast, ChunkCtx.mk']


/-! ## facts about the cut points -/

theorem breakStep_subset {execLines : List Str} {ps1s : List Nat}
    {acc acc' : List Nat × List (Nat × List Directive)} {p : Nat × Option Nat}
    (h : breakStep execLines acc p = .ok acc') (hacc : ∀ a ∈ acc.1, a ∈ ps1s) (hp1 : p.1 ∈ ps1s)
    (hp2 : ∀ s, p.2 = some s → s ∈ ps1s) : ∀ a ∈ acc'.1, a ∈ ps1s := by
  unfold breakStep at h
  split at h
  · cases h
  · split at h
    · cases h; exact hacc
    · cases h
      simp only
      split
      · next s2 _ heq =>
        intro a ha
        simp only [List.append_assoc, List.mem_append, List.mem_cons, List.not_mem_nil, or_false] at ha
        rcases ha with ha | rfl | rfl
        · exact hacc a ha
        · exact hp1
        · exact hp2 _ heq
      · intro a ha
        simp only [List.mem_append, List.mem_cons, List.not_mem_nil, or_false] at ha
        rcases ha with ha | rfl
        · exact hacc a ha
        · exact hp1

theorem foldlM_breakStep_subset {execLines : List Str} {ps1s : List Nat} (pairs : List (Nat × Option Nat))
    (hp : ∀ p ∈ pairs, p.1 ∈ ps1s ∧ ∀ s, p.2 = some s → s ∈ ps1s)
    {acc acc' : List Nat × List (Nat × List Directive)}
    (h : pairs.foldlM (breakStep execLines) acc = .ok acc') (hacc : ∀ a ∈ acc.1, a ∈ ps1s) :
    ∀ a ∈ acc'.1, a ∈ ps1s := by
  induction pairs generalizing acc with
  | nil => simp [List.foldlM, pure, Except.pure] at h; subst h; exact hacc
  | cons p ps ih =>
    simp only [List.foldlM_cons, bind, Except.bind] at h
    split at h
    · cases h
    · next v hv =>
      have hp' := hp p (by simp)
      exact ih (fun q hq => hp q (List.mem_cons_of_mem _ hq)) h
        (breakStep_subset hv hacc hp'.1 hp'.2)

theorem mem_ps1_pairs {ps1s : List Nat} {p : Nat × Option Nat}
    (h : p ∈ ps1s.zip ((ps1s.drop 1).map some ++ [none])) :
    p.1 ∈ ps1s ∧ ∀ s, p.2 = some s → s ∈ ps1s := by
  obtain ⟨a, b⟩ := p
  have := List.of_mem_zip h
  refine ⟨this.1, ?_⟩
  intro s hs
  simp only at hs
  subst hs
  have h2 := this.2
  simp only [List.mem_append, List.mem_map, Option.some.injEq, exists_eq_right, List.mem_cons,
    reduceCtorEq, List.not_mem_nil, or_false] at h2
  exact List.mem_of_mem_drop h2

/-- the well-formedness of a cut list: strictly increasing, starting at `0` -/
structure CutsOk (ps1s cuts : List Nat) : Prop where
  sorted : cuts.Pairwise (· < ·)
  head : ∃ r, cuts = 0 :: r
  mem : ∀ c ∈ cuts, c = 0 ∨ c ∈ ps1s

theorem breakCuts_ok {ps1s breaks : List Nat} (hb : ∀ a ∈ breaks, a ∈ ps1s) :
    CutsOk ps1s (breakCuts breaks) := by
  cases breaks with
  | nil => exact ⟨by simp [breakCuts], ⟨[], rfl⟩, by simp [breakCuts]⟩
  | cons b r =>
    simp only [breakCuts]
    refine ⟨dedupSorted_pairwise_lt _, head_of_sorted_mem_zero (dedupSorted_pairwise_lt _) (mem_dedupSorted.mpr (by simp)), ?_⟩
    intro c hc
    rcases List.mem_cons.mp (mem_dedupSorted.mp hc) with h | h
    · exact Or.inl h
    · exact Or.inr (hb c h)

theorem finalCuts_ok {ps1s bs cuts : List Nat} {split : Bool} (hps : ps1s.Pairwise (· < ·))
    (hbs : CutsOk ps1s bs) (h : finalCuts bs split ps1s = .ok cuts) : CutsOk ps1s cuts := by
  unfold finalCuts at h
  split at h
  · split at h
    · cases h
    · next s2 hs2 =>
      split at h
      · next hne =>
        cases h
        obtain ⟨r, hr⟩ := hbs.head
        have hmem : s2 ∈ ps1s := List.mem_of_getLast? hs2
        refine ⟨?_, ⟨r ++ [s2], by simp [hr]⟩, ?_⟩
        · rw [List.pairwise_append]
          refine ⟨hbs.sorted, by simp, ?_⟩
          intro a ha b hb
          simp only [List.mem_cons, List.not_mem_nil, or_false] at hb
          subst hb
          -- every cut is at most the last PS1 line, and the last cut differs from it
          obtain ⟨m, hm⟩ : ∃ m, bs.getLast? = some m := by
            rw [hr]; exact ⟨_, List.getLast?_eq_some_getLast (by simp)⟩
          have ham : a ≤ m := le_getLast_of_sorted hbs.sorted ha hm
          have hmb : m ≤ b := by
            rcases hbs.mem m (List.mem_of_getLast? hm) with h0 | hin
            · omega
            · exact le_getLast_of_sorted hps hin hs2
          have : b ≠ m := by simpa [hm] using hne
          omega
        · intro c hc
          rcases List.mem_append.mp hc with hc | hc
          · exact hbs.mem c hc
          · simp only [List.mem_cons, List.not_mem_nil, or_false] at hc; subst hc; exact Or.inr hmem
      · cases h; exact hbs
  · cases h; exact hbs

/-! ## what `locatePs1` returns -/

theorem locatePs1_ok {src : List Str} {facts : ChunkFacts} {ps1s : List Nat} {mode : CompileMode}
    (h : locatePs1 src facts = .ok (ps1s, mode)) :
    ps1s.Pairwise (· < ·) ∧
    ∃ starts lastIsExpr, facts = .parsed starts lastIsExpr ∧
      ∀ i ∈ ps1s, i ∈ starts ∧ ∀ l, src[i]? = some l → l.take 4 = ">>> ".toList := by
  unfold locatePs1 at h
  split at h
  · cases h
  · next starts lastIsExpr =>
    simp only [Except.ok.injEq, Prod.mk.injEq] at h
    obtain ⟨h1, _⟩ := h
    subst h1
    refine ⟨dedupSorted_pairwise_lt _, starts, lastIsExpr, rfl, ?_⟩
    intro i hi
    have := mem_dedupSorted.mp hi
    simp only [List.mem_filter, Bool.not_eq_eq_eq_not, Bool.not_true] at this
    refine ⟨this.1, ?_⟩
    intro l hl
    have hnot := this.2
    by_cases hne : l.take 4 = ">>> ".toList
    · exact hne
    exfalso
    have : i ∈ List.filterMap (fun x : Str × Nat => if x.1.take 4 != ">>> ".toList then some x.2 else none) src.zipIdx := by
      rw [List.mem_filterMap]
      have hb : (List.take 4 l != ">>> ".toList) = true := bne_iff_ne.mpr hne
      refine ⟨(l, i), ?_, ?_⟩
      · rw [List.mem_zipIdx_iff_getElem?]
        simpa using hl
      · show (if (List.take 4 l != ">>> ".toList) = true then some i else none) = some i
        rw [if_pos hb]
    simp only [List.contains_eq_mem, decide_eq_false_iff_not] at hnot
    exact hnot this

/-! ## slicing at the cut points -/

/-- the slices `l[c0:c1], l[c1:c2], …, l[cn:]` -/
def sliceCuts {α : Type} (l : List α) : List Nat → List (List α)
  | [] => []
  | [a] => [l.drop a]
  | a :: b :: r => ((l.drop a).take (b - a)) :: sliceCuts l (b :: r)

theorem flatten_sliceCuts {α : Type} (l : List α) (a : Nat) (cuts : List Nat)
    (h : (a :: cuts).Pairwise (· < ·)) : (sliceCuts l (a :: cuts)).flatten = l.drop a := by
  induction cuts generalizing a with
  | nil => simp [sliceCuts]
  | cons b r ih =>
    rw [List.pairwise_cons] at h
    have hab : a < b := h.1 b (by simp)
    simp only [sliceCuts, List.flatten_cons, ih b h.2]
    have : l.drop b = (l.drop a).drop (b - a) := by rw [List.drop_drop]; congr 1; omega
    rw [this, List.take_append_drop]

theorem execLines_partsOfCuts (c : ChunkCtx) (cuts : List Nat) :
    (partsOfCuts c.mkMid c.mkLast cuts).map (·.part.execLines) = sliceCuts c.execLines cuts := by
  induction cuts with
  | nil => rfl
  | cons a r ih =>
    cases r with
    | nil => simp [partsOfCuts, sliceCuts, ChunkCtx.mkLast, ChunkCtx.mk', sliceFrom]
    | cons b r =>
      simp only [partsOfCuts, List.map_cons, sliceCuts]
      rw [ih]
      simp [ChunkCtx.mkMid, ChunkCtx.mk', sliceFrom]

theorem origLines_partsOfCuts (c : ChunkCtx) (cuts : List Nat) :
    (partsOfCuts c.mkMid c.mkLast cuts).map (·.part.origLines) = (sliceCuts c.sourceLines cuts).map some := by
  induction cuts with
  | nil => rfl
  | cons a r ih =>
    cases r with
    | nil => simp [partsOfCuts, sliceCuts, ChunkCtx.mkLast, ChunkCtx.mk', sliceFrom]
    | cons b r =>
      simp only [partsOfCuts, List.map_cons, sliceCuts]
      rw [ih]
      simp [ChunkCtx.mkMid, ChunkCtx.mk', sliceFrom]

theorem lineOffset_partsOfCuts (c : ChunkCtx) (cuts : List Nat) :
    (partsOfCuts c.mkMid c.mkLast cuts).map (·.part.lineOffset) = cuts.map (c.lineno + ·) := by
  induction cuts with
  | nil => rfl
  | cons a r ih =>
    cases r with
    | nil => simp [partsOfCuts, ChunkCtx.mkLast, ChunkCtx.mk']
    | cons b r =>
      simp only [partsOfCuts, List.map_cons]
      rw [ih]
      simp [ChunkCtx.mkMid, ChunkCtx.mk']

/-- all parts but the last have no want and mode `exec`; the last carries the chunk's want -/
theorem want_partsOfCuts (c : ChunkCtx) (a : Nat) (cuts : List Nat) :
    ∃ init last, partsOfCuts c.mkMid c.mkLast (a :: cuts) = init ++ [last] ∧
      (∀ p ∈ init, p.part.wantLines = none ∧ p.part.compileMode = .exec) ∧
      last.part.wantLines = some c.wantLines ∧
      last.part.compileMode = (if c.wantLines.isEmpty then .exec else c.modeHint) := by
  induction cuts generalizing a with
  | nil => exact ⟨[], c.mkLast a, rfl, by simp, rfl, rfl⟩
  | cons b r ih =>
    obtain ⟨init, last, h1, h2, h3, h4⟩ := ih b
    refine ⟨c.mkMid a b :: init, last, by simp [partsOfCuts, h1], ?_, h3, h4⟩
    intro p hp
    rcases List.mem_cons.mp hp with rfl | hp
    · exact ⟨rfl, rfl⟩
    · exact h2 p hp

/-- `line_offset = chunk start + number of earlier lines` -/
def OffsetsFrom (lineno : Nat) : Nat → List PPart → Prop
  | _, [] => True
  | acc, p :: ps => p.part.lineOffset = lineno + acc ∧ OffsetsFrom lineno (acc + p.part.execLines.length) ps

theorem offsets_partsOfCuts (c : ChunkCtx) (a : Nat) (cuts : List Nat)
    (hs : (a :: cuts).Pairwise (· < ·)) (hle : ∀ x ∈ a :: cuts, x ≤ c.execLines.length) :
    OffsetsFrom c.lineno a (partsOfCuts c.mkMid c.mkLast (a :: cuts)) := by
  induction cuts generalizing a with
  | nil => simp [partsOfCuts, OffsetsFrom, ChunkCtx.mkLast, ChunkCtx.mk']
  | cons b r ih =>
    rw [List.pairwise_cons] at hs
    have hab : a < b := hs.1 b (by simp)
    have hb : b ≤ c.execLines.length := hle b (by simp)
    simp only [partsOfCuts, OffsetsFrom]
    refine ⟨by simp [ChunkCtx.mkMid, ChunkCtx.mk'], ?_⟩
    have hlen : (c.mkMid a b).part.execLines.length = b - a := by
      simp [ChunkCtx.mkMid, ChunkCtx.mk', sliceFrom]; omega
    rw [hlen]
    have : a + (b - a) = b := by omega
    rw [this]
    exact ih b hs.2 (fun x hx => hle x (List.mem_cons_of_mem _ hx))

/-! ## the result of `packageChunk`, unpacked -/

/-- `line_indent` of `_package_chunk`: the indentation of the chunk's first line -/
def chunkIndent (rawSrc : List Str) : Nat :=
  match rawSrc with | l :: _ => indentOf l | [] => 0

/-- everything the C01/C18/C19 theorems need to know about a successful `packageChunk` -/
theorem packageChunk_ok {rawSrc rawWant : List Str} {lineno : Nat} {facts : ChunkFacts} {ps : List PPart}
    (h : packageChunk rawSrc rawWant lineno facts = .ok ps) :
    ∃ (c : ChunkCtx) (ps1s cuts : List Nat),
      c.sourceLines = rawSrc.map (·.drop (chunkIndent rawSrc)) ∧
      c.wantLines = rawWant.map (·.drop (chunkIndent rawSrc)) ∧
      c.execLines = c.sourceLines.map (·.drop 4) ∧ c.lineno = lineno ∧
      locatePs1 c.sourceLines facts = .ok (ps1s, c.modeHint) ∧
      CutsOk ps1s cuts ∧ ps = partsOfCuts c.mkMid c.mkLast cuts := by
  rw [packageChunk_eq_spec] at h
  unfold packageChunkSpec at h
  simp only at h
  split at h
  · cases h
  · next ps1s mode hloc =>
    split at h
    · cases h
    · next breaks dirMap hfold =>
      split at h
      · cases h
      · next cuts hcuts =>
        cases h
        have hsub : ∀ a ∈ breaks, a ∈ ps1s :=
          foldlM_breakStep_subset _ (fun p hp => mem_ps1_pairs hp) hfold (by simp)
        exact ⟨_, ps1s, cuts, rfl, rfl, rfl, rfl, hloc,
          finalCuts_ok (locatePs1_ok hloc).1 (breakCuts_ok hsub) hcuts, rfl⟩

end Xdoc.Parser

import XdocModel.Static
/-!
# Lemmas about the visitor model: the ordered map, and the visitor as a fold of `insert`
-/
namespace Xdoc.Static
open Xdoc Py

/-- inserting a list of entries one after the other (what a sequence of `calldefs[k] = v` does) -/
def insertAll (l acc : List CallDef) : List CallDef := l.foldl (fun a cd => insert cd a) acc

@[simp] theorem insertAll_nil (acc : List CallDef) : insertAll [] acc = acc := rfl
@[simp] theorem insertAll_cons (cd : CallDef) (l acc : List CallDef) :
    insertAll (cd :: l) acc = insertAll l (insert cd acc) := rfl
theorem insertAll_append (l₁ l₂ acc : List CallDef) :
    insertAll (l₁ ++ l₂) acc = insertAll l₂ (insertAll l₁ acc) := by
  simp [insertAll, List.foldl_append]

theorem insert_of_not_mem {cd : CallDef} {acc : List CallDef} (h : cd.callname ∉ keys acc) :
    insert cd acc = acc ++ [cd] := by
  induction acc with
  | nil => rfl
  | cons x xs ih =>
    simp only [keys, List.map_cons, List.mem_cons, not_or] at h
    have hx : ¬ x.callname = cd.callname := fun e => h.1 e.symm
    simp only [insert, hx, if_false, List.cons_append]
    rw [ih (by simpa [keys] using h.2)]

@[simp] theorem keys_nil : keys [] = [] := rfl
@[simp] theorem keys_cons (x : CallDef) (xs : List CallDef) : keys (x :: xs) = x.callname :: keys xs := rfl
@[simp] theorem keys_append (xs ys : List CallDef) : keys (xs ++ ys) = keys xs ++ keys ys := by
  simp [keys]

theorem keys_insert (cd : CallDef) (acc : List CallDef) :
    keys (insert cd acc) = if cd.callname ∈ keys acc then keys acc else keys acc ++ [cd.callname] := by
  induction acc with
  | nil => simp [insert]
  | cons x xs ih =>
    simp only [insert]
    by_cases hx : x.callname = cd.callname
    · simp [hx]
    · have hx' : ¬ cd.callname = x.callname := fun e => hx e.symm
      rw [if_neg hx, keys_cons, keys_cons, ih]
      by_cases hm : cd.callname ∈ keys xs
      · simp [hm]
      · simp [hm, hx']

theorem mem_keys_insert {k : Str} (cd : CallDef) (acc : List CallDef) :
    k ∈ keys (insert cd acc) ↔ k ∈ keys acc ∨ k = cd.callname := by
  rw [keys_insert]; split
  · constructor
    · exact Or.inl
    · rintro (h | rfl) <;> assumption
  · simp

theorem nodup_keys_insert {cd : CallDef} {acc : List CallDef} (h : (keys acc).Nodup) :
    (keys (insert cd acc)).Nodup := by
  rw [keys_insert]; split
  · exact h
  · rename_i hn
    exact List.nodup_append.mpr ⟨h, by simp, by
      intro a ha b hb; simp at hb; subst hb; intro e; subst e; exact hn ha⟩

theorem nodup_keys_insertAll {l acc : List CallDef} (h : (keys acc).Nodup) :
    (keys (insertAll l acc)).Nodup := by
  induction l generalizing acc with
  | nil => exact h
  | cons cd l ih => exact ih (nodup_keys_insert h)

theorem mem_keys_insertAll {k : Str} (l acc : List CallDef) :
    k ∈ keys (insertAll l acc) ↔ k ∈ keys acc ∨ k ∈ keys l := by
  induction l generalizing acc with
  | nil => simp [keys]
  | cons cd l ih =>
    rw [insertAll_cons, ih, mem_keys_insert]
    simp only [keys, List.map_cons, List.mem_cons]
    constructor
    · rintro ((h | h) | h)
      · exact Or.inl h
      · exact Or.inr (Or.inl h)
      · exact Or.inr (Or.inr h)
    · rintro (h | h | h)
      · exact Or.inl (Or.inl h)
      · exact Or.inl (Or.inr h)
      · exact Or.inr h

/-- with pairwise distinct keys nothing is ever overwritten: the map is the list itself -/
theorem insertAll_of_nodup {l acc : List CallDef} (h : (keys acc ++ keys l).Nodup) :
    insertAll l acc = acc ++ l := by
  induction l generalizing acc with
  | nil => simp
  | cons cd l ih =>
    have hcd : cd.callname ∉ keys acc := by
      intro hm
      have := (List.nodup_append.mp h).2.2 _ hm cd.callname (by simp [keys])
      exact this rfl
    rw [insertAll_cons, insert_of_not_mem hcd, ih]
    · simp
    · simpa [keys, List.append_assoc] using h

/-- what a statement list contributes in the current scope -/
def itemsIn (loc : Locator) (cur : Option Str) (t : Tree) : List CallDef :=
  match cur with
  | none => topLevel loc t
  | some c => methodsOf loc c t

/-- the visitor is the left fold of `insert` over the declarative contribution list, and it leaves
    `_current_classname` as it found it -/
theorem visit_eq_fold (loc : Locator) (t : Tree) (st : St) :
    visit loc t st = { calldefs := insertAll (itemsIn loc st.cur t) st.calldefs, cur := st.cur } := by
  induction t generalizing st with
  | done => cases st; cases ‹Option Str› <;> simp [visit, itemsIn, topLevel, methodsOf]
  | func a name decos doc body next _ ihn =>
    obtain ⟨cds, cur⟩ := st
    simp only [visit]
    rw [ihn]
    cases cur <;> by_cases hs : skipDeco decos <;>
      simp [itemsIn, topLevel, methodsOf, hs, qualName, insertAll_append]
  | cls name decos doc body next ihb ihn =>
    obtain ⟨cds, cur⟩ := st
    cases cur with
    | none =>
      simp only [visit]
      rw [ihb, ihn]
      simp [itemsIn, topLevel, insertAll_append]
    | some c =>
      simp only [visit]
      rw [ihn]
      simp [itemsIn, methodsOf]
  | ifs test r1 r2 body orelse next ihb iho ihn =>
    obtain ⟨cds, cur⟩ := st
    simp only [visit]
    by_cases hg : isMainGuard test
    · rw [if_pos hg, iho, ihn]
      cases cur <;> simp [itemsIn, topLevel, methodsOf, hg, insertAll_append]
    · rw [if_neg hg, ihb, iho, ihn]
      cases cur <;> simp [itemsIn, topLevel, methodsOf, hg, insertAll_append]
  | comp r body next ihb ihn =>
    obtain ⟨cds, cur⟩ := st
    simp only [visit]
    rw [ihb, ihn]
    cases cur <;> simp [itemsIn, topLevel, methodsOf, insertAll_append]
  | imp n next ihn =>
    obtain ⟨cds, cur⟩ := st
    simp only [visit]
    rw [ihn]
    cases cur <;> simp [itemsIn, topLevel, methodsOf]
  | alias t s next ihn =>
    obtain ⟨cds, cur⟩ := st
    simp only [visit]
    rw [ihn]
    cases cur <;> simp [itemsIn, topLevel, methodsOf]
  | other next ihn =>
    obtain ⟨cds, cur⟩ := st
    simp only [visit]
    rw [ihn]
    cases cur <;> simp [itemsIn, topLevel, methodsOf]

theorem visit_cur (loc : Locator) (t : Tree) (st : St) : (visit loc t st).cur = st.cur := by
  rw [visit_eq_fold]

theorem visitModule_eq_fold (loc : Locator) (m : Module) :
    visitModule loc m = insertAll (topLevel loc m.body) (moduleEntry loc m) := by
  simp [visitModule, visit_eq_fold, itemsIn]

/-- the contribution lists do not look at the pruned regions -/
theorem methodsOf_prune (loc : Locator) (c : Str) (t : Tree) :
    methodsOf loc c (prune t true) = methodsOf loc c t := by
  induction t with
  | done => rfl
  | func a name decos doc body next _ ihn =>
    by_cases hs : skipDeco decos <;> simp [prune, methodsOf, hs, ihn]
  | cls name decos doc body next _ ihn => simp [prune, methodsOf, ihn]
  | ifs test r1 r2 body orelse next ihb iho ihn =>
    by_cases hg : isMainGuard test <;> simp [prune, methodsOf, hg, ihb, iho, ihn]
  | comp r body next ihb ihn => simp [prune, methodsOf, ihb, ihn]
  | imp n next ihn => simp [prune, methodsOf, ihn]
  | alias t s next ihn => simp [prune, methodsOf, ihn]
  | other next ihn => simp [prune, methodsOf, ihn]

theorem topLevel_prune (loc : Locator) (t : Tree) :
    topLevel loc (prune t false) = topLevel loc t := by
  induction t with
  | done => rfl
  | func a name decos doc body next _ ihn =>
    by_cases hs : skipDeco decos <;> simp [prune, topLevel, hs, ihn]
  | cls name decos doc body next _ ihn => simp [prune, topLevel, ihn, methodsOf_prune]
  | ifs test r1 r2 body orelse next ihb iho ihn =>
    by_cases hg : isMainGuard test <;> simp [prune, topLevel, hg, ihb, iho, ihn]
  | comp r body next ihb ihn => simp [prune, topLevel, ihb, ihn]
  | imp n next ihn => simp [prune, topLevel, ihn]
  | alias t s next ihn => simp [prune, topLevel, ihn]
  | other next ihn => simp [prune, topLevel, ihn]

end Xdoc.Static

import XdocModel.Example
import XdocModel.Lemmas.Example
/-!
# The run loop threads ONE environment through the executed parts (lemmas for C01)

`Example.runLoop` already threads an `Env` through the execution oracle `sem`; no refinement of the
loop is needed. Here: what one iteration does to `env`, `logged`, `executed`, `skipped`.
-/
namespace Xdoc
open Py

variable {Env : Type}

/-- the text captured while the part was executing -/
def ExecResult.stdout : ExecResult → Str
  | .ok out _ => out
  | .raised out _ _ => out
  | .exit out _ => out
  | .compileError _ => []
  | .existingLoop => []

/-- the output carried by a decision is `o` -/
def OutOk (o : Str) : Act → Prop
  | .ran out _ => out = o
  | .halt true out _ => out = o
  | .escape out => out = o
  | _ => True

/-- whatever is decided, the output recorded for an executed part is what it wrote -/
theorem decideExec_out (f : Flags) (iw : Bool) (want : Option Str) (unm : List Str) (res : ExecResult) :
    OutOk res.stdout (decideExec f iw want unm res) := by
  cases res with
  | ok out ev =>
    simp only [decideExec, ExecResult.stdout]
    cases want with
    | none => simp [OutOk]
    | some w =>
      simp only
      cases iw with
      | true => simp [OutOk]
      | false => cases partCheck f w out ev unm <;> simp [OutOk]
  | raised out line tb =>
    simp only [decideExec, ExecResult.stdout]
    cases want with
    | none => cases tb <;> simp [OutOk]
    | some w =>
      simp only
      cases checkException f line w with
      | none => cases tb <;> simp [OutOk]
      | some b => cases b <;> simp [OutOk]
  | compileError ln => simp [decideExec, OutOk]
  | «exit» out line =>
    simp only [decideExec, ExecResult.stdout]
    cases want with
    | none => simp [OutOk]
    | some w =>
      simp only
      cases checkException f line w with
      | none => simp [OutOk]
      | some b => cases b <;> simp [OutOk]
  | existingLoop => simp [decideExec, OutOk, ExecResult.stdout]

/-- the two things an iteration can do to the observable state -/
def Untouched (s s' : RunState Env) : Prop :=
  s'.executed = s.executed ∧ s'.env = s.env ∧ s'.logged = s.logged

def Executed (sem : Env → Nat → RunPart → ExecResult × Env) (s s' : RunState Env) (i : Nat) (p : RunPart) : Prop :=
  s'.executed = s.executed ++ [i] ∧ s'.env = (sem s.env i p).2 ∧
    s'.logged = s.logged ++ [(i, (sem s.env i p).1.stdout)]

/-- one iteration: the part is skipped (nothing else changes), or executed exactly once — the
    environment becomes `sem`'s and its output is logged under its index —, or (compile error,
    directive error, failed import, running event loop) neither -/
def StepOk (sem : Env → Nat → RunPart → ExecResult × Env) (s : RunState Env) (i : Nat) (p : RunPart) :
    Step Env → Prop
  | .continue s' => (s'.skipped = s.skipped ++ [i] ∧ Untouched s s') ∨ (s'.skipped = s.skipped ∧ Executed sem s s' i p)
  | .stop s' _ => s'.skipped = s.skipped ∧ (Untouched s s' ∨ Executed sem s s' i p)

theorem applyAct_effect (sem : Env → Nat → RunPart → ExecResult × Env) (cfg : RunCfg) (s s0 : RunState Env)
    (i : Nat) (p : RunPart) (a : Act) (hout : OutOk (sem s0.env i p).1.stdout a)
    (h1 : s.skipped = s0.skipped) (h2 : s.executed = s0.executed) (h3 : s.env = s0.env) (h4 : s.logged = s0.logged) :
    StepOk sem s0 i p (applyAct cfg s i (sem s0.env i p).2 a) := by
  cases a with
  | skip => simp [applyAct, StepOk, Untouched, h1, h2, h3, h4]
  | ran out u => simp only [OutOk] at hout; simp [applyAct, StepOk, Executed, hout, h1, h2, h4]
  | halt ex out fl =>
    cases ex with
    | false => cases fl <;> simp [applyAct, StepOk, Untouched, h1, h2, h3, h4]
    | true =>
      simp only [OutOk] at hout
      cases fl <;> simp [applyAct, StepOk, Executed, hout, h1, h2, h4]
  | escape out => simp only [OutOk] at hout; simp [applyAct, StepOk, Executed, hout, h1, h2, h4]

theorem stepPart_effect (sat : Str → Option Bool) (sem : Env → Nat → RunPart → ExecResult × Env)
    (cfg : RunCfg) (s : RunState Env) (i : Nat) (p : RunPart) :
    StepOk sem s i p (stepPart sat sem cfg s i p) := by
  unfold stepPart
  cases preStage sat cfg s.rs s.didImport p with
  | dirError => simp [applyAct, StepOk, Untouched]
  | skip rs => simp [applyAct, StepOk, Untouched]
  | importFail rs => simp [applyAct, StepOk, Untouched]
  | exec rs =>
    exact applyAct_effect sem cfg { s with rs := rs, didImport := true } s i p _
      (decideExec_out _ _ _ _ _) rfl rfl rfl rfl

/-- `_skipped_parts` only grows -/
theorem runLoop_skipped_prefix (sat : Str → Option Bool) (sem : Env → Nat → RunPart → ExecResult × Env)
    (cfg : RunCfg) (ps : List RunPart) (s : RunState Env) (i : Nat) :
    ∃ t, (runLoop sat sem cfg s i ps).1.skipped = s.skipped ++ t := by
  induction ps generalizing s i with
  | nil => exact ⟨[], by simp [runLoop]⟩
  | cons p ps ih =>
    simp only [runLoop]
    have h := stepPart_effect sat sem cfg s i p
    cases hstep : stepPart sat sem cfg s i p with
    | «continue» s' =>
      rw [hstep] at h
      simp only
      obtain ⟨t, ht⟩ := ih s' (i + 1)
      rcases h with ⟨h1, _⟩ | ⟨h1, _⟩
      · exact ⟨[i] ++ t, by rw [ht, h1]; simp⟩
      · exact ⟨t, by rw [ht, h1]⟩
    | stop s' e =>
      rw [hstep] at h
      exact ⟨[], by simp [h.1]⟩

end Xdoc

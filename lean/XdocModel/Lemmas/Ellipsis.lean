import XdocModel.Re.Ellipsis
/-! Helper lemmas for the ellipsis matcher (C06). -/
namespace Xdoc
open Py Re

variable {α : Type} [DecidableEq α]

namespace Py

theorem dropPrefix?_eq_some {p s r : List α} : dropPrefix? p s = some r ↔ s = p ++ r := by
  induction p generalizing s with
  | nil => simp [dropPrefix?]
  | cons a p ih =>
    cases s with
    | nil => simp [dropPrefix?]
    | cons b s =>
      simp only [dropPrefix?]
      split
      · subst_vars; simp [ih]
      · simp; intro h; exact absurd h.symm ‹_›

theorem dropPrefix?_append (p r : List α) : dropPrefix? p (p ++ r) = some r :=
  dropPrefix?_eq_some.mpr rfl

theorem startsWith_iff {p s : List α} : startsWith p s = true ↔ ∃ r, s = p ++ r := by
  unfold startsWith
  constructor
  · intro h
    cases hd : dropPrefix? p s with
    | none => simp [hd] at h
    | some r => exact ⟨r, dropPrefix?_eq_some.mp hd⟩
  · rintro ⟨r, rfl⟩; simp [dropPrefix?_append]

theorem contains_iff {w s : List α} : contains w s = true ↔ ∃ x r, s = x ++ w ++ r := by
  induction s with
  | nil =>
    simp only [contains, startsWith_iff]
    constructor
    · rintro ⟨r, h⟩; exact ⟨[], r, by simpa using h⟩
    · rintro ⟨x, r, h⟩
      have : x = [] ∧ w = [] ∧ r = [] := by
        have := congrArg List.length h; simp at this
        refine ⟨?_, ?_, ?_⟩ <;> apply List.eq_nil_of_length_eq_zero <;> omega
      obtain ⟨rfl, rfl, rfl⟩ := this
      exact ⟨[], rfl⟩
  | cons c s ih =>
    simp only [contains, Bool.or_eq_true, startsWith_iff, ih]
    constructor
    · rintro (⟨r, h⟩ | ⟨x, r, h⟩)
      · exact ⟨[], r, by simpa using h⟩
      · exact ⟨c :: x, r, by simp [h]⟩
    · rintro ⟨x, r, h⟩
      cases x with
      | nil => exact Or.inl ⟨r, by simpa using h⟩
      | cons d x =>
        simp at h
        exact Or.inr ⟨x, r, by simp [h.2]⟩

end Py

namespace Re

/-- spec: `s` contains the pieces in order, non overlapping, anything in between and after -/
inductive Scattered : List (List α) → List α → Prop
  | nil (s) : Scattered [] s
  | cons (x w ws r) : Scattered ws r → Scattered (w :: ws) (x ++ w ++ r)

theorem findAfter_some {w s r : List α} (h : findAfter w s = some r) :
    ∃ x, s = x ++ w ++ r := by
  induction s with
  | nil =>
    simp only [findAfter] at h
    have := dropPrefix?_eq_some.mp h
    exact ⟨[], by simpa using this⟩
  | cons c s ih =>
    simp only [findAfter] at h
    split at h
    · rename_i r' hr
      cases h
      exact ⟨[], by simpa using dropPrefix?_eq_some.mp hr⟩
    · obtain ⟨x, hx⟩ := ih h
      exact ⟨c :: x, by simp [hx]⟩

/-- key lemma: the leftmost occurrence leaves the longest remainder: if `s = x ++ w ++ r` then
    `findAfter w s = some r'` with `r` a suffix of `r'`. -/
theorem findAfter_complete {w : List α} : ∀ (x r : List α),
    ∃ r' y, findAfter w (x ++ w ++ r) = some r' ∧ r' = y ++ r := by
  intro x
  induction x with
  | nil =>
    intro r
    cases hw : ([] ++ w ++ r) with
    | nil =>
      have : w = [] ∧ r = [] := by simpa using hw
      obtain ⟨rfl, rfl⟩ := this
      exact ⟨[], [], by simp [findAfter, dropPrefix?], rfl⟩
    | cons c s =>
      refine ⟨r, [], ?_, by simp⟩
      simp only [findAfter]
      have : dropPrefix? w (c :: s) = some r := dropPrefix?_eq_some.mpr (by simpa using hw.symm)
      simp [this]
  | cons c x ih =>
    intro r
    simp only [List.cons_append, findAfter]
    split
    · rename_i r' hr
      have h1 := dropPrefix?_eq_some.mp hr
      have hlen : r.length ≤ r'.length := by
        have := congrArg List.length h1
        simp at this; omega
      have hs : r <:+ (c :: (x ++ w ++ r)) := ⟨c :: (x ++ w), by simp⟩
      rw [h1] at hs
      have hs' : r' <:+ (w ++ r') := List.suffix_append _ _
      obtain ⟨y, hy⟩ := List.suffix_of_suffix_length_le hs hs' hlen
      exact ⟨r', y, rfl, hy.symm⟩
    · obtain ⟨r', y, h1, h2⟩ := ih r
      exact ⟨r', y, by simpa using h1, h2⟩

omit [DecidableEq α] in
theorem Scattered.prepend {ws : List (List α)} {r : List α} (y : List α)
    (h : Scattered ws r) : Scattered ws (y ++ r) := by
  cases h with
  | nil => exact .nil _
  | cons x w ws r h =>
    have : y ++ (x ++ w ++ r) = (y ++ x) ++ w ++ r := by simp
    rw [this]; exact .cons _ _ _ _ h

theorem matchMid_iff (ws : List (List α)) (s : List α) :
    matchMid ws s = true ↔ Scattered ws s := by
  induction ws generalizing s with
  | nil => simp [matchMid]; exact .nil _
  | cons w ws ih =>
    simp only [matchMid]
    constructor
    · intro h
      split at h
      · cases h
      · rename_i r hr
        obtain ⟨x, rfl⟩ := findAfter_some hr
        exact .cons _ _ _ _ ((ih r).mp h)
    · intro h
      cases h with
      | cons x w ws r h =>
        obtain ⟨r', y, h1, rfl⟩ := findAfter_complete (w := w) x r
        rw [h1]
        exact (ih _).mpr (h.prepend y)

theorem ellipsisPieces_iff (first last : List α) (mids : List (List α)) (got : List α) :
    ellipsisPieces first mids last got = true ↔
      ∃ mid, got = first ++ mid ++ last ∧ Scattered mids mid := by
  unfold ellipsisPieces
  constructor
  · intro h
    split at h
    · cases h
    · rename_i rest h1
      split at h
      · cases h
      · rename_i midRev h2
        have e1 := dropPrefix?_eq_some.mp h1
        have e2 := dropPrefix?_eq_some.mp h2
        refine ⟨midRev.reverse, ?_, (matchMid_iff _ _).mp h⟩
        have : rest = midRev.reverse ++ last := by
          have := congrArg List.reverse e2
          simpa using this
        rw [e1, this]; simp
  · rintro ⟨mid, rfl, h⟩
    have h1 : dropPrefix? first (first ++ mid ++ last) = some (mid ++ last) :=
      dropPrefix?_eq_some.mpr (by simp)
    rw [h1]
    have h2 : dropPrefix? last.reverse (mid ++ last).reverse = some mid.reverse :=
      dropPrefix?_eq_some.mpr (by simp)
    simp only [h2, List.reverse_reverse]
    exact (matchMid_iff _ _).mpr h

/-! ### the split -/

theorem splitEllipsisGo_ne_nil (fuel : Nat) (s acc : Str) : splitEllipsisGo fuel s acc ≠ [] := by
  induction fuel generalizing s acc with
  | zero => simp [splitEllipsisGo]
  | succ n ih =>
    cases s with
    | nil => simp [splitEllipsisGo]
    | cons c s =>
      simp only [splitEllipsisGo]
      split
      · simp
      · exact ih _ _

theorem sepStart_of_startsWith_dots {s : Str} (h : startsWith dots s = true) :
    (sepStart s).isSome = true := by
  obtain ⟨r, rfl⟩ := startsWith_iff.mp h
  have : (dots ++ r).dropWhile isSpace = dots ++ r := by
    simp [dots, isSpace]
  simp [sepStart, this, dropPrefix?_append]

theorem splitEllipsisGo_length_of_contains (fuel : Nat) (s acc : Str) (hf : s.length ≤ fuel)
    (h : contains dots s = true) : 2 ≤ (splitEllipsisGo fuel s acc).length := by
  induction fuel generalizing s acc with
  | zero =>
    have : s = [] := List.eq_nil_of_length_eq_zero (by omega)
    subst this
    simp [contains, startsWith, dots, dropPrefix?] at h
  | succ n ih =>
    cases s with
    | nil => simp [contains, startsWith, dots, dropPrefix?] at h
    | cons c s =>
      simp only [splitEllipsisGo]
      split
      · rename_i rest hr
        have := splitEllipsisGo_ne_nil n (rest.dropWhile isSpace) []
        have : 1 ≤ (splitEllipsisGo n (rest.dropWhile isSpace) []).length := by
          cases hh : splitEllipsisGo n (rest.dropWhile isSpace) [] with
          | nil => exact absurd hh this
          | cons _ _ => simp
        simp; omega
      · rename_i hnone
        simp only [contains, Bool.or_eq_true] at h
        rcases h with h | h
        · have := sepStart_of_startsWith_dots h
          simp [hnone] at this
        · exact ih s (c :: acc) (by simp at hf; omega) h

end Re
end Xdoc

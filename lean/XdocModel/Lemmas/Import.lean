import XdocModel.Import
/-! Helper lemmas for `Proofs/C17.lean`. -/
namespace Xdoc.Import
open Xdoc Py

theorem FS.ex_of_isFile {fs : FS} {p : Path} (h : fs.isFile p = true) : fs.ex p = true := by
  simp [FS.ex, h]

theorem FS.ex_of_isDir {fs : FS} {p : Path} (h : fs.isDir p = true) : fs.ex p = true := by
  simp [FS.ex, h]

/-! ### `_isvalid` -/

theorem isValidUp_snoc (fs : FS) (base : Path) (up : List Comp) (c : Comp) :
    isValidUp fs base (up ++ [c]) = (fs.ex (base ++ [c] ++ [initPy]) && isValidUp fs (base ++ [c]) up) := by
  induction up with
  | nil => simp [isValidUp]
  | cons d u ih =>
    simp only [List.cons_append, isValidUp, ih]
    simp [List.reverse_cons, List.append_assoc, Bool.and_left_comm]

theorem withExt_cons (c : Comp) {rest : List Comp} (h : rest ≠ []) :
    withExt (c :: rest) = c :: withExt rest := by
  cases rest with
  | nil => exact absurd rfl h
  | cons a as => rfl

theorem withExt_ne_nil (n : List Comp) : withExt n ≠ [] := by
  cases n with
  | nil => simp [withExt]
  | cons c cs => cases cs <;> simp [withExt]

theorem withExt_dropLast (n : List Comp) : (withExt n).dropLast = n.dropLast := by
  induction n with
  | nil => simp [withExt]
  | cons c cs ih =>
    cases cs with
    | nil => simp [withExt]
    | cons a as =>
      rw [withExt_cons c (by simp), List.dropLast_cons_of_ne_nil (withExt_ne_nil _),
        List.dropLast_cons_of_ne_nil (by simp), ih]

theorem isValid_withExt (fs : FS) (base : Path) (n : List Comp) :
    isValid fs base (withExt n) = isValid fs base n := by
  simp [isValid, withExt_dropLast]

theorem isValid_single (fs : FS) (base : Path) (c : Comp) : isValid fs base [c] = true := by
  simp [isValid, isValidUp]

theorem isValid_cons (fs : FS) (base : Path) (c : Comp) {rest : List Comp} (h : rest ≠ []) :
    isValid fs base (c :: rest) = (fs.ex (base ++ [c] ++ [initPy]) && isValid fs (base ++ [c]) rest) := by
  simp only [isValid, List.dropLast_cons_of_ne_nil h, List.reverse_cons, isValidUp_snoc]

/-- `_isvalid` says: every directory strictly between the entry and the module has an init -/
theorem isValidUp_iff (fs : FS) (base : Path) (dirs : List Comp) :
    isValidUp fs base dirs.reverse = true ↔
      ∀ pre suf, dirs = pre ++ suf → pre ≠ [] → fs.ex (base ++ pre ++ [initPy]) = true := by
  induction dirs generalizing base with
  | nil =>
    simp only [List.reverse_nil, isValidUp, true_iff]
    intro pre suf h hne
    have : pre = [] := by
      cases pre with
      | nil => rfl
      | cons a as => simp at h
    exact absurd this hne
  | cons c cs ih =>
    rw [List.reverse_cons, isValidUp_snoc, Bool.and_eq_true, ih]
    constructor
    · rintro ⟨h1, h2⟩ pre suf he hne
      cases pre with
      | nil => exact absurd rfl hne
      | cons a as =>
        have hac : a = c ∧ as ++ suf = cs := by simpa using he.symm
        obtain ⟨rfl, hcs⟩ := hac
        cases as with
        | nil => simpa using h1
        | cons b bs =>
          have := h2 (b :: bs) suf hcs.symm (by simp)
          simpa [List.append_assoc] using this
    · intro h
      refine ⟨?_, ?_⟩
      · have := h [c] cs rfl (by simp)
        simpa using this
      · intro pre suf he hne
        have := h (c :: pre) suf (by simp [he]) (by simp)
        simpa [List.append_assoc] using this

theorem checkDpath_cons (fs : FS) (base : Path) (c : Comp) {rest : List Comp} (h : rest ≠ []) :
    checkDpath fs base (c :: rest) =
      if fs.ex (base ++ [c] ++ [initPy]) then checkDpath fs (base ++ [c]) rest else none := by
  unfold checkDpath
  rw [isValid_withExt, isValid_withExt, isValid_cons fs base c h, withExt_cons c h]
  cases hex : fs.ex (base ++ [c] ++ [initPy]) <;> simp [List.append_assoc]

/-! ### shape of a successful resolution -/

theorem checkDpath_some {fs : FS} {base : Path} {n : List Comp} {p : Path}
    (h : checkDpath fs base n = some p) :
    (p = base ++ n ∧ fs.ex (base ++ n) = true ∧ fs.isFile (base ++ n ++ [initPy]) = true ∧
        isValid fs base n = true) ∨
    (p = base ++ withExt n ∧ fs.isFile (base ++ withExt n) = true ∧ isValid fs base n = true) := by
  unfold checkDpath at h
  split at h
  · rename_i h1
    simp only [Bool.and_eq_true] at h1
    left
    exact ⟨(Option.some.inj h).symm, h1.1.1, h1.1.2, h1.2⟩
  · split at h
    · rename_i _ h2
      simp only [Bool.and_eq_true, isValid_withExt] at h2
      right
      exact ⟨(Option.some.inj h).symm, h2.1, h2.2⟩
    · cases h

/-! ### `split_modpath` -/

/-- every non-empty prefix of `climbed`, appended to `d`, is a directory with an init -/
def AllInits (fs : FS) (d : Path) (climbed : List Comp) : Prop :=
  ∀ pre suf, climbed = pre ++ suf → pre ≠ [] → fs.ex (d ++ pre ++ [initPy]) = true

theorem walkUp_spec (fs : FS) (revDir : List Comp) (rel : List Comp) (d : Path) (rel' : List Comp)
    (h : walkUp fs revDir rel = .ok (d, rel')) :
    fs.ex (d ++ [initPy]) = false ∧
      ∃ climbed, rel' = climbed ++ rel ∧ revDir.reverse = d ++ climbed ∧ AllInits fs d climbed := by
  induction revDir generalizing rel with
  | nil =>
    unfold walkUp at h
    split at h
    · cases h
    · rename_i hex
      have hd : d = [] ∧ rel' = rel := by
        have := Except.ok.inj h
        simpa [eq_comm] using this
      obtain ⟨rfl, rfl⟩ := hd
      refine ⟨by simpa using hex, [], by simp, by simp, ?_⟩
      intro pre suf he hne
      cases pre with
      | nil => exact absurd rfl hne
      | cons a as => simp at he
  | cons x up ih =>
    unfold walkUp at h
    split at h
    · rename_i hex
      obtain ⟨hno, cl, hrel, hrev, hall⟩ := ih (x :: rel) h
      refine ⟨hno, cl ++ [x], by simp [hrel], by simp [List.reverse_cons, hrev], ?_⟩
      intro pre suf he hne
      rcases List.eq_nil_or_concat suf with rfl | ⟨s', y, rfl⟩
      · have hp : pre = cl ++ [x] := by simpa using he.symm
        subst hp
        have : d ++ (cl ++ [x]) = (x :: up).reverse := by
          simp [List.reverse_cons, hrev]
        rw [this]; exact hex
      · have he' : cl ++ [x] = (pre ++ s') ++ [y] := by simpa [List.append_assoc] using he
        have := List.append_inj' he' rfl
        exact hall pre s' this.1 hne
    · rename_i hex
      have hd : d = (x :: up).reverse ∧ rel' = rel := by
        have := Except.ok.inj h
        simpa [eq_comm] using this
      obtain ⟨rfl, rfl⟩ := hd
      refine ⟨by simpa using hex, [], by simp, by simp, ?_⟩
      intro pre suf he hne
      cases pre with
      | nil => exact absurd rfl hne
      | cons a as => simp at he

/-- climbing a chain of inits that ends at a directory without one -/
theorem walkUp_chain (fs : FS) (base : Path) (up rel : List Comp)
    (hv : isValidUp fs base up = true) (hb : fs.ex (base ++ [initPy]) = false) :
    walkUp fs (up ++ base.reverse) rel = .ok (base, up.reverse ++ rel) := by
  induction up generalizing rel with
  | nil =>
    simp only [List.nil_append, List.reverse_nil]
    cases hbr : base.reverse with
    | nil =>
      have : base = [] := by simpa using hbr
      subst this
      simp [walkUp, show fs.ex [initPy] = false by simpa using hb]
    | cons d u =>
      have hb' : (d :: u).reverse = base := by rw [← hbr]; simp
      unfold walkUp
      simp [hb', hb]
  | cons d u ih =>
    simp only [isValidUp, Bool.and_eq_true] at hv
    have hrev : (d :: (u ++ base.reverse)).reverse = base ++ (d :: u).reverse := by simp
    simp only [List.cons_append]
    unfold walkUp
    rw [hrev, hv.1]
    simp only [↓reduceIte]
    rw [ih (d :: rel) hv.2]
    simp

/-! ### the string pipeline of `modpath_to_modname` -/

theorem splitLastSlash_noSlash (b : Str) (h : '/' ∉ b) : splitLastSlash b = ([], b) := by
  induction b with
  | nil => rfl
  | cons c s ih =>
    have hc : c ≠ '/' := fun e => h (by simp [e])
    have hs : '/' ∉ s := fun e => h (by simp [e])
    simp [splitLastSlash, ih hs, hc]

theorem splitLastSlash_slash (J : Str) :
    splitLastSlash ('/' :: J) = ('/' :: (splitLastSlash J).1, (splitLastSlash J).2) := by
  rw [splitLastSlash]
  rcases hJ : splitLastSlash J with ⟨x, b⟩
  cases x <;> simp

theorem splitLastSlash_prefix (d J : Str) :
    splitLastSlash (d ++ '/' :: J) = (d ++ '/' :: (splitLastSlash J).1, (splitLastSlash J).2) := by
  induction d with
  | nil => simpa using splitLastSlash_slash J
  | cons c d' ih =>
    simp only [List.cons_append]
    rw [splitLastSlash, ih]
    cases d' <;> simp

theorem splitextStem_prefix (d J : Str) :
    splitextStem (d ++ '/' :: J) = d ++ '/' :: splitextStem J := by
  simp [splitextStem, splitLastSlash_prefix]

theorem beforeLastDot_none (c : Str) (h : '.' ∉ c) : beforeLastDot c = none := by
  induction c with
  | nil => rfl
  | cons a s ih =>
    have ha : a ≠ '.' := fun e => h (by simp [e])
    have hs : '.' ∉ s := fun e => h (by simp [e])
    simp [beforeLastDot, ih hs, ha]

theorem beforeLastDot_ext (c : Str) (h : '.' ∉ c) : beforeLastDot (c ++ dotPy) = some c := by
  induction c with
  | nil => decide
  | cons a s ih =>
    have hs : '.' ∉ s := fun e => h (by simp [e])
    simp [beforeLastDot, ih hs]

theorem stemOfBase_noDot (c : Str) (h : '.' ∉ c) : stemOfBase c = c := by
  have : '.' ∉ c.dropWhile (· == '.') := fun e => h ((List.dropWhile_sublist _).subset e)
  simp [stemOfBase, beforeLastDot_none _ this]

theorem stemOfBase_ext (c : Str) (h : '.' ∉ c) (hne : c ≠ []) : stemOfBase (c ++ dotPy) = c := by
  cases c with
  | nil => exact absurd rfl hne
  | cons a s =>
    have ha : a ≠ '.' := fun e => h (by simp [e])
    have hd : ((a :: s) ++ dotPy).dropWhile (· == '.') = (a :: s) ++ dotPy := by
      simp [ha]
    have ht : ((a :: s) ++ dotPy).takeWhile (· == '.') = [] := by
      simp [ha]
    simp only [stemOfBase, hd, ht, beforeLastDot_ext _ h, List.nil_append]

/-- a legal module-name component: non-empty, no `.`, no path separator -/
def CompOK (c : Comp) : Prop := c ≠ [] ∧ '.' ∉ c ∧ '/' ∉ c ∧ '\\' ∉ c

theorem joinWith_cons_ne {α : Type} (sep x : List α) {rest : List (List α)} (h : rest ≠ []) :
    joinWith sep (x :: rest) = x ++ sep ++ joinWith sep rest := by
  cases rest with
  | nil => exact absurd rfl h
  | cons y ys => rfl

theorem joinWith_single {α : Type} (sep x : List α) : joinWith sep [x] = x := rfl

/-- `splitext` of `d₁/…/dₖ/leaf<ext>` only touches the leaf -/
theorem splitextStem_joinSlash (dirs : List Comp) (leaf leaf' : Comp)
    (hd : ∀ c ∈ dirs, '/' ∉ c) (hl : '/' ∉ leaf) (hs : stemOfBase leaf = leaf') :
    splitextStem (joinSlash (dirs ++ [leaf])) = joinSlash (dirs ++ [leaf']) := by
  induction dirs with
  | nil =>
    simp [joinSlash, joinWith_single, splitextStem, splitLastSlash_noSlash _ hl, hs]
  | cons d ds ih =>
    have hne : ds ++ [leaf] ≠ [] := by simp
    have hne' : ds ++ [leaf'] ≠ [] := by simp
    simp only [joinSlash, List.cons_append] at ih ⊢
    rw [joinWith_cons_ne _ _ hne, joinWith_cons_ne _ _ hne']
    simp only [List.append_assoc, List.singleton_append]
    rw [splitextStem_prefix, ih (fun c hc => hd c (by simp [hc]))]

theorem mem_joinWith {sep : Char} {parts : List Str} {x : Char} (h : x ∈ joinWith [sep] parts) :
    x = sep ∨ ∃ c ∈ parts, x ∈ c := by
  induction parts with
  | nil => simp [joinWith] at h
  | cons p ps ih =>
    cases ps with
    | nil => right; exact ⟨p, by simp, by simpa [joinWith] using h⟩
    | cons q qs =>
      rw [joinWith_cons_ne _ _ (by simp)] at h
      simp only [List.append_assoc, List.mem_append, List.mem_singleton] at h
      rcases h with h | h | h
      · right; exact ⟨p, by simp, h⟩
      · left; exact h
      · rcases ih h with h' | ⟨c, hc, hx⟩
        · left; exact h'
        · right; exact ⟨c, by simp [hc], hx⟩

theorem map_joinSlash (f : Char → Char) (hf : f '/' = '.') (parts : List Comp)
    (hid : ∀ c ∈ parts, c.map f = c) :
    (joinSlash parts).map f = dotted parts := by
  induction parts with
  | nil => rfl
  | cons p ps ih =>
    cases ps with
    | nil => simpa [joinSlash, dotted, joinWith] using hid p (by simp)
    | cons q qs =>
      simp only [joinSlash, dotted] at ih ⊢
      rw [joinWith_cons_ne ['/'] p (rest := q :: qs) (by simp),
        joinWith_cons_ne ['.'] p (rest := q :: qs) (by simp)]
      simp only [List.map_append, List.map_cons, List.map_nil, hf]
      rw [hid p (by simp), ih (fun c hc => hid c (by simp [hc]))]

theorem takeWhile_all {α : Type} (p : α → Bool) (l : List α) (h : ∀ x ∈ l, p x = true) :
    l.takeWhile p = l := by
  induction l with
  | nil => rfl
  | cons a as ih =>
    simp [List.takeWhile, h a (by simp), ih (fun x hx => h x (by simp [hx]))]

theorem map_id_of {α : Type} (f : α → α) (l : List α) (h : ∀ x ∈ l, f x = x) : l.map f = l := by
  induction l with
  | nil => rfl
  | cons a as ih => simp [h a (by simp), ih (fun x hx => h x (by simp [hx]))]

/-- the string pipeline gives back the dotted name: `a/b/c.py ↦ a.b.c` and `a/b/c ↦ a.b.c` -/
theorem relToModname_joinSlash (dirs : List Comp) (leaf leaf' : Comp)
    (hd : ∀ c ∈ dirs, CompOK c) (hl : '/' ∉ leaf) (hok : CompOK leaf')
    (hs : stemOfBase leaf = leaf') :
    relToModname (joinSlash (dirs ++ [leaf])) = dotted (dirs ++ [leaf']) := by
  unfold relToModname
  rw [splitextStem_joinSlash dirs leaf leaf' (fun c hc => (hd c hc).2.2.1) hl hs]
  have hall : ∀ c ∈ dirs ++ [leaf'], CompOK c := by
    intro c hc
    rcases List.mem_append.mp hc with h | h
    · exact hd c h
    · have : c = leaf' := by simpa using h
      exact this ▸ hok
  have hnodot : ∀ x ∈ joinSlash (dirs ++ [leaf']), (x != '.') = true := by
    intro x hx
    rcases mem_joinWith hx with rfl | ⟨c, hc, hxc⟩
    · decide
    · have := (hall c hc).2.1
      simp only [bne_iff_ne, ne_eq]
      rintro rfl
      exact this hxc
  rw [takeWhile_all _ _ hnodot]
  apply map_joinSlash
  · decide
  · intro c hc
    have hok := hall c hc
    apply map_id_of
    intro x hx
    have h1 : x ≠ '/' := fun e => hok.2.2.1 (e ▸ hx)
    have h2 : x ≠ '\\' := fun e => hok.2.2.2 (e ▸ hx)
    simp [h1, h2]

/-! ### well-formed file systems, names -/

/-- facts true of every real file system: nothing is both a file and a directory, and whatever
    exists lives in a directory (so a file has no children) -/
structure FS.WF (fs : FS) : Prop where
  file_not_dir : ∀ p, fs.isFile p = true → fs.isDir p = false
  parent_dir : ∀ p c, fs.ex (p ++ [c]) = true → fs.isDir p = true

/-- no DIRECTORY is named `__init__.py` -/
def NoInitDir (fs : FS) : Prop := ∀ p, fs.isDir (p ++ [initPy]) = false

theorem NoInitDir.ex_eq {fs : FS} (h : NoInitDir fs) (p : Path) :
    fs.ex (p ++ [initPy]) = fs.isFile (p ++ [initPy]) := by
  simp [FS.ex, h p]

/-- every component of the dotted name is a legal identifier-like component -/
def NameOK (n : List Comp) : Prop := ∀ c ∈ n, CompOK c

def initName : Comp := ['_', '_', 'i', 'n', 'i', 't', '_', '_']

/-- decidable well-formedness check of a listing -/
def wfCheck (files dirs : List Path) : Bool :=
  files.all (fun p => !dirs.contains p) &&
  (files ++ dirs).all (fun p => p.isEmpty || dirs.contains p.dropLast)

theorem wf_ofLists (files dirs : List Path) (h : wfCheck files dirs = true) :
    FS.WF (FS.ofLists files dirs) := by
  simp only [wfCheck, Bool.and_eq_true, List.all_eq_true, Bool.not_eq_eq_eq_not, Bool.not_true,
    Bool.or_eq_true] at h
  constructor
  · intro p hp
    simp only [FS.ofLists] at hp ⊢
    exact h.1 p (by simpa using hp)
  · intro p c hex
    simp only [FS.ofLists, FS.ex, Bool.or_eq_true] at hex ⊢
    have hmem : p ++ [c] ∈ files ++ dirs := by
      rcases hex with h' | h'
      · exact List.mem_append_left _ (by simpa using h')
      · exact List.mem_append_right _ (by simpa using h')
    rcases h.2 _ hmem with h' | h'
    · simp at h'
    · simpa using h'

def noInitDirCheck (dirs : List Path) : Bool := dirs.all (fun p => p.getLast? != some initPy)

theorem noInitDir_ofLists (files dirs : List Path) (h : noInitDirCheck dirs = true) :
    NoInitDir (FS.ofLists files dirs) := by
  intro p
  simp only [noInitDirCheck, List.all_eq_true] at h
  simp only [FS.ofLists]
  cases hc : dirs.contains (p ++ [initPy]) with
  | false => rfl
  | true =>
    have := h _ (by simpa using hc)
    simp at this

/-! ### normalisation is the identity on what the search returns (default flags) -/

theorem normalize_default_id (fs : FS) (p : Path) (h : p.getLast? ≠ some initPy) :
    normalizeModpath fs p = p := by
  simp [normalizeModpath, h]

theorem withExt_concat (dirs : List Comp) (leaf : Comp) :
    withExt (dirs ++ [leaf]) = dirs ++ [leaf ++ dotPy] := by
  induction dirs with
  | nil => rfl
  | cons d ds ih =>
    rw [List.cons_append, withExt_cons d (by simp), ih, List.cons_append]

/-- `modpath_to_modname` on a path whose directories below `base` all hold an init, `base` not -/
theorem modpathToModname_of_chain (fs : FS) (base : Path) (dirs : List Comp) (f : Comp)
    (hex : fs.ex (base ++ dirs ++ [f]) = true)
    (hdir : fs.isDir (base ++ dirs ++ [f]) = true → fs.ex (base ++ dirs ++ [f] ++ [initPy]) = true)
    (hf : f ≠ initPy)
    (hv : isValidUp fs base dirs.reverse = true) (hb : fs.ex (base ++ [initPy]) = false) :
    modpathToModname fs (base ++ dirs ++ [f]) = .ok (relToModname (joinSlash (dirs ++ [f]))) := by
  have hlast : (base ++ dirs ++ [f]).getLast? ≠ some initPy := by
    simp [List.getLast?_append, hf]
  have hsplit : splitModpath fs (base ++ dirs ++ [f]) true = .ok (base, dirs ++ [f]) := by
    unfold splitModpath
    have hd : (fs.isDir (base ++ dirs ++ [f]) && !fs.ex (base ++ dirs ++ [f] ++ [initPy])) = false := by
      cases hq : fs.isDir (base ++ dirs ++ [f]) with
      | false => rfl
      | true => rw [hdir hq]; rfl
    simp only [hex, Bool.not_true, Bool.and_false, Bool.false_eq_true, ↓reduceIte, Bool.true_and, hd]
    have hr : (base ++ dirs ++ [f]).reverse = f :: (dirs.reverse ++ base.reverse) := by simp
    rw [hr]
    simp only
    rw [walkUp_chain fs base dirs.reverse [f] hv hb]
    simp
  unfold modpathToModname
  rw [normalize_default_id fs _ hlast, hsplit]
  simp only [hex, Bool.not_true, Bool.and_false, Bool.false_eq_true, ↓reduceIte]

/-! ### `relativeto` -/

theorem relpath_append (base r : Path) : relpath (base ++ r) base = r := by
  induction base with
  | nil => cases r <;> simp [relpath]
  | cons b bs ih => simp [relpath, ih]

end Xdoc.Import

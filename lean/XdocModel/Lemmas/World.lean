import XdocModel.World
/-! Helper lemmas about `runDoc` / `execHist` (world model, C11). -/
namespace Xdoc
open Py

variable {P : Prog} {sat : Str → Option Bool} {sem : Sem}

/-! ## what `runDoc` never touches -/

theorem runDoc_template (w : World) (i : Nat) (oe : OnError) :
    (runDoc P sat sem w i oe).1.template = w.template := by
  unfold runDoc; split <;> rfl

theorem runDoc_moduleGlobals (w : World) (i : Nat) (oe : OnError) :
    (runDoc P sat sem w i oe).1.moduleGlobals = w.moduleGlobals := by
  unfold runDoc; split <;> rfl

theorem runDoc_docs_length (w : World) (i : Nat) (oe : OnError) :
    (runDoc P sat sem w i oe).1.docs.length = w.docs.length := by
  unfold runDoc; split <;> simp

/-- a run replaces the persisted fields of its own object only -/
theorem runDoc_docs_other (w : World) (i j : Nat) (oe : OnError) (h : j ≠ i) :
    (runDoc P sat sem w i oe).1.docs[j]? = w.docs[j]? := by
  unfold runDoc; split
  · simp [List.getElem?_set_ne (Ne.symm h)]
  · rfl

theorem execHist_template (w : World) (h : History) :
    (execHist P sat sem w h).template = w.template := by
  induction h generalizing w with
  | nil => rfl
  | cons s h ih => obtain ⟨i, oe⟩ := s; simp only [execHist]; rw [ih, runDoc_template]

theorem execHist_moduleGlobals (w : World) (h : History) :
    (execHist P sat sem w h).moduleGlobals = w.moduleGlobals := by
  induction h generalizing w with
  | nil => rfl
  | cons s h ih => obtain ⟨i, oe⟩ := s; simp only [execHist]; rw [ih, runDoc_moduleGlobals]

theorem execHist_docs_length (w : World) (h : History) :
    (execHist P sat sem w h).docs.length = w.docs.length := by
  induction h generalizing w with
  | nil => rfl
  | cons s h ih => obtain ⟨i, oe⟩ := s; simp only [execHist]; rw [ih, runDoc_docs_length]

/-! ## a failed pre-import leaves the namespace untouched -/

section ImportFailure
variable {sem1 : NS → Nat → RunPart → ExecResult × NS} {cfg : RunCfg}

theorem decideExec_not_import {f : Flags} {iw : Bool} {want : Option Str} {unm : List Str}
    {r : ExecResult} {ex : Bool} {out : Str} {k : FailKind} {tb : Nat}
    (h : decideExec f iw want unm r = .halt ex out (some (k, tb))) : k ≠ .importError := by
  intro hk; subst hk
  unfold decideExec at h
  split at h
  all_goals (try (simp at h; done))
  all_goals (repeat' split at h)
  all_goals (try (simp at h))

theorem applyAct_stop_import {s s' : RunState NS} {i : Nat} {env' : NS} {a : Act} {e : RunEnd}
    (h : applyAct cfg s i env' a = .stop s' e) (hs : s.failure = none)
    (hfl : isImportFailure s'.failure = true) :
    ∃ ex out tb, a = .halt ex out (some (.importError, tb)) := by
  cases a with
  | skip => simp [applyAct] at h
  | ran out u => simp [applyAct] at h
  | escape out =>
    simp [applyAct] at h
    obtain ⟨rfl, _⟩ := h
    simp [isImportFailure, hs] at hfl
  | halt ex out fl =>
    cases fl with
    | none =>
      simp only [applyAct] at h
      cases ex <;> simp at h <;> obtain ⟨rfl, _⟩ := h <;> simp [isImportFailure, hs] at hfl
    | some kt =>
      obtain ⟨k, tb⟩ := kt
      simp only [applyAct] at h
      cases ex <;> simp at h <;> obtain ⟨rfl, _⟩ := h <;>
        (simp [isImportFailure] at hfl; subst hfl; exact ⟨_, _, _, rfl⟩)

theorem stepPart_stop_import {s s' : RunState NS} {i : Nat} {p : RunPart} {e : RunEnd}
    (h : stepPart sat sem1 cfg s i p = .stop s' e) (hs : s.failure = none)
    (hfl : isImportFailure s'.failure = true) : s'.didImport = false := by
  unfold stepPart at h
  split at h
  · obtain ⟨ex, out, tb, ha⟩ := applyAct_stop_import h hs hfl; simp at ha
  · simp [applyAct] at h
  · rename_i rs hpre
    -- the import is attempted only while `didImport` is still false
    have hd : s.didImport = false := by
      unfold preStage at hpre
      split at hpre
      · simp at hpre
      · split at hpre
        · simp at hpre
        · split at hpre
          · simp at hpre
          · split at hpre
            · rename_i hc; simp at hc; exact hc.1
            · simp at hpre
    simp [applyAct] at h
    obtain ⟨rfl, _⟩ := h
    exact hd
  · obtain ⟨ex, out, tb, ha⟩ := applyAct_stop_import h (by simpa using hs) hfl
    exact absurd rfl (decideExec_not_import ha)

theorem runLoop_import_didImport (ps : List RunPart) (s : RunState NS) (i : Nat)
    (hs : s.failure = none)
    (hfl : isImportFailure (runLoop sat sem1 cfg s i ps).1.failure = true) :
    (runLoop sat sem1 cfg s i ps).1.didImport = false := by
  induction ps generalizing s i with
  | nil => simp [runLoop, isImportFailure, hs] at hfl
  | cons p ps ih =>
    simp only [runLoop] at hfl ⊢
    cases hstep : stepPart sat sem1 cfg s i p with
    | «continue» s' =>
      rw [hstep] at hfl
      simp only at hfl ⊢
      have c := stepPart_continue hstep
      exact ih s' (i + 1) (c.failure ▸ hs) hfl
    | stop s' e =>
      rw [hstep] at hfl
      simp only at hfl ⊢
      exact stepPart_stop_import hstep hs hfl

end ImportFailure

/-! ## the native discipline leaves the namespace empty -/

/-- under `on_error='return'`, native mode, and the CPython fact that raised exceptions carry a
    doctest frame, a run that started with an empty `global_namespace` leaves it empty, and ends
    by returning -/
theorem runCore_clean (sem1 : NS → Nat → RunPart → ExecResult × NS) (d : DocDef) (t : Template)
    (mg : NS) (hnat : d.pytestMode = false)
    (hframe : ∀ env i p o l, (sem1 env i p).1 ≠ .raised o l none) :
    (runCore sat sem1 d .ret t mg []).1.ns = [] ∧ (runCore sat sem1 d .ret t mg []).2.ending = .returned := by
  have r := runLoop_result sat sem1 (cfgOf d .ret) d.parts (startState d t mg []) 0
    (loopInv_init _ _)
  have himp := runLoop_import_didImport (sat := sat) (sem1 := sem1) (cfg := cfgOf d .ret)
    d.parts (startState d t mg []) 0 rfl
  simp only [Nat.zero_add] at r
  -- the ending is `returned`
  have hend : endingOf d.pytestMode d.parts.length
      (runLoop sat sem1 (cfgOf d .ret) (startState d t mg []) 0 d.parts).1
      (runLoop sat sem1 (cfgOf d .ret) (startState d t mg []) 0 d.parts).2 = .returned := by
    cases he : (runLoop sat sem1 (cfgOf d .ret) (startState d t mg []) 0 d.parts).2 with
    | none => simp [endingOf, hnat]
    | some e =>
      simp only [endingOf]
      rcases r.ending e he with ⟨h, _⟩ | ⟨h, _⟩ | ⟨fl, _, h, _⟩
      · exact h
      · subst h
        obtain ⟨env, i, p, o, l, h⟩ := r.escaped he
        exact absurd h (hframe env i p o l)
      · simp [cfgOf] at h
  refine ⟨?_, ?_⟩
  · simp only [runCore, nsAfter, hend]
    split
    · rename_i hi
      rw [himp hi]; rfl
    · rfl
  · simp only [runCore, hend]

end Xdoc

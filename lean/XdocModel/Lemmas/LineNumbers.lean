import XdocModel.Lemmas.Ellipsis
import XdocModel.Lemmas.Google
import XdocModel.CoreCollect
import XdocModel.Static
/-!
# Lemmas for the line-number arithmetic (C08): dedent keeps every line in place, the freeform
# `curr_offset` is the offset of the first kept part
-/
namespace Xdoc
open Py Google Core

namespace Py

/-- every line of the dedented text is a suffix of the line at the same index (an emptied
    whitespace-only line is the empty suffix) -/
theorem dedentLines_suffix (ls : List Str) (i : Nat) (l' : Str) (h : (dedentLines ls)[i]? = some l') :
    ∃ l, ls[i]? = some l ∧ l' <:+ l := by
  unfold dedentLines at h
  simp only at h
  have norm : ∀ (l : Str), (if l.all isBlank then [] else l) <:+ l := by
    intro l; split
    · exact List.nil_suffix
    · exact List.suffix_refl l
  have strip : ∀ (m l : Str), (dropPrefix? m l).getD l <:+ l := by
    intro m l
    cases hd : dropPrefix? m l with
    | none => exact List.suffix_refl l
    | some r =>
      rw [dropPrefix?_eq_some.mp hd]
      exact List.suffix_append m r
  split at h
  · simp only [List.getElem?_map, Option.map_eq_some_iff] at h
    obtain ⟨l, hl, rfl⟩ := h
    exact ⟨l, hl, norm l⟩
  · simp only [List.getElem?_map, Option.map_eq_some_iff] at h
    obtain ⟨l1, ⟨l, hl, rfl⟩, rfl⟩ := h
    exact ⟨l, hl, List.IsSuffix.trans (strip _ _) (norm l)⟩

end Py

namespace Google

/-- from the second line on, a prepared line is a suffix of the raw docstring line at the same
    index (the first line may have been padded before the second dedent) -/
theorem prepLines_suffix (docstr : Str) (i : Nat) (l' : Str) (hi : 0 < i)
    (h : (prepLines docstr)[i]? = some l') :
    ∃ l, (splitOn '\n' docstr)[i]? = some l ∧ l' <:+ l := by
  unfold prepLines at h
  simp only at h
  split at h
  · rename_i l0 l1 rest heq
    split at h
    · split at h
      · obtain ⟨l, hl, hs⟩ := dedentLines_suffix _ i l' h
        cases i with
        | zero => omega
        | succ j =>
          simp only [List.getElem?_cons_succ] at hl
          have hl' : (dedentLines (splitOn '\n' docstr))[j + 1]? = some l := by
            rw [heq]; simpa using hl
          obtain ⟨l2, hl2, hs2⟩ := dedentLines_suffix _ _ _ hl'
          exact ⟨l2, hl2, hs.trans hs2⟩
      · exact dedentLines_suffix _ i l' h
    · exact dedentLines_suffix _ i l' h
  · exact dedentLines_suffix _ i l' h

end Google

namespace Core

/-- number of lines a piece occupies in the docstring (as the freeform loop counts them) -/
def pieceSize : FPiece → Nat
  | .text s => countChar '\n' s + 1
  | .part p => p.nLines

/-- the parser's output tiles the docstring: every part's `line_offset` is the number of lines of
    all pieces before it (theorem `parse_partition` of C13 for the real parser) -/
def Tiled : Nat → List FPiece → Prop
  | _, [] => True
  | off, .text s :: r => Tiled (off + pieceSize (.text s)) r
  | off, .part p :: r => p.lineOffset = off ∧ Tiled (off + p.nLines) r

/-- loop invariant of `parse_freeform_docstr_examples` -/
def FInv (st : FState) (off : Nat) : Prop :=
  (st.curParts = [] → st.currOffset = off) ∧
  (∀ p0, st.curParts.head? = some p0 → st.currOffset = p0.lineOffset) ∧
  (∀ p ∈ st.curParts, ∀ p0, st.curParts.head? = some p0 → p0.lineOffset ≤ p.lineOffset) ∧
  (∀ p ∈ st.curParts, p.lineOffset < off ∨ p.nLines = 0 ∧ p.lineOffset ≤ off)

theorem finv_fold (ps : List FPiece) (st : FState) (off : Nat) (hi : FInv st off) (ht : Tiled off ps) :
    ∃ off', FInv (ps.foldl fstep st) off' := by
  induction ps generalizing st off with
  | nil => exact ⟨off, hi⟩
  | cons x r ih =>
    obtain ⟨h1, h2, h3, h4⟩ := hi
    cases x with
    | text s =>
      simp only [Tiled] at ht
      refine ih _ _ ?_ ht
      refine ⟨?_, ?_, ?_, ?_⟩
      · intro hc; simp only [fstep] at hc ⊢; simp [hc, h1 hc, pieceSize]
      · intro p0 hp
        simp only [fstep] at hp ⊢
        have : st.curParts ≠ [] := by intro e; simp [e] at hp
        simp [this, h2 p0 hp]
      · intro p hp p0 hp0; exact h3 p hp p0 hp0
      · intro p hp
        rcases h4 p hp with h | ⟨ha, hb⟩
        · left; simp only [pieceSize]; omega
        · left; simp only [pieceSize]; omega
    | part p =>
      simp only [Tiled] at ht
      obtain ⟨hp, ht⟩ := ht
      refine ih _ _ ?_ ht
      simp only [fstep]
      split
      · refine ⟨?_, ?_, ?_, ?_⟩
        · intro hc; simp only at hc ⊢; simp [hc, h1 hc]
        · intro p0 hp0
          simp only at hp0 ⊢
          have : st.curParts ≠ [] := by intro e; simp [e] at hp0
          simp [this, h2 p0 hp0]
        · intro q hq p0 hp0; exact h3 q hq p0 hp0
        · intro q hq
          rcases h4 q hq with h | ⟨ha, hb⟩
          · left; omega
          · right; exact ⟨ha, by omega⟩
      · refine ⟨?_, ?_, ?_, ?_⟩
        · intro hc; simp at hc
        · intro p0 hp0
          simp only at hp0 ⊢
          cases hcp : st.curParts with
          | nil =>
            rw [hcp] at hp0; simp at hp0; subst hp0
            rw [h1 hcp, hp]
          | cons a as =>
            rw [hcp] at hp0; simp at hp0; subst hp0
            exact h2 _ (by rw [hcp]; rfl)
        · intro q hq p0 hp0
          simp only at hq hp0
          cases hcp : st.curParts with
          | nil =>
            rw [hcp] at hq hp0; simp at hq hp0; subst hq; subst hp0; exact Nat.le_refl _
          | cons a as =>
            rw [hcp] at hq hp0
            simp only [List.cons_append, List.head?_cons, Option.some.injEq] at hp0
            subst hp0
            rcases List.mem_append.mp hq with hq | hq
            · exact h3 q (by rw [hcp]; exact hq) _ (by rw [hcp]; rfl)
            · have hqp : q = p := by simpa using hq
              have := h4 a (by rw [hcp]; simp)
              rw [hqp]; omega
        · intro q hq
          simp only at hq
          rcases List.mem_append.mp hq with hq | hq
          · rcases h4 q hq with h | ⟨ha, hb⟩
            · left; omega
            · right; exact ⟨ha, by omega⟩
          · simp at hq; subst hq
            by_cases hz : q.nLines = 0
            · right; exact ⟨hz, by omega⟩
            · left; omega

end Core
end Xdoc

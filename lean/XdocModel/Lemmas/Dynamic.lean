import XdocModel.Dynamic
import XdocModel.Lemmas.Static
/-!
# Lemmas for C16: dict assignment, the static inventory and the dynamic walk produce the same pairs
-/
namespace Xdoc.Dynamic
open Xdoc Py Static

/-- `(callname, docstr)` of every calldef -/
def pairs (l : List CallDef) : List (Str × Option Str) := l.map fun c => (c.callname, c.doc)

@[simp] theorem pairs_nil : pairs [] = [] := rfl
@[simp] theorem pairs_cons (c : CallDef) (l : List CallDef) : pairs (c :: l) = (c.callname, c.doc) :: pairs l := rfl
@[simp] theorem pairs_append (a b : List CallDef) : pairs (a ++ b) = pairs a ++ pairs b := by simp [pairs]

theorem dictSet_of_not_mem {β : Type} {k : Str} {v : β} {acc : List (Str × β)} (h : k ∉ acc.map (·.1)) :
    dictSet k v acc = acc ++ [(k, v)] := by
  induction acc with
  | nil => rfl
  | cons x xs ih =>
    obtain ⟨k', v'⟩ := x
    simp only [List.map_cons, List.mem_cons, not_or] at h
    have : ¬ k' = k := fun e => h.1 e.symm
    simp [dictSet, this, ih h.2]

theorem setAll_of_nodup {β : Type} {l acc : List (Str × β)} (h : (acc.map (·.1) ++ l.map (·.1)).Nodup) :
    setAll l acc = acc ++ l := by
  induction l generalizing acc with
  | nil => simp [setAll]
  | cons x l ih =>
    obtain ⟨k, v⟩ := x
    have hk : k ∉ acc.map (·.1) := by
      intro hm
      exact (List.nodup_append.mp h).2.2 _ hm k (by simp) rfl
    have : setAll ((k, v) :: l) acc = setAll l (dictSet k v acc) := rfl
    rw [this, dictSet_of_not_mem hk, ih]
    · simp
    · simpa [List.append_assoc] using h

theorem pairs_insert (cd : CallDef) (acc : List CallDef) :
    pairs (insert cd acc) = dictSet cd.callname cd.doc (pairs acc) := by
  induction acc with
  | nil => rfl
  | cons x xs ih =>
    simp only [Static.insert, pairs_cons, dictSet]
    by_cases hx : x.callname = cd.callname <;> simp [hx, ih]

theorem pairs_insertAll (l acc : List CallDef) :
    pairs (insertAll l acc) = setAll (pairs l) (pairs acc) := by
  induction l generalizing acc with
  | nil => rfl
  | cons cd l ih =>
    rw [insertAll_cons, ih, pairs_insert]; rfl

theorem noDefs_nothing (loc : Locator) (modname other : Str) (t : Tree) (h : noDefs t = true) :
    topLevel loc t = [] ∧ (∀ c, methodsOf loc c t = []) ∧ bindsTop modname other t = [] ∧
      bindsCls modname other t = [] := by
  induction t with
  | done => simp [topLevel, methodsOf, bindsTop, bindsCls]
  | func => simp [noDefs] at h
  | cls => simp [noDefs] at h
  | imp => simp [noDefs] at h
  | alias => simp [noDefs] at h
  | ifs test r1 r2 body orelse next ihb iho ihn =>
    simp only [noDefs, Bool.and_eq_true] at h
    obtain ⟨b1, b2, b3, b4⟩ := ihb h.1.1
    obtain ⟨o1, o2, o3, o4⟩ := iho h.1.2
    obtain ⟨n1, n2, n3, n4⟩ := ihn h.2
    simp [topLevel, methodsOf, bindsTop, bindsCls, b1, b2, b3, b4, o1, o2, o3, o4, n1, n2, n3, n4]
  | comp r body next ihb ihn =>
    simp only [noDefs, Bool.and_eq_true] at h
    obtain ⟨b1, b2, b3, b4⟩ := ihb h.1
    obtain ⟨n1, n2, n3, n4⟩ := ihn h.2
    simp [topLevel, methodsOf, bindsTop, bindsCls, b1, b2, b3, b4, n1, n2, n3, n4]
  | other next ihn =>
    simp only [noDefs] at h
    obtain ⟨n1, n2, n3, n4⟩ := ihn h
    simp [topLevel, methodsOf, bindsTop, bindsCls, n1, n2, n3, n4]

theorem noDefs_noAlias (t : Tree) (h : noDefs t = true) : aliasesOf t = [] := by
  induction t with
  | done => rfl
  | func => simp [noDefs] at h
  | cls => simp [noDefs] at h
  | imp => simp [noDefs] at h
  | alias => simp [noDefs] at h
  | ifs test r1 r2 body orelse next ihb iho ihn =>
    simp only [noDefs, Bool.and_eq_true] at h
    simp [aliasesOf, ihb h.1.1, iho h.1.2, ihn h.2]
  | comp r body next ihb ihn =>
    simp only [noDefs, Bool.and_eq_true] at h
    simp [aliasesOf, ihb h.1, ihn h.2]
  | other next ihn =>
    simp only [noDefs] at h
    simp [aliasesOf, ihn h]

/-- inside the fragment no second name is given to anything -/
theorem inFragment_noAlias (inCls : Bool) (t : Tree) (h : inFragment inCls t = true) : aliasesOf t = [] := by
  induction t with
  | done => rfl
  | func a name decos doc body next _ ihn =>
    simp only [inFragment, Bool.and_eq_true] at h
    simp [aliasesOf, ihn h.2]
  | cls name decos doc body next _ ihn =>
    simp only [inFragment, Bool.and_eq_true] at h
    simp [aliasesOf, ihn h.2]
  | imp n next ihn =>
    simp only [inFragment] at h
    simp [aliasesOf, ihn h]
  | alias => simp [inFragment] at h
  | other next ihn =>
    simp only [inFragment] at h
    simp [aliasesOf, ihn h]
  | comp r body next ihb ihn =>
    simp only [inFragment, Bool.and_eq_true] at h
    cases r with
    | true => simp [aliasesOf, ihb (by simpa using h.1), ihn h.2]
    | false => simp [aliasesOf, ihn h.2]
  | ifs test r1 r2 body orelse next ihb iho ihn =>
    simp only [inFragment, Bool.and_eq_true] at h
    obtain ⟨hc, hn⟩ := h
    have e1 : (if r1 = true then aliasesOf body else []) = [] := by
      cases r1 with
      | false => rfl
      | true =>
        by_cases hg : isMainGuard test = true
        · simp [hg] at hc
        · simp only [hg, Bool.false_eq_true, if_false, Bool.and_eq_true, if_true] at hc
          simpa using ihb hc.1
    have e2 : (if r2 = true then aliasesOf orelse else []) = [] := by
      cases r2 with
      | false => rfl
      | true =>
        by_cases hg : isMainGuard test = true
        · simp only [hg, if_true, Bool.and_eq_true] at hc
          simpa using iho hc.2
        · simp only [hg, Bool.false_eq_true, if_false, Bool.and_eq_true, if_true] at hc
          simpa using iho hc.2
    simp [aliasesOf, e1, e2, ihn hn]

theorem memberEntries_append (modname cname : Str) (a b : List (Str × Item)) :
    memberEntries modname cname (a ++ b) = memberEntries modname cname a ++ memberEntries modname cname b := by
  induction a with
  | nil => rfl
  | cons x xs ih => obtain ⟨k, it⟩ := x; simp [memberEntries, ih]

theorem target_funcItem (modname other : Str) (decos : List Deco) (doc : Option Doc) :
    (funcItem modname other decos doc).target = ownFacts modname (globalsOf modname other decos) doc := by
  unfold Item.target funcItem
  cases wrapOf decos <;> rfl

@[simp] theorem ownFacts_hasName (modname g : Str) (doc : Option Doc) : (ownFacts modname g doc).hasName = true := rfl
@[simp] theorem ownFacts_doc (modname g : Str) (doc : Option Doc) :
    (ownFacts modname g doc).doc = doc.map (·.text) := rfl
@[simp] theorem funcItem_valid (modname other : Str) (decos : List Deco) (doc : Option Doc) :
    (funcItem modname other decos doc).valid = true := rfl
@[simp] theorem funcItem_self (modname other : Str) (decos : List Deco) (doc : Option Doc) :
    (funcItem modname other decos doc).self = ownFacts modname (globalsOf modname other decos) doc := rfl

/-- `__module__` decides: whatever namespace the object was compiled in -/
theorem definedBy_own (modname g : Str) (doc : Option Doc) : definedBy modname (ownFacts modname g doc) = true := by
  simp [definedBy, ownFacts]

theorem definedBy_external (modname other : Str) (h : other ≠ modname) :
    definedBy modname (externalItem other).target = false := by
  simp [definedBy, externalItem, Item.target, h]

/-- the class walk finds exactly the statically collected methods -/
theorem members_eq_methods (loc : Locator) (modname other cname : Str) (hne : other ≠ modname) (t : Tree)
    (hf : inFragment true t = true) :
    memberEntries modname cname (bindsCls modname other t) = pairs (methodsOf loc cname t) := by
  induction t with
  | done => rfl
  | func a name decos doc body next _ ihn =>
    simp only [inFragment, Bool.and_eq_true] at hf
    simp only [bindsCls, methodsOf, memberEntries_append, pairs_append, ihn hf.2]
    by_cases hs : skipDeco decos = true
    · simp [hs, memberEntries]
    · simp [hs, memberEntries, target_funcItem, definedBy_own, mkCallDef]
  | cls name decos doc body next _ ihn =>
    simp only [inFragment, Bool.and_eq_true] at hf
    simp [bindsCls, methodsOf, memberEntries, nestedClassItem, ihn hf.2]
  | ifs test r1 r2 body orelse next ihb iho ihn =>
    simp only [inFragment, Bool.and_eq_true] at hf
    obtain ⟨hc, hn⟩ := hf
    simp only [bindsCls, methodsOf, memberEntries_append, pairs_append, ihn hn]
    by_cases hg : isMainGuard test = true
    · simp only [hg, if_true, Bool.and_eq_true, Bool.not_eq_true'] at hc
      obtain ⟨h1, h2⟩ := hc
      have e2 : memberEntries modname cname (if r2 = true then bindsCls modname other orelse else []) =
          pairs (methodsOf loc cname orelse) := by
        cases r2 with
        | true => simpa using iho (by simpa using h2)
        | false =>
          have := noDefs_nothing loc modname other orelse (by simpa using h2)
          simp [memberEntries, this.2.1]
      simp [h1, hg, memberEntries, e2]
    · simp only [hg, Bool.false_eq_true, if_false, Bool.and_eq_true] at hc
      obtain ⟨h1, h2⟩ := hc
      have e1 : memberEntries modname cname (if r1 = true then bindsCls modname other body else []) =
          pairs (methodsOf loc cname body) := by
        cases r1 with
        | true => simpa using ihb (by simpa using h1)
        | false =>
          have := noDefs_nothing loc modname other body (by simpa using h1)
          simp [memberEntries, this.2.1]
      have e2 : memberEntries modname cname (if r2 = true then bindsCls modname other orelse else []) =
          pairs (methodsOf loc cname orelse) := by
        cases r2 with
        | true => simpa using iho (by simpa using h2)
        | false =>
          have := noDefs_nothing loc modname other orelse (by simpa using h2)
          simp [memberEntries, this.2.1]
      simp [hg, e1, e2]
  | comp r body next ihb ihn =>
    simp only [inFragment, Bool.and_eq_true] at hf
    obtain ⟨h1, hn⟩ := hf
    simp only [bindsCls, methodsOf, memberEntries_append, pairs_append, ihn hn]
    cases r with
    | true => simp [ihb (by simpa using h1)]
    | false =>
      have := noDefs_nothing loc modname other body (by simpa using h1)
      simp [memberEntries, this.2.1]
  | imp n next ihn =>
    simp only [inFragment] at hf
    simp [bindsCls, methodsOf, memberEntries, definedBy_external modname other hne, ihn hf]
  | alias t s next ihn => simp [inFragment] at hf
  | other next ihn =>
    simp only [inFragment] at hf
    simp [bindsCls, methodsOf, ihn hf]

/-- the module walk finds exactly the statically collected entries -/
theorem entries_eq_topLevel (loc : Locator) (modname other : Str) (hne : other ≠ modname) (t : Tree)
    (hf : inFragment false t = true) (hd : classScopesDistinct modname other t = true) :
    (bindsTop modname other t).flatMap (entriesOf modname) = pairs (topLevel loc t) := by
  induction t with
  | done => rfl
  | func a name decos doc body next _ ihn =>
    simp only [inFragment, Bool.and_eq_true] at hf
    simp only [classScopesDistinct] at hd
    have hs : skipDeco decos = false := by
      have := hf.1; simp only [decosOk, Bool.false_eq_true, if_false, Bool.and_eq_true, Bool.not_eq_true'] at this
      exact this.1
    simp [bindsTop, topLevel, entriesOf, target_funcItem, definedBy_own, mkCallDef, hs, ihn hf.2 hd]
  | cls name decos doc body next _ ihn =>
    simp only [inFragment, Bool.and_eq_true, Bool.false_eq_true, if_false] at hf
    simp only [classScopesDistinct, Bool.and_eq_true, decide_eq_true_eq] at hd
    have hm := members_eq_methods loc modname other name hne body hf.1
    have hs : setAll (bindsCls modname other body) [] = bindsCls modname other body := by
      rw [setAll_of_nodup (by simpa using hd.1)]; simp
    simp [bindsTop, topLevel, entriesOf, definedBy, ownFacts, mkCallDef, hs, hm, ihn hf.2 hd.2]
  | ifs test r1 r2 body orelse next ihb iho ihn =>
    simp only [inFragment, Bool.and_eq_true] at hf
    obtain ⟨hc, hn⟩ := hf
    simp only [classScopesDistinct, Bool.and_eq_true] at hd
    obtain ⟨⟨hd1, hd2⟩, hd3⟩ := hd
    simp only [bindsTop, topLevel, List.flatMap_append, pairs_append, ihn hn hd3]
    by_cases hg : isMainGuard test = true
    · simp only [hg, if_true, Bool.and_eq_true, Bool.not_eq_true'] at hc
      obtain ⟨h1, h2⟩ := hc
      have e2 : (if r2 = true then bindsTop modname other orelse else []).flatMap (entriesOf modname) =
          pairs (topLevel loc orelse) := by
        cases r2 with
        | true => simpa using iho (by simpa using h2) (by simpa using hd2)
        | false =>
          have := noDefs_nothing loc modname other orelse (by simpa using h2)
          simp [this.1]
      simp [h1, hg, e2]
    · simp only [hg, Bool.false_eq_true, if_false, Bool.and_eq_true] at hc
      obtain ⟨h1, h2⟩ := hc
      have e1 : (if r1 = true then bindsTop modname other body else []).flatMap (entriesOf modname) =
          pairs (topLevel loc body) := by
        cases r1 with
        | true => simpa using ihb (by simpa using h1) (by simpa using hd1)
        | false =>
          have := noDefs_nothing loc modname other body (by simpa using h1)
          simp [this.1]
      have e2 : (if r2 = true then bindsTop modname other orelse else []).flatMap (entriesOf modname) =
          pairs (topLevel loc orelse) := by
        cases r2 with
        | true => simpa using iho (by simpa using h2) (by simpa using hd2)
        | false =>
          have := noDefs_nothing loc modname other orelse (by simpa using h2)
          simp [this.1]
      simp [hg, e1, e2]
  | comp r body next ihb ihn =>
    simp only [inFragment, Bool.and_eq_true] at hf
    obtain ⟨h1, hn⟩ := hf
    simp only [classScopesDistinct, Bool.and_eq_true] at hd
    simp only [bindsTop, topLevel, List.flatMap_append, pairs_append, ihn hn hd.2]
    cases r with
    | true => simp [ihb (by simpa using h1) (by simpa using hd.1)]
    | false =>
      have := noDefs_nothing loc modname other body (by simpa using h1)
      simp [this.1]
  | imp n next ihn =>
    simp only [inFragment] at hf
    simp only [classScopesDistinct] at hd
    simp [bindsTop, topLevel, entriesOf, definedBy_external modname other hne, ihn hf hd]
  | alias t s next ihn => simp [inFragment] at hf
  | other next ihn =>
    simp only [inFragment] at hf
    simp only [classScopesDistinct] at hd
    simp [bindsTop, topLevel, ihn hf hd]

end Xdoc.Dynamic

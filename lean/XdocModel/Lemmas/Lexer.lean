import XdocModel.Lexer
/-!
# Lemmas about the mini-lexer (`XdocModel/Lexer.lean`)

For ALL strings: the fuel of `scanCode` is not observable, the scanner composes over a quote-free
and `#`-free prefix, a closed string literal is skipped whatever its body, a comment is a suffix of
the line that starts with `#`.
-/
namespace Xdoc.Lexer
open Xdoc Py

/-! ## unfolding equations (the generated ones are split by the inner `match`) -/

theorem closeSingle_cons (q c : Char) (s : Str) : closeSingle q (c :: s) =
    if c == q then some s
    else if c == '\\' then
      match s with
      | [] => none
      | _ :: s' => closeSingle q s'
    else closeSingle q s := by
  rw [closeSingle.eq_def]; rfl

theorem closeTriple_cons (q c : Char) (s : Str) : closeTriple q (c :: s) =
    if c == '\\' then
      match s with
      | [] => none
      | _ :: s' => closeTriple q s'
    else if c == q then
      match s with
      | d :: e :: s' => if d == q && e == q then some s' else closeTriple q s
      | _ => closeTriple q s
    else closeTriple q s := by
  rw [closeTriple.eq_def]; rfl

/-! ## closing a string literal returns a strict suffix -/

theorem closeSingle_suffix (q : Char) (s : Str) {r : Str} (h : closeSingle q s = some r) :
    ∃ a, s = a ++ r ∧ a ≠ [] := by
  fun_induction closeSingle q s with
  | case1 => cases h
  | case2 c s hc => cases h; exact ⟨[c], rfl, by simp⟩
  | case3 c hq hb => cases h
  | case4 c hq hb x s' ih =>
    obtain ⟨a, ha, _⟩ := ih h
    exact ⟨c :: x :: a, by simp [ha], by simp⟩
  | case5 c s hq hb ih =>
    obtain ⟨a, ha, _⟩ := ih h
    exact ⟨c :: a, by simp [ha], by simp⟩

theorem closeTriple_suffix (q : Char) (s : Str) {r : Str} (h : closeTriple q s = some r) :
    ∃ a, s = a ++ r ∧ a ≠ [] := by
  fun_induction closeTriple q s with
  | case1 => cases h
  | case2 c hb => cases h
  | case3 c hb x s' ih =>
    obtain ⟨a, ha, _⟩ := ih h
    exact ⟨c :: x :: a, by simp [ha], by simp⟩
  | case4 c hb hq d e s' hde => cases h; exact ⟨[c, d, e], rfl, by simp⟩
  | case5 c hb hq d e s' hde ih =>
    obtain ⟨a, ha, _⟩ := ih h
    exact ⟨c :: a, by simp [ha], by simp⟩
  | case6 c s hb hq hs ih =>
    obtain ⟨a, ha, _⟩ := ih h
    exact ⟨c :: a, by simp [ha], by simp⟩
  | case7 c s hb hq ih =>
    obtain ⟨a, ha, _⟩ := ih h
    exact ⟨c :: a, by simp [ha], by simp⟩

theorem closeSingle_length (q : Char) (s : Str) {r : Str} (h : closeSingle q s = some r) :
    r.length < s.length := by
  obtain ⟨a, ha, hne⟩ := closeSingle_suffix q s h
  subst ha
  have : 0 < a.length := List.length_pos_iff.mpr hne
  simp; omega

theorem closeTriple_length (q : Char) (s : Str) {r : Str} (h : closeTriple q s = some r) :
    r.length < s.length := by
  obtain ⟨a, ha, hne⟩ := closeTriple_suffix q s h
  subst ha
  have : 0 < a.length := List.length_pos_iff.mpr hne
  simp; omega

/-! ## one step of `scanCode`, with the recursive call as a parameter -/

/-- the body of `scanCode` on `c :: s`, `k` standing for the recursive call -/
def scanStep (k : Int → Bool → Str → LineScan) (p : Int) (semi : Bool) (c : Char) (s : Str) :
    LineScan :=
  if c == '#' then { paren := p, semicolon := semi, comment := some (c :: s) }
  else if c == '\'' || c == '"' then
    match s with
    | d :: e :: s' =>
      if d == c && e == c then
        (match closeTriple c s' with
         | some r => k p semi r
         | none => { paren := p, semicolon := semi, openStr := some c })
      else
        (match closeSingle c s with
         | some r => k p semi r
         | none => k p semi s)
    | _ =>
      (match closeSingle c s with
       | some r => k p semi r
       | none => k p semi s)
  else if c == '(' || c == '[' || c == '{' then k (p + 1) semi s
  else if c == ')' || c == ']' || c == '}' then k (p - 1) semi s
  else if c == ';' then k p true s
  else k p semi s

theorem scanCode_succ_cons (n : Nat) (p : Int) (semi : Bool) (c : Char) (s : Str) :
    scanCode (n + 1) p semi (c :: s) = scanStep (scanCode n) p semi c s := by
  simp only [scanCode, scanStep]
  rfl

/-- `scanStep` only calls its continuation on strings that are not longer than `s` -/
theorem scanStep_congr (k1 k2 : Int → Bool → Str → LineScan) (p : Int) (semi : Bool) (c : Char)
    (s : Str) (h : ∀ p' semi' r, r.length ≤ s.length → k1 p' semi' r = k2 p' semi' r) :
    scanStep k1 p semi c s = scanStep k2 p semi c s := by
  unfold scanStep
  split
  · rfl
  · split
    · split
      · split
        · split
          · rename_i r hr
            have := closeTriple_length _ _ hr
            exact h _ _ _ (by simp; omega)
          · rfl
        · split
          · rename_i r hr
            have := closeSingle_length _ _ hr
            exact h _ _ _ (by omega)
          · exact h _ _ _ (by omega)
      · split
        · rename_i r hr
          have := closeSingle_length _ _ hr
          exact h _ _ _ (by omega)
        · exact h _ _ _ (by omega)
    · split
      · exact h _ _ _ (by omega)
      · split
        · exact h _ _ _ (by omega)
        · split
          · exact h _ _ _ (by omega)
          · exact h _ _ _ (by omega)

theorem scanCode_fuel (n m : Nat) (p : Int) (semi : Bool) (s : Str)
    (hn : s.length ≤ n) (hm : s.length ≤ m) : scanCode n p semi s = scanCode m p semi s := by
  induction n generalizing m p semi s with
  | zero =>
    have : s = [] := List.eq_nil_of_length_eq_zero (by omega)
    subst this
    cases m <;> simp [scanCode]
  | succ n ih =>
    cases s with
    | nil => cases m <;> simp [scanCode]
    | cons c s =>
      cases m with
      | zero => simp at hm
      | succ m =>
        rw [scanCode_succ_cons, scanCode_succ_cons]
        apply scanStep_congr
        intro p' semi' r hr
        simp only [List.length_cons] at hn hm
        exact ih m p' semi' r (by omega) (by omega)

/-- (1) the fuel of `scanCode` is not observable once it covers the string -/
theorem scanCode_fuel_irrelevant (fuel : Nat) (p : Int) (semi : Bool) (s : Str)
    (h : s.length ≤ fuel) : scanCode fuel p semi s = scanCode s.length p semi s :=
  scanCode_fuel fuel s.length p semi s h (Nat.le_refl _)

/-- the scanner without fuel -/
def scanS (p : Int) (semi : Bool) (s : Str) : LineScan := scanCode s.length p semi s

theorem scan_eq_scanS (p : Int) (s : Str) : scan p s = scanS p false s := rfl

theorem scanS_nil (p : Int) (semi : Bool) : scanS p semi [] = { paren := p, semicolon := semi } := by
  simp [scanS, scanCode]

/-- the fuel-free unfolding equation of the scanner -/
theorem scanS_cons (p : Int) (semi : Bool) (c : Char) (s : Str) :
    scanS p semi (c :: s) = scanStep scanS p semi c s := by
  unfold scanS
  rw [List.length_cons, scanCode_succ_cons]
  apply scanStep_congr
  intro p' semi' r hr
  exact scanCode_fuel _ _ _ _ _ hr (Nat.le_refl _)

/-! ## the `;` flag is an accumulator: it does not influence the rest of the scan -/

/-- record an already seen `;` in a scan result -/
def withSemi (semi : Bool) (r : LineScan) : LineScan := { r with semicolon := semi || r.semicolon }

theorem withSemi_withSemi (a b : Bool) (r : LineScan) :
    withSemi a (withSemi b r) = withSemi (a || b) r := by
  simp [withSemi, Bool.or_assoc]

theorem scanStep_semi (k : Int → Bool → Str → LineScan) (p : Int) (semi : Bool) (c : Char) (s : Str)
    (h : ∀ p' semi' r, k p' semi' r = withSemi semi' (k p' false r)) :
    scanStep k p semi c s = withSemi semi (scanStep k p false c s) := by
  unfold scanStep
  split
  · simp [withSemi]
  · split
    · split
      · split
        · split
          · exact h _ _ _
          · simp [withSemi]
        · split
          · exact h _ _ _
          · exact h _ _ _
      · split
        · exact h _ _ _
        · exact h _ _ _
    · split
      · exact h _ _ _
      · split
        · exact h _ _ _
        · split
          · rw [h _ true, withSemi_withSemi]; simp [withSemi]
          · exact h _ _ _

theorem scanCode_semi (n : Nat) (p : Int) (semi : Bool) (s : Str) :
    scanCode n p semi s = withSemi semi (scanCode n p false s) := by
  induction n generalizing p semi s with
  | zero => simp [scanCode, withSemi]
  | succ n ih =>
    cases s with
    | nil => simp [scanCode, withSemi]
    | cons c s =>
      rw [scanCode_succ_cons, scanCode_succ_cons]
      exact scanStep_semi _ _ _ _ _ ih

theorem scanS_semi (p : Int) (semi : Bool) (s : Str) :
    scanS p semi s = withSemi semi (scanS p false s) := scanCode_semi _ _ _ _

/-! ## plain code: no quote, no `#` -/

/-- a character that neither opens a string nor starts a comment -/
def PlainChar (c : Char) : Prop := c ≠ '\'' ∧ c ≠ '"' ∧ c ≠ '#'

instance (c : Char) : Decidable (PlainChar c) := by unfold PlainChar; infer_instance

/-- code in which the scanner meets no quote and no `#`: every position is a token boundary -/
def Plain (s : Str) : Prop := ∀ c ∈ s, PlainChar c

instance (s : Str) : Decidable (Plain s) := by unfold Plain; infer_instance

theorem Plain.nil : Plain [] := by simp [Plain]

theorem plain_cons {c : Char} {s : Str} : Plain (c :: s) ↔ PlainChar c ∧ Plain s := by
  simp [Plain]

theorem plain_append {a b : Str} : Plain (a ++ b) ↔ Plain a ∧ Plain b := by
  simp only [Plain, List.mem_append]
  constructor
  · intro h; exact ⟨fun c hc => h c (Or.inl hc), fun c hc => h c (Or.inr hc)⟩
  · rintro ⟨h1, h2⟩ c (hc | hc)
    · exact h1 c hc
    · exact h2 c hc

/-- bracket depth after one plain character -/
def bump (p : Int) (c : Char) : Int :=
  if c == '(' || c == '[' || c == '{' then p + 1
  else if c == ')' || c == ']' || c == '}' then p - 1
  else p

theorem scanS_plain_cons (p : Int) (semi : Bool) (c : Char) (s : Str) (hc : PlainChar c) :
    scanS p semi (c :: s) = scanS (bump p c) (semi || c == ';') s := by
  obtain ⟨h1, h2, h3⟩ := hc
  rw [scanS_cons]
  unfold scanStep bump
  by_cases hsc : c = ';'
  · subst hsc; simp
  · have hsc' : (c == ';') = false := by simpa using hsc
    have hh : (c == '#') = false := by simpa using h3
    have hq : (c == '\'' || c == '"') = false := by simp [h1, h2]
    simp only [hh, hq, hsc', Bool.or_false, Bool.false_eq_true, ↓reduceIte]
    split
    · rfl
    · split <;> rfl

/-- bracket depth after plain code -/
def depthAfter (p : Int) (s : Str) : Int := s.foldl bump p

theorem scanS_plain (p : Int) (semi : Bool) (s : Str) (hs : Plain s) :
    scanS p semi s = { paren := depthAfter p s, semicolon := semi || s.contains ';' } := by
  induction s generalizing p semi with
  | nil => simp [scanS_nil, depthAfter]
  | cons c s ih =>
    obtain ⟨hc, hs⟩ := plain_cons.mp hs
    rw [scanS_plain_cons _ _ _ _ hc, ih _ _ hs]
    simp [depthAfter, Bool.or_assoc]
    by_cases h : c = ';'
    · subst h; simp
    · have h1 : (c == ';') = false := by simpa using h
      have h2 : ¬ ';' = c := fun e => h e.symm
      simp [h1, h2]

/-- scanning composes over a plain prefix: the scanner reaches the end of `pre` at a token
    boundary, with the depth and the `;` flag accumulated so far -/
theorem scanS_plain_append (p : Int) (semi : Bool) (pre rest : Str) (hpre : Plain pre) :
    scanS p semi (pre ++ rest) = scanS (depthAfter p pre) (semi || pre.contains ';') rest := by
  induction pre generalizing p semi with
  | nil => simp [depthAfter]
  | cons c s ih =>
    obtain ⟨hc, hs⟩ := plain_cons.mp hpre
    rw [List.cons_append, scanS_plain_cons _ _ _ _ hc, ih _ _ hs]
    simp [depthAfter, Bool.or_assoc]
    by_cases h : c = ';'
    · subst h; simp
    · have h1 : (c == ';') = false := by simpa using h
      have h2 : ¬ ';' = c := fun e => h e.symm
      simp [h1, h2]

/-! ## string literals -/

/-- the two quote characters -/
def IsQuote (q : Char) : Prop := q = '\'' ∨ q = '"'

instance (q : Char) : Decidable (IsQuote q) := by unfold IsQuote; infer_instance

theorem IsQuote.ne_backslash {q : Char} (h : IsQuote q) : q ≠ '\\' := by
  rcases h with rfl | rfl <;> decide

theorem IsQuote.ne_hash {q : Char} (h : IsQuote q) : q ≠ '#' := by
  rcases h with rfl | rfl <;> decide

theorem IsQuote.beq {q : Char} (h : IsQuote q) : (q == '\'' || q == '"') = true := by
  rcases h with rfl | rfl <;> decide

/-- body of a single-quoted literal: no unescaped `q` (a backslash escapes any next character) -/
inductive SingleBody (q : Char) : Str → Prop
  | nil : SingleBody q []
  | char (c : Char) (b : Str) : c ≠ q → c ≠ '\\' → SingleBody q b → SingleBody q (c :: b)
  | esc (x : Char) (b : Str) : SingleBody q b → SingleBody q ('\\' :: x :: b)

theorem closeSingle_body {q : Char} (hq : q ≠ '\\') {body : Str} (hb : SingleBody q body) (post : Str) :
    closeSingle q (body ++ q :: post) = some post := by
  induction hb with
  | nil => simp [closeSingle_cons]
  | char c b hc hbs _ ih =>
    have h1 : (c == q) = false := by simpa using hc
    have h2 : (c == '\\') = false := by simpa using hbs
    simp [closeSingle_cons, h1, h2, ih]
  | esc x b _ ih =>
    have h1 : ('\\' == q) = false := by simpa using (Ne.symm hq)
    simp [closeSingle_cons, h1, ih]

theorem SingleBody.head_ne {q : Char} (hq : q ≠ '\\') {body : Str} (hb : SingleBody q body) :
    body.head? ≠ some q := by
  cases hb with
  | nil => simp
  | char c b hc _ _ => simpa using hc
  | esc x b _ => simpa using (Ne.symm hq)

/-- body of a triple-quoted literal: no unescaped `q`, except one or two `q` followed by
    another character -/
inductive TripleBody (q : Char) : Str → Prop
  | nil : TripleBody q []
  | char (c : Char) (b : Str) : c ≠ q → c ≠ '\\' → TripleBody q b → TripleBody q (c :: b)
  | esc (x : Char) (b : Str) : TripleBody q b → TripleBody q ('\\' :: x :: b)
  | one (c : Char) (b : Str) : c ≠ q → TripleBody q (c :: b) → TripleBody q (q :: c :: b)
  | two (c : Char) (b : Str) : c ≠ q → TripleBody q (c :: b) → TripleBody q (q :: q :: c :: b)

theorem closeTriple_body {q : Char} (hq : q ≠ '\\') {body : Str} (hb : TripleBody q body) (post : Str) :
    closeTriple q (body ++ q :: q :: q :: post) = some post := by
  have hq' : (q == '\\') = false := by simpa using hq
  induction hb with
  | nil => simp [closeTriple_cons, hq']
  | char c b hc hbs _ ih =>
    have h1 : (c == q) = false := by simpa using hc
    have h2 : (c == '\\') = false := by simpa using hbs
    rw [List.cons_append, closeTriple_cons]
    simp only [h2, h1, Bool.false_eq_true, ↓reduceIte]
    exact ih
  | esc x b _ ih => simp [closeTriple_cons, ih]
  | one c b hc _ ih =>
    have h1 : (c == q) = false := by simpa using hc
    simp only [List.cons_append] at ih ⊢
    rw [closeTriple_cons]
    simp only [hq', Bool.false_eq_true, ↓reduceIte, beq_self_eq_true]
    cases hbq : b ++ q :: q :: q :: post with
    | nil => simp at hbq
    | cons e t => simp only [h1, Bool.false_and, Bool.false_eq_true, ↓reduceIte]; rw [← hbq]; exact ih
  | two c b hc _ ih =>
    have h1 : (c == q) = false := by simpa using hc
    simp only [List.cons_append] at ih ⊢
    rw [closeTriple_cons]
    simp only [hq', Bool.false_eq_true, ↓reduceIte, beq_self_eq_true, h1, Bool.and_false]
    rw [closeTriple_cons]
    simp only [hq', Bool.false_eq_true, ↓reduceIte, beq_self_eq_true]
    cases hbq : b ++ q :: q :: q :: post with
    | nil => simp at hbq
    | cons e t => simp only [h1, Bool.false_and, Bool.false_eq_true, ↓reduceIte]; rw [← hbq]; exact ih

/-- a closed single-quoted literal is skipped as a whole -/
theorem scanS_single (p : Int) (semi : Bool) {q : Char} (hq : IsQuote q) {s r : Str}
    (hc : closeSingle q s = some r) (hnt : ∀ t, s ≠ q :: q :: t) :
    scanS p semi (q :: s) = scanS p semi r := by
  rw [scanS_cons]
  unfold scanStep
  have h1 : (q == '#') = false := by simpa using hq.ne_hash
  simp only [h1, hq.beq, Bool.false_eq_true, ↓reduceIte]
  split
  · rename_i d e s'
    split
    · rename_i hde
      simp only [Bool.and_eq_true, beq_iff_eq] at hde
      exact absurd (by rw [hde.1, hde.2]) (hnt s')
    · simp [hc]
  · simp [hc]

/-- an unterminated single quote is a lone error token: the text after it is scanned as code -/
theorem scanS_single_unterminated (p : Int) (semi : Bool) {q : Char} (hq : IsQuote q) {s : Str}
    (hc : closeSingle q s = none) (hnt : ∀ t, s ≠ q :: q :: t) :
    scanS p semi (q :: s) = scanS p semi s := by
  rw [scanS_cons]
  unfold scanStep
  have h1 : (q == '#') = false := by simpa using hq.ne_hash
  simp only [h1, hq.beq, Bool.false_eq_true, ↓reduceIte]
  split
  · rename_i d e s'
    split
    · rename_i hde
      simp only [Bool.and_eq_true, beq_iff_eq] at hde
      exact absurd (by rw [hde.1, hde.2]) (hnt s')
    · simp [hc]
  · simp [hc]

/-- a triple-quoted literal closed on the same line is skipped as a whole -/
theorem scanS_triple (p : Int) (semi : Bool) {q : Char} (hq : IsQuote q) {s r : Str}
    (hc : closeTriple q s = some r) : scanS p semi (q :: q :: q :: s) = scanS p semi r := by
  rw [scanS_cons]
  unfold scanStep
  have h1 : (q == '#') = false := by simpa using hq.ne_hash
  simp [h1, hq.beq, hc]

/-- a triple-quoted literal not closed on the line ends the scan of the line -/
theorem scanS_triple_open (p : Int) (semi : Bool) {q : Char} (hq : IsQuote q) {s : Str}
    (hc : closeTriple q s = none) :
    scanS p semi (q :: q :: q :: s) = { paren := p, semicolon := semi, openStr := some q } := by
  rw [scanS_cons]
  unfold scanStep
  have h1 : (q == '#') = false := by simpa using hq.ne_hash
  simp [h1, hq.beq, hc]

/-! ## the comment of a line is a suffix of the line that starts with `#` -/

theorem closeSingle_isSuffix (q : Char) (s : Str) {r : Str} (h : closeSingle q s = some r) :
    r <:+ s := by
  obtain ⟨a, ha, _⟩ := closeSingle_suffix q s h
  exact ⟨a, ha.symm⟩

theorem closeTriple_isSuffix (q : Char) (s : Str) {r : Str} (h : closeTriple q s = some r) :
    r <:+ s := by
  obtain ⟨a, ha, _⟩ := closeTriple_suffix q s h
  exact ⟨a, ha.symm⟩

theorem scanStep_comment (k : Int → Bool → Str → LineScan) (p : Int) (semi : Bool) (ch : Char)
    (s c : Str)
    (h : ∀ p' semi' r, (k p' semi' r).comment = some c → c <:+ r ∧ c.head? = some '#')
    (hc : (scanStep k p semi ch s).comment = some c) : c <:+ (ch :: s) ∧ c.head? = some '#' := by
  have key : ∀ p' semi' r, r <:+ s → (k p' semi' r).comment = some c →
      c <:+ (ch :: s) ∧ c.head? = some '#' := by
    intro p' semi' r hr hk
    obtain ⟨h1, h2⟩ := h p' semi' r hk
    exact ⟨(h1.trans hr).trans (List.suffix_cons _ _), h2⟩
  unfold scanStep at hc
  split at hc
  · rename_i hh
    simp only [Option.some.injEq] at hc
    subst hc
    simp only [beq_iff_eq] at hh
    subst hh
    exact ⟨List.suffix_refl _, rfl⟩
  · split at hc
    · split at hc
      · split at hc
        · split at hc
          · rename_i r hr
            refine key _ _ _ ?_ hc
            exact (closeTriple_isSuffix _ _ hr).trans
              ((List.suffix_cons _ _).trans (List.suffix_cons _ _))
          · cases hc
        · split at hc
          · rename_i r hr
            exact key _ _ _ (closeSingle_isSuffix _ _ hr) hc
          · exact key _ _ _ (List.suffix_refl _) hc
      · split at hc
        · rename_i r hr
          exact key _ _ _ (closeSingle_isSuffix _ _ hr) hc
        · exact key _ _ _ (List.suffix_refl _) hc
    · split at hc
      · exact key _ _ _ (List.suffix_refl _) hc
      · split at hc
        · exact key _ _ _ (List.suffix_refl _) hc
        · split at hc
          · exact key _ _ _ (List.suffix_refl _) hc
          · exact key _ _ _ (List.suffix_refl _) hc

theorem scanCode_comment (n : Nat) (p : Int) (semi : Bool) (s c : Str)
    (hc : (scanCode n p semi s).comment = some c) : c <:+ s ∧ c.head? = some '#' := by
  induction n generalizing p semi s with
  | zero => simp [scanCode] at hc
  | succ n ih =>
    cases s with
    | nil => simp [scanCode] at hc
    | cons ch s =>
      rw [scanCode_succ_cons] at hc
      exact scanStep_comment _ _ _ _ _ _ (fun p' semi' r => ih p' semi' r) hc

/-! ## plain code leaves no comment and no open string -/

theorem scanS_plain_comment (p : Int) (semi : Bool) (s : Str) (hs : Plain s) :
    (scanS p semi s).comment = none ∧ (scanS p semi s).openStr = none := by
  rw [scanS_plain _ _ _ hs]; exact ⟨rfl, rfl⟩

/-! ## indentation is invisible to the scanner -/

theorem ne_of_toNat_ne {c d : Char} (h : c.toNat ≠ d.toNat) : c ≠ d := fun e => h (e ▸ rfl)

/-- the characters `measureIndent` consumes -/
def IndentChar (c : Char) : Prop := c = ' ' ∨ c = '\t' ∨ c.toNat = 0x0C

theorem IndentChar.scanS {c : Char} (hc : IndentChar c) (p : Int) (semi : Bool) (s : Str) :
    scanS p semi (c :: s) = scanS p semi s := by
  have hp : PlainChar c ∧ bump p c = p ∧ (c == ';') = false := by
    rcases hc with rfl | rfl | hc
    · exact ⟨by decide, by simp [bump], by decide⟩
    · exact ⟨by decide, by simp [bump], by decide⟩
    · have hne : ∀ d : Char, d.toNat ≠ 0x0C → c ≠ d :=
        fun d hd => ne_of_toNat_ne (by rw [hc]; exact Ne.symm hd)
      refine ⟨⟨hne _ (by decide), hne _ (by decide), hne _ (by decide)⟩, ?_, ?_⟩
      · have h1 := hne '(' (by decide)
        have h2 := hne '[' (by decide)
        have h3 := hne '{' (by decide)
        have h4 := hne ')' (by decide)
        have h5 := hne ']' (by decide)
        have h6 := hne '}' (by decide)
        simp [bump, h1, h2, h3, h4, h5, h6]
      · simpa using hne ';' (by decide)
  rw [scanS_plain_cons _ _ _ _ hp.1, hp.2.1, hp.2.2, Bool.or_false]

theorem scanS_measureIndent (p : Int) (semi : Bool) (col : Nat) (l : Str) :
    scanS p semi l = scanS p semi (measureIndent col l).2 := by
  fun_induction measureIndent col l with
  | case1 col c s h1 ih =>
    have : c = ' ' := by simpa using h1
    subst this
    rw [IndentChar.scanS (Or.inl rfl)]; exact ih
  | case2 col c s h1 h2 ih =>
    have : c = '\t' := by simpa using h2
    subst this
    rw [IndentChar.scanS (Or.inr (Or.inl rfl))]; exact ih
  | case3 col c s h1 h2 h3 ih =>
    have : c.toNat = 0x0C := by simpa using h3
    rw [IndentChar.scanS (Or.inr (Or.inr this))]; exact ih
  | case4 => rfl
  | case5 => rfl

/-! ## a one-line source: the tokenizer loop is one scan at depth 0 -/

/-- how the tokenizer ends after a last line whose scan is `r` -/
def endOf (r : LineScan) : LexEnd :=
  if r.openStr.isSome then .eofString else if r.paren == 0 then .ok else .eofStatement

theorem scanS_hash (p : Int) (semi : Bool) (s : Str) :
    scanS p semi ('#' :: s) = { paren := p, semicolon := semi, comment := some ('#' :: s) } := by
  rw [scanS_cons]; simp [scanStep]

theorem lex_single (l : Str) :
    (lex [l]).2 = endOf (scan 0 l) ∧ (lex [l]).1.comments = (scan 0 l).comment.toList ∧
      (lex [l]).1.semicolon = (scan 0 l).semicolon := by
  cases l with
  | nil => simp [lex, lexGo, scan, scanCode, endOf]
  | cons c0 t =>
    have hf : [c0 :: t].filter (!·.isEmpty) = [c0 :: t] := by simp
    unfold lex
    rw [hf]
    have hscan := scanS_measureIndent 0 false 0 (c0 :: t)
    rw [← scan_eq_scanS] at hscan
    rw [hscan]
    generalize hl : c0 :: t = l at *
    unfold lexGo
    rcases hmi : measureIndent 0 l with ⟨col, rest⟩
    simp only
    cases rest with
    | nil => simp [scanS, scanCode, endOf]
    | cons c r =>
      by_cases hc : c = '#'
      · subst hc
        simp [scanS_hash, lexGo, endOf]
      · have hc' : (c == '#') = false := by simpa using hc
        simp only [hc', Bool.false_eq_true, ↓reduceIte, BEq.rfl, List.headD_cons, dedentTo,
          Nat.not_lt_zero, gt_iff_lt]
        rw [← scan_eq_scanS]
        generalize scan 0 (c :: r) = sc
        obtain ⟨pa, os, co, se⟩ := sc
        split <;> cases os <;> cases co <;> simp [lexGo, applyScan, endOf] <;> split <;> simp_all

/-! ## triple-quoted strings over several lines -/

theorem closeTriple_mem (q : Char) (s : Str) {r : Str} (h : closeTriple q s = some r) : q ∈ s := by
  fun_induction closeTriple q s with
  | case1 => cases h
  | case2 c hb => cases h
  | case3 c hb x s' ih => have := ih h; simp [this]
  | case4 c hb hq d e s' hde => have : c = q := by simpa using hq
                                simp [this]
  | case5 c hb hq d e s' hde ih => have : c = q := by simpa using hq
                                   simp [this]
  | case6 c s hb hq hs ih => have : c = q := by simpa using hq
                             simp [this]
  | case7 c s hb hq ih => have := ih h; simp [this]

/-- a line without the quote character cannot close the string -/
theorem closeTriple_none_of_not_mem (q : Char) (s : Str) (h : q ∉ s) : closeTriple q s = none := by
  cases hc : closeTriple q s with
  | none => rfl
  | some r => exact absurd (closeTriple_mem q s hc) h

/-- inside an open triple-quoted string, lines that do not close it are skipped unseen -/
theorem lexGo_open_skip (st : LexState) (q : Char) (hst : st.openStr = some q) (mids rest : List Str)
    (hm : ∀ m ∈ mids, closeTriple q m = none) : lexGo st (mids ++ rest) = lexGo st rest := by
  induction mids with
  | nil => rfl
  | cons m ms ih =>
    rw [List.cons_append, lexGo]
    simp only [hst, hm m (by simp)]
    exact ih (fun m' hm' => hm m' (by simp [hm']))

/-- the line that closes the string: scanning resumes after the closing quotes -/
theorem lexGo_open_close (st : LexState) (q : Char) (hst : st.openStr = some q) (l r : Str)
    (ls : List Str) (hc : closeTriple q l = some r) :
    lexGo st (l :: ls) = lexGo (applyScan { st with openStr := none } (scan st.paren r)) ls := by
  rw [lexGo]
  simp only [hst, hc]

/-- the first line of a source, when it holds a token that is not a comment: one scan at depth 0
    (the indentation stack does not matter here) -/
theorem lexGo_first (l : Str) (ls : List Str) (c : Char) (r : Str)
    (hmi : (measureIndent 0 l).2 = c :: r) (hc : c ≠ '#') :
    ∃ ind, lexGo {} (l :: ls) = lexGo (applyScan { indents := ind } (scan 0 l)) ls := by
  have hscan := scanS_measureIndent 0 false 0 l
  rw [← scan_eq_scanS] at hscan
  rw [hscan]
  rw [lexGo]
  rcases hm : measureIndent 0 l with ⟨col, rest⟩
  rw [hm] at hmi
  simp only at hmi
  subst hmi
  have hc' : (c == '#') = false := by simpa using hc
  simp only [hc', Bool.false_eq_true, ↓reduceIte, BEq.rfl, List.headD_cons, dedentTo,
    Nat.not_lt_zero, gt_iff_lt]
  split
  · exact ⟨_, rfl⟩
  · exact ⟨_, rfl⟩

theorem lexGo_nil_comments (st : LexState) :
    (lexGo st []).1 = st ∧ (lexGo st []).2 ≠ .badDedent := by
  rw [lexGo]
  split
  · simp
  · split <;> simp

theorem IsQuote.not_indent {q : Char} (h : IsQuote q) : ¬ IndentChar q := by
  rcases h with rfl | rfl <;> (unfold IndentChar; decide)

/-- the first token of `pre ++ x :: t` (plain `pre`, `x` no blank and no `#`) is not a comment -/
theorem measureIndent_plain_prefix (col : Nat) (pre : Str) (x : Char) (t : Str) (hpre : Plain pre)
    (hx : ¬ IndentChar x) (hx' : x ≠ '#') :
    ∃ c r, (measureIndent col (pre ++ x :: t)).2 = c :: r ∧ c ≠ '#' := by
  induction pre generalizing col with
  | nil =>
    have h1 : (x == ' ') = false := by simpa using fun h => hx (Or.inl h)
    have h2 : (x == '\t') = false := by simpa using fun h => hx (Or.inr (Or.inl h))
    have h3 : (x.toNat == 0x0C) = false := by simpa using fun h => hx (Or.inr (Or.inr h))
    exact ⟨x, t, by simp [measureIndent, h1, h2, h3], hx'⟩
  | cons c s ih =>
    obtain ⟨hc, hs⟩ := plain_cons.mp hpre
    rw [List.cons_append, measureIndent]
    split
    · exact ih _ hs
    · split
      · exact ih _ hs
      · split
        · exact ih _ hs
        · exact ⟨c, _, rfl, hc.2.2⟩

/-! ## `strip` of a line that starts (after blanks) with plain code or a quote -/

theorem IsQuote.not_space {q : Char} (h : IsQuote q) : isSpace q = false := by
  rcases h with rfl | rfl <;> decide +kernel

/-- `lstrip` stops at the first non-blank character, which here is not a `#` -/
theorem lstrip_plain_prefix (pre : Str) (x : Char) (t : Str) (hpre : Plain pre)
    (hx : isSpace x = false) (hx' : x ≠ '#') :
    ∃ h r, lstrip (pre ++ x :: t) = h :: r ∧ h ≠ '#' ∧ isSpace h = false := by
  unfold lstrip
  induction pre with
  | nil => exact ⟨x, t, by simp [hx], hx', hx⟩
  | cons c s ih =>
    obtain ⟨hc, hs⟩ := plain_cons.mp hpre
    rw [List.cons_append, List.dropWhile_cons]
    cases hsp : isSpace c with
    | true => simpa using ih hs
    | false => exact ⟨c, s ++ x :: t, by simp, hc.2.2, hsp⟩

theorem dropWhile_snoc_not (p : Char → Bool) (h : Char) (hp : p h = false) (u : Str) :
    ∃ u', (u ++ [h]).dropWhile p = u' ++ [h] := by
  induction u with
  | nil => exact ⟨[], by simp [hp]⟩
  | cons c s ih =>
    rw [List.cons_append, List.dropWhile_cons]
    cases p c with
    | true => simpa using ih
    | false => exact ⟨c :: s, by simp⟩

/-- `rstrip` keeps a non-blank first character -/
theorem rstrip_head (h : Char) (t : Str) (hh : isSpace h = false) : ∃ t', rstrip (h :: t) = h :: t' := by
  unfold rstrip
  obtain ⟨u', hu⟩ := dropWhile_snoc_not isSpace h hh t.reverse
  rw [List.reverse_cons, hu]
  exact ⟨u'.reverse, by simp⟩

/-- a line `pre 'literal…` (plain `pre`) is not a comment-only line -/
theorem strip_not_hash (pre : Str) (x : Char) (t : Str) (hpre : Plain pre)
    (hx : isSpace x = false) (hx' : x ≠ '#') :
    startsWith ['#'] (strip (pre ++ x :: t)) = false := by
  obtain ⟨h, r, h1, h2, h3⟩ := lstrip_plain_prefix pre x t hpre hx hx'
  obtain ⟨t', ht⟩ := rstrip_head h r h3
  unfold strip
  rw [h1, ht]
  simp [startsWith, dropPrefix?, Ne.symm h2]

/-! ## the tokenizer loop, one line at a time -/

/-- one line either ends the loop with a result that does not depend on the lines after it
    (whitespace-only line at a statement boundary, bad dedent) or moves to a next state -/
theorem lexGo_cons_step (st : LexState) (l : Str) :
    (∃ res, ∀ Y, lexGo st (l :: Y) = res) ∨ (∃ st', ∀ Y, lexGo st (l :: Y) = lexGo st' Y) := by
  cases ho : st.openStr with
  | some q =>
    cases hc : closeTriple q l with
    | none => exact Or.inr ⟨st, fun Y => by rw [lexGo]; simp only [ho, hc]⟩
    | some r => exact Or.inr ⟨_, fun Y => by rw [lexGo]; simp only [ho, hc]; rfl⟩
  | none =>
    cases hp : (st.paren == 0) with
    | true =>
      rcases hm : measureIndent 0 l with ⟨col, rest⟩
      cases rest with
      | nil => exact Or.inl ⟨(st, .ok), fun Y => by rw [lexGo]; simp only [ho, hp, hm, ↓reduceIte]⟩
      | cons c r =>
        cases hc : (c == '#') with
        | true => exact Or.inr ⟨_, fun Y => by rw [lexGo]; simp only [ho, hp, hm, hc, ↓reduceIte]; rfl⟩
        | false =>
          by_cases hcol : col > st.indents.headD 0
          · exact Or.inr ⟨_, fun Y => by
              rw [lexGo]; simp only [ho, hp, hm, hc, hcol, Bool.false_eq_true, ↓reduceIte]; rfl⟩
          · cases hd : dedentTo col st.indents with
            | none =>
              exact Or.inl ⟨(st, .badDedent), fun Y => by
                rw [lexGo]; simp only [ho, hp, hm, hc, hcol, hd, Bool.false_eq_true, ↓reduceIte]⟩
            | some ind =>
              exact Or.inr ⟨_, fun Y => by
                rw [lexGo]; simp only [ho, hp, hm, hc, hcol, hd, Bool.false_eq_true, ↓reduceIte]; rfl⟩
    | false =>
      exact Or.inr ⟨_, fun Y => by rw [lexGo]; simp only [ho, hp, Bool.false_eq_true, ↓reduceIte]; rfl⟩

/-- the loop over `before ++ X`: either it ends inside `before` (whatever `X` is), or it goes on
    over `X` from the state reached after `before` -/
theorem lexGo_append (st : LexState) (before : List Str) :
    (∀ X, lexGo st (before ++ X) = lexGo st before) ∨
    (∀ X, lexGo st (before ++ X) = lexGo (lexGo st before).1 X) := by
  induction before generalizing st with
  | nil => exact Or.inr fun X => by rw [(lexGo_nil_comments st).1]; rfl
  | cons l b ih =>
    rcases lexGo_cons_step st l with ⟨res, hres⟩ | ⟨st', hst'⟩
    · exact Or.inl fun X => by rw [List.cons_append, hres, hres]
    · rcases ih st' with h | h
      · exact Or.inl fun X => by rw [List.cons_append, hst', hst', h]
      · exact Or.inr fun X => by rw [List.cons_append, hst', hst', h]

/-- `measureIndent` on `pre ++ x :: X` (plain `pre`, `x` no blank) does not look at `X` -/
theorem measureIndent_plain_split (col : Nat) (pre : Str) (x : Char) (hpre : Plain pre)
    (hx : ¬ IndentChar x) :
    ∃ col' pre', Plain pre' ∧ ∀ X, measureIndent col (pre ++ x :: X) = (col', pre' ++ x :: X) := by
  induction pre generalizing col with
  | nil =>
    have h1 : (x == ' ') = false := by simpa using fun h => hx (Or.inl h)
    have h2 : (x == '\t') = false := by simpa using fun h => hx (Or.inr (Or.inl h))
    have h3 : (x.toNat == 0x0C) = false := by simpa using fun h => hx (Or.inr (Or.inr h))
    exact ⟨col, [], Plain.nil, fun X => by simp [measureIndent, h1, h2, h3]⟩
  | cons c s ih =>
    obtain ⟨hc, hs⟩ := plain_cons.mp hpre
    cases h1 : (c == ' ') with
    | true =>
      obtain ⟨col', pre', hp, h⟩ := ih (col + 1) hs
      exact ⟨col', pre', hp, fun X => by rw [List.cons_append, measureIndent]; simp only [h1, ↓reduceIte, h]⟩
    | false =>
      cases h2 : (c == '\t') with
      | true =>
        obtain ⟨col', pre', hp, h⟩ := ih ((col / 8 + 1) * 8) hs
        exact ⟨col', pre', hp, fun X => by
          rw [List.cons_append, measureIndent]; simp only [h1, h2, Bool.false_eq_true, ↓reduceIte, h]⟩
      | false =>
        cases h3 : (c.toNat == 0x0C) with
        | true =>
          obtain ⟨col', pre', hp, h⟩ := ih 0 hs
          exact ⟨col', pre', hp, fun X => by
            rw [List.cons_append, measureIndent]
            simp only [h1, h2, h3, Bool.false_eq_true, ↓reduceIte, h]⟩
        | false =>
          exact ⟨col, c :: s, hpre, fun X => by
            rw [List.cons_append, measureIndent]
            simp only [h1, h2, h3, Bool.false_eq_true, ↓reduceIte]⟩

end Xdoc.Lexer

import XdocModel.Lemmas.Compose
import XdocModel.Lemmas.World
import XdocModel.Lemmas.Runner
import XdocModel.Proofs.C18
/-!
# Helper lemmas for the second batch of compositions (`Proofs/Compose2.lean`)

* lines: for a text whose only line-break character is `\n` and that has no tab, the lines the
  parser's labeller sees (`prepareLines`) sit at the same index as the `split('\n')` lines and are
  suffixes of them (the bridge between `splitlines` counting and `\n` counting, K-C08-c);
* association lists: `alSet` on different keys commutes when the first key is present (Python dict
  insertion order), the report-style reset commutes with setting a non-report key;
* small list facts used by the dump composition.
-/
namespace Xdoc
open Py

/-! ## lines -/
namespace Py

/-- the text has no tab and no line-break character other than `\n`: `str.splitlines()` and
    `str.split('\n')` see the same lines (up to one trailing empty line), `expandtabs` is the
    identity -/
def PlainText (s : Str) : Prop := ∀ c ∈ s, c ≠ '\t' ∧ (isLineBreak c = true → c = '\n')

theorem mem_splitOn_sep {α : Type} [DecidableEq α] (sep : α) (s : List α) :
    ∀ l ∈ splitOn sep s, sep ∉ l := by
  induction s with
  | nil => intro l hl; simp [splitOn] at hl; subst hl; simp
  | cons c s ih =>
    intro l hl
    simp only [splitOn] at hl
    split at hl
    · rcases List.mem_cons.mp hl with rfl | hl
      · simp
      · exact ih l hl
    · rename_i hc
      rcases List.mem_cons.mp hl with rfl | hl
      · intro hm
        rcases List.mem_cons.mp hm with h | h
        · exact hc h.symm
        · cases hs : splitOn sep s with
          | nil => rw [hs] at h; simp at h
          | cons x xs => rw [hs] at h; exact ih x (by rw [hs]; simp) (by simpa using h)
      · exact ih l (List.mem_of_mem_tail hl)

theorem mem_splitOn_subset {s l : Str} (hl : l ∈ splitOn '\n' s) : ∀ c ∈ l, c ∈ s := by
  intro c hc
  have h1 : l <:+: joinWith ['\n'] (splitOn '\n' s) := by
    clear hc
    generalize splitOn '\n' s = ls at hl
    induction ls with
    | nil => simp at hl
    | cons x xs ih =>
      cases xs with
      | nil => simp only [List.mem_singleton] at hl; subst hl; simp [joinWith]
      | cons y ys =>
        simp only [joinWith]
        rcases List.mem_cons.mp hl with rfl | hl
        · exact ⟨[], ['\n'] ++ joinWith ['\n'] (y :: ys), by simp⟩
        · obtain ⟨a, b, hab⟩ := ih hl
          exact ⟨x ++ ['\n'] ++ a, b, by simp [← hab]⟩
  rw [C18.joinWith_splitOn] at h1
  exact h1.subset hc

theorem prefix_getElem? {α : Type} {l1 l2 : List α} (h : l1 <+: l2) {i : Nat} {a : α}
    (ha : l1[i]? = some a) : l2[i]? = some a := by
  obtain ⟨t, rfl⟩ := h
  have hi : i < l1.length := (List.getElem?_eq_some_iff.mp ha).1
  rw [List.getElem?_append_left hi]; exact ha

/-- `'\n'.join(lines).splitlines()` is `lines`, or `lines` without its empty last line: always a
    prefix (lines without line-break characters) -/
theorem splitLines_joinWith_prefix (ls : List Str) (h : ∀ l ∈ ls, NoBreak l) :
    splitLines (joinWith ['\n'] ls) <+: ls := by
  induction ls with
  | nil => exact List.prefix_refl _
  | cons x r ih =>
    cases r with
    | nil =>
      by_cases hx : x = []
      · subst hx; simp [splitLines, joinWith, splitLinesKeep]
      · rw [splitLines_joinWith [x] h (by simp [hx])]; exact List.prefix_refl _
    | cons y r =>
      have hx := h x (by simp)
      have ih' := ih (fun l hl => h l (List.mem_cons_of_mem _ hl))
      simp only [splitLines] at ih' ⊢
      simp only [joinWith, List.append_assoc, List.singleton_append]
      rw [splitLinesKeep_line x _ hx, List.map_cons, chompLine_nl x hx]
      exact (List.prefix_cons_inj x).mpr ih'

theorem PlainText.noTab {s : Str} (h : PlainText s) : '\t' ∉ s := fun hm => (h _ hm).1 rfl

theorem PlainText.split_noBreak {s : Str} (h : PlainText s) : ∀ l ∈ splitOn '\n' s, NoBreak l := by
  intro l hl c hc
  have hs := mem_splitOn_subset hl c hc
  have hn : c ≠ '\n' := fun e => mem_splitOn_sep '\n' s l hl (e ▸ hc)
  cases hb : isLineBreak c with
  | false => rfl
  | true => exact absurd ((h c hs).2 hb) hn

/-- with `\n` as the only line break, `splitlines()` is a prefix of `split('\n')` -/
theorem PlainText.splitLines_prefix {s : Str} (h : PlainText s) : splitLines s <+: splitOn '\n' s := by
  have := splitLines_joinWith_prefix (splitOn '\n' s) h.split_noBreak
  rwa [C18.joinWith_splitOn] at this

end Py

namespace Parser
open Py

theorem expandTabsGo_noTab (col : Nat) (s : Str) (h : '\t' ∉ s) : expandTabsGo col s = s := by
  induction s generalizing col with
  | nil => rfl
  | cons c s ih =>
    have hc : c ≠ '\t' := fun e => h (by simp [e])
    have hs : '\t' ∉ s := fun hm => h (List.mem_cons_of_mem _ hm)
    simp only [expandTabsGo]
    rw [if_neg (by simpa using hc)]
    split <;> rw [ih _ hs]

/-- ★ the bridge between the two ways of counting lines: for a docstring without tabs whose only
    line-break character is `\n`, line `i` of what the labeller sees is a suffix of line `i` of
    `docstr.split('\n')` (the common indentation was removed) -/
theorem prepareLines_suffix_splitOn {s : Str} (h : PlainText s) (i : Nat) (l : Str)
    (hl : (prepareLines s)[i]? = some l) :
    ∃ l0, (splitOn '\n' s)[i]? = some l0 ∧ l <:+ l0 := by
  unfold prepareLines at hl
  simp only [expandTabs, expandTabsGo_noTab 0 s h.noTab] at hl
  by_cases hm : minIndentation s > 0
  · rw [if_pos hm] at hl
    have hp := splitLines_joinWith_prefix ((splitLines s).map (·.drop (minIndentation s)))
      (by
        intro x hx
        obtain ⟨y, hy, rfl⟩ := List.mem_map.mp hx
        exact fun c hc => splitLines_noBreak s y hy c (List.mem_of_mem_drop hc))
    have h1 := prefix_getElem? hp hl
    simp only [List.getElem?_map, Option.map_eq_some_iff] at h1
    obtain ⟨y, hy, rfl⟩ := h1
    exact ⟨y, prefix_getElem? h.splitLines_prefix hy, List.drop_suffix _ _⟩
  · rw [if_neg hm] at hl
    exact ⟨l, prefix_getElem? h.splitLines_prefix hl, List.suffix_refl _⟩

end Parser

/-! ## association lists with Python `dict` semantics -/

theorem alGet_cons (k k' : String) (v' : Bool) (r : List (String × Bool)) :
    alGet k ((k', v') :: r) = if k' = k then some v' else alGet k r := by
  by_cases h : k' = k
  · subst h; simp [alGet, List.lookup]
  · have : (k == k') = false := by simpa using Ne.symm h
    simp [alGet, List.lookup, this, h]

theorem alSet_cons (k k' : String) (b v' : Bool) (r : List (String × Bool)) :
    alSet k b ((k', v') :: r) = if k' = k then (k, b) :: r else (k', v') :: alSet k b r := by
  by_cases h : k' = k <;> simp [alSet, h]

/-- assignments to two different keys commute when the first key is already present (otherwise the
    insertion order of the two NEW keys differs — as in a Python dict) -/
theorem alSet_comm (k key : String) (b v : Bool) (hne : k ≠ key) (M : List (String × Bool))
    (hk : (alGet k M).isSome = true) :
    alSet k b (alSet key v M) = alSet key v (alSet k b M) := by
  induction M with
  | nil => simp [alGet] at hk
  | cons x r ih =>
    obtain ⟨k', v'⟩ := x
    by_cases h1 : k' = key
    · subst h1
      have h2 : ¬ k' = k := fun e => hne e.symm
      simp [alSet_cons, h2]
    · by_cases h2 : k' = k
      · subst h2; simp [alSet_cons, h1]
      · have hk' : (alGet k r).isSome = true := by simpa [alGet_cons, h2] using hk
        simp [alSet_cons, h1, h2, ih hk']

theorem alGet_alSet_isSome (j k : String) (b : Bool) (L : List (String × Bool))
    (h : (alGet j L).isSome = true) : (alGet j (alSet k b L)).isSome = true := by
  induction L with
  | nil => simp [alGet] at h
  | cons x r ih =>
    obtain ⟨k', v'⟩ := x
    rw [alSet_cons]
    by_cases h1 : k' = k
    · subst h1
      rw [if_pos rfl]
      rw [alGet_cons] at h ⊢
      by_cases h2 : k' = j <;> simp_all
    · rw [if_neg h1]
      rw [alGet_cons] at h ⊢
      by_cases h2 : k' = j
      · simp [h2]
      · simp only [h2, ↓reduceIte] at h ⊢; exact ih h

/-- the `REPORT_*` reset of `set_report_style` on one entry -/
def clrReport : String × Bool → String × Bool :=
  fun (k, v) => if k.startsWith "REPORT_" then (k, false) else (k, v)

theorem clrReport_fst (x : String × Bool) : (clrReport x).1 = x.1 := by
  obtain ⟨k, v⟩ := x
  simp only [clrReport]; split <;> rfl

theorem map_clr_alSet (k : String) (b : Bool) (hk : k.startsWith "REPORT_" = false)
    (L : List (String × Bool)) : (alSet k b L).map clrReport = alSet k b (L.map clrReport) := by
  induction L with
  | nil => simp [alSet, clrReport, hk]
  | cons x r ih =>
    obtain ⟨k', v'⟩ := x
    have hx : clrReport (k', v') = (k', (clrReport (k', v')).2) := by
      have := clrReport_fst (k', v'); exact Prod.ext this rfl
    rw [List.map_cons, hx, alSet_cons, alSet_cons]
    by_cases h1 : k' = k
    · simp [h1, clrReport, hk]
    · simp [h1, ih, ← hx]

theorem alGet_map_clr_isSome (k : String) (L : List (String × Bool)) :
    (alGet k (L.map clrReport)).isSome = (alGet k L).isSome := by
  induction L with
  | nil => rfl
  | cons x r ih =>
    obtain ⟨k', v'⟩ := x
    have hx : clrReport (k', v') = (k', (clrReport (k', v')).2) := by
      have := clrReport_fst (k', v'); exact Prod.ext this rfl
    rw [List.map_cons, hx, alGet_cons, alGet_cons]
    by_cases h1 : k' = k <;> simp [h1, ih]

/-- the boolean table after `set_report_style(key)` -/
def reportTable (key : String) (L : List (String × Bool)) : List (String × Bool) :=
  alSet key true (L.map clrReport)

theorem RState.setReportStyle_gBools (s : RState) (key : String) :
    s.setReportStyle key = { s with gBools := reportTable key s.gBools } := rfl

/-- setting plain options commutes with the report-style reset, provided every option is a key of
    the table (a known option) and none is the report key -/
theorem foldl_reportTable (key : String) (D : List (String × Bool)) (L : List (String × Bool))
    (h : ∀ kv ∈ D, kv.1.startsWith "REPORT_" = false ∧ kv.1 ≠ key ∧ (alGet kv.1 L).isSome = true) :
    D.foldl (fun acc kv => alSet kv.1 kv.2 acc) (reportTable key L) =
      reportTable key (D.foldl (fun acc kv => alSet kv.1 kv.2 acc) L) := by
  induction D generalizing L with
  | nil => rfl
  | cons x D ih =>
    obtain ⟨k, b⟩ := x
    obtain ⟨h1, h2, h3⟩ := h (k, b) (by simp)
    simp only [List.foldl_cons]
    have step : alSet k b (reportTable key L) = reportTable key (alSet k b L) := by
      unfold reportTable
      rw [alSet_comm k key b true h2 _ (by rw [alGet_map_clr_isSome]; exact h3), map_clr_alSet k b h1]
    rw [step]
    apply ih
    intro kv hkv
    obtain ⟨a1, a2, a3⟩ := h kv (List.mem_cons_of_mem _ hkv)
    exact ⟨a1, a2, alGet_alSet_isSome _ _ _ _ a3⟩

/-! ## a block of plain boolean directives -/

/-- the directives `# xdoctest: +K1, -K2, …` of a leading block comment -/
def leadingBlock (D : List (String × Bool)) : List Directive :=
  D.map fun kv => { name := kv.1, positive := kv.2, inline := false }

theorem applyDirective_plain (sat : Str → Option Bool) (s : RState) (k : String) (b : Bool)
    (hk : k ≠ "REQUIRES") (hr : k.startsWith "REPORT_" = false) :
    s.applyDirective sat { name := k, positive := b, inline := false } =
      some { s with gBools := alSet k b s.gBools } := by
  have hk' : (k == "REQUIRES") = false := by simpa using hk
  simp [RState.applyDirective, Directive.effects, hk', hr, RState.applyEffect]

theorem foldlM_leadingBlock (sat : Str → Option Bool) (D : List (String × Bool)) (s : RState)
    (h : ∀ kv ∈ D, kv.1 ≠ "REQUIRES" ∧ kv.1.startsWith "REPORT_" = false) :
    (leadingBlock D).foldlM (RState.applyDirective sat) s =
      some { s with gBools := D.foldl (fun acc kv => alSet kv.1 kv.2 acc) s.gBools } := by
  induction D generalizing s with
  | nil => rfl
  | cons x D ih =>
    obtain ⟨k, b⟩ := x
    obtain ⟨h1, h2⟩ := h (k, b) (by simp)
    simp only [leadingBlock, List.map_cons, List.foldlM_cons, applyDirective_plain sat s k b h1 h2,
      Option.bind_eq_bind, Option.bind_some]
    have := ih { s with gBools := alSet k b s.gBools } (fun kv hkv => h kv (List.mem_cons_of_mem _ hkv))
    simpa [leadingBlock] using this

/-! ## non-vacuity of the hypotheses used above -/

instance (s : Str) : Decidable (Py.PlainText s) := by unfold Py.PlainText; infer_instance

example : Py.PlainText "  a\n  >>> f()\n".toList ∧
    Parser.prepareLines "  a\n  >>> f()\n".toList = ["a".toList, ">>> f()".toList] ∧
    splitOn '\n' "  a\n  >>> f()\n".toList = ["  a".toList, "  >>> f()".toList, []] := by decide +kernel
/-- … and not every text is plain: a form feed is a line break for `splitlines` only -/
example : ¬ Py.PlainText "a\x0cb".toList := by decide +kernel
example : "SKIP" ≠ "REPORT_UDIFF" ∧ (alGet "SKIP" Generated.defaultRuntimeStateBools).isSome = true ∧
    "SKIP".startsWith "REPORT_" = false ∧ "SKIP" ≠ "REQUIRES" := by decide +kernel
example : ∀ l ∈ ["a".toList, []], NoBreak l := by
  show ∀ l ∈ ["a".toList, []], ∀ c ∈ l, isLineBreak c = false
  decide +kernel
example : ["a".toList] <+: ["a".toList, []] ∧ (["a".toList] : List Str)[0]? = some "a".toList :=
  ⟨⟨[[]], rfl⟩, rfl⟩

end Xdoc

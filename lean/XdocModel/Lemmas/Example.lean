import XdocModel.Example
/-! Helper lemmas about one iteration of the run loop and the loop invariant. -/
namespace Xdoc
open Py

variable {Env : Type}

/-- what an iteration that goes on can have done -/
structure ContinueFacts (s s' : RunState Env) (i : Nat) : Prop where
  failure : s'.failure = s.failure
  shape : (s'.skipped = s.skipped ∧ s'.executed = s.executed ++ [i]) ∨
          (s'.skipped = s.skipped ++ [i] ∧ s'.executed = s.executed ∧ s'.env = s.env ∧
            s'.unmatched = s.unmatched ∧ s'.logged = s.logged)

/-- what an iteration that stops the loop can have done -/
structure StopFacts (cfg : RunCfg) (s s' : RunState Env) (i : Nat) (e : RunEnd) : Prop where
  skipped : s'.skipped = s.skipped
  executed : s'.executed = s.executed ∨ s'.executed = s.executed ++ [i]
  failure : s'.failure = s.failure ∨ ∃ fl, s'.failure = some fl ∧ fl.partIdx = i
  ending : (e = .returned ∧ (s'.failure = s.failure ∨ cfg.onError = .ret)) ∨ (e = .escaped ∧ s'.failure = s.failure) ∨
           (∃ fl, e = .raised fl.kind ∧ cfg.onError = .raise ∧ s'.failure = some fl)

theorem applyAct_continue {cfg : RunCfg} {s s' : RunState Env} {i : Nat} {env' : Env} {a : Act}
    (h : applyAct cfg s i env' a = .continue s') : ContinueFacts s s' i := by
  cases a with
  | skip => simp [applyAct] at h; subst h; exact ⟨rfl, Or.inr ⟨rfl, rfl, rfl, rfl, rfl⟩⟩
  | ran out u => simp [applyAct] at h; subst h; exact ⟨rfl, Or.inl ⟨rfl, rfl⟩⟩
  | halt ex out fl =>
    cases fl with
    | none => simp [applyAct] at h
    | some kt => obtain ⟨k, tb⟩ := kt; simp [applyAct] at h
  | escape out => simp [applyAct] at h

theorem applyAct_stop {cfg : RunCfg} {s s' : RunState Env} {i : Nat} {env' : Env} {a : Act} {e : RunEnd}
    (h : applyAct cfg s i env' a = .stop s' e) : StopFacts cfg s s' i e := by
  cases a with
  | skip => simp [applyAct] at h
  | ran out u => simp [applyAct] at h
  | halt ex out fl =>
    cases fl with
    | none =>
      simp only [applyAct] at h
      cases ex <;> simp at h <;> obtain ⟨rfl, rfl⟩ := h
      · exact ⟨rfl, Or.inl rfl, Or.inl rfl, Or.inl ⟨rfl, Or.inl rfl⟩⟩
      · exact ⟨rfl, Or.inr rfl, Or.inl rfl, Or.inl ⟨rfl, Or.inl rfl⟩⟩
    | some kt =>
      obtain ⟨k, tb⟩ := kt
      simp only [applyAct] at h
      cases hc : cfg.onError <;> cases ex <;> simp [endOf, hc] at h <;> obtain ⟨rfl, rfl⟩ := h
      · exact ⟨rfl, Or.inl rfl, Or.inr ⟨_, rfl, rfl⟩, Or.inr (Or.inr ⟨⟨k, i, tb⟩, rfl, hc, rfl⟩)⟩
      · exact ⟨rfl, Or.inr rfl, Or.inr ⟨_, rfl, rfl⟩, Or.inr (Or.inr ⟨⟨k, i, tb⟩, rfl, hc, rfl⟩)⟩
      · exact ⟨rfl, Or.inl rfl, Or.inr ⟨_, rfl, rfl⟩, Or.inl ⟨rfl, Or.inr hc⟩⟩
      · exact ⟨rfl, Or.inr rfl, Or.inr ⟨_, rfl, rfl⟩, Or.inl ⟨rfl, Or.inr hc⟩⟩
  | escape out =>
    simp [applyAct] at h; obtain ⟨rfl, rfl⟩ := h
    exact ⟨rfl, Or.inr rfl, Or.inl rfl, Or.inr (Or.inl ⟨rfl, rfl⟩)⟩

/-- a loop end without failure always follows an executed part (exit), never a skipped one -/
theorem decideExec_halt_none {f : Flags} {iw : Bool} {want : Option Str} {unm : List Str}
    {res : ExecResult} {ex : Bool} {out : Str}
    (h : decideExec f iw want unm res = .halt ex out none) : ex = true := by
  unfold decideExec at h
  split at h
  all_goals (try (simp at h; done))
  all_goals (repeat' split at h)
  all_goals (try (simp at h))
  all_goals (try (simp_all))

/-- `escape` is decided only for an exception without a doctest frame in its traceback -/
theorem decideExec_escape {f : Flags} {iw : Bool} {want : Option Str} {unm : List Str}
    {res : ExecResult} {out : Str}
    (h : decideExec f iw want unm res = .escape out) : ∃ o l, res = .raised o l none := by
  unfold decideExec at h
  split at h
  all_goals (try (simp at h; done))
  all_goals (repeat' split at h)
  all_goals (try (simp at h))
  all_goals (try (exact ⟨_, _, rfl⟩))

theorem stepPart_continue {sat : Str → Option Bool} {sem : Env → Nat → RunPart → ExecResult × Env}
    {cfg : RunCfg} {s s' : RunState Env} {i : Nat} {p : RunPart}
    (h : stepPart sat sem cfg s i p = .continue s') : ContinueFacts s s' i := by
  unfold stepPart at h
  split at h
  · exact applyAct_continue h
  · have := applyAct_continue h
    exact ⟨this.failure, this.shape⟩
  · have := applyAct_continue h
    exact ⟨this.failure, this.shape⟩
  · have := applyAct_continue h
    exact ⟨this.failure, this.shape⟩

theorem stepPart_stop {sat : Str → Option Bool} {sem : Env → Nat → RunPart → ExecResult × Env}
    {cfg : RunCfg} {s s' : RunState Env} {i : Nat} {p : RunPart} {e : RunEnd}
    (h : stepPart sat sem cfg s i p = .stop s' e) : StopFacts cfg s s' i e := by
  unfold stepPart at h
  split at h
  · exact applyAct_stop h
  · have := applyAct_stop h
    exact ⟨this.skipped, this.executed, this.failure, this.ending⟩
  · have := applyAct_stop h
    exact ⟨this.skipped, this.executed, this.failure, this.ending⟩
  · have := applyAct_stop h
    exact ⟨this.skipped, this.executed, this.failure, this.ending⟩

theorem applyAct_escaped {cfg : RunCfg} {s s' : RunState Env} {i : Nat} {env' : Env} {a : Act}
    (h : applyAct cfg s i env' a = .stop s' .escaped) : ∃ out, a = .escape out := by
  cases a with
  | skip => simp [applyAct] at h
  | ran out u => simp [applyAct] at h
  | halt ex out fl =>
    cases fl with
    | none => simp [applyAct] at h
    | some kt =>
      obtain ⟨k, tb⟩ := kt
      simp only [applyAct, endOf] at h
      cases hc : cfg.onError <;> simp [hc] at h
  | escape out => exact ⟨out, rfl⟩

theorem stepPart_escaped {sat : Str → Option Bool} {sem : Env → Nat → RunPart → ExecResult × Env}
    {cfg : RunCfg} {s s' : RunState Env} {i : Nat} {p : RunPart}
    (h : stepPart sat sem cfg s i p = .stop s' .escaped) :
    ∃ o l, (sem s.env i p).1 = .raised o l none := by
  unfold stepPart at h
  split at h
  · obtain ⟨_, h⟩ := applyAct_escaped h; cases h
  · obtain ⟨_, h⟩ := applyAct_escaped h; cases h
  · obtain ⟨_, h⟩ := applyAct_escaped h; cases h
  · obtain ⟨out, h⟩ := applyAct_escaped h
    exact decideExec_escape h

theorem applyAct_stop_nofail {cfg : RunCfg} {s s' : RunState Env} {i : Nat} {env' : Env} {a : Act} {e : RunEnd}
    (h : applyAct cfg s i env' a = .stop s' e) (hf : s'.failure = none) :
    (∃ out, a = .halt true out none ∨ a = .halt false out none ∨ a = .escape out) := by
  cases a with
  | skip => simp [applyAct] at h
  | ran out u => simp [applyAct] at h
  | halt ex out fl =>
    cases fl with
    | none => cases ex <;> exact ⟨out, by simp⟩
    | some kt =>
      obtain ⟨k, tb⟩ := kt
      simp only [applyAct] at h
      cases ex <;> simp at h <;> obtain ⟨rfl, _⟩ := h <;> simp at hf
  | escape out => exact ⟨out, by simp⟩

/-- a stop that records no failure happens right after the part was executed -/
theorem stepPart_stop_nofail {sat : Str → Option Bool} {sem : Env → Nat → RunPart → ExecResult × Env}
    {cfg : RunCfg} {s s' : RunState Env} {i : Nat} {p : RunPart} {e : RunEnd}
    (h : stepPart sat sem cfg s i p = .stop s' e) (hf : s'.failure = none) :
    s'.executed = s.executed ++ [i] := by
  unfold stepPart at h
  split at h
  · obtain ⟨out, ha⟩ := applyAct_stop_nofail h hf; simp at ha
  · obtain ⟨out, ha⟩ := applyAct_stop_nofail h hf; simp at ha
  · obtain ⟨out, ha⟩ := applyAct_stop_nofail h hf; simp at ha
  · obtain ⟨out, ha⟩ := applyAct_stop_nofail h hf
    rcases ha with ha | ha | ha
    · rw [ha] at h; simp [applyAct] at h; obtain ⟨rfl, _⟩ := h; rfl
    · have := decideExec_halt_none ha; cases this
    · rw [ha] at h; simp [applyAct] at h; obtain ⟨rfl, _⟩ := h; rfl

/-- loop invariant: before part `i`, nothing has failed, and every recorded index is below `i`;
    `skipped` and `executed` are strictly increasing and disjoint -/
structure LoopInv (s : RunState Env) (i : Nat) : Prop where
  noFailure : s.failure = none
  sorted : (s.skipped ++ s.executed).Nodup
  skippedLt : ∀ j ∈ s.skipped, j < i
  executedLt : ∀ j ∈ s.executed, j < i
  skippedSorted : s.skipped.Pairwise (· < ·)
  executedSorted : s.executed.Pairwise (· < ·)
  count : s.skipped.length + s.executed.length = i
  covered : ∀ j, j < i → j ∈ s.skipped ∨ j ∈ s.executed

theorem pairwise_append_singleton {l : List Nat} {i : Nat} (h : l.Pairwise (· < ·)) (hl : ∀ j ∈ l, j < i) :
    (l ++ [i]).Pairwise (· < ·) := by
  rw [List.pairwise_append]
  exact ⟨h, by simp, by intro a ha b hb; simp at hb; subst hb; exact hl a ha⟩

theorem LoopInv.step {s s' : RunState Env} {i : Nat} (inv : LoopInv s i) (c : ContinueFacts s s' i) :
    LoopInv s' (i + 1) := by
  rcases c.shape with ⟨h1, h2⟩ | ⟨h1, h2, _, _, _⟩
  · refine ⟨c.failure ▸ inv.noFailure, ?_, ?_, ?_, ?_, ?_, ?_, ?_⟩
    · rw [h1, h2, ← List.append_assoc]
      rw [List.nodup_append]
      refine ⟨inv.sorted, by simp, ?_⟩
      intro a ha b hb
      simp at hb; subst hb
      rcases List.mem_append.mp ha with ha | ha
      · exact Nat.ne_of_lt (inv.skippedLt a ha)
      · exact Nat.ne_of_lt (inv.executedLt a ha)
    · rw [h1]; intro j hj; exact Nat.lt_succ_of_lt (inv.skippedLt j hj)
    · rw [h2]; intro j hj
      rcases List.mem_append.mp hj with hj | hj
      · exact Nat.lt_succ_of_lt (inv.executedLt j hj)
      · simp at hj; omega
    · rw [h1]; exact inv.skippedSorted
    · rw [h2]; exact pairwise_append_singleton inv.executedSorted inv.executedLt
    · rw [h1, h2]; simp; have := inv.count; omega
    · intro j hj
      rw [h1, h2]
      by_cases hji : j < i
      · rcases inv.covered j hji with h | h
        · exact Or.inl h
        · exact Or.inr (List.mem_append_left _ h)
      · have : j = i := by omega
        subst this; exact Or.inr (by simp)
  · refine ⟨c.failure ▸ inv.noFailure, ?_, ?_, ?_, ?_, ?_, ?_, ?_⟩
    · rw [h1, h2]
      have : (s.skipped ++ [i] ++ s.executed).Perm ((s.skipped ++ s.executed) ++ [i]) := by
        simp only [List.append_assoc]
        exact List.Perm.append_left _ List.perm_append_comm
      rw [this.nodup_iff, List.nodup_append]
      refine ⟨inv.sorted, by simp, ?_⟩
      intro a ha b hb
      simp at hb; subst hb
      rcases List.mem_append.mp ha with ha | ha
      · exact Nat.ne_of_lt (inv.skippedLt a ha)
      · exact Nat.ne_of_lt (inv.executedLt a ha)
    · rw [h1]; intro j hj
      rcases List.mem_append.mp hj with hj | hj
      · exact Nat.lt_succ_of_lt (inv.skippedLt j hj)
      · simp at hj; omega
    · rw [h2]; intro j hj; exact Nat.lt_succ_of_lt (inv.executedLt j hj)
    · rw [h1]; exact pairwise_append_singleton inv.skippedSorted inv.skippedLt
    · rw [h2]; exact inv.executedSorted
    · rw [h1, h2]; simp; have := inv.count; omega
    · intro j hj
      rw [h1, h2]
      by_cases hji : j < i
      · rcases inv.covered j hji with h | h
        · exact Or.inl (List.mem_append_left _ h)
        · exact Or.inr h
      · have : j = i := by omega
        subst this; exact Or.inl (by simp)

/-- what holds of the final state of the loop started at part index `i` with `ps` remaining -/
structure LoopResult (sem : Env → Nat → RunPart → ExecResult × Env) (cfg : RunCfg) (n : Nat)
    (s : RunState Env) (e : Option RunEnd) : Prop where
  skippedSorted : s.skipped.Pairwise (· < ·)
  executedSorted : s.executed.Pairwise (· < ·)
  disjoint : (s.skipped ++ s.executed).Nodup
  bound : ∀ j, j ∈ s.skipped ∨ j ∈ s.executed → j < n
  /-- a failure is attributed to a part that was not skipped, and nothing after it ran -/
  failure : ∀ fl, s.failure = some fl →
      fl.partIdx < n ∧ fl.partIdx ∉ s.skipped ∧ (∀ j ∈ s.executed, j ≤ fl.partIdx) ∧
      (∀ j ∈ s.skipped, j < fl.partIdx) ∧ e.isSome ∧
      (∀ j, j < fl.partIdx → j ∈ s.skipped ∨ j ∈ s.executed)
  /-- the loop ran to the end: every part was skipped or executed -/
  complete : e = none → s.failure = none ∧ s.skipped.length + s.executed.length = n
  stopped : e.isSome → s.skipped.length < n
  stoppedRan : e.isSome → s.failure = none → s.executed ≠ []
  escaped : e = some .escaped → ∃ env i p o l, (sem env i p).1 = .raised o l none
  ending : ∀ e', e = some e' →
      (e' = .returned ∧ (s.failure = none ∨ cfg.onError = .ret)) ∨ (e' = .escaped ∧ s.failure = none) ∨
      (∃ fl, e' = .raised fl.kind ∧ cfg.onError = .raise ∧ s.failure = some fl)

theorem runLoop_result (sat : Str → Option Bool) (sem : Env → Nat → RunPart → ExecResult × Env)
    (cfg : RunCfg) (ps : List RunPart) (s : RunState Env) (i : Nat) (inv : LoopInv s i) :
    LoopResult sem cfg (i + ps.length) (runLoop sat sem cfg s i ps).1 (runLoop sat sem cfg s i ps).2 := by
  induction ps generalizing s i with
  | nil =>
    simp only [runLoop, List.length_nil, Nat.add_zero]
    refine ⟨inv.skippedSorted, inv.executedSorted, inv.sorted, ?_, ?_, ?_, by simp, by simp, by simp, by simp⟩
    · intro j hj; rcases hj with hj | hj
      · exact inv.skippedLt j hj
      · exact inv.executedLt j hj
    · intro fl h; rw [inv.noFailure] at h; cases h
    · intro _; exact ⟨inv.noFailure, inv.count⟩
  | cons p ps ih =>
    have hn : i + (p :: ps).length = (i + 1) + ps.length := by simp; omega
    rw [hn]
    simp only [runLoop]
    cases hstep : stepPart sat sem cfg s i p with
    | «continue» s' =>
      simp only
      exact ih s' (i + 1) (inv.step (stepPart_continue hstep))
    | stop s' e =>
      simp only
      have f := stepPart_stop hstep
      have hex : ∀ j ∈ s'.executed, j ≤ i := by
        intro j hj
        rcases f.executed with h | h
        · rw [h] at hj; exact Nat.le_of_lt (inv.executedLt j hj)
        · rw [h] at hj
          rcases List.mem_append.mp hj with hj | hj
          · exact Nat.le_of_lt (inv.executedLt j hj)
          · simp at hj; omega
      refine ⟨?_, ?_, ?_, ?_, ?_, by simp, ?_, ?_, ?_, ?_⟩
      · rw [f.skipped]; exact inv.skippedSorted
      · rcases f.executed with h | h
        · rw [h]; exact inv.executedSorted
        · rw [h]; exact pairwise_append_singleton inv.executedSorted inv.executedLt
      · rw [f.skipped]
        rcases f.executed with h | h
        · rw [h]; exact inv.sorted
        · rw [h, ← List.append_assoc, List.nodup_append]
          refine ⟨inv.sorted, by simp, ?_⟩
          intro a ha b hb
          simp at hb; subst hb
          rcases List.mem_append.mp ha with ha | ha
          · exact Nat.ne_of_lt (inv.skippedLt a ha)
          · exact Nat.ne_of_lt (inv.executedLt a ha)
      · intro j hj
        rcases hj with hj | hj
        · rw [f.skipped] at hj; have := inv.skippedLt j hj; omega
        · have := hex j hj; omega
      · intro fl hfl
        have hidx : fl.partIdx = i := by
          rcases f.failure with h | ⟨fl', h, hi⟩
          · rw [h, inv.noFailure] at hfl; cases hfl
          · rw [h] at hfl; cases hfl; exact hi
        refine ⟨by omega, ?_, ?_, ?_, by simp, ?_⟩
        · rw [f.skipped, hidx]; intro hmem; exact Nat.lt_irrefl _ (inv.skippedLt i hmem)
        · rw [hidx]; exact hex
        · rw [f.skipped, hidx]; exact inv.skippedLt
        · rw [hidx, f.skipped]
          intro j hj
          rcases inv.covered j hj with h | h
          · exact Or.inl h
          · refine Or.inr ?_
            rcases f.executed with h' | h'
            · rw [h']; exact h
            · rw [h']; exact List.mem_append_left _ h
      · intro _
        rw [f.skipped]
        have := inv.count; omega
      · intro _ hnf
        rw [stepPart_stop_nofail hstep hnf]; simp
      · intro he
        cases he
        obtain ⟨o, l, h⟩ := stepPart_escaped hstep
        exact ⟨_, _, _, o, l, h⟩
      · intro e' he'
        cases he'
        rcases f.ending with ⟨h1, h2⟩ | ⟨h1, h2⟩ | ⟨fl, h1, h2, h3⟩
        · refine Or.inl ⟨h1, ?_⟩
          rcases h2 with h2 | h2
          · exact Or.inl (h2 ▸ inv.noFailure)
          · exact Or.inr h2
        · exact Or.inr (Or.inl ⟨h1, h2 ▸ inv.noFailure⟩)
        · exact Or.inr (Or.inr ⟨fl, h1, h2, h3⟩)

theorem loopInv_init (env0 : Env) (rs : RState) :
    LoopInv ({ env := env0, rs := rs } : RunState Env) 0 :=
  ⟨rfl, by simp, by simp, by simp, by simp, by simp, by simp, by intro j hj; omega⟩

end Xdoc

import XdocModel.Lemmas.Parser
import XdocModel.Lemmas.Chunk
import XdocModel.Lemmas.Lines
import XdocModel.Lemmas.LineNumbers
/-!
# Helper lemmas for the compositions of clusters (`Proofs/Compose.lean`)

* lines: `str.splitlines()` yields lines without line-break characters (so do `prepareLines`), the
  number of `\n` in `'\n'.join(ls)` is `len(ls) - 1`;
* grouping: no group, hence no text chunk, is empty; the labeller keeps lines free of line breaks;
* the bridge `Parser.Piece → Core.FPiece` and the tiling predicate `ExactTiles` (C13's `Tiles` plus
  the two facts `Tiles` does not record) that implies C08's `Tiled`.
-/
namespace Xdoc
open Py

/-! ## lines -/
namespace Py

/-- a line as `splitlines(keepends=True)` returns it: a body without line breaks and a terminator -/
def KeptLine (l : Str) : Prop :=
  ∃ body term, l = body ++ term ∧ NoBreak body ∧
    (term = [] ∨ term = ['\r', '\n'] ∨ ∃ b, isLineBreak b = true ∧ term = [b])

theorem noBreak_nil : NoBreak [] := fun _ h => by simp at h

theorem noBreak_cons {c : Char} {l : Str} (hc : isLineBreak c = false) (hl : NoBreak l) : NoBreak (c :: l) := by
  intro x hx
  rcases List.mem_cons.mp hx with rfl | hx
  · exact hc
  · exact hl x hx

theorem splitLinesKeep_kept (s : Str) : ∀ l ∈ splitLinesKeep s, KeptLine l := by
  fun_induction splitLinesKeep s with
  | case1 => simp
  | case2 c =>
    intro l hl
    simp only [List.mem_singleton] at hl; subst hl
    by_cases hc : isLineBreak c = true
    · exact ⟨[], [c], rfl, noBreak_nil, Or.inr (Or.inr ⟨c, hc, rfl⟩)⟩
    · exact ⟨[c], [], by simp, noBreak_cons (by simpa using hc) noBreak_nil, Or.inl rfl⟩
  | case3 c d s h ih =>
    intro l hl
    rcases List.mem_cons.mp hl with rfl | hl
    · obtain ⟨rfl, rfl⟩ := h
      exact ⟨[], ['\r', '\n'], rfl, noBreak_nil, Or.inr (Or.inl rfl)⟩
    · exact ih l hl
  | case4 c d s _ hb ih =>
    intro l hl
    rcases List.mem_cons.mp hl with rfl | hl
    · exact ⟨[], [c], rfl, noBreak_nil, Or.inr (Or.inr ⟨c, hb, rfl⟩)⟩
    · exact ih l hl
  | case5 c d s _ hb heq ih =>
    intro l hl
    simp only [List.mem_singleton] at hl; subst hl
    exact ⟨[c], [], by simp, noBreak_cons (by simpa using hb) noBreak_nil, Or.inl rfl⟩
  | case6 c d s _ hb l0 ls heq ih =>
    intro l hl
    rcases List.mem_cons.mp hl with rfl | hl
    · obtain ⟨body, term, e, hbody, ht⟩ := ih l0 (by rw [heq]; simp)
      exact ⟨c :: body, term, by rw [e]; rfl, noBreak_cons (by simpa using hb) hbody, ht⟩
    · exact ih l (by rw [heq]; exact List.mem_cons_of_mem _ hl)

theorem chompLine_break (l : Str) (b : Char) (h : NoBreak l) (hb : isLineBreak b = true) :
    chompLine (l ++ [b]) = l := by
  unfold chompLine
  split
  · next r heq =>
    simp only [List.reverse_append, List.reverse_cons, List.reverse_nil, List.nil_append,
      List.singleton_append, List.cons.injEq] at heq
    have : '\r' ∈ l := by rw [← List.mem_reverse, heq.2]; simp
    have := h _ this
    rw [isLineBreak_cr] at this; cases this
  · next c r _ heq =>
    simp only [List.reverse_append, List.reverse_cons, List.reverse_nil, List.nil_append,
      List.singleton_append, List.cons.injEq] at heq
    obtain ⟨rfl, rfl⟩ := heq
    rw [if_pos hb]; simp
  · next heq => simp at heq

theorem chompLine_crlf (l : Str) : chompLine (l ++ ['\r', '\n']) = l := by
  unfold chompLine
  split
  · next r heq =>
    simp only [List.reverse_append, List.reverse_cons, List.reverse_nil, List.nil_append,
      List.cons_append, List.cons.injEq, true_and] at heq
    rw [← heq]; simp
  · next c r hno heq =>
    exfalso
    simp only [List.reverse_append, List.reverse_cons, List.reverse_nil, List.nil_append,
      List.cons_append, List.cons.injEq] at heq
    obtain ⟨rfl, rfl⟩ := heq
    exact hno _ rfl rfl
  · next heq => simp at heq

theorem chompLine_kept {l : Str} (h : KeptLine l) : NoBreak (chompLine l) := by
  obtain ⟨body, term, rfl, hb, ht⟩ := h
  rcases ht with rfl | rfl | ⟨b, hbr, rfl⟩
  · rw [List.append_nil, chompLine_id body hb]; exact hb
  · rw [chompLine_crlf]; exact hb
  · rw [chompLine_break body b hb hbr]; exact hb

/-- `str.splitlines()` returns lines without any line-break character -/
theorem splitLines_noBreak (s : Str) : ∀ l ∈ splitLines s, NoBreak l := by
  intro l hl
  unfold splitLines at hl
  obtain ⟨k, hk, rfl⟩ := List.mem_map.mp hl
  exact chompLine_kept (splitLinesKeep_kept s k hk)

theorem splitLinesKeep_flatten' (s : Str) : (splitLinesKeep s).flatten = s := by
  fun_induction splitLinesKeep s <;> simp_all

theorem chompLine_subset (l : Str) : ∀ c ∈ chompLine l, c ∈ l := by
  intro c hc
  unfold chompLine at hc
  split at hc
  · next r heq =>
    have : c ∈ l.reverse := by rw [heq]; simp [List.mem_reverse.mp hc]
    exact List.mem_reverse.mp this
  · next d r _ heq =>
    split at hc
    · have : c ∈ l.reverse := by rw [heq]; simp [List.mem_reverse.mp hc]
      exact List.mem_reverse.mp this
    · exact hc
  · exact hc

/-- `splitlines` invents no character -/
theorem mem_of_mem_splitLines {s l : Str} {c : Char} (hl : l ∈ splitLines s) (hc : c ∈ l) : c ∈ s := by
  unfold splitLines at hl
  obtain ⟨k, hk, rfl⟩ := List.mem_map.mp hl
  rw [← splitLinesKeep_flatten' s]
  exact List.mem_flatten.mpr ⟨k, hk, chompLine_subset k c hc⟩

/-- `'\n'.join(ls).count('\n') + 1 == len(ls)` for a non-empty list of lines without `\n` -/
theorem count_nl_joinWith (ls : List Str) (hne : ls ≠ []) (h : ∀ l ∈ ls, '\n' ∉ l) :
    countChar '\n' (joinWith ['\n'] ls) + 1 = ls.length := by
  induction ls with
  | nil => exact absurd rfl hne
  | cons x r ih =>
    cases r with
    | nil =>
      simp only [joinWith, countChar, List.length_singleton, Nat.add_eq_right]
      exact List.count_eq_zero.mpr (h x (by simp))
    | cons y r =>
      have ih' := ih (by simp) (fun l hl => h l (List.mem_cons_of_mem _ hl))
      have hx : List.count '\n' x = 0 := List.count_eq_zero.mpr (h x (by simp))
      have e : joinWith ['\n'] (x :: y :: r) = x ++ ['\n'] ++ joinWith ['\n'] (y :: r) := rfl
      simp only [countChar] at ih' ⊢
      rw [e, List.count_append, List.count_append, hx]
      simp only [List.length_cons] at ih' ⊢
      simp only [List.count_singleton_self]
      omega

end Py

namespace Parser
open Lexer

/-- the lines the labeller sees contain no line-break character -/
theorem prepareLines_noBreak (docstr : Str) : ∀ l ∈ prepareLines docstr, NoBreak l := by
  unfold prepareLines
  exact splitLines_noBreak _

/-- in particular no `\n` -/
theorem prepareLines_no_newline (docstr : Str) : ∀ l ∈ prepareLines docstr, '\n' ∉ l :=
  fun l hl => (prepareLines_noBreak docstr l hl).no_nl

/-- the labeller's hack inserts only `... `: a line free of the characters `f` marks stays so -/
theorem hackRel_allC (f : Char → Bool) (hf : ∀ c ∈ "... ".toList, f c = false) {line out : Str}
    (h : HackRel line out) (hl : ∀ c ∈ line, f c = false) : ∀ c ∈ out, f c = false := by
  rcases h with rfl | ⟨k, rfl⟩
  · exact hl
  · intro c hc
    simp only [List.mem_append] at hc
    rcases hc with (hc | hc) | hc
    · exact hl c (List.mem_of_mem_take hc)
    · exact hf c hc
    · exact hl c (List.mem_of_mem_drop hc)

theorem forall2_lineRel_allC (f : Char → Bool) (hf : ∀ c ∈ "... ".toList, f c = false)
    {ls : List Str} {out : List LLine} (h : Forall2 LineRel ls out)
    (hl : ∀ l ∈ ls, ∀ c ∈ l, f c = false) : ∀ p ∈ out, ∀ c ∈ p.2, f c = false := by
  induction h with
  | nil => simp
  | cons hr _ ih =>
    intro p hp
    rcases List.mem_cons.mp hp with rfl | hp
    · exact hackRel_allC f hf hr.1 (hl _ (by simp))
    · exact ih (fun l hl' => hl l (List.mem_cons_of_mem _ hl')) p hp

theorem hackRel_noBreak {line out : Str} (h : HackRel line out) (hl : NoBreak line) : NoBreak out :=
  hackRel_allC isLineBreak (by decide +kernel) h hl

theorem forall2_lineRel_noBreak {ls : List Str} {out : List LLine} (h : Forall2 LineRel ls out)
    (hl : ∀ l ∈ ls, NoBreak l) : ∀ p ∈ out, NoBreak p.2 :=
  forall2_lineRel_allC isLineBreak (by decide +kernel) h hl

/-! ## grouping never produces an empty group or an empty text chunk -/

def G1.NE (left : Option LLine) (st : G1) : Prop :=
  (∀ g ∈ st.groups, g.2 ≠ []) ∧ (left ≠ none → st.current ≠ [])

theorem g1Step_ne {left : Option LLine} {mid : LLine} {right : Option LLine} {st : G1}
    (hi : G1.Inv left st) (hn : G1.NE left st) : G1.NE (some mid) (g1Step st (left, mid, right)) := by
  obtain ⟨groups, state, current⟩ := st
  obtain ⟨hg, hc⟩ := hn
  simp only at hg hc
  unfold g1Step G1.NE
  cases left with
  | none =>
    obtain ⟨h1, h2⟩ := hi.1 rfl
    simp only at h1 h2; subst h1 h2
    simp only
    split
    · split
      · exact ⟨hg, by simp⟩
      · exact ⟨hg, by simp⟩
    · exact ⟨hg, by simp⟩
  | some lf =>
    have hcur := hc (by simp)
    simp only
    split
    · split
      · refine ⟨?_, by simp⟩
        cases state with
        | none => exact hg
        | some s =>
          intro g hgm
          rcases List.mem_append.mp hgm with hgm | hgm
          · exact hg g hgm
          · simp only [List.mem_singleton] at hgm; subst hgm; exact hcur
      · exact ⟨hg, by simp⟩
    · exact ⟨hg, by simp⟩

theorem g1_fold_ne (xs : List LLine) (left : Option LLine) (st : G1) (hi : G1.Inv left st)
    (hn : G1.NE left st) : ∀ g ∈ ((iterThree left xs).foldl g1Step st).groups, g.2 ≠ [] := by
  induction xs generalizing left st with
  | nil => simpa [iterThree] using hn.1
  | cons m rest ih =>
    cases rest with
    | nil =>
      simp only [iterThree, List.foldl_cons, List.foldl_nil]
      exact (g1Step_ne (right := none) (mid := m) hi hn).1
    | cons r rest' =>
      simp only [iterThree, List.foldl_cons]
      exact ih (some m) _ (g1Step_flat (right := some r) (mid := m) hi).2
        (g1Step_ne (right := some r) (mid := m) hi hn)

theorem group1_ne (labeled : List LLine) : ∀ g ∈ group1 labeled, g.2 ≠ [] := by
  rw [group1_eq]
  have h := g1_fold_ne labeled none {} ⟨fun _ => ⟨rfl, rfl⟩, fun h => absurd rfl h⟩
    ⟨by simp, fun h => absurd rfl h⟩
  generalize (iterThree none labeled).foldl g1Step {} = st at h
  obtain ⟨groups, state, current⟩ := st
  simp only at h
  unfold g1Finish
  cases current with
  | nil => exact h
  | cons c cs =>
    cases state with
    | none => exact h
    | some s =>
      intro g hg
      rcases List.mem_append.mp hg with hg | hg
      · exact h g hg
      · simp only [List.mem_singleton] at hg; subst hg; simp

def G2.NE (left : Option Group) (st : G2) : Prop :=
  (∀ g ∈ st.merged, g.2 ≠ []) ∧ (left ≠ none → st.current ≠ [])

theorem g2Step_ne {left : Option Group} {mid : Group} {right : Option Group} {st : G2}
    (hm : mid.2 ≠ []) (hn : G2.NE left st) : G2.NE (some mid) (g2Step st (left, mid, right)) := by
  obtain ⟨merged, state, current⟩ := st
  obtain ⟨hg, hc⟩ := hn
  simp only at hg hc
  unfold g2Step G2.NE
  simp only
  split
  · refine ⟨hg, fun _ => ?_⟩
    simp only
    intro e
    exact hm (List.append_eq_nil_iff.mp e).2
  · refine ⟨?_, fun _ => hm⟩
    simp only
    split
    · next s ll hs hl =>
      intro g hgm
      rcases List.mem_append.mp hgm with hgm | hgm
      · exact hg g hgm
      · simp only [List.mem_singleton] at hgm; subst hgm
        cases left with
        | none => simp at hl
        | some lf => exact hc (by simp)
    · exact hg

theorem g2_fold_ne (xs : List Group) (hx : ∀ g ∈ xs, g.2 ≠ []) (left : Option Group) (st : G2)
    (hn : G2.NE left st) :
    G2.NE (match xs.getLast? with | some g => some g | none => left) ((iterThree left xs).foldl g2Step st) := by
  induction xs generalizing left st with
  | nil => simpa [iterThree] using hn
  | cons m rest ih =>
    cases rest with
    | nil =>
      simp only [iterThree, List.foldl_cons, List.foldl_nil, List.getLast?_singleton]
      exact g2Step_ne (right := none) (hx m (by simp)) hn
    | cons r rest' =>
      simp only [iterThree, List.foldl_cons, List.getLast?_cons_cons]
      have := ih (fun g hg => hx g (List.mem_cons_of_mem _ hg)) (some m) _
        (g2Step_ne (right := some r) (hx m (by simp)) hn)
      cases hl : (r :: rest').getLast? with
      | none => simp at hl
      | some g => rw [hl] at this; exact this

theorem group2_ne (groups : List Group) (hx : ∀ g ∈ groups, g.2 ≠ []) : ∀ g ∈ group2 groups, g.2 ≠ [] := by
  rw [group2_eq]
  have h := (g2_fold_ne groups hx none {} ⟨by simp, fun h => absurd rfl h⟩).1
  generalize (iterThree none groups).foldl g2Step {} = st at h
  obtain ⟨merged, state, current⟩ := st
  simp only at h
  unfold g2Finish
  cases current with
  | nil => exact h
  | cons c cs =>
    cases state with
    | none => exact h
    | some s =>
      intro g hg
      rcases List.mem_append.mp hg with hg | hg
      · exact h g hg
      · simp only [List.mem_singleton] at hg; subst hg; simp

/-- no text chunk is empty -/
def TextNonempty (cs : List Chunk) : Prop := ∀ ls, Chunk.text ls ∈ cs → ls ≠ []

theorem g3Flush_textNonempty {st : G3} (h : TextNonempty st.out) : TextNonempty (g3Flush st).out := by
  obtain ⟨out, prev⟩ := st
  cases prev with
  | none => exact h
  | some src =>
    intro ls hls
    simp only [g3Flush, List.mem_append, List.mem_singleton] at hls
    rcases hls with hls | hls
    · exact h ls hls
    · cases hls

theorem g3Step_textNonempty {st st' : G3} {g : Group} (hg : g.2 ≠ []) (h : TextNonempty st.out)
    (hs : g3Step st g = .ok st') : TextNonempty st'.out := by
  obtain ⟨lab, lines⟩ := g
  unfold g3Step at hs
  have hf := g3Flush_textNonempty h
  cases lab with
  | text =>
    simp only [Except.ok.injEq] at hs; subst hs
    intro ls hls
    simp only [List.mem_append, List.mem_singleton] at hls
    rcases hls with hls | hls
    · exact hf ls hls
    · simp only [Chunk.text.injEq] at hls; subst hls
      simpa using hg
  | want =>
    obtain ⟨out, prev⟩ := st
    cases prev with
    | none => simp at hs
    | some src =>
      simp only [Except.ok.injEq] at hs; subst hs
      intro ls hls
      simp only [List.mem_append, List.mem_singleton] at hls
      rcases hls with hls | hls
      · exact h ls hls
      · cases hls
  | dsrc => simp only [Except.ok.injEq] at hs; subst hs; exact hf
  | dcnt => simp only [Except.ok.injEq] at hs; subst hs; exact hf

theorem g3_fold_textNonempty {gs : List Group} {st st' : G3} (hg : ∀ g ∈ gs, g.2 ≠ [])
    (h : TextNonempty st.out) (hs : gs.foldlM g3Step st = .ok st') : TextNonempty st'.out := by
  induction gs generalizing st with
  | nil => simp [pure, Except.pure] at hs; subst hs; exact h
  | cons g gs ih =>
    rw [List.foldlM_cons] at hs
    cases hg1 : g3Step st g with
    | error e => simp [hg1, bind, Except.bind] at hs
    | ok st1 =>
      simp only [hg1, bind, Except.bind] at hs
      exact ih (fun g' hg' => hg g' (List.mem_cons_of_mem _ hg'))
        (g3Step_textNonempty (hg g (by simp)) h hg1) hs

theorem group3_textNonempty {merged : List Group} {cs : List Chunk} (hg : ∀ g ∈ merged, g.2 ≠ [])
    (h : group3 merged = .ok cs) : TextNonempty cs := by
  rw [group3_eq] at h
  split at h
  · simp at h
  · rename_i st hst
    have := g3_fold_textNonempty hg (st := {}) (by intro ls hls; simp at hls) hst
    split at h
    · simp only [Except.ok.injEq] at h; subst h
      intro ls hls
      simp only [List.mem_append, List.mem_singleton] at hls
      rcases hls with hls | hls
      · exact this ls hls
      · cases hls
    · simp only [Except.ok.injEq] at h; subst h; exact this

/-- the text chunks of a grouped docstring are never empty (so a text piece `'\n'.join(lines)`
    stands for `lines.length ≥ 1` lines) -/
theorem groupLines_textNonempty {labeled : List LLine} {cs : List Chunk} (h : groupLines labeled = .ok cs) :
    TextNonempty cs := by
  unfold groupLines at h
  exact group3_textNonempty (group2_ne _ (group1_ne labeled)) h

end Parser

/-! ## from the parser's pieces to the pieces of the freeform loop -/
namespace Compose
open Parser Core

/-- what `parse_freeform_docstr_examples` sees of a parser piece: the text, or the `DoctestPart`
    (the directives the parser attached are re-derived by the part itself and play no role in the
    line arithmetic). This is how the harness builds the `FPiece`s from real parser output. -/
def toFPiece : Piece → FPiece
  | .text s => .text s
  | .part q => .part q.part

def toFPieces (ps : List Piece) : List FPiece := ps.map toFPiece

theorem toFPieces_append (a b : List Piece) : toFPieces (a ++ b) = toFPieces a ++ toFPieces b := by
  simp [toFPieces]

theorem toFPieces_parts (parts : List PPart) :
    toFPieces (parts.map Piece.part) = parts.map (fun q => FPiece.part q.part) := by
  simp [toFPieces, toFPiece, Function.comp_def]

/-- C13's `Tiles` with the two facts it does not record: a text chunk is never empty, and EVERY
    part of a chunk (also an empty one) sits at chunk start + number of earlier source lines
    (`OffsetsFrom`, C01 `part_offsets`; `Covers` only says so for parts with a first line) -/
inductive ExactTiles : List Piece → Nat → List Str → Prop
  | nil (o : Nat) : ExactTiles [] o []
  | text {ls : List Str} {ps : List Piece} {o : Nat} {rest : List Str} :
      ls ≠ [] → ExactTiles ps (o + ls.length) rest →
      ExactTiles (.text (joinWith ['\n'] ls) :: ps) o (ls ++ rest)
  | code {parts : List PPart} {ps : List Piece} {o : Nat} {src want rest : List Str} :
      SrcTiles (chunkIndentP src) want parts o src → OffsetsFrom o 0 parts →
      ExactTiles ps (o + src.length + want.length) rest →
      ExactTiles (parts.map Piece.part ++ ps) o (src ++ want ++ rest)

theorem ExactTiles.tiles {ps : List Piece} {o : Nat} {L : List Str} (h : ExactTiles ps o L) : Tiles ps o L := by
  induction h with
  | nil o => exact .nil o
  | text _ _ ih => exact .text ih
  | code hs _ _ ih => exact .code hs ih

/-- the parts of one chunk, whose offsets count the earlier source lines, are tiled in the sense of
    C08: the source lines of all parts, then the want lines of the last one -/
theorem tiled_parts {k : Nat} {want : List Str} {parts : List PPart} {o' : Nat} {src : List Str}
    (hs : SrcTiles k want parts o' src) (o acc : Nat) (rest : List FPiece)
    (ho : OffsetsFrom o acc parts) (hr : Tiled (o + acc + src.length + want.length) rest) :
    Tiled (o + acc) (parts.map (fun q => FPiece.part q.part) ++ rest) := by
  induction hs generalizing acc with
  | @last p o'' ls hc hw =>
    obtain ⟨_, hexec, _⟩ := hc
    obtain ⟨hoff, _⟩ := ho
    have hn : p.part.nLines = ls.length + want.length := by
      simp [Part.nLines, Part.nExecLines, Part.nWantLines, hexec, hw]
    simp only [List.map_cons, List.map_nil, List.cons_append, List.nil_append, Tiled]
    refine ⟨hoff, ?_⟩
    rw [hn, ← Nat.add_assoc]; exact hr
  | @cons p ps o'' ls rest' hc hw _ ih =>
    obtain ⟨_, hexec, _⟩ := hc
    obtain ⟨hoff, ho'⟩ := ho
    have hlen : p.part.execLines.length = ls.length := by simp [hexec]
    have hn : p.part.nLines = ls.length := by
      simp [Part.nLines, Part.nExecLines, Part.nWantLines, hexec, hw]
    simp only [List.map_cons, List.cons_append, Tiled]
    refine ⟨hoff, ?_⟩
    rw [hn, Nat.add_assoc]
    rw [hlen] at ho'
    apply ih (acc + ls.length) ho'
    have : o + (acc + ls.length) + rest'.length + want.length =
        o + acc + (ls ++ rest').length + want.length := by simp; omega
    rw [this]; exact hr

/-- ★ the bridge C13 → C08: pieces that tile lines without `\n` exactly (`ExactTiles`) are `Tiled`
    in the sense of the freeform loop (text piece = `count('\n') + 1` lines, part = `n_lines`) -/
theorem tiled_of_tiles {ps : List Piece} {o : Nat} {L : List Str} (h : ExactTiles ps o L)
    (hnl : ∀ l ∈ L, '\n' ∉ l) : Tiled o (toFPieces ps) := by
  induction h with
  | nil o => trivial
  | @text ls ps o rest hne _ ih =>
    have hc := count_nl_joinWith ls hne (fun l hl => hnl l (List.mem_append_left _ hl))
    simp only [toFPieces, List.map_cons, toFPiece, Tiled, pieceSize]
    rw [hc]
    exact ih (fun l hl => hnl l (List.mem_append_right _ hl))
  | @code parts ps o src want rest hs ho _ ih =>
    rw [toFPieces_append, toFPieces_parts]
    have := tiled_parts hs o 0 (toFPieces ps) ho
      (by simpa using ih (fun l hl => hnl l (List.mem_append_right _ hl)))
    simpa using this


/-! ## where a part's first line is -/

theorem forall2_getElem? {α β : Type} {R : α → β → Prop} {as : List α} {bs : List β}
    (h : Forall2 R as bs) (i : Nat) (b : β) (hb : bs[i]? = some b) : ∃ a, as[i]? = some a ∧ R a b := by
  induction h generalizing i with
  | nil => simp at hb
  | @cons a b' as' bs' hr _ ih =>
    cases i with
    | zero => simp at hb; subst hb; exact ⟨a, rfl, hr⟩
    | succ j => simpa using ih j (by simpa using hb)

/-- a part with a first line records the index of that line, and its first `orig_line` is that
    line without the chunk's indent -/
theorem srcTiles_part_line {k : Nat} {want : List Str} {parts : List PPart} {o : Nat} {src : List Str}
    (h : SrcTiles k want parts o src) :
    ∀ q ∈ parts, ∀ x ls, q.part.origLines = some (x :: ls) →
      ∃ raw, o ≤ q.part.lineOffset ∧ src[q.part.lineOffset - o]? = some raw ∧ x = raw.drop k := by
  have first : ∀ (p : PPart) (o : Nat) (ls tail : List Str), Covers k p o ls → ∀ x xs,
      p.part.origLines = some (x :: xs) →
      ∃ raw, o ≤ p.part.lineOffset ∧ (ls ++ tail)[p.part.lineOffset - o]? = some raw ∧ x = raw.drop k := by
    intro p o ls tail hc x xs hx
    obtain ⟨h1, _, h3⟩ := hc
    rw [h1] at hx
    cases ls with
    | nil => simp at hx
    | cons raw rest =>
      simp only [List.map_cons, Option.some.injEq, List.cons.injEq] at hx
      have ho := h3 (by simp)
      exact ⟨raw, by omega, by simp [ho], hx.1.symm⟩
  induction h with
  | @last p o ls hc _ =>
    intro q hq x xs hx
    simp only [List.mem_singleton] at hq; subst hq
    simpa using first q o ls [] hc x xs hx
  | @cons p ps o ls rest hc _ _ ih =>
    intro q hq x xs hx
    rcases List.mem_cons.mp hq with rfl | hq
    · exact first q o ls rest hc x xs hx
    · obtain ⟨raw, h1, h2, h3⟩ := ih q hq x xs hx
      refine ⟨raw, by omega, ?_, h3⟩
      rw [List.getElem?_append_right (by omega)]
      have : q.part.lineOffset - o - ls.length = q.part.lineOffset - (o + ls.length) := by omega
      rw [this]; exact h2

theorem tiles_part_line {ps : List Piece} {o : Nat} {L : List Str} (h : Tiles ps o L) :
    ∀ q, Piece.part q ∈ ps → ∀ x ls, q.part.origLines = some (x :: ls) →
      ∃ k raw, o ≤ q.part.lineOffset ∧ L[q.part.lineOffset - o]? = some raw ∧ x = raw.drop k := by
  induction h with
  | nil o => intro q hq; simp at hq
  | @text ls ps o rest _ ih =>
    intro q hq x xs hx
    simp only [List.mem_cons, reduceCtorEq, false_or] at hq
    obtain ⟨k, raw, h1, h2, h3⟩ := ih q hq x xs hx
    refine ⟨k, raw, by omega, ?_, h3⟩
    rw [List.getElem?_append_right (by omega)]
    have : q.part.lineOffset - o - ls.length = q.part.lineOffset - (o + ls.length) := by omega
    rw [this]; exact h2
  | @code parts ps o src want rest hs _ ih =>
    intro q hq x xs hx
    rcases List.mem_append.mp hq with hq | hq
    · obtain ⟨q', hq', he⟩ := List.mem_map.mp hq
      cases he
      obtain ⟨raw, h1, h2, h3⟩ := srcTiles_part_line hs q hq' x xs hx
      refine ⟨_, raw, h1, ?_, h3⟩
      have hlt : q.part.lineOffset - o < src.length := by
        rcases Nat.lt_or_ge (q.part.lineOffset - o) src.length with h | h
        · exact h
        · rw [List.getElem?_eq_none h] at h2; cases h2
      rw [List.append_assoc, List.getElem?_append_left hlt]; exact h2
    · obtain ⟨k, raw, h1, h2, h3⟩ := ih q hq x xs hx
      refine ⟨k, raw, by omega, ?_, h3⟩
      rw [List.getElem?_append_right (by simp; omega)]
      have : q.part.lineOffset - o - (src ++ want).length = q.part.lineOffset - (o + src.length + want.length) := by
        simp; omega
      rw [this]; exact h2


/-! ## the lines of the parts are lines of the docstring (minus indent and prompt) -/

theorem srcTiles_part_lines {P : Str → Prop} (hdrop : ∀ l n, P l → P (l.drop n))
    {k : Nat} {want : List Str} {parts : List PPart} {o : Nat} {src : List Str}
    (h : SrcTiles k want parts o src) (hs : ∀ l ∈ src, P l) (hw : ∀ l ∈ want, P l) :
    ∀ q ∈ parts, (∃ ls, q.part.origLines = some ls ∧ q.part.execLines = ls.map (·.drop 4) ∧ ∀ l ∈ ls, P l) ∧
      ∀ l ∈ q.part.wantLines.getD [], P l := by
  have cov : ∀ (p : PPart) (o : Nat) (ls : List Str), Covers k p o ls → (∀ l ∈ ls, P l) →
      ∃ ls', p.part.origLines = some ls' ∧ p.part.execLines = ls'.map (·.drop 4) ∧ ∀ l ∈ ls', P l := by
    intro p o ls hc hp
    obtain ⟨h1, h2, _⟩ := hc
    refine ⟨_, h1, by rw [h2]; simp [List.map_map, Function.comp_def], ?_⟩
    intro l hl
    obtain ⟨r, hr, rfl⟩ := List.mem_map.mp hl
    exact hdrop r k (hp r hr)
  induction h with
  | @last p o ls hc hwl =>
    intro q hq
    simp only [List.mem_singleton] at hq; subst hq
    refine ⟨cov q o ls hc hs, ?_⟩
    rw [hwl]
    intro l hl
    obtain ⟨r, hr, rfl⟩ := List.mem_map.mp hl
    exact hdrop r k (hw r hr)
  | @cons p ps o ls rest hc hwl _ ih =>
    intro q hq
    rcases List.mem_cons.mp hq with rfl | hq
    · refine ⟨cov q o ls hc (fun l hl => hs l (List.mem_append_left _ hl)), ?_⟩
      rw [hwl]; simp
    · exact ih (fun l hl => hs l (List.mem_append_right _ hl)) q hq

/-- every part of a tiling: `orig_lines` present, `exec_lines` = `orig_lines` without the 4-column
    prompt, and every orig/want line inherits any property of the tiled lines that `drop` keeps -/
theorem tiles_part_lines {P : Str → Prop} (hdrop : ∀ l n, P l → P (l.drop n))
    {ps : List Piece} {o : Nat} {L : List Str} (h : Tiles ps o L) (hL : ∀ l ∈ L, P l) :
    ∀ q, Piece.part q ∈ ps →
      (∃ ls, q.part.origLines = some ls ∧ q.part.execLines = ls.map (·.drop 4) ∧ ∀ l ∈ ls, P l) ∧
      ∀ l ∈ q.part.wantLines.getD [], P l := by
  induction h with
  | nil o => intro q hq; simp at hq
  | @text ls ps o rest _ ih =>
    intro q hq
    simp only [List.mem_cons, reduceCtorEq, false_or] at hq
    exact ih (fun l hl => hL l (List.mem_append_right _ hl)) q hq
  | @code parts ps o src want rest hs _ ih =>
    intro q hq
    rcases List.mem_append.mp hq with hq | hq
    · obtain ⟨q', hq', he⟩ := List.mem_map.mp hq
      cases he
      exact srcTiles_part_lines hdrop hs
        (fun l hl => hL l (List.mem_append_left _ (List.mem_append_left _ hl)))
        (fun l hl => hL l (List.mem_append_left _ (List.mem_append_right _ hl))) q hq'
    · exact ih (fun l hl => hL l (List.mem_append_right _ hl)) q hq

end Compose
end Xdoc

import XdocModel.Checker
import XdocModel.Lemmas.Ellipsis
import XdocModel.Lemmas.Checker
/-!
# `collapse` (`' '.join(s.split())`) and `deleteWs` against the ellipsis split (C05 monotonicity)

* `collapse` is a three-state transducer (`run`), hence compositional over `++` (`run_append`);
* fuel-free recursion equations for `splitEllipsis`;
* `splitEllipsis (collapse b) = (splitEllipsis b).map collapse`  (`splitEllipsis_collapse`);
* a piece that follows a separator never starts with whitespace (`splitEllipsis_tail_noLead`);
* the piece decomposition of a match survives `collapse` (`spec_collapse`) and, under the guard,
  `deleteWs` (`spec_deleteWs`).
-/
namespace Xdoc
open Py Re

namespace Py

/-! ## the collapsing transducer -/

/-- where the scan is: nothing emitted yet / inside a word / after a word, in whitespace -/
inductive WsSt where
  | start | word | gap
  deriving DecidableEq, Repr

/-- state after a whitespace character -/
def WsSt.sp : WsSt → WsSt
  | .start => .start
  | .word => .gap
  | .gap => .gap

/-- output for a non-whitespace character -/
def WsSt.out : WsSt → Char → Str
  | .gap, c => [' ', c]
  | _, c => [c]

/-- output of the transducer from state `σ` -/
def run : WsSt → Str → Str
  | _, [] => []
  | σ, c :: s => if isSpace c then run σ.sp s else σ.out c ++ run .word s

/-- final state of the transducer from state `σ` -/
def fin : WsSt → Str → WsSt
  | σ, [] => σ
  | σ, c :: s => if isSpace c then fin σ.sp s else fin .word s

theorem run_append (σ : WsSt) (u v : Str) : run σ (u ++ v) = run σ u ++ run (fin σ u) v := by
  induction u generalizing σ with
  | nil => simp [run, fin]
  | cons c u ih =>
    by_cases hc : isSpace c = true
    · simp [run, fin, hc, ih]
    · simp [run, fin, hc, ih]

theorem fin_append (σ : WsSt) (u v : Str) : fin σ (u ++ v) = fin (fin σ u) v := by
  induction u generalizing σ with
  | nil => simp [fin]
  | cons c u ih =>
    by_cases hc : isSpace c = true
    · simp [fin, hc, ih]
    · simp [fin, hc, ih]

theorem run_cons_space {c : Char} (hc : isSpace c = true) (σ : WsSt) (s : Str) :
    run σ (c :: s) = run σ.sp s := by simp [run, hc]

theorem run_cons_nonspace {c : Char} (hc : isSpace c = false) (σ : WsSt) (s : Str) :
    run σ (c :: s) = σ.out c ++ run .word s := by simp [run, hc]

theorem wordsAux_ne_nil (acc s : Str) (h : acc ≠ []) : wordsAux acc s ≠ [] := by
  induction s generalizing acc with
  | nil => simp [wordsAux, h]
  | cons c s ih =>
    simp only [wordsAux]
    split
    · simp [h]
    · exact ih _ (by simp)

theorem joinWith_cons_ne_str {sep x : Str} {ws : List Str} (h : ws ≠ []) :
    joinWith sep (x :: ws) = x ++ sep ++ joinWith sep ws := by
  cases ws with
  | nil => exact absurd rfl h
  | cons y ys => simp [joinWith]

theorem wordsAux_run (s : Str) :
    joinWith [' '] (wordsAux [] s) = run .start s ∧
    (∀ acc, acc ≠ [] → joinWith [' '] (wordsAux acc s) = acc.reverse ++ run .word s) ∧
    (∀ x, joinWith [' '] (x :: wordsAux [] s) = x ++ run .gap s) := by
  induction s with
  | nil =>
    refine ⟨by simp [wordsAux, joinWith, run], ?_, by simp [wordsAux, joinWith, run]⟩
    intro acc h
    simp [wordsAux, h, joinWith, run]
  | cons c s ih =>
    obtain ⟨ih1, ih2, ih3⟩ := ih
    by_cases hc : isSpace c = true
    · refine ⟨?_, ?_, ?_⟩
      · simp [wordsAux, hc, run, WsSt.sp, ih1]
      · intro acc h
        simp [wordsAux, hc, h, run, WsSt.sp, ih3]
      · intro x
        simp [wordsAux, hc, run, WsSt.sp, ih3]
    · have hc' : isSpace c = false := by simpa using hc
      have e1 : joinWith [' '] (wordsAux [c] s) = [c] ++ run .word s := by
        simpa using ih2 [c] (by simp)
      refine ⟨?_, ?_, ?_⟩
      · simp [wordsAux, hc', run, WsSt.out, e1]
      · intro acc h
        have := ih2 (c :: acc) (by simp)
        simp [wordsAux, hc', run, WsSt.out, this]
      · intro x
        have hne : wordsAux [c] s ≠ [] := wordsAux_ne_nil _ _ (by simp)
        simp [wordsAux, hc', run, WsSt.out, joinWith_cons_ne_str hne, e1]

/-- `' '.join(s.split())` is the transducer started in state `start` -/
theorem collapse_eq_run (s : Str) : collapse s = run .start s := by
  simp [collapse, words, (wordsAux_run s).1]

end Py

namespace Re

/-! ## fuel-free recursion equations of `splitEllipsis` -/

/-- put `x` in front of the first piece -/
def prependHead (x : Str) : List Str → List Str
  | [] => [x]
  | p :: ps => (x ++ p) :: ps

theorem prependHead_prependHead (x y : Str) (L : List Str) :
    prependHead x (prependHead y L) = prependHead (x ++ y) L := by
  cases L <;> simp [prependHead]

theorem sepStart_eq_some_iff {s rest : Str} :
    sepStart s = some rest ↔ s.dropWhile isSpace = dots ++ rest := by
  simp [sepStart, dropPrefix?_eq_some]

theorem sepStart_length {s rest : Str} (h : sepStart s = some rest) :
    (rest.dropWhile isSpace).length + 3 ≤ s.length := by
  have h1 := congrArg List.length (sepStart_eq_some_iff.mp h)
  have h2 := (List.dropWhile_sublist isSpace (l := s)).length_le
  have h3 := (List.dropWhile_sublist isSpace (l := rest)).length_le
  simp [dots] at h1
  omega

theorem splitEllipsisGo_acc (fuel : Nat) (s acc : Str) :
    splitEllipsisGo fuel s acc = prependHead acc.reverse (splitEllipsisGo fuel s []) := by
  induction fuel generalizing s acc with
  | zero => simp [splitEllipsisGo, prependHead]
  | succ n ih =>
    cases s with
    | nil => simp [splitEllipsisGo, prependHead]
    | cons c s =>
      simp only [splitEllipsisGo]
      split
      · simp [prependHead]
      · rw [ih s (c :: acc), ih s [c], prependHead_prependHead]; simp

theorem splitEllipsisGo_fuel (f1 f2 : Nat) (s acc : Str) (h1 : s.length ≤ f1) (h2 : s.length ≤ f2) :
    splitEllipsisGo f1 s acc = splitEllipsisGo f2 s acc := by
  induction f1 generalizing f2 s acc with
  | zero =>
    have : s = [] := List.eq_nil_of_length_eq_zero (by omega)
    subst this
    cases f2 <;> simp [splitEllipsisGo]
  | succ n ih =>
    cases s with
    | nil => cases f2 <;> simp [splitEllipsisGo]
    | cons c s =>
      cases f2 with
      | zero => simp at h2
      | succ m =>
        simp only [splitEllipsisGo]
        split
        · rename_i rest hr
          have := sepStart_length hr
          simp only [List.length_cons] at this h1 h2
          rw [ih m _ [] (by omega) (by omega)]
        · simp only [List.length_cons] at h1 h2
          exact ih m s _ (by omega) (by omega)

theorem splitEllipsis_nil : splitEllipsis [] = [[]] := by
  simp [splitEllipsis, splitEllipsisGo]

theorem splitEllipsis_some {s rest : Str} (h : sepStart s = some rest) :
    splitEllipsis s = [] :: splitEllipsis (rest.dropWhile isSpace) := by
  cases s with
  | nil => simp [sepStart, dots, dropPrefix?] at h
  | cons c s =>
    have hl := sepStart_length h
    simp only [List.length_cons] at hl
    simp only [splitEllipsis, List.length_cons, splitEllipsisGo, h, List.reverse_nil]
    rw [splitEllipsisGo_fuel s.length (rest.dropWhile isSpace).length _ [] (by omega) (Nat.le_refl _)]

theorem splitEllipsis_none {c : Char} {s : Str} (h : sepStart (c :: s) = none) :
    splitEllipsis (c :: s) = prependHead [c] (splitEllipsis s) := by
  simp only [splitEllipsis, List.length_cons, splitEllipsisGo, h]
  rw [splitEllipsisGo_acc]; simp

theorem splitEllipsis_ne_nil (s : Str) : splitEllipsis s ≠ [] := splitEllipsisGo_ne_nil _ _ _

/-! ## the transducer against the separator -/

theorem isSpace_dot : isSpace '.' = false := by decide +kernel

theorem run_gap_head (s : Str) : run .gap s = [] ∨ ∃ r, run .gap s = ' ' :: r := by
  induction s with
  | nil => simp [run]
  | cons c s ih =>
    by_cases hc : isSpace c = true
    · simpa [run, hc, WsSt.sp] using ih
    · simp [run, hc, WsSt.out]

theorem run_word_head {s r : Str} {d : Char} (h : run .word s = d :: r) (hd : isSpace d = false) :
    ∃ t, s = d :: t ∧ r = run .word t := by
  cases s with
  | nil => simp [run] at h
  | cons e t =>
    by_cases he : isSpace e = true
    · simp only [run, he, ↓reduceIte, WsSt.sp] at h
      rcases run_gap_head t with h0 | ⟨r', h0⟩
      · rw [h0] at h; cases h
      · rw [h0] at h
        have : d = ' ' := by cases h; rfl
        subst this
        rw [isSpace_space] at hd; cases hd
    · simp only [run, he, WsSt.out] at h
      simp at h
      obtain ⟨rfl, rfl⟩ := h
      exact ⟨t, rfl, rfl⟩

theorem dropWhile_run (σ : WsSt) (s : Str) :
    (run σ s).dropWhile isSpace = run .start (s.dropWhile isSpace) := by
  induction s generalizing σ with
  | nil => simp [run]
  | cons c s ih =>
    by_cases hc : isSpace c = true
    · simp [run, hc, ih]
    · cases σ <;> simp [run, hc, WsSt.out, isSpace_space]

theorem sepStart_cons_space {c : Char} (hc : isSpace c = true) (s : Str) :
    sepStart (c :: s) = sepStart s := by simp [sepStart, hc]

theorem sepStart_cons_nonspace {c : Char} (hc : isSpace c = false) (s : Str) :
    sepStart (c :: s) = dropPrefix? dots (c :: s) := by simp [sepStart, hc]

theorem sepStart_run {s rest : Str} (σ : WsSt) (h : sepStart s = some rest) :
    sepStart (run σ s) = some (run .word rest) := by
  induction s generalizing σ with
  | nil => simp [sepStart, dots, dropPrefix?] at h
  | cons c s ih =>
    by_cases hc : isSpace c = true
    · rw [sepStart_cons_space hc] at h
      rw [run_cons_space hc]; exact ih _ h
    · have hc' : isSpace c = false := by simpa using hc
      rw [sepStart_cons_nonspace hc', dropPrefix?_eq_some] at h
      simp only [dots, List.cons_append, List.nil_append, List.cons.injEq] at h
      obtain ⟨rfl, rfl⟩ := h
      cases σ <;>
        simp [run, isSpace_dot, WsSt.out, sepStart, isSpace_space, dots, dropPrefix?]

theorem sepStart_run_some {s r' : Str} {σ : WsSt} (h : sepStart (run σ s) = some r') :
    ∃ rest, sepStart s = some rest := by
  induction s generalizing σ with
  | nil => simp [run, sepStart, dots, dropPrefix?] at h
  | cons c s ih =>
    by_cases hc : isSpace c = true
    · rw [run_cons_space hc] at h
      rw [sepStart_cons_space hc]; exact ih h
    · have hc' : isSpace c = false := by simpa using hc
      have h1 := sepStart_eq_some_iff.mp h
      rw [dropWhile_run] at h1
      simp only [List.dropWhile_cons, hc', Bool.false_eq_true, ↓reduceIte, run, WsSt.out,
        dots, List.cons_append, List.nil_append, List.cons.injEq] at h1
      obtain ⟨rfl, h2⟩ := h1
      obtain ⟨t, rfl, h3⟩ := run_word_head h2 isSpace_dot
      obtain ⟨u, rfl, _⟩ := run_word_head h3.symm isSpace_dot
      exact ⟨u, by simp [sepStart, isSpace_dot, dots, dropPrefix?]⟩

theorem sepStart_run_none {s : Str} (σ : WsSt) (h : sepStart s = none) :
    sepStart (run σ s) = none := by
  cases h' : sepStart (run σ s) with
  | none => rfl
  | some r' =>
    obtain ⟨rest, hr⟩ := sepStart_run_some h'
    rw [h] at hr; cases hr

/-- first piece in context `σ`, the others from scratch -/
def mapCtx (σ : WsSt) : List Str → List Str
  | [] => []
  | p :: ps => run σ p :: ps.map (run .start)

theorem mapCtx_start (L : List Str) : mapCtx .start L = L.map (run .start) := by
  cases L <;> simp [mapCtx]

theorem splitEllipsis_run (n : Nat) : ∀ (s : Str) (σ : WsSt), s.length ≤ n →
    splitEllipsis (run σ s) = mapCtx σ (splitEllipsis s) := by
  induction n with
  | zero =>
    intro s σ h
    have : s = [] := List.eq_nil_of_length_eq_zero (by omega)
    subst this; simp [run, splitEllipsis_nil, mapCtx]
  | succ n ih =>
    intro s σ hlen
    cases s with
    | nil => simp [run, splitEllipsis_nil, mapCtx]
    | cons c s =>
      simp only [List.length_cons] at hlen
      cases hs : sepStart (c :: s) with
      | some rest =>
        have hl := sepStart_length hs
        simp only [List.length_cons] at hl
        rw [splitEllipsis_some hs, splitEllipsis_some (sepStart_run σ hs), dropWhile_run,
          ih _ .start (by omega), mapCtx_start]
        simp [mapCtx, run]
      | none =>
        have hne := splitEllipsis_ne_nil s
        by_cases hc : isSpace c = true
        · rw [run_cons_space hc, ih s _ (by omega), splitEllipsis_none hs]
          cases hL : splitEllipsis s with
          | nil => exact absurd hL hne
          | cons p ps => simp [mapCtx, prependHead, run, hc]
        · have hc' : isSpace c = false := by simpa using hc
          have hn := sepStart_run_none σ hs
          rw [run_cons_nonspace hc'] at hn ⊢
          rw [splitEllipsis_none hs]
          cases σ with
          | gap =>
            simp only [WsSt.out, List.cons_append, List.nil_append] at hn ⊢
            have hn' := hn
            rw [sepStart_cons_space isSpace_space] at hn'
            rw [splitEllipsis_none hn, splitEllipsis_none hn', ih s _ (by omega)]
            cases hL : splitEllipsis s with
            | nil => exact absurd hL hne
            | cons p ps => simp [mapCtx, prependHead, run, hc', WsSt.out]
          | start =>
            simp only [WsSt.out, List.cons_append, List.nil_append] at hn ⊢
            rw [splitEllipsis_none hn, ih s _ (by omega)]
            cases hL : splitEllipsis s with
            | nil => exact absurd hL hne
            | cons p ps => simp [mapCtx, prependHead, run, hc', WsSt.out]
          | word =>
            simp only [WsSt.out, List.cons_append, List.nil_append] at hn ⊢
            rw [splitEllipsis_none hn, ih s _ (by omega)]
            cases hL : splitEllipsis s with
            | nil => exact absurd hL hne
            | cons p ps => simp [mapCtx, prependHead, run, hc', WsSt.out]

/-- ★ `collapse` maps the pieces of the split one by one: it never creates, destroys or moves an
    ellipsis separator -/
theorem splitEllipsis_collapse (b : Str) :
    splitEllipsis (collapse b) = (splitEllipsis b).map collapse := by
  have e : (collapse : Str → Str) = run .start := funext collapse_eq_run
  rw [e, splitEllipsis_run b.length b .start (Nat.le_refl _), mapCtx_start]

/-! ## shape of the pieces -/

/-- `p` is empty or starts with a non-whitespace character -/
def NoLeadSp (p : Str) : Prop := ∀ c r, p = c :: r → isSpace c = false

theorem noLeadSp_nil : NoLeadSp [] := by intro c r h; cases h

theorem noLeadSp_dropWhile (s : Str) : NoLeadSp (s.dropWhile isSpace) := by
  induction s with
  | nil => exact noLeadSp_nil
  | cons d s ih =>
    by_cases hd : isSpace d = true
    · simpa [List.dropWhile_cons, hd] using ih
    · intro c r h
      simp only [List.dropWhile_cons, hd, Bool.false_eq_true, ↓reduceIte, List.cons.injEq] at h
      rw [← h.1]; simpa using hd

theorem noLeadSp_of_prefix {p s : Str} (hp : p <+: s) (hs : NoLeadSp s) : NoLeadSp p := by
  intro c r h
  obtain ⟨t, rfl⟩ := hp
  subst h
  exact hs c (r ++ t) rfl

/-- the first piece is a prefix of the text -/
theorem splitEllipsis_head_prefix (s : Str) : ∃ p ps, splitEllipsis s = p :: ps ∧ p <+: s := by
  induction s with
  | nil => exact ⟨[], [], splitEllipsis_nil, List.prefix_refl _⟩
  | cons c s ih =>
    cases hs : sepStart (c :: s) with
    | some rest => exact ⟨[], _, splitEllipsis_some hs, List.nil_prefix⟩
    | none =>
      obtain ⟨p, ps, h1, h2⟩ := ih
      refine ⟨c :: p, ps, by rw [splitEllipsis_none hs, h1]; simp [prependHead], ?_⟩
      obtain ⟨t, rfl⟩ := h2
      exact ⟨t, rfl⟩

/-- ★ a piece that follows a separator never starts with whitespace (the separator's trailing
    `\s*` is greedy) -/
theorem splitEllipsis_tail_noLead (n : Nat) : ∀ (s : Str), s.length ≤ n →
    ∀ p ∈ (splitEllipsis s).tail, NoLeadSp p := by
  induction n with
  | zero =>
    intro s h
    have : s = [] := List.eq_nil_of_length_eq_zero (by omega)
    subst this; simp [splitEllipsis_nil]
  | succ n ih =>
    intro s hlen
    cases s with
    | nil => simp [splitEllipsis_nil]
    | cons c s =>
      simp only [List.length_cons] at hlen
      cases hs : sepStart (c :: s) with
      | some rest =>
        have hl := sepStart_length hs
        simp only [List.length_cons] at hl
        rw [splitEllipsis_some hs]
        intro p hp
        simp only [List.tail_cons] at hp
        obtain ⟨q, qs, h1, h2⟩ := splitEllipsis_head_prefix (rest.dropWhile isSpace)
        rw [h1] at hp
        rcases List.mem_cons.mp hp with rfl | hp
        · exact noLeadSp_of_prefix h2 (noLeadSp_dropWhile _)
        · exact ih (rest.dropWhile isSpace) (by omega) p (by rw [h1]; exact hp)
      | none =>
        rw [splitEllipsis_none hs]
        intro p hp
        have hne := splitEllipsis_ne_nil s
        cases hL : splitEllipsis s with
        | nil => exact absurd hL hne
        | cons q qs =>
          rw [hL] at hp
          simp only [prependHead, List.tail_cons] at hp
          exact ih s (by omega) p (by rw [hL]; exact hp)

/-- ★ converse of `splitEllipsisGo_length_of_contains`: two pieces only if `...` occurs -/
theorem contains_of_split_length (s : Str) (h : 2 ≤ (splitEllipsis s).length) :
    contains dots s = true := by
  induction s with
  | nil => simp [splitEllipsis_nil] at h
  | cons c s ih =>
    cases hs : sepStart (c :: s) with
    | some rest =>
      have h1 := sepStart_eq_some_iff.mp hs
      have h2 := List.takeWhile_append_dropWhile (p := isSpace) (l := c :: s)
      rw [h1] at h2
      exact contains_iff.mpr ⟨(c :: s).takeWhile isSpace, rest, h2.symm.trans (by simp)⟩
    | none =>
      rw [splitEllipsis_none hs] at h
      have : 2 ≤ (splitEllipsis s).length := by
        cases hL : splitEllipsis s with
        | nil => rw [hL] at h; simp [prependHead] at h
        | cons q qs => rw [hL] at h; simpa [prependHead] using h
      exact contains_cons_of_contains (ih this)

theorem contains_dots_iff_length (s : Str) :
    contains dots s = true ↔ 2 ≤ (splitEllipsis s).length :=
  ⟨splitEllipsisGo_length_of_contains _ _ _ (Nat.le_refl _), contains_of_split_length s⟩

/-- ★ `collapse` neither creates nor destroys an occurrence of `...` -/
theorem contains_dots_collapse (b : Str) : contains dots (collapse b) = contains dots b := by
  rw [Bool.eq_iff_iff, contains_dots_iff_length, contains_dots_iff_length, splitEllipsis_collapse]
  simp

/-! ## the decomposition of a match under `collapse` -/

theorem run_noLead {w : Str} (hw : NoLeadSp w) (σ : WsSt) : ∃ pre, run σ w = pre ++ run .start w := by
  cases w with
  | nil => exact ⟨[], by simp [run]⟩
  | cons c t =>
    have hc := hw c t rfl
    cases σ
    · exact ⟨[], by simp⟩
    · exact ⟨[], by simp [run, hc, WsSt.out]⟩
    · exact ⟨[' '], by simp [run, hc, WsSt.out]⟩

theorem Scattered.append_right {α : Type} {ws : List (List α)} {r : List α} (y : List α)
    (h : Scattered ws r) : Scattered ws (r ++ y) := by
  induction h with
  | nil => exact .nil _
  | cons x w ws r _ ih =>
    have : x ++ w ++ r ++ y = x ++ w ++ (r ++ y) := by simp
    rw [this]; exact .cons _ _ _ _ ih

theorem Scattered.run {ws : List Str} {m : Str} (h : Scattered ws m)
    (hw : ∀ w ∈ ws, NoLeadSp w) (σ : WsSt) : Scattered (ws.map (run .start)) (run σ m) := by
  induction h generalizing σ with
  | nil => exact .nil _
  | cons x w ws r _ ih =>
    rw [run_append, run_append, fin_append]
    obtain ⟨pre, hpre⟩ := run_noLead (hw w (by simp)) (fin σ x)
    rw [hpre]
    have e : Py.run σ x ++ (pre ++ Py.run .start w) ++ Py.run (fin (fin σ x) w) r
        = (Py.run σ x ++ pre) ++ Py.run .start w ++ Py.run (fin (fin σ x) w) r := by simp
    rw [e, List.map_cons]
    exact .cons _ _ _ _ (ih (fun w' h' => hw w' (by simp [h'])) _)

/-- ★ "collapse respects the piece decomposition": a got that decomposes along the pieces of the
    want still does after both are collapsed (the pieces being those of the collapsed want). -/
theorem spec_collapse {a b first last mid : Str} {mids : List Str}
    (hs : splitEllipsis b = first :: (mids ++ [last]))
    (ha : a = first ++ mid ++ last) (hm : Scattered mids mid) :
    splitEllipsis (collapse b) = collapse first :: (mids.map collapse ++ [collapse last]) ∧
    ∃ mid', collapse a = collapse first ++ mid' ++ collapse last ∧
      Scattered (mids.map collapse) mid' := by
  refine ⟨by rw [splitEllipsis_collapse, hs]; simp, ?_⟩
  have htail : ∀ p ∈ mids ++ [last], NoLeadSp p := by
    have := splitEllipsis_tail_noLead b.length b (Nat.le_refl _)
    rw [hs] at this
    simpa using this
  have e : (collapse : Str → Str) = Py.run .start := funext collapse_eq_run
  subst ha
  rw [e, run_append, run_append, fin_append]
  obtain ⟨pre, hpre⟩ := run_noLead (htail last (by simp)) (fin (fin .start first) mid)
  rw [hpre]
  refine ⟨Py.run (fin .start first) mid ++ pre, by simp, ?_⟩
  exact (hm.run (fun w h => htail w (by simp [h])) _).append_right pre

/-! ## the decomposition of a match under `deleteWs` -/

/-- `deleteWs` is a `filter`, it distributes over the scattered decomposition -/
theorem Scattered.deleteWs {ws : List Str} {m : Str} (h : Scattered ws m) :
    Scattered (ws.map Py.deleteWs) (Py.deleteWs m) := by
  induction h with
  | nil => exact .nil _
  | cons x w ws r _ ih =>
    rw [deleteWs_append, deleteWs_append, List.map_cons]
    exact .cons _ _ _ _ ih

/-- ★ under the guard (deleting whitespace maps the pieces of the want one by one, i.e. it does
    not create, destroy or move an ellipsis separator) the decomposition of a match survives
    `deleteWs` -/
theorem spec_deleteWs {a b first last mid : Str} {mids : List Str}
    (hg : splitEllipsis (Py.deleteWs b) = (splitEllipsis b).map Py.deleteWs)
    (hs : splitEllipsis b = first :: (mids ++ [last]))
    (ha : a = first ++ mid ++ last) (hm : Scattered mids mid) :
    splitEllipsis (Py.deleteWs b) =
        Py.deleteWs first :: (mids.map Py.deleteWs ++ [Py.deleteWs last]) ∧
    Py.deleteWs a = Py.deleteWs first ++ Py.deleteWs mid ++ Py.deleteWs last ∧
    Scattered (mids.map Py.deleteWs) (Py.deleteWs mid) := by
  refine ⟨by rw [hg, hs]; simp, by rw [ha, deleteWs_append, deleteWs_append], hm.deleteWs⟩

/-- under the guard `deleteWs` neither creates nor destroys an occurrence of `...` -/
theorem contains_dots_deleteWs {b : Str}
    (hg : splitEllipsis (Py.deleteWs b) = (splitEllipsis b).map Py.deleteWs) :
    contains dots (Py.deleteWs b) = contains dots b := by
  rw [Bool.eq_iff_iff, contains_dots_iff_length, contains_dots_iff_length, hg]
  simp

/-! ## non-vacuity: concrete instances (kernel evaluation) -/

example : Py.run .start " a \n b  ".toList = "a b".toList ∧ fin .start " a \n b  ".toList = .gap := by
  decide +kernel
example : splitEllipsis (collapse " x  y \n...  p  q ... ".toList) = ["x y".toList, "p q".toList, []] ∧
    (splitEllipsis " x  y \n...  p  q ... ".toList).map collapse = ["x y".toList, "p q".toList, []] := by
  decide +kernel
example : splitEllipsis " x  y \n...  p  q ... ".toList = [" x  y".toList, "p  q".toList, []] := by
  decide +kernel
example : sepStart " \n...  p".toList = some "  p".toList := by decide +kernel
example : sepStart "a...".toList = none := by decide +kernel
example : contains dots (collapse "a .\n..".toList) = false := by decide +kernel

end Re
end Xdoc

import XdocModel.Format
/-!
# Lemmas about lines: `splitlines`, `split('\n')`, `'\n'.join`, `utils.indent` (used by C18, C19)
-/
namespace Xdoc.Py
open Xdoc

/-- a line without any character at which `str.splitlines` breaks -/
def NoBreak (l : Str) : Prop := ∀ c ∈ l, isLineBreak c = false

theorem isLineBreak_nl : isLineBreak '\n' = true := by decide +kernel
theorem isLineBreak_cr : isLineBreak '\r' = true := by decide +kernel

theorem NoBreak.no_nl {l : Str} (h : NoBreak l) : '\n' ∉ l := by
  intro hm; have := h _ hm; rw [isLineBreak_nl] at this; cases this

theorem splitLinesKeep_line (l rest : Str) (h : NoBreak l) :
    splitLinesKeep (l ++ '\n' :: rest) = (l ++ ['\n']) :: splitLinesKeep rest := by
  induction l with
  | nil =>
    cases rest with
    | nil => simp [splitLinesKeep]
    | cons d s =>
      simp only [List.nil_append, splitLinesKeep]
      rw [if_neg (by simp), if_pos isLineBreak_nl]
  | cons c l ih =>
    have hc : isLineBreak c = false := h c (by simp)
    have hl : NoBreak l := fun x hx => h x (List.mem_cons_of_mem _ hx)
    have hcr : c ≠ '\r' := by intro e; rw [e, isLineBreak_cr] at hc; cases hc
    have ih := ih hl
    cases hds : l ++ '\n' :: rest with
    | nil => simp at hds
    | cons d s =>
      rw [hds] at ih
      simp only [List.cons_append, hds, splitLinesKeep]
      rw [if_neg (by simp [hcr]), if_neg (by simp [hc]), ih]

theorem splitLinesKeep_last (l : Str) (h : NoBreak l) (hne : l ≠ []) : splitLinesKeep l = [l] := by
  induction l with
  | nil => exact absurd rfl hne
  | cons c l ih =>
    have hc : isLineBreak c = false := h c (by simp)
    have hl : NoBreak l := fun x hx => h x (List.mem_cons_of_mem _ hx)
    have hcr : c ≠ '\r' := by intro e; rw [e, isLineBreak_cr] at hc; cases hc
    cases l with
    | nil => simp [splitLinesKeep]
    | cons d s =>
      simp only [splitLinesKeep]
      rw [if_neg (by simp [hcr]), if_neg (by simp [hc]), ih hl (by simp)]

theorem chompLine_id (l : Str) (h : NoBreak l) : chompLine l = l := by
  unfold chompLine
  split
  · next r heq =>
    have : '\n' ∈ l := by rw [← List.mem_reverse, heq]; simp
    exact absurd this h.no_nl
  · next c r _ heq =>
    have : c ∈ l := by rw [← List.mem_reverse, heq]; simp
    rw [if_neg (by simp [h c this])]
  · rfl

theorem chompLine_nl (l : Str) (h : NoBreak l) : chompLine (l ++ ['\n']) = l := by
  unfold chompLine
  split
  · next r heq =>
    simp only [List.reverse_append, List.reverse_cons, List.reverse_nil, List.nil_append,
      List.singleton_append, List.cons.injEq, true_and] at heq
    have : '\r' ∈ l := by rw [← List.mem_reverse, heq]; simp
    have := h _ this
    rw [isLineBreak_cr] at this; cases this
  · next c r _ heq =>
    simp only [List.reverse_append, List.reverse_cons, List.reverse_nil, List.nil_append,
      List.singleton_append, List.cons.injEq] at heq
    obtain ⟨rfl, rfl⟩ := heq
    rw [if_pos isLineBreak_nl]; simp
  · next heq => simp at heq

/-- `'\n'.join(lines).splitlines() == lines` for lines without line-break characters whose last
    one is not empty (an empty last line is dropped by `splitlines`) -/
theorem splitLines_joinWith (ls : List Str) (h : ∀ l ∈ ls, NoBreak l) (hlast : ls.getLast? ≠ some []) :
    splitLines (joinWith ['\n'] ls) = ls := by
  induction ls with
  | nil => rfl
  | cons x r ih =>
    cases r with
    | nil =>
      have hx : x ≠ [] := by intro e; apply hlast; simp [e]
      simp [splitLines, joinWith, splitLinesKeep_last x (h x (by simp)) hx, chompLine_id x (h x (by simp))]
    | cons y r =>
      have hx := h x (by simp)
      have ih' := ih (fun l hl => h l (List.mem_cons_of_mem _ hl)) (by simpa [List.getLast?_cons_cons] using hlast)
      simp only [splitLines] at ih' ⊢
      simp only [joinWith, List.append_assoc, List.singleton_append]
      rw [splitLinesKeep_line x _ hx, List.map_cons, chompLine_nl x hx, ih']

/-! ## `split('\n')` -/

theorem splitOn_ne_nil (s : Str) : splitOn '\n' s ≠ [] := by
  cases s with
  | nil => simp [splitOn]
  | cons c s => simp only [splitOn]; split <;> simp

theorem splitOn_append_nl (a b : Str) :
    splitOn '\n' (a ++ '\n' :: b) = splitOn '\n' a ++ splitOn '\n' b := by
  induction a with
  | nil => simp [splitOn]
  | cons c a ih =>
    simp only [List.cons_append, splitOn, ih]
    cases hs : splitOn '\n' a with
    | nil => exact absurd hs (splitOn_ne_nil a)
    | cons h t => split <;> simp

theorem splitOn_noNL (l : Str) (h : '\n' ∉ l) : splitOn '\n' l = [l] := by
  induction l with
  | nil => rfl
  | cons c l ih =>
    have hc : c ≠ '\n' := fun e => h (by simp [e])
    simp only [splitOn, if_neg hc, ih (fun hm => h (List.mem_cons_of_mem _ hm))]
    simp

theorem splitOn_joinWith (x : Str) (ls : List Str) :
    splitOn '\n' (joinWith ['\n'] (x :: ls)) = (x :: ls).flatMap (splitOn '\n') := by
  induction ls generalizing x with
  | nil => simp [joinWith]
  | cons y r ih =>
    simp only [joinWith, List.append_assoc, List.singleton_append]
    rw [splitOn_append_nl, ih y]
    simp

theorem flatMap_splitOn_noNL (ls : List Str) (h : ∀ l ∈ ls, '\n' ∉ l) :
    ls.flatMap (splitOn '\n') = ls := by
  induction ls with
  | nil => rfl
  | cons x r ih =>
    simp only [List.flatMap_cons, splitOn_noNL x (h x (by simp)),
      ih (fun l hl => h l (List.mem_cons_of_mem _ hl))]
    simp

/-- `utils.indent` puts the prefix in front of every `\n`-separated line -/
theorem splitOn_indent_aux (pre : Str) (hpre : '\n' ∉ pre) (text acc : Str) (hacc : '\n' ∉ acc) :
    splitOn '\n' (acc ++ Format.replaceNL pre text) =
      (acc ++ (splitOn '\n' text).headD []) :: (splitOn '\n' text).tail.map (pre ++ ·) := by
  induction text generalizing acc with
  | nil => simp [Format.replaceNL, splitOn, splitOn_noNL acc hacc]
  | cons c s ih =>
    by_cases hc : c = '\n'
    · subst hc
      simp only [Format.replaceNL, ↓reduceIte, splitOn]
      have e : acc ++ ('\n' :: pre ++ Format.replaceNL pre s) = acc ++ '\n' :: (pre ++ Format.replaceNL pre s) := by simp
      rw [e, splitOn_append_nl, splitOn_noNL acc hacc, ih pre hpre]
      cases hs : splitOn '\n' s with
      | nil => exact absurd hs (splitOn_ne_nil s)
      | cons h t => simp
    · simp only [Format.replaceNL, if_neg hc, splitOn]
      have : acc ++ c :: Format.replaceNL pre s = (acc ++ [c]) ++ Format.replaceNL pre s := by simp
      rw [this, ih (acc ++ [c]) (by simp [hacc, Ne.symm hc])]
      cases hs : splitOn '\n' s with
      | nil => exact absurd hs (splitOn_ne_nil s)
      | cons h t => simp

theorem splitOn_indent (pre : Str) (hpre : '\n' ∉ pre) (text : Str) :
    splitOn '\n' (Format.indent text pre) = (splitOn '\n' text).map (pre ++ ·) := by
  unfold Format.indent
  rw [splitOn_indent_aux pre hpre text pre hpre]
  cases hs : splitOn '\n' text with
  | nil => exact absurd hs (splitOn_ne_nil text)
  | cons h t => simp

end Xdoc.Py

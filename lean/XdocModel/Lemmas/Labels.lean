import XdocModel.Parser
import XdocModel.Lemmas.Ellipsis
/-!
# Helper lemmas for `labels_are_intended` (C13): the labeller on lines rendered from the grammar

String facts (`strip`, `indentOf`, `hasPrefix` on padded / prompt-prefixed lines), one lemma per
kind of labeller step, and the runs over prose, blank, statement and want lines.
-/
namespace Xdoc.Parser
open Xdoc Py Lexer

/-! ## characters and small strings -/

theorem ps1_eq : ps1 = ['>', '>', '>'] := by decide +kernel
theorem ps2_eq : ps2 = ['.', '.', '.'] := by decide +kernel
theorem ps1sp_eq : ">>> ".toList = ['>', '>', '>', ' '] := by decide +kernel
theorem ps2sp_eq : "... ".toList = ['.', '.', '.', ' '] := by decide +kernel

theorem isSpace_sp : isSpace ' ' = true := by decide +kernel
theorem isSpace_gt : isSpace '>' = false := by decide +kernel
theorem isSpace_dot' : isSpace '.' = false := by decide +kernel

/-- the indentation the grammar puts in front of every line of an example -/
abbrev pad (k : Nat) : Str := List.replicate k ' '

theorem lstrip_pad (k : Nat) (s : Str) : lstrip (pad k ++ s) = lstrip s := by
  unfold lstrip
  rw [List.dropWhile_append_of_pos]
  intro a ha
  rw [List.eq_of_mem_replicate ha]; exact isSpace_sp

theorem strip_pad (k : Nat) (s : Str) : strip (pad k ++ s) = strip s := by
  unfold strip; rw [lstrip_pad]

theorem lstrip_of_head {c : Char} {s : Str} (hc : isSpace c = false) : lstrip (c :: s) = c :: s := by
  unfold lstrip; rw [List.dropWhile_cons_of_neg]; simp [hc]

/-- `rstrip` of a concatenation -/
theorem rstrip_append (a r : Str) :
    rstrip (a ++ r) = if (rstrip r).isEmpty then rstrip a else a ++ rstrip r := by
  unfold rstrip
  rw [List.reverse_append, List.dropWhile_append]
  by_cases h : (List.dropWhile isSpace r.reverse).isEmpty = true
  · simp [h]
  · simp [h]

theorem strip_nil : strip ([] : Str) = [] := by decide +kernel

theorem indentOf_pad (k : Nat) {c : Char} (s : Str) (hc : isSpace c = false) :
    indentOf (pad k ++ c :: s) = k := by
  have hne : (c == ' ') = false := by
    cases h : (c == ' ') with
    | false => rfl
    | true => rw [beq_iff_eq] at h; subst h; rw [isSpace_sp] at hc; cases hc
  have hall : ∀ a ∈ pad k, (a == ' ') = true := by
    intro a ha; rw [List.eq_of_mem_replicate ha]; rfl
  unfold indentOf indentOf?
  rw [List.dropWhile_append_of_pos hall, List.dropWhile_cons_of_neg (by simp [hne])]
  simp only [hc, Bool.false_eq_true, if_false, Option.getD_some]
  rw [List.takeWhile_append_of_pos hall, List.takeWhile_cons_of_neg (by simp [hne])]
  simp

theorem drop_pad (k : Nat) (s : Str) : (pad k ++ s).drop k = s := by
  apply List.drop_left'; simp


/-! ## `hasPrefix` on stripped and unstripped lines -/

/-- one disjunct of `_hasprefix` -/
def hasPrefix1 (line p : Str) : Bool := line == p || startsWith (p ++ [' ']) line

theorem hasPrefix_one (line p : Str) : hasPrefix line [p] = hasPrefix1 line p := by
  simp [hasPrefix, hasPrefix1]

theorem hasPrefix_two (line p q : Str) : hasPrefix line [p, q] = (hasPrefix1 line p || hasPrefix1 line q) := by
  simp [hasPrefix, hasPrefix1]

theorem hasPrefix1_rstrip {p w : Str} (hp : rstrip p = p) (hps : rstrip (p ++ [' ']) = p)
    (h : hasPrefix1 w p = true) : hasPrefix1 (rstrip w) p = true := by
  unfold hasPrefix1 at *
  rw [Bool.or_eq_true] at h
  rcases h with h | h
  · rw [beq_iff_eq] at h; subst h; rw [hp]; simp
  · obtain ⟨r, rfl⟩ := startsWith_iff.mp h
    rw [rstrip_append]
    split
    · rw [hps]; simp
    · rw [Bool.or_eq_true]; right; exact startsWith_iff.mpr ⟨_, rfl⟩

theorem rstrip_ps1 : rstrip ps1 = ps1 := by decide +kernel
theorem rstrip_ps2 : rstrip ps2 = ps2 := by decide +kernel
theorem rstrip_ps1sp : rstrip (ps1 ++ [' ']) = ps1 := by decide +kernel
theorem rstrip_ps2sp : rstrip (ps2 ++ [' ']) = ps2 := by decide +kernel

/-- a line without leading whitespace that is not a prompt after stripping is not a prompt before -/
theorem hasPrefix_of_strip_false {c : Char} {s : Str} (hc : isSpace c = false)
    (h : hasPrefix (strip (c :: s)) [ps1, ps2] = false) : hasPrefix (c :: s) [ps1, ps2] = false := by
  unfold strip at h
  rw [lstrip_of_head hc, hasPrefix_two, Bool.or_eq_false_iff] at h
  rw [hasPrefix_two, Bool.or_eq_false_iff]
  constructor
  · cases h1 : hasPrefix1 (c :: s) ps1 with
    | false => rfl
    | true => rw [hasPrefix1_rstrip rstrip_ps1 rstrip_ps1sp h1] at h; cases h.1
  · cases h1 : hasPrefix1 (c :: s) ps2 with
    | false => rfl
    | true => rw [hasPrefix1_rstrip rstrip_ps2 rstrip_ps2sp h1] at h; cases h.2

theorem hasPrefix_ps1_of_two {l : Str} (h : hasPrefix l [ps1, ps2] = false) : hasPrefix l [ps1] = false := by
  rw [hasPrefix_two, Bool.or_eq_false_iff] at h
  rw [hasPrefix_one]; exact h.1

/-! ## prompt-prefixed lines -/

set_option linter.unusedSimpArgs false in
/-- a line that is the prompt `>>>` or starts with `>>> ` -/
theorem ps1_line {l : Str} (h : hasPrefix l [ps1] = true) :
    strip (l.take 4) = ps1 ∧ hasPrefix l [ps2] = false ∧ hasPrefix l [ps1, ps2] = true ∧
      (∃ c s, l = c :: s ∧ isSpace c = false) ∧ hasPrefix (strip l) [ps1] = true := by
  have hs : hasPrefix (strip l) [ps1] = true := by
    rw [hasPrefix_one] at h ⊢
    have hl : lstrip l = l := by
      unfold hasPrefix1 at h
      rw [Bool.or_eq_true] at h
      rcases h with h | h
      · rw [beq_iff_eq] at h; subst h; decide +kernel
      · obtain ⟨r, rfl⟩ := startsWith_iff.mp h
        rw [ps1_eq]; exact lstrip_of_head isSpace_gt
    unfold strip; rw [hl]
    exact hasPrefix1_rstrip rstrip_ps1 rstrip_ps1sp h
  refine ⟨?_, ?_, ?_, ?_, hs⟩ <;>
  · rw [hasPrefix_one] at h
    unfold hasPrefix1 at h
    rw [Bool.or_eq_true] at h
    rcases h with h | h
    · rw [beq_iff_eq] at h; subst h
      first
        | decide +kernel
        | exact ⟨'>', ['>', '>'], by decide +kernel, isSpace_gt⟩
    · obtain ⟨r, rfl⟩ := startsWith_iff.mp h
      rw [ps1_eq]
      first
        | exact (by decide +kernel : strip ['>', '>', '>', ' '] = ['>', '>', '>'])
        | exact ⟨'>', _, rfl, isSpace_gt⟩
        | simp [hasPrefix, ps1_eq, ps2_eq, startsWith, dropPrefix?]

set_option linter.unusedSimpArgs false in
/-- a line that is the prompt `...` or starts with `... ` -/
theorem ps2_line {l : Str} (h : hasPrefix l [ps2] = true) :
    strip (l.take 4) = ps2 ∧ hasPrefix l [ps1, ps2] = true ∧
      (∃ c s, l = c :: s ∧ isSpace c = false) := by
  refine ⟨?_, ?_, ?_⟩ <;>
  · rw [hasPrefix_one] at h
    unfold hasPrefix1 at h
    rw [Bool.or_eq_true] at h
    rcases h with h | h
    · rw [beq_iff_eq] at h; subst h
      first
        | decide +kernel
        | exact ⟨'.', ['.', '.'], by decide +kernel, isSpace_dot'⟩
    · obtain ⟨r, rfl⟩ := startsWith_iff.mp h
      rw [ps2_eq]
      first
        | exact (by decide +kernel : strip ['.', '.', '.', ' '] = ['.', '.', '.'])
        | exact ⟨'.', _, rfl, isSpace_dot'⟩
        | simp [hasPrefix, ps1_eq, ps2_eq, startsWith, dropPrefix?]

theorem hasPrefix_of_startsWith_ps1 {l : Str} (h : startsWith ">>> ".toList l = true) :
    hasPrefix l [ps1] = true := by
  rw [hasPrefix_one]; unfold hasPrefix1; rw [Bool.or_eq_true]; right
  exact h

theorem hasPrefix_of_startsWith_ps2 {l : Str} (h : startsWith "... ".toList l = true) :
    hasPrefix l [ps2] = true := by
  rw [hasPrefix_one]; unfold hasPrefix1; rw [Bool.or_eq_true]; right
  exact h

/-! ## single steps of the labeller -/

/-- in state text a line that is not a prompt is text; the state does not move -/
theorem step_text {s : Nat} {c : Label} {o : List (Label × Str)} {line : Str}
    (h : hasPrefix (strip line) [ps1] = false) :
    labelStep ⟨.text, s, none, c, o⟩ line = .ok ⟨.text, s, none, c, o ++ [(.text, line)]⟩ := by
  simp [labelStep, h]

/-- an empty line is text whatever came before (no statement pending) and resets the state -/
theorem step_blank (p : Label) (s : Nat) (c : Label) (o : List (Label × Str)) :
    ∃ s', labelStep ⟨p, s, none, c, o⟩ [] = .ok ⟨.text, s', none, c, o ++ [(.text, [])]⟩ := by
  cases p <;> simp [labelStep, strip_nil, hasPrefix, ps1_eq, startsWith, dropPrefix?]


/-- the label of a source line given the label of the line before: `dcnt` for the `...` prompt -/
def contLabel (c : Label) (l : Str) : Label := if hasPrefix l [ps2] = true then .dcnt else c

/-- the first line of a statement with the `>>>` prompt — from text, after a want, or directly after
    a complete statement at the same indentation: labelled `dsrc`; the statement is complete iff
    the oracle says so -/
theorem step_first {p : Label} {s k : Nat} {c : Label} {o : List (Label × Str)} {first : Str}
    (hf : hasPrefix first [ps1] = true)
    (hp : p = .text ∨ p = .want ∨ ((p = .dsrc ∨ p = .dcnt) ∧ s = k)) :
    labelStep ⟨p, s, none, c, o⟩ (pad k ++ first) =
      if isBalanced [first.drop 4] = true then
        .ok ⟨.dsrc, k, none, .dsrc, o ++ [(.dsrc, pad k ++ first)]⟩
      else .ok ⟨p, k, some [first.drop 4], .dsrc, o ++ [(.dsrc, pad k ++ first)]⟩ := by
  obtain ⟨h4, h2, h12, hhd, hs⟩ := ps1_line hf
  have hi : indentOf (pad k ++ first) = k := by
    obtain ⟨ch, t, rfl, hch⟩ := hhd; exact indentOf_pad k t hch
  have hd : (pad k ++ first).drop k = first := drop_pad k first
  have hne : (strip first).isEmpty = false := by
    cases hst : strip first with
    | nil => rw [hst] at hs; revert hs; decide +kernel
    | cons _ _ => rfl
  have hn2 : (strip first == ps2) = false := by
    cases hb : (strip first == ps2) with
    | false => rfl
    | true =>
      rw [beq_iff_eq] at hb; rw [hb] at hs; revert hs; decide +kernel
  rcases hp with rfl | rfl | ⟨rfl | rfl, rfl⟩
  · simp [labelStep, strip_pad, hs, hi, hd, h4, h2]
  · simp [labelStep, strip_pad, hs, hi, hd, h4, h2, hne]
  · simp [labelStep, strip_pad, hi, hd, h4, h2, h12, hne, hn2]
  · simp [labelStep, strip_pad, hi, hd, h4, h2, h12, hne, hn2]

/-- the first line of a statement with the `...` prompt, directly after a complete statement at the
    same indentation (the usual `>>> def f():` / `...     body`): labelled `dcnt` -/
theorem step_first_ps2 {p : Label} {k : Nat} {c : Label} {o : List (Label × Str)} {first : Str}
    (hf : hasPrefix first [ps2] = true) (hbare : strip first ≠ ps2)
    (hp : p = .dsrc ∨ p = .dcnt) :
    labelStep ⟨p, k, none, c, o⟩ (pad k ++ first) =
      if isBalanced [first.drop 4] = true then
        .ok ⟨.dcnt, k, none, .dcnt, o ++ [(.dcnt, pad k ++ first)]⟩
      else .ok ⟨p, k, some [first.drop 4], .dcnt, o ++ [(.dcnt, pad k ++ first)]⟩ := by
  obtain ⟨h4, h12, hhd⟩ := ps2_line hf
  have hi : indentOf (pad k ++ first) = k := by
    obtain ⟨ch, t, rfl, hch⟩ := hhd; exact indentOf_pad k t hch
  have hd : (pad k ++ first).drop k = first := drop_pad k first
  have hne : (strip first).isEmpty = false := by
    obtain ⟨ch, t, rfl, hch⟩ := hhd
    unfold strip; rw [lstrip_of_head hch]
    unfold rstrip
    rw [List.reverse_cons, List.dropWhile_append]
    split
    · simp [hch]
    · rename_i hx
      cases hy : List.dropWhile isSpace t.reverse with
      | nil => rw [hy] at hx; simp at hx
      | cons a b => simp
  have hn2 : (strip first == ps2) = false := by
    cases hb : (strip first == ps2) with
    | false => rfl
    | true => rw [beq_iff_eq] at hb; exact absurd hb hbare
  rcases hp with rfl | rfl
  · simp [labelStep, strip_pad, hi, hd, h4, hf, h12, hne, hn2]
  · simp [labelStep, strip_pad, hi, hd, h4, hf, h12, hne, hn2]

/-- the labeller's own test on a line of a pending statement: the first four characters are a
    prompt or blank -/
def knownPrefix (l : Str) : Bool :=
  strip (l.take 4) == ps1 || strip (l.take 4) == ps2 || (strip (l.take 4)).isEmpty

/-- a continuation line of a pending statement at the statement's indentation: a prompt of either
    kind, or four blanks (the old style) -/
theorem step_pending {p : Label} {k : Nat} {parts : List Str} {c : Label} {o : List (Label × Str)} {l : Str}
    (hl : knownPrefix l = true) :
    labelStep ⟨p, k, some parts, c, o⟩ (pad k ++ l) =
      if isBalanced (parts ++ [l.drop 4]) = true then
        .ok ⟨contLabel c l, k, none, contLabel c l, o ++ [(contLabel c l, pad k ++ l)]⟩
      else .ok ⟨p, k, some (parts ++ [l.drop 4]), contLabel c l, o ++ [(contLabel c l, pad k ++ l)]⟩ := by
  have hd : (pad k ++ l).drop k = l := drop_pad k l
  unfold knownPrefix at hl
  simp only [Bool.or_eq_true, beq_iff_eq, List.isEmpty_iff] at hl
  unfold contLabel
  rcases hl with (hk | hk) | hk
  · simp [labelStep, hd, hk]
  · simp [labelStep, hd, hk]
  · simp [labelStep, hd, hk]

/-- a want line after source or want at the statement's indentation -/
theorem step_want {p : Label} {k : Nat} {c : Label} {o : List (Label × Str)} {w : Str}
    (hp : p = .dsrc ∨ p = .dcnt ∨ p = .want)
    (hne : (strip w).isEmpty = false) (hpre : hasPrefix (strip w) [ps1, ps2] = false)
    (hhd : (w.head?.map isSpace).getD false = false) :
    labelStep ⟨p, k, none, c, o⟩ (pad k ++ w) = .ok ⟨.want, k, none, c, o ++ [(.want, pad k ++ w)]⟩ := by
  obtain ⟨ch, t, rfl, hch⟩ : ∃ ch t, w = ch :: t ∧ isSpace ch = false := by
    cases w with
    | nil => rw [strip_nil] at hne; cases hne
    | cons ch t => exact ⟨ch, t, rfl, by simpa using hhd⟩
  have hi := indentOf_pad k t hch
  have hd : (pad k ++ ch :: t).drop k = ch :: t := drop_pad k _
  have h12 := hasPrefix_of_strip_false hch hpre
  have h1 := hasPrefix_ps1_of_two hpre
  generalize ch :: t = w at *
  rcases hp with rfl | rfl | rfl
  · simp [labelStep, strip_pad, hi, hd, hne, h12]
  · simp [labelStep, strip_pad, hi, hd, hne, h12]
  · simp [labelStep, strip_pad, hi, hne, h1]


/-! ## runs of the labeller -/

/-- the labeller goes from `st` to `st'` over `lines` without error and labels them `labs` -/
def Run (st : LabelState) (lines : List Str) (labs : List Label) (st' : LabelState) : Prop :=
  lines.foldlM labelStep st = .ok st' ∧ st'.out.map (·.1) = st.out.map (·.1) ++ labs

theorem Run.nil (st : LabelState) : Run st [] [] st := by
  simp [Run, pure, Except.pure]

theorem Run.cons {st st1 st' : LabelState} {line : Str} {lab : Label} {lines : List Str} {labs : List Label}
    (h1 : labelStep st line = .ok st1) (ho : st1.out.map (·.1) = st.out.map (·.1) ++ [lab])
    (h2 : Run st1 lines labs st') : Run st (line :: lines) (lab :: labs) st' := by
  refine ⟨?_, ?_⟩
  · rw [List.foldlM_cons, h1]; exact h2.1
  · rw [h2.2, ho]; simp

theorem Run.append {st st1 st2 : LabelState} {l1 l2 : List Str} {a b : List Label}
    (h1 : Run st l1 a st1) (h2 : Run st1 l2 b st2) : Run st (l1 ++ l2) (a ++ b) st2 := by
  refine ⟨?_, ?_⟩
  · obtain ⟨h1, -⟩ := h1
    induction l1 generalizing st with
    | nil => simp only [List.foldlM_nil, pure, Except.pure, Except.ok.injEq] at h1; subst h1; exact h2.1
    | cons x xs ih =>
      rw [List.foldlM_cons] at h1
      rw [List.cons_append, List.foldlM_cons]
      cases hx : labelStep st x with
      | error e => rw [hx] at h1; cases h1
      | ok s' => rw [hx] at h1; exact ih h1
  · rw [h2.2, h1.2]; simp


/-! ## one lemma per kind of block -/

/-- `label_prose` : from state text, lines that are not prompts are text and the state stays text -/
theorem run_prose (ls : List Str) (h : ∀ l ∈ ls, hasPrefix (strip l) [ps1] = false)
    (st : LabelState) (hp : st.prev = .text) (hn : st.pending = none) :
    ∃ st', Run st ls (ls.map fun _ => Label.text) st' ∧ st'.prev = .text ∧ st'.pending = none := by
  induction ls generalizing st with
  | nil => exact ⟨st, Run.nil st, hp, hn⟩
  | cons l ls ih =>
    obtain ⟨p, s, pd, c, o⟩ := st
    simp only at hp hn; subst hp hn
    obtain ⟨st', hr, h1, h2⟩ := ih (fun l' hl' => h l' (List.mem_cons_of_mem _ hl'))
      ⟨.text, s, none, c, o ++ [(.text, l)]⟩ rfl rfl
    exact ⟨st', Run.cons (step_text (h l List.mem_cons_self)) (by simp) hr, h1, h2⟩

/-- `label_blank` : with no statement pending, empty lines are text whatever came before, and the
    first one resets the state to text -/
theorem run_blank (n : Nat) (st : LabelState) (hn : st.pending = none) :
    ∃ st', Run st (List.replicate n []) (List.replicate n Label.text) st' ∧ st'.pending = none ∧
      ((st.prev = .text ∨ 0 < n) → st'.prev = .text) := by
  induction n generalizing st with
  | zero => exact ⟨st, Run.nil st, hn, fun h => h.elim id (fun h => absurd h (Nat.lt_irrefl 0))⟩
  | succ n ih =>
    obtain ⟨p, s, pd, c, o⟩ := st
    simp only at hn; subst hn
    obtain ⟨s', hs'⟩ := step_blank p s c o
    obtain ⟨st', hr, h1, h2⟩ := ih ⟨.text, s', none, c, o ++ [(.text, [])]⟩ rfl
    exact ⟨st', Run.cons hs' (by simp) hr, h1, fun _ => h2 (Or.inl rfl)⟩

/-- the labels of the lines of a statement, `c` being the label of the line before -/
def contLabels : Label → List Str → List Label
  | _, [] => []
  | c, l :: r => contLabel c l :: contLabels (contLabel c l) r

/-- the labels the labeller gives to the lines of one statement: the first line is `dsrc` (`dcnt`
    with the `...` prompt), a later one is `dcnt` with the `...` prompt and else inherits -/
def stmtLabels (s : List Str) : List Label := contLabels .dsrc s

theorem contLabel_src {c : Label} (l : Str) (hc : c = .dsrc ∨ c = .dcnt) :
    contLabel c l = .dsrc ∨ contLabel c l = .dcnt := by
  unfold contLabel; split
  · exact Or.inr rfl
  · exact hc

/-- the labeller has just completed a statement at indentation `k` -/
def SrcDone (k : Nat) (st : LabelState) : Prop :=
  st.pending = none ∧ (st.prev = .dsrc ∨ st.prev = .dcnt) ∧ st.sind = k

/-- the labeller is ready for a `>>>` statement at indentation `k` -/
def SrcReady (k : Nat) (st : LabelState) : Prop :=
  st.pending = none ∧
    (st.prev = .text ∨ st.prev = .want ∨ ((st.prev = .dsrc ∨ st.prev = .dcnt) ∧ st.sind = k))

theorem SrcDone.ready {k : Nat} {st : LabelState} (h : SrcDone k st) : SrcReady k st :=
  ⟨h.1, Or.inr (Or.inr ⟨h.2.1, h.2.2⟩)⟩

/-- the continuation lines of a pending statement: consumed one by one, the statement is complete
    exactly at the last one -/
theorem run_pending (k : Nat) (rest : List Str) (parts : List Str) (p c : Label) (o : List (Label × Str))
    (hc : c = .dsrc ∨ c = .dcnt) (hne : rest ≠ [])
    (hl : ∀ l ∈ rest, knownPrefix l = true)
    (hb : isBalanced (parts ++ rest.map (·.drop 4)) = true)
    (hu : ∀ m, m < rest.length → isBalanced (parts ++ (rest.take m).map (·.drop 4)) = false) :
    ∃ st', Run ⟨p, k, some parts, c, o⟩ (rest.map (pad k ++ ·)) (contLabels c rest) st' ∧ SrcDone k st' := by
  induction rest generalizing parts c o with
  | nil => exact absurd rfl hne
  | cons l rest ih =>
    have hstep := step_pending (p := p) (k := k) (parts := parts) (c := c) (o := o)
      (hl l List.mem_cons_self)
    cases rest with
    | nil =>
      simp only [List.map_cons, List.map_nil] at hb
      rw [if_pos hb] at hstep
      exact ⟨_, Run.cons hstep (by simp) (Run.nil _), rfl, contLabel_src l hc, rfl⟩
    | cons l2 rest =>
      have hu1 := hu 1 (by simp)
      simp only [List.take_succ_cons, List.take_zero, List.map_cons, List.map_nil] at hu1
      rw [if_neg (by rw [hu1]; simp)] at hstep
      obtain ⟨st', hr, h1⟩ := ih (parts ++ [l.drop 4]) (contLabel c l)
        (o ++ [(contLabel c l, pad k ++ l)]) (contLabel_src l hc) (by simp)
        (fun l' hl' => hl l' (List.mem_cons_of_mem _ hl'))
        (by simpa using hb)
        (fun m hm => by
          have := hu (m + 1) (by simpa using hm)
          simpa using this)
      exact ⟨st', Run.cons hstep (by simp) hr, h1⟩

/-- what the grammar asks of a statement besides its first line: the other lines carry a prompt (or
    four blanks), the statement is balanced as a whole and no strict prefix of it is (oracle) -/
def StmtCore (s : List Str) : Prop :=
  (∀ l ∈ s.tail, knownPrefix l = true) ∧
    isBalanced (s.map (·.drop 4)) = true ∧
    ∀ n, 0 < n → n < s.length → isBalanced ((s.take n).map (·.drop 4)) = false

/-- a statement once its first line has been read -/
theorem run_stmt_core (k : Nat) (first : Str) (rest : List Str) (hs : StmtCore (first :: rest))
    (lab p : Label) (hlab : lab = .dsrc ∨ lab = .dcnt) (st : LabelState)
    (hstep : labelStep st (pad k ++ first) =
      if isBalanced [first.drop 4] = true then
        .ok ⟨lab, k, none, lab, st.out ++ [(lab, pad k ++ first)]⟩
      else .ok ⟨p, k, some [first.drop 4], lab, st.out ++ [(lab, pad k ++ first)]⟩) :
    ∃ st', Run st ((first :: rest).map (pad k ++ ·)) (lab :: contLabels lab rest) st' ∧ SrcDone k st' := by
  obtain ⟨hl, hb, hu⟩ := hs
  cases rest with
  | nil =>
    simp only [List.map_cons, List.map_nil] at hb
    rw [if_pos hb] at hstep
    exact ⟨_, Run.cons hstep (by simp) (Run.nil _), rfl, hlab, rfl⟩
  | cons l rest =>
    have hu1 := hu 1 (by decide) (by simp)
    simp only [List.take_succ_cons, List.take_zero, List.map_cons, List.map_nil] at hu1
    rw [if_neg (by rw [hu1]; simp)] at hstep
    obtain ⟨st', hr, h1⟩ := run_pending k (l :: rest) [first.drop 4] p lab
      (st.out ++ [(lab, pad k ++ first)]) hlab (by simp) hl (by simpa using hb)
      (fun m hm => by
        have := hu (m + 1) (by omega) (by simpa using hm)
        simpa using this)
    exact ⟨st', Run.cons hstep (by simp) hr, h1⟩

/-- a statement that opens with the `>>>` prompt -/
def StmtOk1 (s : List Str) : Prop :=
  ∃ first rest, s = first :: rest ∧ hasPrefix first [ps1] = true ∧ StmtCore s

/-- a statement that opens with the `...` prompt (not a bare `...`): only directly after another
    statement -/
def StmtOk2 (s : List Str) : Prop :=
  ∃ first rest, s = first :: rest ∧ hasPrefix first [ps2] = true ∧ strip first ≠ ps2 ∧ StmtCore s

/-- `label_statement` : a whole `>>>` statement is consumed line by line -/
theorem run_stmt1 (k : Nat) (s : List Str) (hs : StmtOk1 s) (st : LabelState) (hst : SrcReady k st) :
    ∃ st', Run st (s.map (pad k ++ ·)) (stmtLabels s) st' ∧ SrcDone k st' := by
  obtain ⟨first, rest, rfl, hf, hcore⟩ := hs
  obtain ⟨p, sd, pd, c, o⟩ := st
  obtain ⟨hn, hp⟩ := hst
  simp only at hn hp; subst hn
  have hstep := step_first (p := p) (s := sd) (k := k) (c := c) (o := o) hf hp
  have e : contLabel .dsrc first = .dsrc := by
    unfold contLabel; rw [if_neg (by rw [(ps1_line hf).2.1]; simp)]
  have := run_stmt_core k first rest hcore .dsrc p (Or.inl rfl) ⟨p, sd, none, c, o⟩ hstep
  simpa only [stmtLabels, contLabels, e] using this

/-- the same for a statement that opens with `...`, directly after a statement -/
theorem run_stmt2 (k : Nat) (s : List Str) (hs : StmtOk2 s) (st : LabelState) (hst : SrcDone k st) :
    ∃ st', Run st (s.map (pad k ++ ·)) (stmtLabels s) st' ∧ SrcDone k st' := by
  obtain ⟨first, rest, rfl, hf, hbare, hcore⟩ := hs
  obtain ⟨p, sd, pd, c, o⟩ := st
  obtain ⟨hn, hp, hk⟩ := hst
  simp only at hn hp hk; subst hn hk
  have hstep := step_first_ps2 (p := p) (k := sd) (c := c) (o := o) hf hbare hp
  have e : contLabel .dsrc first = .dcnt := by
    unfold contLabel; rw [if_pos hf]
  have := run_stmt_core sd first rest hcore .dcnt p (Or.inr rfl) ⟨p, sd, none, c, o⟩ hstep
  simpa only [stmtLabels, contLabels, e] using this

/-- statements one after the other at the same indentation -/
theorem run_stmts (k : Nat) (stmts : List (List Str)) (hs : ∀ s ∈ stmts, StmtOk1 s ∨ StmtOk2 s)
    (st : LabelState) (hst : SrcDone k st) :
    ∃ st', Run st ((stmts.flatMap id).map (pad k ++ ·)) (stmts.flatMap stmtLabels) st' ∧ SrcDone k st' := by
  induction stmts generalizing st with
  | nil => exact ⟨st, Run.nil st, hst⟩
  | cons s stmts ih =>
    obtain ⟨st1, hr1, h1⟩ : ∃ st', Run st (s.map (pad k ++ ·)) (stmtLabels s) st' ∧ SrcDone k st' := by
      rcases hs s List.mem_cons_self with h | h
      · exact run_stmt1 k s h st hst.ready
      · exact run_stmt2 k s h st hst
    obtain ⟨st2, hr2, h2⟩ := ih (fun s' hs' => hs s' (List.mem_cons_of_mem _ hs')) st1 h1
    refine ⟨st2, ?_, h2⟩
    simp only [List.flatMap_cons, id, List.map_append]
    exact hr1.append hr2

/-- the side condition on one want line -/
def WantOk (w : Str) : Prop :=
  (strip w).isEmpty = false ∧ hasPrefix (strip w) [ps1, ps2] = false ∧
    indentOf w = 0 ∧ (w.head?.map isSpace).getD false = false

/-- the labeller has read an example block at indentation `k`: no statement pending, and the last
    line was source at indentation `k`, or a want line -/
def ExDone (k : Nat) (st : LabelState) : Prop :=
  st.pending = none ∧ (st.prev = .want ∨ ((st.prev = .dsrc ∨ st.prev = .dcnt) ∧ st.sind = k))

/-- `label_want` : after source (or want), want lines at the statement's indentation are want -/
theorem run_want (k : Nat) (want : List Str) (hw : ∀ w ∈ want, WantOk w) (st : LabelState)
    (hn : st.pending = none) (hp : st.prev = .dsrc ∨ st.prev = .dcnt ∨ st.prev = .want) (hk : st.sind = k) :
    ∃ st', Run st (want.map (pad k ++ ·)) (want.map fun _ => Label.want) st' ∧ st'.pending = none ∧
      st'.sind = k ∧ (st'.prev = st.prev ∨ st'.prev = .want) ∧ (want ≠ [] → st'.prev = .want) := by
  induction want generalizing st with
  | nil => exact ⟨st, Run.nil st, hn, hk, Or.inl rfl, fun h => absurd rfl h⟩
  | cons w want ih =>
    obtain ⟨p, sd, pd, c, o⟩ := st
    simp only at hn hp hk; subst hn hk
    obtain ⟨h1, h2, -, h4⟩ := hw w List.mem_cons_self
    obtain ⟨st', hr, h, h', h'', -⟩ := ih (fun w' hw' => hw w' (List.mem_cons_of_mem _ hw'))
      ⟨.want, sd, none, c, o ++ [(.want, pad sd ++ w)]⟩ rfl (Or.inr (Or.inr rfl)) rfl
    exact ⟨st', Run.cons (step_want hp h1 h2 h4) (by simp) hr, h, h', Or.inr (h''.elim id id),
      fun _ => h''.elim id id⟩

/-- a whole example block, from text, from a want, or from source at the same indentation: the first
    statement opens with `>>>`, the others with either prompt -/
theorem run_example (k : Nat) (s : List Str) (stmts : List (List Str)) (want : List Str)
    (hs1 : StmtOk1 s) (hs : ∀ s' ∈ stmts, StmtOk1 s' ∨ StmtOk2 s') (hw : ∀ w ∈ want, WantOk w)
    (st : LabelState) (hst : SrcReady k st) :
    ∃ st', Run st (((s :: stmts).flatMap id).map (pad k ++ ·) ++ want.map (pad k ++ ·))
        ((s :: stmts).flatMap stmtLabels ++ want.map fun _ => Label.want) st' ∧ ExDone k st' ∧
        (want ≠ [] → st'.prev = .want) := by
  obtain ⟨st1, hr1, h1⟩ := run_stmt1 k s hs1 st hst
  obtain ⟨st2, hr2, h2⟩ := run_stmts k stmts hs st1 h1
  obtain ⟨st3, hr3, h3, h4, h5, h6⟩ := run_want k want hw st2 h2.1
    (h2.2.1.elim Or.inl (fun h => Or.inr (Or.inl h))) h2.2.2
  refine ⟨st3, ?_, ⟨h3, ?_⟩, h6⟩
  · simp only [List.flatMap_cons, id, List.map_append]
    exact (hr1.append hr2).append hr3
  · rcases h5 with h | h
    · exact Or.inr ⟨h ▸ h2.2.1, h4⟩
    · exact Or.inl h

end Xdoc.Parser

import XdocModel.Stdlib
import XdocModel.Lemmas.Ellipsis
import XdocModel.Lemmas.Checker
import XdocModel.Lemmas.Collapse
/-! Helper lemmas for C20: the standard split on `...` versus xdoctest's whitespace-absorbing split. -/
namespace Xdoc
open Py Re
open _root_.Xdoc.Std

namespace Re

theorem Scattered.append {α : Type} {ws : List (List α)} {r : List α} (t : List α)
    (h : Scattered ws r) : Scattered ws (r ++ t) := by
  induction h with
  | nil s => exact .nil _
  | cons x w ws r _ ih =>
    have : x ++ w ++ r ++ t = x ++ w ++ (r ++ t) := by simp
    rw [this]; exact .cons _ _ _ _ ih

end Re

namespace Std

/-- `ps` are the standard pieces, `qs` xdoctest's: every xdoctest piece is the standard piece
    minus something on its left (`pre` for the first one listed) and, except for the last piece,
    something on its right (in fact: the whitespace the separator absorbed) -/
inductive PRel : Str → List Str → List Str → Prop
  | last (pre q : Str) : PRel pre [pre ++ q] [q]
  | cons (pre q a b : Str) (ps qs : List Str) :
      PRel b ps qs → PRel pre ((pre ++ q ++ a) :: ps) (q :: qs)

theorem mem_takeWhile_pos {p : Char → Bool} {l : Str} {d : Char} (h : d ∈ l.takeWhile p) : p d = true :=
  List.all_eq_true.mp (List.all_takeWhile (l := l) (p := p)) d h

theorem PRel.ne_nil {pre : Str} {ps qs : List Str} (h : PRel pre ps qs) : ps ≠ [] ∧ qs ≠ [] := by
  cases h <;> simp

theorem dots_not_space : ∀ c ∈ dots, isSpace c = false := by
  intro c hc
  simp only [dots, List.mem_cons, List.mem_nil_iff, or_false] at hc
  rcases hc with rfl | rfl | rfl <;> decide +kernel

theorem dropPrefix_dots_space {c : Char} (s : Str) (hc : isSpace c = true) :
    dropPrefix? dots (c :: s) = none := by
  have : c ≠ '.' := by
    intro h; subst h
    have : isSpace '.' = false := by decide +kernel
    rw [this] at hc; cases hc
  simp [dots, dropPrefix?, Ne.symm this]

/-- the standard scan walks over a run of whitespace, pushing it on the accumulator -/
theorem splitDotsGo_skip_ws (ws : Str) (hws : ∀ c ∈ ws, isSpace c = true) :
    ∀ (f : Nat) (s acc : Str), (ws ++ s).length ≤ f →
      ∃ f', s.length ≤ f' ∧ splitDotsGo f (ws ++ s) acc = splitDotsGo f' s (ws.reverse ++ acc) := by
  induction ws with
  | nil => intro f s acc hf; exact ⟨f, by simpa using hf, by simp⟩
  | cons c ws ih =>
    intro f s acc hf
    cases f with
    | zero => simp at hf
    | succ f =>
      have hc : isSpace c = true := hws c (by simp)
      have hf' : (ws ++ s).length ≤ f := by simp at hf ⊢; omega
      obtain ⟨f', h1, h2⟩ := ih (fun d hd => hws d (by simp [hd])) f s (c :: acc) hf'
      refine ⟨f', h1, ?_⟩
      simp only [List.cons_append, splitDotsGo, dropPrefix_dots_space _ hc]
      rw [h2]; simp

theorem splitDotsGo_nil (f : Nat) (acc : Str) : splitDotsGo f [] acc = [acc.reverse] := by
  cases f <;> simp [splitDotsGo]

theorem sepStart_eq_some {s rest : Str} (h : sepStart s = some rest) :
    s = s.takeWhile isSpace ++ dots ++ rest := by
  unfold sepStart at h
  have := dropPrefix?_eq_some.mp h
  calc s = s.takeWhile isSpace ++ s.dropWhile isSpace := (List.takeWhile_append_dropWhile).symm
    _ = s.takeWhile isSpace ++ (dots ++ rest) := by rw [this]
    _ = _ := by simp

theorem sepStart_none_dots {s : Str} (h : sepStart s = none) : dropPrefix? dots s = none := by
  cases hd : dropPrefix? dots s with
  | none => rfl
  | some r =>
    have : startsWith dots s = true := by simp [startsWith, hd]
    have := sepStart_of_startsWith_dots this
    simp [h] at this

/-- ★ the two scans, run from the same position, produce piece lists related by `PRel` -/
theorem split_rel : ∀ (fX fD : Nat) (s accX accD pre : Str),
    s.length ≤ fX → s.length ≤ fD → accD.reverse = pre ++ accX.reverse →
    PRel pre (splitDotsGo fD s accD) (splitEllipsisGo fX s accX) := by
  intro fX
  induction fX with
  | zero =>
    intro fD s accX accD pre h1 _ hacc
    have : s = [] := List.eq_nil_of_length_eq_zero (by omega)
    subst this
    rw [splitDotsGo_nil, hacc]
    simp only [splitEllipsisGo]
    exact .last _ _
  | succ fX ih =>
    intro fD s accX accD pre h1 h2 hacc
    cases s with
    | nil =>
      rw [splitDotsGo_nil, hacc]
      simp only [splitEllipsisGo]
      exact .last _ _
    | cons c s =>
      simp only [splitEllipsisGo]
      split
      · rename_i rest hsep
        -- a separator of xdoctest starts here: whitespace, the dots, whitespace
        have hs := sepStart_eq_some hsep
        generalize hws : (c :: s).takeWhile isSpace = ws at hs
        have hwsp : ∀ d ∈ ws, isSpace d = true := by
          intro d hd; rw [← hws] at hd; exact mem_takeWhile_pos hd
        have hlen : (c :: s).length = ws.length + 3 + rest.length := by
          rw [hs]; simp [dots]; omega
        rw [hs]
        rw [hs] at h2
        obtain ⟨f1, hf1, e1⟩ := splitDotsGo_skip_ws ws hwsp fD (dots ++ rest) accD
          (by simpa [List.append_assoc] using h2)
        rw [List.append_assoc, e1]
        cases f1 with
        | zero => simp [dots] at hf1
        | succ f1 =>
          simp only [dots, List.cons_append, List.nil_append] at hf1 ⊢
          have hd : dropPrefix? dots ('.' :: '.' :: '.' :: rest) = some rest :=
            dropPrefix?_append dots rest
          simp only [splitDotsGo, hd]
          -- the whitespace after the dots
          have hr : rest = rest.takeWhile isSpace ++ rest.dropWhile isSpace :=
            (List.takeWhile_append_dropWhile).symm
          generalize hws2 : rest.takeWhile isSpace = ws2 at hr
          have hws2p : ∀ d ∈ ws2, isSpace d = true := by
            intro d hd; rw [← hws2] at hd; exact mem_takeWhile_pos hd
          have hrl : rest.length = ws2.length + (rest.dropWhile isSpace).length := by
            conv => lhs; rw [hr]
            simp
          obtain ⟨f2, hf2, e2⟩ := splitDotsGo_skip_ws ws2 hws2p f1 (rest.dropWhile isSpace) []
            (by rw [← hr]; simp at hf1; omega)
          have e2' : splitDotsGo f1 rest [] = splitDotsGo f2 (rest.dropWhile isSpace) (ws2.reverse ++ []) := by
            conv => lhs; rw [hr]
            exact e2
          rw [e2']
          have hrec := ih f2 (rest.dropWhile isSpace) [] (ws2.reverse ++ []) ws2
            (by simp only [List.length_cons] at h1 hlen; omega) hf2 (by simp)
          have hq : (ws.reverse ++ accD).reverse = pre ++ accX.reverse ++ ws := by
            simp [hacc]
          rw [hq]
          exact .cons pre accX.reverse ws ws2 _ _ hrec
      · rename_i hsep
        have hd := sepStart_none_dots hsep
        cases fD with
        | zero => simp at h2
        | succ fD =>
          simp only [splitDotsGo, hd]
          exact ih fD s (c :: accX) (c :: accD) pre (by simp at h1; omega) (by simp at h2; omega)
            (by simp [hacc])

theorem split_rel_top (want : Str) : PRel [] (splitDots want) (splitEllipsis want) :=
  split_rel want.length want.length want [] [] [] (Nat.le_refl _) (Nat.le_refl _) (by simp)

/-- the middle pieces and the last piece: a scattered occurrence of the standard middle pieces
    yields one of xdoctest's, the surplus going into the wildcards -/
theorem PRel.scattered {b : Str} {ps qs : List Str} (h : PRel b ps qs) :
    ∀ mid, Scattered ps.dropLast mid →
      ∃ mid', mid ++ ps.getLast?.getD [] = mid' ++ qs.getLast?.getD [] ∧ Scattered qs.dropLast mid' := by
  induction h with
  | last pre q =>
    intro mid _
    exact ⟨mid ++ pre, by simp, .nil _⟩
  | cons pre q a b ps qs h ih =>
    intro mid hm
    obtain ⟨hp, hq⟩ := h.ne_nil
    obtain ⟨p1, ps1, rfl⟩ := List.exists_cons_of_ne_nil hp
    obtain ⟨q1, qs1, rfl⟩ := List.exists_cons_of_ne_nil hq
    simp only [List.dropLast_cons_cons] at hm ⊢
    cases hm with
    | cons x w ws r hr =>
      obtain ⟨r', e, hs⟩ := ih r hr
      refine ⟨(x ++ pre) ++ q ++ (a ++ r'), ?_, .cons _ _ _ _ (hs.prepend a)⟩
      simp only [List.getLast?_cons_cons] at e ⊢
      simp only [List.append_assoc] at e ⊢
      rw [e]

/-- ★ KEY LEMMA of C20: for ALL strings, a standard ellipsis match is an xdoctest ellipsis match
    (xdoctest's pieces are the standard ones with whitespace stripped next to each `...`; the
    stripped whitespace of `got` goes into the wildcards) -/
theorem stdEllipsis_implies_ellipsisMatch (got want : Str) (h : stdEllipsis got want = true) :
    ellipsisMatch got want = true := by
  unfold stdEllipsis at h
  unfold ellipsisMatch
  split at h
  · rename_i hc; simp only [hc, ↓reduceIte]; exact h
  · rename_i hc
    have hc' : (!contains dots want) = false := by simpa using hc
    simp only [hc', Bool.false_eq_true, ↓reduceIte]
    have hrel := split_rel_top want
    generalize splitDots want = ps at h hrel
    generalize splitEllipsis want = qs at hrel
    cases hrel with
    | last pre q => simp at h
    | cons pre q a b ps' qs' hr =>
      obtain ⟨hp, hq⟩ := hr.ne_nil
      obtain ⟨p1, ps1, rfl⟩ := List.exists_cons_of_ne_nil hp
      obtain ⟨q1, qs1, rfl⟩ := List.exists_cons_of_ne_nil hq
      simp only at h ⊢
      rw [ellipsisPieces_iff] at h ⊢
      obtain ⟨mid, hg, hs⟩ := h
      obtain ⟨mid', e, hs'⟩ := hr.scattered mid hs
      refine ⟨a ++ mid', ?_, hs'.prepend a⟩
      rw [hg]
      simp only [List.nil_append, List.append_assoc] at e ⊢
      rw [e]

end Std
end Xdoc

/-! ## whitespace deletions that keep the words (for the non-ellipsis part of C20) -/
namespace Xdoc
open Py Re
open _root_.Xdoc.Std

namespace Py

/-- the text is empty or starts with whitespace -/
def hdSp : Str → Bool
  | [] => true
  | c :: _ => isSpace c

/-- `t` is `s` minus some whitespace characters, each of which is followed (in `t`) by whitespace
    or by the end: such deletions neither merge nor split words -/
inductive WsDel : Str → Str → Prop
  | nil : WsDel [] []
  | keep (c : Char) (s t : Str) : WsDel s t → WsDel (c :: s) (c :: t)
  | drop (c : Char) (s t : Str) : WsDel s t → isSpace c = true → hdSp t = true → WsDel (c :: s) t

theorem wordsAux_hdSp (acc t : Str) (h : hdSp t = true) :
    wordsAux acc t = if acc.isEmpty then wordsAux [] t else acc.reverse :: wordsAux [] t := by
  cases t with
  | nil => simp [wordsAux]
  | cons d t =>
    simp only [hdSp] at h
    simp [wordsAux, h]

theorem WsDel.wordsAux_eq {s t : Str} (h : WsDel s t) : ∀ acc, wordsAux acc s = wordsAux acc t := by
  induction h with
  | nil => intro acc; rfl
  | keep c s t _ ih =>
    intro acc
    simp only [wordsAux, ih]
  | drop c s t _ hc ht ih =>
    intro acc
    simp only [wordsAux, hc, ↓reduceIte, ih]
    rw [wordsAux_hdSp acc t ht]

theorem WsDel.collapse_eq {s t : Str} (h : WsDel s t) : collapse s = collapse t := by
  simp [collapse, words, h.wordsAux_eq]

theorem WsDel.refl (s : Str) : WsDel s s := by
  induction s with
  | nil => exact .nil
  | cons c s ih => exact .keep _ _ _ ih

theorem WsDel.mem {s t : Str} (h : WsDel s t) : ∀ c ∈ t, c ∈ s := by
  induction h with
  | nil => simp
  | keep c s t _ ih =>
    intro d hd
    simp only [List.mem_cons] at hd ⊢
    rcases hd with rfl | hd
    · exact Or.inl rfl
    · exact Or.inr (ih d hd)
  | drop c s t _ _ _ ih =>
    intro d hd
    exact List.mem_cons_of_mem _ (ih d hd)

theorem WsDel.trans_collapse {a b c : Str} (h1 : WsDel a b) (h2 : WsDel b c) : collapse a = collapse c :=
  h1.collapse_eq.trans h2.collapse_eq

/-- a whole run of whitespace may go when what follows starts with whitespace or is the end -/
theorem WsDel.dropRun (ws s t : Str) (hws : ∀ c ∈ ws, isSpace c = true) (h : WsDel s t)
    (ht : hdSp t = true) : WsDel (ws ++ s) t := by
  induction ws with
  | nil => simpa using h
  | cons c ws ih =>
    exact .drop c _ _ (ih (fun d hd => hws d (by simp [hd]))) (hws c (by simp)) ht

theorem WsDel.append_left (a : Str) {s t : Str} (h : WsDel s t) : WsDel (a ++ s) (a ++ t) := by
  induction a with
  | nil => simpa using h
  | cons c a ih => exact .keep _ _ _ ih

theorem wsDel_stripTrailingWs (s : Str) : WsDel s (stripTrailingWs s) := by
  induction s with
  | nil => exact .nil
  | cons c s ih =>
    cases hr : stripTrailingWs s with
    | nil =>
      rw [hr] at ih
      simp only [stripTrailingWs, hr]
      split
      · rename_i hc
        simp only [Bool.and_true] at hc
        exact .drop c _ _ ih (isBlank_isSpace hc) rfl
      · exact .keep _ _ _ ih
    | cons d r =>
      rw [hr] at ih
      simp only [stripTrailingWs, hr]
      split
      · rename_i hc
        simp only [Bool.and_eq_true, beq_iff_eq] at hc
        refine .drop c _ _ ih (isBlank_isSpace hc.1) ?_
        rw [hc.2]
        simp only [hdSp]; decide +kernel
      · exact .keep _ _ _ ih

theorem wsDel_rstrip (s : Str) : WsDel s (rstrip s) := by
  have hs : s = rstrip s ++ (s.reverse.takeWhile isSpace).reverse := by
    unfold rstrip
    rw [← List.reverse_append, List.takeWhile_append_dropWhile, List.reverse_reverse]
  have hws : ∀ c ∈ (s.reverse.takeWhile isSpace).reverse, isSpace c = true := by
    intro c hc
    exact Std.mem_takeWhile_pos (List.mem_reverse.mp hc)
  have : WsDel (rstrip s ++ ((s.reverse.takeWhile isSpace).reverse ++ [])) (rstrip s ++ []) :=
    WsDel.append_left _ (WsDel.dropRun _ [] [] hws .nil rfl)
  simp only [List.append_nil] at this
  rw [← hs] at this
  exact this

/-! ### lines -/

theorem splitOn_ne_nil_gen {α : Type} [DecidableEq α] (sep : α) (s : List α) : splitOn sep s ≠ [] := by
  cases s with
  | nil => simp [splitOn]
  | cons c s => simp only [splitOn]; split <;> simp

theorem joinWith_cons_ne {α : Type} (sep x : List α) {ls : List (List α)} (h : ls ≠ []) :
    joinWith sep (x :: ls) = x ++ sep ++ joinWith sep ls := by
  cases ls with
  | nil => exact absurd rfl h
  | cons y ys => simp [joinWith]

theorem joinWith_splitOn {α : Type} [DecidableEq α] (sep : α) (s : List α) :
    joinWith [sep] (splitOn sep s) = s := by
  induction s with
  | nil => simp [splitOn, joinWith]
  | cons c s ih =>
    simp only [splitOn]
    have hne := splitOn_ne_nil_gen sep s
    obtain ⟨l, ls, hl⟩ := List.exists_cons_of_ne_nil hne
    rw [hl] at ih ⊢
    split
    · rename_i hc
      subst hc
      rw [joinWith_cons_ne _ _ (by simp), ih]; simp
    · simp only [List.headD_cons, List.tail_cons]
      cases ls with
      | nil => simp [joinWith] at ih ⊢; exact ih
      | cons y ys =>
        rw [joinWith_cons_ne _ _ (by simp)] at ih ⊢
        simp [← ih]

theorem mem_joinWith_infix {α : Type} (sep : List α) {ls : List (List α)} {l : List α} (h : l ∈ ls) :
    l <:+: joinWith sep ls := by
  induction ls with
  | nil => simp at h
  | cons x xs ih =>
    cases xs with
    | nil =>
      simp only [List.mem_singleton] at h
      subst h; simp [joinWith]
    | cons y ys =>
      rw [joinWith_cons_ne _ _ (by simp)]
      simp only [List.mem_cons] at h
      rcases h with rfl | h
      · exact ⟨[], sep ++ joinWith sep (y :: ys), by simp⟩
      · have := ih (by simpa using h)
        exact List.IsInfix.trans this (List.suffix_append _ _).isInfix

end Py
end Xdoc

namespace Xdoc
open Py Re
open _root_.Xdoc.Std

namespace Std

/-! ### the standard treatment of whitespace-only lines only deletes harmless whitespace -/

theorem isSpace_nl : isSpace '\n' = true := by decide +kernel

theorem wsDel_blankGot_lines (ls : List Str) :
    WsDel (joinWith ['\n'] ls) (joinWith ['\n'] (ls.map blankGotLine)) := by
  induction ls with
  | nil => exact .nil
  | cons l ls ih =>
    cases ls with
    | nil =>
      simp only [List.map_cons, List.map_nil, joinWith, blankGotLine]
      split
      · rename_i hl
        have := WsDel.dropRun l [] [] (fun c hc => (List.all_eq_true.mp hl) c hc) .nil rfl
        simpa using this
      · exact WsDel.refl _
    | cons y ys =>
      have e1 : joinWith ['\n'] (l :: y :: ys) = l ++ (['\n'] ++ joinWith ['\n'] (y :: ys)) := by
        rw [joinWith_cons_ne _ _ (by simp)]; simp
      have e2 : joinWith ['\n'] ((l :: y :: ys).map blankGotLine) =
          blankGotLine l ++ (['\n'] ++ joinWith ['\n'] ((y :: ys).map blankGotLine)) := by
        rw [List.map_cons, joinWith_cons_ne _ _ (by simp)]; simp
      rw [e1, e2]
      have h1 : WsDel (['\n'] ++ joinWith ['\n'] (y :: ys))
          (['\n'] ++ joinWith ['\n'] ((y :: ys).map blankGotLine)) := WsDel.append_left _ ih
      simp only [blankGotLine]
      split
      · rename_i hl
        exact WsDel.dropRun l _ _ (fun c hc => (List.all_eq_true.mp hl) c hc) h1
          (by simp [hdSp, isSpace_nl])
      · exact WsDel.append_left _ h1

theorem wsDel_stdBlankGot (s : Str) : WsDel s (stdBlankGot s) := by
  have := wsDel_blankGot_lines (splitOn '\n' s)
  rw [joinWith_splitOn] at this
  exact this

/-! ### identities under the guards -/

theorem toAscii_ascii (s : Str) (h : s.all (fun c => decide (c.toNat < 128)) = true) : toAscii s = s := by
  induction s with
  | nil => rfl
  | cons c s ih =>
    simp only [List.all_cons, Bool.and_eq_true, decide_eq_true_eq] at h
    simp only [toAscii, List.map_cons, List.flatten_cons] at ih ⊢
    rw [ih h.2]
    simp [toAsciiChar, h.1]

theorem contains_false_suffix {w s t : Str} (h : contains w s = false) (ht : t <:+ s) :
    contains w t = false := by
  cases hc : contains w t with
  | false => rfl
  | true => rw [contains_of_infix ht.isInfix hc] at h; cases h

theorem contains_false_dropPrefix {w t : Str} (h : contains w t = false) : dropPrefix? w t = none := by
  cases t with
  | nil =>
    simp only [contains, startsWith] at h
    cases hd : dropPrefix? w [] with
    | none => rfl
    | some r => simp [hd] at h
  | cons c t =>
    simp only [contains, startsWith, Bool.or_eq_false_iff] at h
    cases hd : dropPrefix? w (c :: t) with
    | none => rfl
    | some r => simp [hd] at h

theorem blankStep_none {t : Str} (h : contains marker t = false) : blankStep t = none := by
  unfold blankStep
  rw [contains_false_dropPrefix h]
  simp only
  split
  · rename_i s'
    have : contains marker s' = false := contains_false_suffix h ⟨['\n'], rfl⟩
    rw [contains_false_dropPrefix this]; rfl
  · rfl

theorem scan_id (step : Str → Option (Str × Str)) (fuel : Nat) (s : Str)
    (h : ∀ t, t <:+ s → step t = none) : scan step fuel s = s := by
  induction fuel generalizing s with
  | zero => simp [scan]
  | succ n ih =>
    cases s with
    | nil => simp [scan]
    | cons c s =>
      simp only [scan, h (c :: s) (List.suffix_refl _)]
      rw [ih s (fun t ht => h t (ht.trans (List.suffix_cons _ _)))]

/-- a want without the marker is left alone by xdoctest's marker removal … -/
theorem removeBlanklineMarker_id {w : Str} (h : contains marker w = false) :
    removeBlanklineMarker w = w :=
  scan_id _ _ _ fun _ ht => blankStep_none (contains_false_suffix h ht)

/-- … and by the standard one -/
theorem stdBlankWant_id {w : Str} (h : contains marker w = false) : stdBlankWant w = w := by
  unfold stdBlankWant
  have : (splitOn '\n' w).map blankWantLine = splitOn '\n' w := by
    conv => rhs; rw [← List.map_id (splitOn '\n' w)]
    apply List.map_congr_left
    intro l hl
    have hinf : l <:+: w := by
      have := mem_joinWith_infix ['\n'] hl
      rwa [joinWith_splitOn] at this
    unfold blankWantLine
    cases hd : dropPrefix? marker l with
    | none => rfl
    | some t =>
      exfalso
      have e := dropPrefix?_eq_some.mp hd
      have : contains marker l = true := contains_iff.mpr ⟨[], t, by simpa using e⟩
      rw [contains_of_infix hinf this] at h; cases h
  rw [this, joinWith_splitOn]

theorem splitLinesKeep_flatten (s : Str) : (splitLinesKeep s).flatten = s := by
  fun_induction splitLinesKeep s <;> simp_all

/-- no carriage return: `visible_text` erases nothing -/
theorem eraseCrLines_id {s : Str} (h : '\r' ∉ s) : eraseCrLines s = s := by
  unfold eraseCrLines
  rw [List.filter_eq_self.mpr, splitLinesKeep_flatten]
  intro l hl
  have hmem : ∀ c ∈ l, c ∈ s := by
    intro c hc
    rw [← splitLinesKeep_flatten s]
    exact List.mem_flatten.mpr ⟨l, hl, hc⟩
  cases hg : l.getLast? with
  | none => simp
  | some d =>
    have hd : d ∈ l := List.mem_of_getLast? hg
    have : d ≠ '\r' := fun e => h (e ▸ hmem d hd)
    simp [this]

end Std
end Xdoc

/-! ### a traceback want with the final newline the standard parser keeps -/
namespace Xdoc
open Py Re
open _root_.Xdoc.Std

namespace Std

theorem splitOn_append_nl (b : Str) : splitOn '\n' (b ++ ['\n']) = splitOn '\n' b ++ [[]] := by
  induction b with
  | nil => simp [splitOn]
  | cons c b ih =>
    simp only [List.cons_append, splitOn, ih]
    obtain ⟨l, ls, hl⟩ := List.exists_cons_of_ne_nil (splitOn_ne_nil_gen '\n' b)
    rw [hl]
    split <;> simp

theorem joinWith_append_empty (xs : List Str) (h : xs ≠ []) :
    joinWith ['\n'] (xs ++ [[]]) = joinWith ['\n'] xs ++ ['\n'] := by
  induction xs with
  | nil => exact absurd rfl h
  | cons x xs ih =>
    cases xs with
    | nil => simp [joinWith]
    | cons y ys =>
      have e : (x :: y :: ys) ++ [[]] = x :: ((y :: ys) ++ [[]]) := rfl
      have e1 : joinWith ['\n'] (x :: ((y :: ys) ++ [[]])) = x ++ ['\n'] ++ joinWith ['\n'] ((y :: ys) ++ [[]]) :=
        joinWith_cons_ne _ _ (by simp)
      have e2 : joinWith ['\n'] (x :: y :: ys) = x ++ ['\n'] ++ joinWith ['\n'] (y :: ys) :=
        joinWith_cons_ne _ _ (by simp)
      rw [e, e1, e2, ih (by simp)]
      simp

theorem firstWordLineOn_append_empty (ls : List Str) :
    firstWordLineOn (ls ++ [[]]) = (firstWordLineOn ls).map (· ++ ['\n']) := by
  induction ls with
  | nil => simp [firstWordLineOn]
  | cons l ls ih =>
    cases l with
    | nil => simpa [firstWordLineOn] using ih
    | cons c l =>
      simp only [List.cons_append, firstWordLineOn]
      split
      · have e : (c :: l) :: (ls ++ [[]]) = ((c :: l) :: ls) ++ [[]] := rfl
        rw [e, joinWith_append_empty _ (by simp)]; simp
      · exact ih

/-- the standard parser's want is the block plus a final newline: same header, same message line,
    the message keeps the newline -/
theorem stdExcMatch_append_nl (b : Str) :
    stdExcMatch (b ++ ['\n']) = (stdExcMatch b).map (· ++ ['\n']) := by
  unfold stdExcMatch
  rw [splitOn_append_nl]
  obtain ⟨l, ls, hl⟩ := List.exists_cons_of_ne_nil (splitOn_ne_nil_gen '\n' b)
  rw [hl]
  simp only [List.cons_append]
  split
  · exact firstWordLineOn_append_empty ls
  · rfl

theorem stripExceptionDetails_append_nl (m : Str) :
    stripExceptionDetails (m ++ ['\n']) = stripExceptionDetails m := by
  have : (m ++ ['\n']).takeWhile (· != '\n') = m.takeWhile (· != '\n') := by
    induction m with
    | nil => simp
    | cons c m ih =>
      simp only [List.cons_append, List.takeWhile_cons, ih]
  simp [stripExceptionDetails, this]

end Std
end Xdoc

/-! ### the quote step of `normalize` cannot undo a match

`lead q s` = number of leading `q` characters. A pattern's leading quotes lie in its first piece,
which is matched literally at the start of the text, so `lead q want ≤ lead q got` for every match.
Stripping a pair of quotes lowers `lead` by at least one; hence when `got` matches `want`, no
unquoted `want` can match with `got` as the PATTERN (the swapped second call of `norm_repr`), and
`normalize` leaves a matching pair alone, with or without NORMALIZE_REPR. -/
namespace Xdoc
open Py Re
open _root_.Xdoc.Std

namespace Std

def lead (q : Char) (s : Str) : Nat := (s.takeWhile (· == q)).length

theorem lead_of_prefix {q : Char} {t s : Str} (ht : ∀ c ∈ t, (c == q) = true) (h : t <+: s) :
    t.length ≤ lead q s := by
  obtain ⟨r, rfl⟩ := h
  unfold lead
  rw [List.takeWhile_append_of_pos ht]; simp

theorem takeWhile_all {q : Char} (s : Str) : ∀ c ∈ s.takeWhile (· == q), (c == q) = true := by
  intro c hc
  exact List.all_eq_true.mp (List.all_takeWhile (l := s) (p := (· == q))) c hc

theorem lead_mono {q : Char} {s t : Str} (h : s <+: t) : lead q s ≤ lead q t :=
  lead_of_prefix (takeWhile_all s) ((List.takeWhile_prefix _).trans h)

theorem split_head_lead {q : Char} (hq1 : isSpace q = false) (hq2 : q ≠ '.') (p : Str) :
    ∃ first rest, splitEllipsis p = first :: rest ∧ p.takeWhile (· == q) <+: first := by
  induction p with
  | nil => exact ⟨[], [], splitEllipsis_nil, by simp⟩
  | cons c p ih =>
    by_cases hc : c = q
    · subst hc
      have hs : sepStart (c :: p) = none := by
        rw [sepStart_cons_nonspace hq1]
        simp [dots, dropPrefix?, Ne.symm hq2]
      obtain ⟨first, rest, e, hp⟩ := ih
      refine ⟨c :: first, rest, ?_, ?_⟩
      · rw [splitEllipsis_none hs, e]; simp [prependHead]
      · simp only [List.takeWhile_cons, beq_self_eq_true, ↓reduceIte]
        exact List.cons_prefix_cons.mpr ⟨rfl, hp⟩
    · obtain ⟨first, rest, e⟩ := List.exists_cons_of_ne_nil (splitEllipsis_ne_nil (c :: p))
      refine ⟨first, rest, e, ?_⟩
      have : (c == q) = false := by simpa using hc
      simp [this]

theorem ellipsisMatch_lead {q : Char} (hq1 : isSpace q = false) (hq2 : q ≠ '.') (s p : Str)
    (h : ellipsisMatch s p = true) : lead q p ≤ lead q s := by
  unfold ellipsisMatch at h
  split at h
  · have : p = s := by simpa using h
    rw [this]; exact Nat.le_refl _
  · obtain ⟨first, rest, e, hp⟩ := split_head_lead hq1 hq2 p
    rw [e] at h
    cases rest with
    | nil => simp at h
    | cons r rs =>
      simp only at h
      obtain ⟨mid, hs, _⟩ := (ellipsisPieces_iff _ _ _ _).mp h
      have : p.takeWhile (· == q) <+: s := hp.trans ⟨mid ++ (r :: rs).getLast?.getD [], by rw [hs]; simp⟩
      exact lead_of_prefix (takeWhile_all p) this

theorem checkMatch_lead {q : Char} (hq1 : isSpace q = false) (hq2 : q ≠ '.') (f : Flags) (g w : Str)
    (h : checkMatch f g w = true) : lead q w ≤ lead q g := by
  unfold checkMatch at h
  simp only [Bool.or_eq_true, beq_iff_eq, Bool.and_eq_true] at h
  rcases h with h | ⟨_, h⟩
  · rw [h]; exact Nat.le_refl _
  · exact ellipsisMatch_lead hq1 hq2 g w h

theorem unquote_lead {q : Char} {a a' : Str} (h : unquote? q a = some a') : lead q a' + 1 ≤ lead q a := by
  unfold unquote? at h
  split at h
  · rename_i hc
    cases h
    cases a with
    | nil => simp at hc
    | cons c t =>
      simp only [List.head?_cons, Bool.and_eq_true, beq_iff_eq, Option.some.injEq] at hc
      obtain ⟨rfl, _⟩ := hc
      have h1 : lead c (c :: t) = lead c t + 1 := by simp [lead]
      have h2 : lead c ((c :: t).drop 1).dropLast ≤ lead c t := by
        simpa using lead_mono (List.dropLast_prefix t)
      omega
  · cases h

/-- when `g` matches `w`, no unquoted `w` matches with `g` as the pattern -/
theorem unquote_no_rev_match {q : Char} (hq1 : isSpace q = false) (hq2 : q ≠ '.') (f : Flags)
    {g w w0 : Str} (h : checkMatch f g w = true) (hu : unquote? q w = some w0) :
    checkMatch f w0 g = false := by
  cases hc : checkMatch f w0 g with
  | false => rfl
  | true =>
    have h1 := checkMatch_lead hq1 hq2 f g w h
    have h2 := checkMatch_lead hq1 hq2 f w0 g hc
    have h3 := unquote_lead hu
    omega

theorem normReprStep_rev_of_match (f : Flags) (g w : Str) (h : checkMatch f g w = true) :
    normReprStep f w g = w := by
  have hd : isSpace '"' = false ∧ '"' ≠ '.' := by decide +kernel
  have hs : isSpace '\'' = false ∧ '\'' ≠ '.' := by decide +kernel
  unfold normReprStep
  split
  · rfl
  · split
    · rename_i a' hu
      rw [unquote_no_rev_match hd.1 hd.2 f h hu]
      simp only [Bool.false_eq_true, ↓reduceIte]
      split
      · rename_i a'' hu2
        rw [unquote_no_rev_match hs.1 hs.2 f h hu2]; simp
      · rfl
    · split
      · rename_i a'' hu2
        rw [unquote_no_rev_match hs.1 hs.2 f h hu2]; simp
      · rfl

/-- ★ a pair whose normal forms match passes the final `_check_match` of `check_output`, whatever
    NORMALIZE_REPR says: the quote step leaves a matching pair alone -/
theorem checkMatch_normalize_of_match (f : Flags) (g w : Str)
    (h : checkMatch f (norm1 f false g) (norm1 f true w) = true) :
    checkMatch f (normalize f g w).1 (normalize f g w).2 = true := by
  unfold normalize
  cases f.normRepr
  · simpa using h
  · have e1 : normReprStep f (norm1 f false g) (norm1 f true w) = norm1 f false g := by
      unfold normReprStep; simp [h]
    simp only [↓reduceIte, e1, normReprStep_rev_of_match f _ _ h]
    exact h

end Std
end Xdoc

import XdocModel.Static
/-!
# `package_modpaths` : declarative description of the walk
-/
namespace Xdoc.Static
open Xdoc Py

/-- `f` is one of the `fnames` of the listing -/
def IsFileOf (f : Str) : Fs → Prop
  | .nil => False
  | .file n rest => n = f ∨ IsFileOf f rest
  | .dir _ _ rest => IsFileOf f rest

/-- `d` is one of the `dnames` of the listing and `sub` is its listing -/
def IsDirOf (d : Str) (sub : Fs) : Fs → Prop
  | .nil => False
  | .file _ rest => IsDirOf d sub rest
  | .dir n s rest => (n = d ∧ s = sub) ∨ IsDirOf d sub rest

/-- following the directory names `p` downwards from the listing `l` reaches the listing `l'`, and
    EVERY directory entered on the way has an `__init__.py` entry -/
def PkgChain : List Str → Fs → Fs → Prop
  | [], l, l' => l = l'
  | d :: p, l, l' => ∃ s, IsDirOf d s l ∧ hasEntry initPy s = true ∧ PkgChain p s l'

theorem mem_yieldFiles {cfg : WalkCfg} {path q : List Str} {l : Fs} :
    q ∈ yieldFiles cfg path l ↔
      ∃ f, q = path ++ [f] ∧ IsFileOf f l ∧ cfg.validExts.contains (splitExt f) = true ∧ f ≠ initPy := by
  induction l with
  | nil => simp [yieldFiles, IsFileOf]
  | file n rest ih =>
    simp only [yieldFiles, List.mem_append, ih, IsFileOf]
    constructor
    · rintro (h | ⟨f, h1, h2, h3⟩)
      · split at h
        · rename_i hc
          simp only [Bool.and_eq_true, bne_iff_ne, ne_eq] at hc
          simp only [List.mem_singleton] at h
          exact ⟨n, h, Or.inl rfl, hc.1, hc.2⟩
        · simp at h
      · exact ⟨f, h1, Or.inr h2, h3⟩
    · rintro ⟨f, h1, (rfl | h2), h3, h4⟩
      · left
        have : (cfg.validExts.contains (splitExt n) && n != initPy) = true := by
          simp only [Bool.and_eq_true, bne_iff_ne, ne_eq]; exact ⟨h3, h4⟩
        rw [if_pos this]; simp [h1]
      · exact Or.inr ⟨f, h1, h2, h3, h4⟩
  | dir n sub rest _ ih => simp only [yieldFiles, ih, IsFileOf]

theorem mem_yieldInits {path q : List Str} {l : Fs} :
    q ∈ yieldInits path l ↔
      ∃ d sub, q = path ++ [d, initPy] ∧ IsDirOf d sub l ∧ hasEntry initPy sub = true := by
  induction l with
  | nil => simp [yieldInits, IsDirOf]
  | file n rest ih => simp only [yieldInits, ih, IsDirOf]
  | dir n sub rest _ ih =>
    simp only [yieldInits, List.mem_append, ih, IsDirOf]
    constructor
    · rintro (h | ⟨d, s, h1, h2, h3⟩)
      · split at h
        · rename_i hc
          simp only [List.mem_singleton] at h
          exact ⟨n, sub, h, Or.inl ⟨rfl, rfl⟩, hc⟩
        · simp at h
      · exact ⟨d, s, h1, Or.inr h2, h3⟩
    · rintro ⟨d, s, h1, (⟨rfl, rfl⟩ | h2), h3⟩
      · left; rw [if_pos h3]; simp [h1]
      · exact Or.inr ⟨d, s, h1, h2, h3⟩

/-- everything `os.walk` yields strictly below an accepted directory -/
theorem mem_walkSubs {cfg : WalkCfg} {path q : List Str} {l : Fs} :
    q ∈ walkSubs cfg path l ↔
      ∃ d p l', PkgChain (d :: p) l l' ∧ q ∈ yieldHere cfg (path ++ d :: p) l' := by
  induction l generalizing path with
  | nil => simp [walkSubs, PkgChain, IsDirOf]
  | file n rest ih => simp only [walkSubs, ih, PkgChain, IsDirOf]
  | dir n sub rest ihs ihr =>
    simp only [walkSubs, List.mem_append, ihr]
    constructor
    · rintro (h | ⟨d, p, l', ⟨s, h1, h2, h3⟩, h4⟩)
      · split at h
        · rename_i hc
          rcases List.mem_append.mp h with h | h
          · exact ⟨n, [], sub, ⟨sub, Or.inl ⟨rfl, rfl⟩, hc, rfl⟩, h⟩
          · obtain ⟨d, p, l', hch, hq⟩ := ihs.mp h
            refine ⟨n, d :: p, l', ⟨sub, Or.inl ⟨rfl, rfl⟩, hc, hch⟩, ?_⟩
            simpa [List.append_assoc] using hq
        · simp at h
      · exact ⟨d, p, l', ⟨s, Or.inr h1, h2, h3⟩, h4⟩
    · rintro ⟨d, p, l', ⟨s, (⟨rfl, rfl⟩ | h1), h2, h3⟩, h4⟩
      · left
        rw [if_pos h2]
        cases p with
        | nil =>
          simp only [PkgChain] at h3; subst h3
          exact List.mem_append.mpr (Or.inl h4)
        | cons d' p' =>
          refine List.mem_append.mpr (Or.inr (ihs.mpr ⟨d', p', l', h3, ?_⟩))
          simpa [List.append_assoc] using h4
      · exact Or.inr ⟨d, p, l', ⟨s, h1, h2, h3⟩, h4⟩

/-- the directory itself and everything below it -/
theorem mem_walk_all {cfg : WalkCfg} {q : List Str} {l : Fs} :
    q ∈ yieldHere cfg [] l ++ walkSubs cfg [] l ↔ ∃ p l', PkgChain p l l' ∧ q ∈ yieldHere cfg p l' := by
  rw [List.mem_append, mem_walkSubs]
  constructor
  · rintro (h | ⟨d, p, l', hc, h⟩)
    · exact ⟨[], l, rfl, h⟩
    · exact ⟨d :: p, l', hc, by simpa using h⟩
  · rintro ⟨p, l', hc, h⟩
    cases p with
    | nil => cases hc; exact Or.inl h
    | cons d p => exact Or.inr ⟨d, p, l', hc, by simpa using h⟩

/-- a chain split at its last step -/
theorem pkgChain_snoc {p : List Str} {d : Str} {l l' : Fs} :
    PkgChain (p ++ [d]) l l' ↔ ∃ lm, PkgChain p l lm ∧ IsDirOf d l' lm ∧ hasEntry initPy l' = true := by
  induction p generalizing l with
  | nil =>
    simp only [List.nil_append, PkgChain]
    constructor
    · rintro ⟨s, a, b, rfl⟩; exact ⟨l, rfl, a, b⟩
    · rintro ⟨lm, rfl, a, b⟩; exact ⟨l', a, b, rfl⟩
  | cons e p ih =>
    simp only [List.cons_append, PkgChain]
    constructor
    · rintro ⟨s, a, b, c⟩
      obtain ⟨lm, x, y, z⟩ := ih.mp c
      exact ⟨lm, ⟨s, a, b, x⟩, y, z⟩
    · rintro ⟨lm, ⟨s, a, b, x⟩, y, z⟩
      exact ⟨s, a, b, ih.mpr ⟨lm, x, y, z⟩⟩

end Xdoc.Static

import XdocModel.Parser
/-!
# Helper lemmas about the parser model (`Parser.lean`)

Layers, in the order of the pipeline `labelLines → group1 → group2 → group3 → packageChunk →
packageGroups`:

* (a) the labeller emits exactly one labelled line per input line, verbatim except for the
  triple-quote hack (`HackRel`), and only source lines can be touched by the hack;
* (b) each grouping pass is a partition of its input, in order, and keeps the line classes;
* (c) the parts of one chunk tile the chunk's source lines (`SrcTiles`);
* (d) `packageGroups` tiles the chunk lines with its running line counter (`Tiles`).
-/
namespace Xdoc.Parser
open Xdoc Py Lexer

/-! ## `dedupSorted` : `sorted(set(l))` -/

theorem mem_insertSortedP {x y : Nat} {l : List Nat} : y ∈ insertSorted x l ↔ y = x ∨ y ∈ l := by
  induction l with
  | nil => simp [insertSorted]
  | cons a as ih =>
    unfold insertSorted
    split
    · simp
    · split
      · subst_vars; simp
      · simp [ih]; grind

theorem mem_dedupSortedP {y : Nat} {l : List Nat} : y ∈ dedupSorted l ↔ y ∈ l := by
  unfold dedupSorted
  induction l with
  | nil => simp
  | cons a as ih => simp [List.foldr_cons, mem_insertSortedP, ih]

theorem insertSorted_pairwiseP {x : Nat} {l : List Nat} (h : l.Pairwise (· < ·)) :
    (insertSorted x l).Pairwise (· < ·) := by
  induction l with
  | nil => simp [insertSorted]
  | cons a as ih =>
    unfold insertSorted
    have ⟨h1, h2⟩ := List.pairwise_cons.mp h
    split
    · refine List.pairwise_cons.mpr ⟨?_, h⟩
      intro b hb
      rcases List.mem_cons.mp hb with rfl | hb
      · assumption
      · exact Nat.lt_trans ‹x < a› (h1 b hb)
    · split
      · exact h
      · refine List.pairwise_cons.mpr ⟨?_, ih h2⟩
        intro b hb
        rcases mem_insertSortedP.mp hb with rfl | hb
        · omega
        · exact h1 b hb

theorem dedupSorted_pairwise (l : List Nat) : (dedupSorted l).Pairwise (· < ·) := by
  unfold dedupSorted
  induction l with
  | nil => simp
  | cons a as ih => simpa [List.foldr_cons] using insertSorted_pairwiseP ih

/-- the smallest element comes first: `sorted(set([0] + breaks))[0] == 0` -/
theorem dedupSorted_zero_cons (l : List Nat) : ∃ r, dedupSorted (0 :: l) = 0 :: r := by
  show ∃ r, insertSorted 0 (dedupSorted l) = 0 :: r
  cases dedupSorted l with
  | nil => exact ⟨[], rfl⟩
  | cons a as =>
    unfold insertSorted
    split
    · exact ⟨_, rfl⟩
    · split
      · subst_vars; exact ⟨_, rfl⟩
      · omega

/-- in a strictly increasing list every element is at most the last one -/
theorem le_getLast_of_pairwise {l : List Nat} (h : l.Pairwise (· < ·)) {x : Nat} (hx : x ∈ l)
    {m : Nat} (hm : l.getLast? = some m) : x ≤ m := by
  induction l with
  | nil => simp at hx
  | cons a as ih =>
    have ⟨h1, h2⟩ := List.pairwise_cons.mp h
    cases as with
    | nil =>
      simp at hm hx; omega
    | cons b bs =>
      have hm' : (b :: bs).getLast? = some m := by simpa [List.getLast?_cons_cons] using hm
      rcases List.mem_cons.mp hx with rfl | hx
      · have hb : m ∈ b :: bs := List.mem_of_getLast? hm'
        exact Nat.le_of_lt (h1 m hb)
      · exact ih h2 hx hm'

/-! ## (c) one chunk -/

/-- `slice_example(s1, s2, want_lines)` of `_package_chunk` -/
def mkPart (execLines sourceLines : List Str) (lineno : Nat) (dirMap : List (Nat × List Directive))
    (s1 : Nat) (s2 : Option Nat) (want : Option (List Str)) : PPart :=
  { part := { execLines := sliceFrom execLines s1 s2, wantLines := want,
              origLines := some (sliceFrom sourceLines s1 s2), lineOffset := lineno + s1 },
    directives := dirMap.lookup s1 }

/-- the final part of a chunk: it carries the want and the compile mode -/
def finPart (execLines sourceLines wantLines : List Str) (lineno : Nat) (dirMap : List (Nat × List Directive))
    (modeHint : CompileMode) (s1 : Nat) : PPart :=
  let last := mkPart execLines sourceLines lineno dirMap s1 none (some wantLines)
  { last with part := { last.part with compileMode := if wantLines.isEmpty then .exec else modeHint } }

/-- the directive scan of `_package_chunk` : break lines and the directives of each PS1 line -/
def breaksOf (execLines : List Str) (ps1s : List Nat) : Except ParseError (List Nat × List (Nat × List Directive)) :=
  (ps1s.zip ((ps1s.drop 1).map some ++ [none])).foldlM (fun (acc : List Nat × List (Nat × List Directive)) (p : Nat × Option Nat) => do
      let ds ← extractDirectives (sliceFrom execLines p.1 p.2)
      match ds with
      | [] => pure acc
      | d :: _ =>
        let b := acc.1 ++ [p.1]
        let b := match d.inline, p.2 with
          | true, some s2 => b ++ [s2]
          | _, _ => b
        pure (b, acc.2 ++ [(p.1, ds)])) ([], [])

/-- the slicing of `_package_chunk` once the PS1 lines and the breaks are known -/
def assemble (execLines sourceLines wantLines : List Str) (lineno : Nat) (ps1s : List Nat) (modeHint : CompileMode)
    (breaks : List Nat) (dirMap : List (Nat × List Directive)) : Except ParseError (List PPart) := do
  let mk := mkPart execLines sourceLines lineno dirMap
  let (parts, s1) :=
    match breaks with
    | [] => (([] : List PPart), 0)
    | _ =>
      let bs := dedupSorted (0 :: breaks)
      let ps := (bs.zip (bs.drop 1)).map fun (a, b) => mk a (some b) none
      (ps, (bs.getLast?).getD 0)
  let s1 := match breaks with | [] => 0 | _ => if (dedupSorted (0 :: breaks)).length < 2 then 0 else s1
  let (parts, s1) ←
    if !wantLines.isEmpty && (modeHint == .eval || modeHint == .single) then
      match ps1s.getLast? with
      | none => throw ParseError.index
      | some s2 => if s2 != s1 then pure (parts ++ [mk s1 (some s2) none], s2) else pure (parts, s1)
    else pure (parts, s1)
  pure (parts ++ [finPart execLines sourceLines wantLines lineno dirMap modeHint s1])

theorem packageChunk_eq (rawSrc rawWant : List Str) (lineno : Nat) (facts : ChunkFacts) :
    packageChunk rawSrc rawWant lineno facts =
      (let lineIndent := match rawSrc with | l :: _ => indentOf l | [] => 0
       let sourceLines := rawSrc.map (·.drop lineIndent)
       let wantLines := rawWant.map (·.drop lineIndent)
       let execLines := sourceLines.map (·.drop 4)
       do
        let (ps1s, modeHint) ← locatePs1 sourceLines facts
        let (breaks, dirMap) ← breaksOf execLines ps1s
        assemble execLines sourceLines wantLines lineno ps1s modeHint breaks dirMap) := by
  rfl

/-- the parts cut at `c, c₁, c₂, …` : `[c,c₁) [c₁,c₂) … [cₙ, end)` -/
def cutParts (mk : Nat → Option Nat → Option (List Str) → PPart) (fin : Nat → PPart) : Nat → List Nat → List PPart
  | c, [] => [fin c]
  | c, c' :: cs => mk c (some c') none :: cutParts mk fin c' cs

def Ascending : Nat → List Nat → Prop
  | _, [] => True
  | c, c' :: cs => c ≤ c' ∧ Ascending c' cs

theorem ascending_of_pairwise {c : Nat} {cs : List Nat} (h : (c :: cs).Pairwise (· < ·)) : Ascending c cs := by
  induction cs generalizing c with
  | nil => trivial
  | cons a as ih =>
    have ⟨h1, h2⟩ := List.pairwise_cons.mp h
    exact ⟨Nat.le_of_lt (h1 a (by simp)), ih h2⟩

theorem ascending_append {c : Nat} {cs : List Nat} {s : Nat} (h : Ascending c cs)
    (hl : ((c :: cs).getLast?).getD 0 ≤ s) : Ascending c (cs ++ [s]) := by
  induction cs generalizing c with
  | nil => exact ⟨by simpa using hl, trivial⟩
  | cons a as ih =>
    obtain ⟨h1, h2⟩ := h
    refine ⟨h1, ih h2 ?_⟩
    simpa [List.getLast?_cons_cons] using hl

theorem cutParts_zip (mk : Nat → Option Nat → Option (List Str) → PPart) (fin : Nat → PPart) (c : Nat) (cs : List Nat) :
    ((c :: cs).zip cs).map (fun (p : Nat × Nat) => mk p.1 (some p.2) none) ++ [fin (((c :: cs).getLast?).getD 0)]
      = cutParts mk fin c cs := by
  induction cs generalizing c with
  | nil => simp [cutParts]
  | cons a as ih =>
    simp only [List.zip_cons_cons, List.map_cons, List.cons_append, cutParts, List.getLast?_cons_cons]
    rw [ih]

theorem cutParts_zip_snoc (mk : Nat → Option Nat → Option (List Str) → PPart) (fin : Nat → PPart) (c : Nat) (cs : List Nat) (s : Nat) :
    ((c :: cs).zip cs).map (fun (p : Nat × Nat) => mk p.1 (some p.2) none) ++
        [mk (((c :: cs).getLast?).getD 0) (some s) none] ++ [fin s]
      = cutParts mk fin c (cs ++ [s]) := by
  induction cs generalizing c with
  | nil => simp [cutParts]
  | cons a as ih =>
    simp only [List.zip_cons_cons, List.map_cons, List.cons_append, cutParts, List.getLast?_cons_cons]
    rw [← ih]

/-- part `p` covers the raw lines `ls` starting at line `o` of the docstring: its `orig_lines` are the
    lines without the chunk's indent `k`, its `exec_lines` additionally lose the 4-character prompt,
    and (when it has a first line at all) it records the index of its first line -/
def Covers (k : Nat) (p : PPart) (o : Nat) (ls : List Str) : Prop :=
  p.part.origLines = some (ls.map (·.drop k)) ∧
  p.part.execLines = ls.map (fun l => (l.drop k).drop 4) ∧
  (ls ≠ [] → p.part.lineOffset = o)

/-- the parts of one chunk tile its source lines `ls` from line `o` on; only the last one carries
    the want (the raw want lines without the indent `k`) -/
inductive SrcTiles (k : Nat) (want : List Str) : List PPart → Nat → List Str → Prop
  | last {p : PPart} {o : Nat} {ls : List Str} :
      Covers k p o ls → p.part.wantLines = some (want.map (·.drop k)) → SrcTiles k want [p] o ls
  | cons {p : PPart} {ps : List PPart} {o : Nat} {ls rest : List Str} :
      Covers k p o ls → p.part.wantLines = none → SrcTiles k want ps (o + ls.length) rest →
      SrcTiles k want (p :: ps) o (ls ++ rest)

theorem srcTiles_cutParts (k : Nat) (src want : List Str) (lineno : Nat)
    (dirMap : List (Nat × List Directive)) (mode : CompileMode) (c : Nat) (cs : List Nat)
    (h : Ascending c cs) :
    SrcTiles k want
      (cutParts (mkPart ((src.map (·.drop k)).map (·.drop 4)) (src.map (·.drop k)) lineno dirMap)
        (finPart ((src.map (·.drop k)).map (·.drop 4)) (src.map (·.drop k)) (want.map (·.drop k)) lineno dirMap mode) c cs)
      (lineno + min c src.length) (src.drop c) := by
  induction cs generalizing c with
  | nil =>
    refine .last ⟨?_, ?_, ?_⟩ ?_
    · simp [finPart, mkPart, sliceFrom, List.map_drop, Function.comp_def]
    · simp [finPart, mkPart, sliceFrom, List.map_drop, Function.comp_def]
    · intro hne
      have : c < src.length := by
        rcases Nat.lt_or_ge c src.length with h | h
        · exact h
        · exact absurd (List.drop_eq_nil_of_le h) hne
      simp [finPart, mkPart]; omega
    · simp [finPart, mkPart]
  | cons a as ih =>
    obtain ⟨h1, h2⟩ := h
    have hsplit : src.drop c = (src.drop c).take (a - c) ++ src.drop a := by
      conv => lhs; rw [← List.take_append_drop (a - c) (src.drop c)]
      rw [List.drop_drop]; congr 2; omega
    rw [hsplit]
    refine .cons ⟨?_, ?_, ?_⟩ ?_ ?_
    · simp [mkPart, sliceFrom, List.map_drop, List.map_take, Function.comp_def]
    · simp [mkPart, sliceFrom, List.map_drop, List.map_take, Function.comp_def]
    · intro hne
      have : c < src.length := by
        rcases Nat.lt_or_ge c src.length with h | h
        · exact h
        · rw [List.drop_eq_nil_of_le h] at hne; simp at hne
      simp [mkPart]; omega
    · simp [mkPart]
    · have := ih a h2
      have e : lineno + min c src.length + ((src.drop c).take (a - c)).length = lineno + min a src.length := by
        simp [List.length_take, List.length_drop]; omega
      rw [e]; exact this

theorem locatePs1_sorted {sl : List Str} {facts : ChunkFacts} {ps1s : List Nat} {mode : CompileMode}
    (h : locatePs1 sl facts = .ok (ps1s, mode)) : ps1s.Pairwise (· < ·) := by
  unfold locatePs1 at h
  cases facts with
  | syntaxError => simp at h
  | parsed starts e =>
    simp only [Except.ok.injEq, Prod.mk.injEq] at h
    rw [← h.1]; exact dedupSorted_pairwise _

theorem breaksOf_subset {el : List Str} {ps1s breaks : List Nat} {dm : List (Nat × List Directive)}
    (h : breaksOf el ps1s = .ok (breaks, dm)) : ∀ b ∈ breaks, b ∈ ps1s := by
  unfold breaksOf at h
  have hp : ∀ p ∈ ps1s.zip ((ps1s.drop 1).map some ++ [none]), p.1 ∈ ps1s ∧ ∀ s, p.2 = some s → s ∈ ps1s := by
    intro p hp
    obtain ⟨a, b⟩ := p
    have := List.of_mem_zip hp
    refine ⟨this.1, ?_⟩
    intro s hs
    have h2 := this.2
    simp only at hs; subst hs
    simp only [List.mem_append, List.mem_map, List.mem_singleton] at h2
    rcases h2 with ⟨x, hx, hxe⟩ | h2
    · cases hxe; exact List.mem_of_mem_drop hx
    · cases h2
  generalize ps1s.zip ((ps1s.drop 1).map some ++ [none]) = pairs at h hp
  have key : ∀ (pairs : List (Nat × Option Nat)) (acc : List Nat × List (Nat × List Directive)) (res : List Nat × List (Nat × List Directive)),
      (∀ p ∈ pairs, p.1 ∈ ps1s ∧ ∀ s, p.2 = some s → s ∈ ps1s) → (∀ b ∈ acc.1, b ∈ ps1s) →
      pairs.foldlM (fun (acc : List Nat × List (Nat × List Directive)) (p : Nat × Option Nat) => do
        let ds ← extractDirectives (sliceFrom el p.1 p.2)
        match ds with
        | [] => pure acc
        | d :: _ =>
          let b := acc.1 ++ [p.1]
          let b := match d.inline, p.2 with
            | true, some s2 => b ++ [s2]
            | _, _ => b
          pure (b, acc.2 ++ [(p.1, ds)])) acc = Except.ok res → ∀ b ∈ res.1, b ∈ ps1s := by
    intro pairs
    induction pairs with
    | nil => intro acc res _ hacc h; simp [pure, Except.pure] at h; subst h; exact hacc
    | cons p ps ih =>
      intro acc res hps hacc h
      rw [List.foldlM_cons] at h
      have hpp := hps p (by simp)
      cases hd : extractDirectives (sliceFrom el p.1 p.2) with
      | error e => simp [hd, bind, Except.bind] at h
      | ok ds =>
        simp only [hd, bind, Except.bind] at h
        cases ds with
        | nil => exact ih acc res (fun q hq => hps q (by simp [hq])) hacc h
        | cons d ds' =>
          simp only [pure, Except.pure] at h
          refine ih _ res (fun q hq => hps q (by simp [hq])) ?_ h
          intro b hb
          simp only at hb
          split at hb
          · rename_i s2 _ hs2
            simp only [List.mem_append, List.mem_singleton] at hb
            rcases hb with (hb | hb) | hb
            · exact hacc b hb
            · rw [hb]; exact hpp.1
            · rw [hb]; exact hpp.2 _ hs2
          · simp only [List.mem_append, List.mem_singleton] at hb
            rcases hb with hb | hb
            · exact hacc b hb
            · rw [hb]; exact hpp.1
  exact key pairs ([], []) (breaks, dm) hp (by simp) h

theorem assemble_cuts {el sl wl : List Str} {lineno : Nat} {ps1s : List Nat} {mode : CompileMode}
    {breaks : List Nat} {dm : List (Nat × List Directive)} {parts : List PPart}
    (hs : ps1s.Pairwise (· < ·)) (hb : ∀ b ∈ breaks, b ∈ ps1s)
    (h : assemble el sl wl lineno ps1s mode breaks dm = .ok parts) :
    ∃ cs, Ascending 0 cs ∧ parts = cutParts (mkPart el sl lineno dm) (finPart el sl wl lineno dm mode) 0 cs := by
  unfold assemble at h
  cases breaks with
  | nil =>
    simp only [bind, Except.bind, pure, Except.pure] at h
    split at h
    · cases hl : ps1s.getLast? with
      | none => simp [hl, throw, throwThe, MonadExceptOf.throw] at h
      | some s2 =>
        simp only [hl] at h
        split at h
        · simp only [Except.ok.injEq] at h
          refine ⟨[s2], ⟨Nat.zero_le _, trivial⟩, ?_⟩
          rw [← h]; simp [cutParts]
        · simp only [Except.ok.injEq] at h
          exact ⟨[], trivial, by rw [← h]; simp [cutParts]⟩
    · simp only [Except.ok.injEq] at h
      exact ⟨[], trivial, by rw [← h]; simp [cutParts]⟩
  | cons b0 bs0 =>
    obtain ⟨r, hr⟩ := dedupSorted_zero_cons (b0 :: bs0)
    have hpw : (0 :: r).Pairwise (· < ·) := hr ▸ dedupSorted_pairwise _
    have hasc : Ascending 0 r := ascending_of_pairwise hpw
    have hs1 : (if (0 :: r).length < 2 then 0 else ((0 :: r).getLast?).getD 0) = ((0 :: r).getLast?).getD 0 := by
      cases r with
      | nil => simp
      | cons a as => simp; intro h; omega
    simp only [hr, bind, Except.bind, pure, Except.pure, hs1, List.drop_succ_cons, List.drop_zero] at h
    have hz := cutParts_zip (mkPart el sl lineno dm) (finPart el sl wl lineno dm mode) 0 r
    split at h
    · cases hl : ps1s.getLast? with
      | none => simp [hl, throw, throwThe, MonadExceptOf.throw] at h
      | some s2 =>
        simp only [hl] at h
        split at h
        · simp only [Except.ok.injEq] at h
          refine ⟨r ++ [s2], ascending_append hasc ?_, ?_⟩
          · -- the last break is a PS1 line (or 0), hence at most the last PS1 line
            obtain ⟨m, hm, hmem⟩ : ∃ m, ((0 :: r).getLast?).getD 0 = m ∧ m ∈ 0 :: r := by
              cases hg : (0 :: r).getLast? with
              | none => simp at hg
              | some m => exact ⟨m, rfl, List.mem_of_getLast? hg⟩
            rw [hm]
            rw [← hr, mem_dedupSortedP] at hmem
            rcases List.mem_cons.mp hmem with h0 | hm
            · omega
            · exact le_getLast_of_pairwise hs (hb _ hm) hl
          · rw [← h, ← cutParts_zip_snoc]
        · simp only [Except.ok.injEq] at h
          exact ⟨r, hasc, by rw [← h, ← hz]⟩
    · simp only [Except.ok.injEq] at h
      exact ⟨r, hasc, by rw [← h, ← hz]⟩

/-- the indentation `_package_chunk` removes from every line of the chunk -/
def chunkIndentP (src : List Str) : Nat := match src with | l :: _ => indentOf l | [] => 0

/-- (c) the parts of a chunk tile its source lines; offsets = chunk start + lines before -/
theorem packageChunk_tiles {src want : List Str} {lineno : Nat} {facts : ChunkFacts} {parts : List PPart}
    (h : packageChunk src want lineno facts = .ok parts) :
    SrcTiles (chunkIndentP src) want parts lineno src := by
  rw [packageChunk_eq] at h
  simp only [bind, Except.bind] at h
  split at h
  · simp at h
  · rename_i v hv
    obtain ⟨ps1s, mode⟩ := v
    simp only at h
    split at h
    · simp at h
    · rename_i w hw
      obtain ⟨breaks, dm⟩ := w
      simp only at h
      obtain ⟨cs, hasc, rfl⟩ := assemble_cuts (locatePs1_sorted hv) (breaksOf_subset hw) h
      have := srcTiles_cutParts (chunkIndentP src) src want lineno dm mode 0 cs hasc
      simp only [Nat.zero_min, Nat.add_zero, List.drop_zero] at this
      exact this

/-! ## (d) all chunks -/

/-- the raw lines of a chunk, in order -/
def chunkLines : Chunk → List Str
  | .text ls => ls
  | .code src want => src ++ want

/-- `Tiles ps o L` : the pieces `ps`, in order, tile the lines `L`, the first of which is line `o`
    of the docstring: a text piece is its lines joined by `\n`, verbatim; the parts of a chunk tile
    the chunk's source lines (`SrcTiles`), the chunk's want lines follow and belong to its last part -/
inductive Tiles : List Piece → Nat → List Str → Prop
  | nil (o : Nat) : Tiles [] o []
  | text {ls : List Str} {ps : List Piece} {o : Nat} {rest : List Str} :
      Tiles ps (o + ls.length) rest → Tiles (.text (joinWith ['\n'] ls) :: ps) o (ls ++ rest)
  | code {parts : List PPart} {ps : List Piece} {o : Nat} {src want rest : List Str} :
      SrcTiles (chunkIndentP src) want parts o src → Tiles ps (o + src.length + want.length) rest →
      Tiles (parts.map Piece.part ++ ps) o (src ++ want ++ rest)

theorem packageGroups_tiles {cs : List Chunk} {fs : List ChunkFacts} {o : Nat} {ps : List Piece}
    (h : packageGroups cs fs o = .ok ps) : Tiles ps o (cs.flatMap chunkLines) := by
  induction cs generalizing fs o ps with
  | nil => simp [packageGroups] at h; subst h; exact .nil o
  | cons c cs ih =>
    cases c with
    | text ls =>
      simp only [packageGroups, bind, Except.bind, pure, Except.pure] at h
      split at h
      · simp at h
      · rename_i rest hrest
        simp only [Except.ok.injEq] at h
        subst h
        simpa [chunkLines] using Tiles.text (ih hrest)
    | code src want =>
      simp only [packageGroups, bind, Except.bind, pure, Except.pure] at h
      split at h
      · simp at h
      · split at h
        · simp at h
        · rename_i parts hparts
          split at h
          · simp at h
          · rename_i rest hrest
            simp only [Except.ok.injEq] at h
            subst h
            have := Tiles.code (packageChunk_tiles hparts) (ih hrest)
            simpa [chunkLines] using this

/-! ## (b) grouping -/

abbrev LLine := Label × Str
abbrev Group := Label × List LLine

/-- the loop body of the first grouping pass -/
def g1Step (st : G1) (t : Option LLine × LLine × Option LLine) : G1 :=
    let (left, mid, right) := t
    let l := left.map (·.1)
    let r := right.map (·.1)
    let st :=
      if l != some mid.1 || (mid.1 == .dsrc && r == some .dcnt) then
        (if !(l == some .dsrc && mid.1 == .dcnt) then
          { st with groups := match st.state with
                      | some s => st.groups ++ [(s, st.current)] | none => st.groups,
                    state := some mid.1, current := [] }
         else st)
      else st
    { st with current := st.current ++ [mid] }

def g1Finish (st : G1) : List Group :=
  match st.current, st.state with
  | [], _ => st.groups
  | _, some s => st.groups ++ [(s, st.current)]
  | _, none => st.groups

theorem group1_eq (labeled : List LLine) :
    group1 labeled = g1Finish ((iterThree none labeled).foldl g1Step {}) := rfl

def G1.flat (st : G1) : List LLine := st.groups.flatMap (·.2) ++ st.current

/-- loop invariant: a group is open exactly when a line has been seen -/
def G1.Inv (left : Option LLine) (st : G1) : Prop :=
  (left = none → st.state = none ∧ st.current = []) ∧ (left ≠ none → st.state ≠ none)

theorem g1Step_flat {left : Option LLine} {mid : LLine} {right : Option LLine} {st : G1}
    (hi : G1.Inv left st) :
    (g1Step st (left, mid, right)).flat = st.flat ++ [mid] ∧ G1.Inv (some mid) (g1Step st (left, mid, right)) := by
  obtain ⟨groups, state, current⟩ := st
  unfold g1Step G1.flat G1.Inv
  cases left with
  | none =>
    obtain ⟨h1, h2⟩ := hi.1 rfl
    simp only at h1 h2; subst h1 h2
    simp
  | some lf =>
    have hs := hi.2 (by simp)
    simp only at hs
    cases state with
    | none => exact absurd rfl hs
    | some s =>
      simp only
      split
      · split
        · simp
        · simp
      · simp

theorem g1_fold_flat (xs : List LLine) (left : Option LLine) (st : G1) (hi : G1.Inv left st) :
    ((iterThree left xs).foldl g1Step st).flat = st.flat ++ xs ∧
    (((iterThree left xs).foldl g1Step st).state = none → ((iterThree left xs).foldl g1Step st).current = []) := by
  induction xs generalizing left st with
  | nil => simp [iterThree]; intro h; rcases left with _ | lf
           · exact (hi.1 rfl).2
           · exact absurd h (hi.2 (by simp))
  | cons m rest ih =>
    cases rest with
    | nil =>
      simp only [iterThree, List.foldl_cons, List.foldl_nil]
      have := g1Step_flat (right := none) (mid := m) hi
      refine ⟨this.1, fun h => absurd h (this.2.2 (by simp))⟩
    | cons r rest' =>
      simp only [iterThree, List.foldl_cons]
      have hstep := g1Step_flat (right := some r) (mid := m) hi
      have := ih (some m) _ hstep.2
      rw [this.1, hstep.1]
      exact ⟨by simp, this.2⟩

/-- first pass: the groups, concatenated in order, are the labelled lines -/
theorem group1_flat (labeled : List LLine) : (group1 labeled).flatMap (·.2) = labeled := by
  rw [group1_eq]
  have h := g1_fold_flat labeled none {} ⟨fun _ => ⟨rfl, rfl⟩, fun h => absurd rfl h⟩
  generalize (iterThree none labeled).foldl g1Step {} = st at h
  obtain ⟨groups, state, current⟩ := st
  simp only [G1.flat, List.flatMap_nil, List.nil_append] at h
  unfold g1Finish
  cases current with
  | nil => simpa using h.1
  | cons c cs =>
    cases state with
    | none => have := h.2 rfl; simp at this
    | some s => simpa using h.1

/-- the loop body of the second grouping pass -/
def g2Step (st : G2) (t : Option Group × Group × Option Group) : G2 :=
    let (left, mid, right) := t
    let l := left.map (·.1)
    let r := right.map (·.1)
    if l == some mid.1 && r != some .want then { st with current := st.current ++ mid.2 }
    else
      { merged := match st.state, l with
          | some _, some ll => st.merged ++ [(ll, st.current)]
          | _, _ => st.merged,
        state := some mid.1, current := mid.2 }

def g2Finish (st : G2) : List Group :=
  match st.current, st.state with
  | [], _ => st.merged
  | _, some s => st.merged ++ [(s, st.current)]
  | _, none => st.merged

theorem group2_eq (groups : List Group) :
    group2 groups = g2Finish ((iterThree none groups).foldl g2Step {}) := rfl

def G2.flat (st : G2) : List LLine := st.merged.flatMap (·.2) ++ st.current

def G2.Inv (left : Option Group) (st : G2) : Prop :=
  (left = none → st.state = none ∧ st.current = []) ∧ (left ≠ none → st.state ≠ none)

theorem g2Step_flat {left : Option Group} {mid : Group} {right : Option Group} {st : G2}
    (hi : G2.Inv left st) :
    (g2Step st (left, mid, right)).flat = st.flat ++ mid.2 ∧ G2.Inv (some mid) (g2Step st (left, mid, right)) := by
  obtain ⟨merged, state, current⟩ := st
  unfold g2Step G2.flat G2.Inv
  cases left with
  | none =>
    obtain ⟨h1, h2⟩ := hi.1 rfl
    simp only at h1 h2; subst h1 h2
    simp
  | some lf =>
    have hs := hi.2 (by simp)
    simp only at hs
    cases state with
    | none => exact absurd rfl hs
    | some s =>
      simp only
      split
      · rename_i hc
        simp only [Bool.and_eq_true] at hc
        simp
      · simp

theorem g2_fold_flat (xs : List Group) (left : Option Group) (st : G2) (hi : G2.Inv left st) :
    ((iterThree left xs).foldl g2Step st).flat = st.flat ++ xs.flatMap (·.2) ∧
    (((iterThree left xs).foldl g2Step st).state = none → ((iterThree left xs).foldl g2Step st).current = []) := by
  induction xs generalizing left st with
  | nil => simp [iterThree]; intro h; rcases left with _ | lf
           · exact (hi.1 rfl).2
           · exact absurd h (hi.2 (by simp))
  | cons m rest ih =>
    cases rest with
    | nil =>
      simp only [iterThree, List.foldl_cons, List.foldl_nil]
      have := g2Step_flat (right := none) (mid := m) hi
      refine ⟨by simpa using this.1, fun h => absurd h (this.2.2 (by simp))⟩
    | cons r rest' =>
      simp only [iterThree, List.foldl_cons]
      have hstep := g2Step_flat (right := some r) (mid := m) hi
      have := ih (some m) _ hstep.2
      rw [this.1, hstep.1]
      exact ⟨by simp, this.2⟩

/-- second pass: merging keeps every line, in order -/
theorem group2_flat (groups : List Group) : (group2 groups).flatMap (·.2) = groups.flatMap (·.2) := by
  rw [group2_eq]
  have h := g2_fold_flat groups none {} ⟨fun _ => ⟨rfl, rfl⟩, fun h => absurd rfl h⟩
  generalize (iterThree none groups).foldl g2Step {} = st at h
  obtain ⟨merged, state, current⟩ := st
  simp only [G2.flat, List.flatMap_nil, List.nil_append] at h
  unfold g2Finish
  cases current with
  | nil => simpa using h.1
  | cons c cs =>
    cases state with
    | none => have := h.2 rfl; simp at this
    | some s => simpa using h.1

/-- the loop body of the third grouping pass -/
def g3Flush (st : G3) : G3 :=
    match st.prevSource with
    | some src => { out := st.out ++ [.code src []], prevSource := none }
    | none => st

def g3Step (st : G3) (g : Group) : Except ParseError G3 :=
    let block := g.2.map (·.2)
    match g.1 with
    | .text => let st := g3Flush st; Except.ok { st with out := st.out ++ [.text block] }
    | .want =>
      (match st.prevSource with
       | none => Except.error ParseError.assertion
       | some src => Except.ok { out := st.out ++ [.code src block], prevSource := none })
    | _ => let st := g3Flush st; Except.ok { st with prevSource := some block }

theorem group3_eq (merged : List Group) :
    group3 merged =
      (match merged.foldlM g3Step {} with
       | .error e => .error e
       | .ok st =>
         match st.prevSource with
         | some (l :: ls) => .ok (st.out ++ [.code (l :: ls) []])
         | _ => .ok st.out) := rfl

def G3.flat (st : G3) : List Str := st.out.flatMap chunkLines ++ st.prevSource.getD []

theorem g3Flush_flat (st : G3) :
    (g3Flush st).prevSource = none ∧ (g3Flush st).out.flatMap chunkLines = st.flat := by
  obtain ⟨out, prev⟩ := st
  cases prev <;> simp [g3Flush, G3.flat, chunkLines]

theorem g3Step_flat {st st' : G3} {g : Group} (h : g3Step st g = .ok st') :
    st'.flat = st.flat ++ g.2.map (·.2) := by
  obtain ⟨lab, lines⟩ := g
  unfold g3Step at h
  have hf := g3Flush_flat st
  cases lab with
  | text =>
    simp only [Except.ok.injEq] at h; subst h
    simp [G3.flat, hf.1, hf.2, chunkLines]
  | want =>
    obtain ⟨out, prev⟩ := st
    cases prev with
    | none => simp at h
    | some src =>
      simp only [Except.ok.injEq] at h; subst h
      simp [G3.flat, chunkLines]
  | dsrc =>
    simp only [Except.ok.injEq] at h; subst h
    simp [G3.flat, hf.2]
  | dcnt =>
    simp only [Except.ok.injEq] at h; subst h
    simp [G3.flat, hf.2]

theorem g3_fold_flat {gs : List Group} {st st' : G3} (h : gs.foldlM g3Step st = .ok st') :
    st'.flat = st.flat ++ (gs.flatMap (·.2)).map (·.2) := by
  induction gs generalizing st with
  | nil => simp [pure, Except.pure] at h; subst h; simp
  | cons g gs ih =>
    rw [List.foldlM_cons] at h
    cases hg : g3Step st g with
    | error e => simp [hg, bind, Except.bind] at h
    | ok st1 =>
      simp only [hg, bind, Except.bind] at h
      rw [ih h, g3Step_flat hg]; simp

/-- third pass: the chunks, in order, contain every line once -/
theorem group3_flat {merged : List Group} {cs : List Chunk} (h : group3 merged = .ok cs) :
    cs.flatMap chunkLines = (merged.flatMap (·.2)).map (·.2) := by
  rw [group3_eq] at h
  split at h
  · simp at h
  · rename_i st hst
    have := g3_fold_flat hst
    obtain ⟨out, prev⟩ := st
    simp only [G3.flat, List.flatMap_nil, List.nil_append, Option.getD_none] at this
    rw [← this]
    split at h
    · rename_i l ls hp
      simp only at hp; subst hp
      simp only [Except.ok.injEq] at h; subst h
      simp [chunkLines]
    · simp only [Except.ok.injEq] at h; subst h
      cases prev with
      | none => simp
      | some p =>
        cases p with
        | nil => simp
        | cons a as => rename_i hne; exact absurd rfl (hne a as)

/-- (b) grouping is a partition of the labelled lines, in order -/
theorem groupLines_flat {labeled : List LLine} {cs : List Chunk} (h : groupLines labeled = .ok cs) :
    cs.flatMap chunkLines = labeled.map (·.2) := by
  unfold groupLines at h
  rw [group3_flat h, group2_flat, group1_flat]

/-! ## (a) labelling -/

/-- what the labeller may do to a line: nothing, or (triple-quote hack of `_complete_source`) insert
    the continuation prompt `... ` at some column -/
def HackRel (line out : Str) : Prop :=
  out = line ∨ ∃ k, out = line.take k ++ "... ".toList ++ line.drop k

def Label.isSrc : Label → Bool
  | .dsrc | .dcnt => true
  | _ => false

theorem isSrc_ite {c : Bool} {l : Label} (h : l.isSrc = true) :
    (if c = true then Label.dcnt else l).isSrc = true := by
  cases c <;> simp [h] <;> rfl

/-- one step of the labeller emits exactly one labelled line: the input line, verbatim unless it
    is a source line touched by the triple-quote hack -/
theorem labelStep_out {st st' : LabelState} {line : Str} (hc : st.curLab.isSrc = true)
    (h : labelStep st line = .ok st') :
    st'.curLab.isSrc = true ∧
    ∃ lab o, st'.out = st.out ++ [(lab, o)] ∧ HackRel line o ∧ (lab.isSrc = false → o = line) := by
  unfold labelStep at h
  split at h
  · -- a statement is being completed
    rename_i parts hp
    dsimp only at h
    split at h
    · simp at h
    · generalize hk : (strip (List.take 4 (List.drop st.sind line)) == ps1 || strip (List.take 4 (List.drop st.sind line)) == ps2 ||
          (strip (List.take 4 (List.drop st.sind line))).isEmpty) = known at h
      cases known with
      | true =>
        simp only [if_true] at h
        split at h <;> (simp only [Except.ok.injEq] at h; subst h)
        all_goals exact ⟨isSrc_ite hc, _, _, rfl, Or.inl rfl, fun _ => rfl⟩
      | false =>
        simp only [Bool.false_eq_true, if_false] at h
        split at h <;> (simp only [Except.ok.injEq] at h; subst h)
        all_goals
          refine ⟨?_, _, _, rfl, Or.inr ⟨st.sind, rfl⟩, fun hn => ?_⟩
          · dsimp only
            split
            · rfl
            · exact hc
          · split at hn
            · cases hn
            · rw [hc] at hn; cases hn
  · -- a new line
    extract_lets li stripL cur sind norm pre lab st1 ps at h
    clear_value cur sind
    split at h
    · rename_i hcur
      split at h
      · simp at h
      · have hlab : lab.isSrc = true := by
          simp only [Bool.or_eq_true, beq_iff_eq] at hcur
          show (if hasPrefix norm [ps2] = true then Label.dcnt else cur).isSrc = true
          apply isSrc_ite
          rcases hcur with h | h <;> rw [h] <;> rfl
        split at h <;> (simp only [Except.ok.injEq] at h; subst h)
        all_goals
          refine ⟨hlab, lab, line, rfl, Or.inl rfl, fun _ => rfl⟩
    · simp only [Except.ok.injEq] at h; subst h
      exact ⟨hc, _, _, rfl, Or.inl rfl, fun _ => rfl⟩

/-- pointwise relation of two lists of the same length -/
inductive Forall2 {α β : Type} (R : α → β → Prop) : List α → List β → Prop
  | nil : Forall2 R [] []
  | cons {a : α} {b : β} {as : List α} {bs : List β} : R a b → Forall2 R as bs → Forall2 R (a :: as) (b :: bs)

theorem Forall2.length_eq {α β : Type} {R : α → β → Prop} {as : List α} {bs : List β}
    (h : Forall2 R as bs) : as.length = bs.length := by
  induction h with
  | nil => rfl
  | cons _ _ ih => simp [ih]

/-- input line vs labelled output line -/
def LineRel (line : Str) (p : LLine) : Prop :=
  HackRel line p.2 ∧ (p.1.isSrc = false → p.2 = line)

theorem label_fold {ls : List Str} {st st' : LabelState} (hc : st.curLab.isSrc = true)
    (h : ls.foldlM labelStep st = .ok st') :
    ∃ outs : List LLine, st'.out = st.out ++ outs ∧ Forall2 LineRel ls outs := by
  induction ls generalizing st with
  | nil => simp [pure, Except.pure] at h; subst h; exact ⟨[], by simp, .nil⟩
  | cons l ls ih =>
    rw [List.foldlM_cons] at h
    cases hs : labelStep st l with
    | error e => simp [hs, bind, Except.bind] at h
    | ok st1 =>
      simp only [hs, bind, Except.bind] at h
      obtain ⟨hc1, lab, o, ho, hr, hv⟩ := labelStep_out hc hs
      obtain ⟨outs, hout, hall⟩ := ih hc1 h
      exact ⟨(lab, o) :: outs, by rw [hout, ho]; simp, .cons ⟨hr, hv⟩ hall⟩

/-- (a) the labeller keeps the lines: one labelled line per input line, in order, verbatim except
    for source lines touched by the triple-quote hack -/
theorem labelLines_lines {ls : List Str} {out : List LLine} (h : labelLines ls = .ok out) :
    Forall2 LineRel ls out := by
  unfold labelLines at h
  split at h
  · simp at h
  · rename_i st hst
    split at h
    · simp at h
    · simp only [Except.ok.injEq] at h; subst h
      obtain ⟨outs, hout, hall⟩ := label_fold (st := {}) rfl hst
      simpa [hout] using hall

/-! ### without triple quotes the hack never fires -/

theorem contains_cons {w : Str} {c : Char} {s : Str} (h : contains w s = true) : contains w (c :: s) = true := by
  cases s with
  | nil => simp only [contains, Bool.or_eq_true]; exact Or.inr (by simpa [contains] using h)
  | cons d s => rw [contains]; simp only [Bool.or_eq_true]; exact Or.inr h

theorem contains_of_drop {w : Str} (n : Nat) {s : Str} (h : contains w (s.drop n) = true) : contains w s = true := by
  induction n generalizing s with
  | zero => simpa using h
  | succ n ih =>
    cases s with
    | nil => simpa using h
    | cons c s => exact contains_cons (ih (by simpa using h))

theorem containsTriple_drop {n : Nat} {s : Str} (h : containsTriple s = false) : containsTriple (s.drop n) = false := by
  unfold containsTriple at h ⊢
  simp only [Bool.or_eq_false_iff] at h ⊢
  constructor
  · cases hc : contains "'''".toList (List.drop n s) with
    | false => rfl
    | true => rw [contains_of_drop n hc] at h; exact absurd h.1 (by simp)
  · cases hc : contains "\"\"\"".toList (List.drop n s) with
    | false => rfl
    | true => rw [contains_of_drop n hc] at h; exact absurd h.2 (by simp)

/-- no pending source part contains a triple quote -/
def NoTripleSt (st : LabelState) : Prop :=
  ∀ parts, st.pending = some parts → parts.any containsTriple = false

theorem labelStep_noTriple {st st' : LabelState} {line : Str} (hl : containsTriple line = false)
    (hi : NoTripleSt st) (h : labelStep st line = .ok st') :
    NoTripleSt st' ∧ ∃ lab, st'.out = st.out ++ [(lab, line)] := by
  unfold labelStep at h
  split at h
  · rename_i parts hp
    have hparts := hi parts hp
    dsimp only at h
    split at h
    · simp at h
    · rename_i hnot
      generalize hk : (strip (List.take 4 (List.drop st.sind line)) == ps1 || strip (List.take 4 (List.drop st.sind line)) == ps2 ||
          (strip (List.take 4 (List.drop st.sind line))).isEmpty) = known at h hnot
      cases known with
      | true =>
        simp only [if_true] at h
        split at h <;> (simp only [Except.ok.injEq] at h; subst h)
        · exact ⟨fun p hp => by simp at hp, _, rfl⟩
        · refine ⟨fun p hp => ?_, _, rfl⟩
          simp only [Option.some.injEq] at hp; subst hp
          simp only [List.any_append, hparts, List.any_cons, List.any_nil, Bool.or_false, Bool.false_or]
          exact containsTriple_drop (containsTriple_drop hl)
      | false =>
        simp [hparts] at hnot
  · extract_lets li stripL cur sind norm pre lab st1 ps at h
    clear_value cur sind
    split at h
    · split at h
      · simp at h
      · split at h <;> (simp only [Except.ok.injEq] at h; subst h)
        · rename_i hpn _ _ _
          exact ⟨fun p hp => by simp [st1, hpn] at hp, _, rfl⟩
        · refine ⟨fun p hp => ?_, _, rfl⟩
          simp only [Option.some.injEq] at hp; subst hp
          simp only [ps, norm, List.any_cons, List.any_nil, Bool.or_false]
          exact containsTriple_drop (containsTriple_drop hl)
    · simp only [Except.ok.injEq] at h; subst h
      rename_i hpn _
      exact ⟨fun p hp => by simp [hpn] at hp, _, rfl⟩

theorem label_fold_noTriple {ls : List Str} {st st' : LabelState}
    (hl : ∀ l ∈ ls, containsTriple l = false) (hi : NoTripleSt st)
    (h : ls.foldlM labelStep st = .ok st') :
    ∃ outs : List LLine, st'.out = st.out ++ outs ∧ outs.map (·.2) = ls := by
  induction ls generalizing st with
  | nil => simp [pure, Except.pure] at h; subst h; exact ⟨[], by simp, rfl⟩
  | cons l ls ih =>
    rw [List.foldlM_cons] at h
    cases hs : labelStep st l with
    | error e => simp [hs, bind, Except.bind] at h
    | ok st1 =>
      simp only [hs, bind, Except.bind] at h
      obtain ⟨hi1, lab, ho⟩ := labelStep_noTriple (hl l (by simp)) hi hs
      obtain ⟨outs, hout, hall⟩ := ih (fun x hx => hl x (by simp [hx])) hi1 h
      exact ⟨(lab, l) :: outs, by rw [hout, ho]; simp, by simp [hall]⟩

/-- (a'), no triple quote in the text: the labelled lines are the input lines, verbatim -/
theorem labelLines_verbatim {ls : List Str} {out : List LLine}
    (hl : ∀ l ∈ ls, containsTriple l = false) (h : labelLines ls = .ok out) :
    out.map (·.2) = ls := by
  unfold labelLines at h
  split at h
  · simp at h
  · rename_i st hst
    split at h
    · simp at h
    · simp only [Except.ok.injEq] at h; subst h
      obtain ⟨outs, hout, hall⟩ := label_fold_noTriple (st := {}) hl (fun p hp => by simp at hp) hst
      simpa [hout] using hall

/-! ### grouping keeps the line classes -/

/-- the three kinds of line of the property: narrative text, doctest source, expected output -/
inductive Cls where
  | text | src | want
  deriving DecidableEq, Repr

def Label.cls : Label → Cls
  | .text => .text | .dsrc => .src | .dcnt => .src | .want => .want

/-- the lines of a chunk with their kind -/
def chunkCls : Chunk → List (Cls × Str)
  | .text ls => ls.map (Cls.text, ·)
  | .code src want => src.map (Cls.src, ·) ++ want.map (Cls.want, ·)

def clsLine (p : LLine) : Cls × Str := (p.1.cls, p.2)

/-- every line of a group has the class of the group's label -/
def GroupOk (g : Group) : Prop := ∀ p ∈ g.2, p.1.cls = g.1.cls

def G1.Ok (left : Option LLine) (st : G1) : Prop :=
  (∀ g ∈ st.groups, GroupOk g) ∧
  (∀ s, st.state = some s → (∀ p ∈ st.current, p.1.cls = s.cls) ∧ (∀ lf, left = some lf → lf.1.cls = s.cls))

theorem g1Step_ok {left : Option LLine} {mid : LLine} {right : Option LLine} {st : G1}
    (hi : G1.Inv left st) (ho : G1.Ok left st) : G1.Ok (some mid) (g1Step st (left, mid, right)) := by
  obtain ⟨groups, state, current⟩ := st
  obtain ⟨hg, hs⟩ := ho
  unfold g1Step G1.Ok
  simp only at hg hs ⊢
  cases left with
  | none =>
    obtain ⟨h1, h2⟩ := hi.1 rfl
    simp only at h1 h2; subst h1 h2
    simp
    exact fun a b h => hg (a, b) h
  | some lf =>
    have hst := hi.2 (by simp)
    simp only at hst
    cases state with
    | none => exact absurd rfl hst
    | some s =>
      obtain ⟨hcur, hlf⟩ := hs s rfl
      have hlf := hlf lf rfl
      split
      · split
        · -- a new group starts
          refine ⟨?_, ?_⟩
          · intro g hgm
            simp only [List.mem_append, List.mem_singleton] at hgm
            rcases hgm with hgm | rfl
            · exact hg g hgm
            · exact hcur
          · intro s' hs'
            simp only [Option.some.injEq] at hs'; subst hs'
            simp
        · -- `dsrc` followed by `dcnt`: same group
          rename_i hc
          simp only [Bool.not_eq_true', Bool.and_eq_false_iff, not_or, Bool.not_eq_false] at hc
          refine ⟨hg, ?_⟩
          intro s' hs'
          have e : s' = s := by simpa using hs'.symm
          rw [e]
          have h1 : lf.1 = Label.dsrc := by simpa using hc.1
          have h2 : mid.1 = Label.dcnt := by simpa using hc.2
          have hsrc : s.cls = Cls.src := by rw [← hlf, h1]; rfl
          refine ⟨?_, ?_⟩
          · intro p hp
            simp only [List.mem_append, List.mem_singleton] at hp
            rcases hp with hp | rfl
            · exact hcur p hp
            · rw [h2, hsrc]; rfl
          · intro lf' hlf'
            simp only [Option.some.injEq] at hlf'; subst hlf'
            rw [h2, hsrc]; rfl
      · rename_i hc
        simp only [Option.map_some, Bool.or_eq_true, bne_iff_ne, ne_eq, Bool.and_eq_true, not_or, Decidable.not_not] at hc
        have h1 : lf.1 = mid.1 := by simpa using hc.1
        refine ⟨hg, ?_⟩
        intro s' hs'
        have e : s' = s := by simpa using hs'.symm
        rw [e]
        refine ⟨?_, ?_⟩
        · intro p hp
          simp only [List.mem_append, List.mem_singleton] at hp
          rcases hp with hp | rfl
          · exact hcur p hp
          · rw [← h1]; exact hlf
        · intro lf' hlf'
          simp only [Option.some.injEq] at hlf'; subst hlf'
          rw [← h1]; exact hlf

theorem g1_fold_ok (xs : List LLine) (left : Option LLine) (st : G1) (hi : G1.Inv left st)
    (ho : G1.Ok left st) :
    ∃ left', G1.Ok left' ((iterThree left xs).foldl g1Step st) := by
  induction xs generalizing left st with
  | nil => exact ⟨left, by simpa [iterThree] using ho⟩
  | cons m rest ih =>
    cases rest with
    | nil =>
      simp only [iterThree, List.foldl_cons, List.foldl_nil]
      exact ⟨some m, g1Step_ok hi ho⟩
    | cons r rest' =>
      simp only [iterThree, List.foldl_cons]
      exact ih (some m) _ (g1Step_flat (right := some r) (mid := m) hi).2 (g1Step_ok hi ho)

theorem group1_ok (labeled : List LLine) : ∀ g ∈ group1 labeled, GroupOk g := by
  rw [group1_eq]
  obtain ⟨left', h⟩ := g1_fold_ok labeled none {} ⟨fun _ => ⟨rfl, rfl⟩, fun h => absurd rfl h⟩
    ⟨by simp, by simp⟩
  generalize (iterThree none labeled).foldl g1Step {} = st at h
  obtain ⟨groups, state, current⟩ := st
  obtain ⟨hg, hs⟩ := h
  simp only at hg hs
  unfold g1Finish
  cases current with
  | nil => simpa using hg
  | cons c cs =>
    cases state with
    | none => simpa using hg
    | some s =>
      intro g hgm
      simp only [List.mem_append, List.mem_singleton] at hgm
      rcases hgm with hgm | rfl
      · exact hg g hgm
      · exact (hs s rfl).1

def G2.Ok (left : Option Group) (st : G2) : Prop :=
  (∀ g ∈ st.merged, GroupOk g) ∧
  (∀ s, st.state = some s → (∀ p ∈ st.current, p.1.cls = s.cls) ∧ (∀ lf, left = some lf → lf.1 = s))

theorem g2Step_ok {left : Option Group} {mid : Group} {right : Option Group} {st : G2}
    (hm : GroupOk mid) (hi : G2.Inv left st) (ho : G2.Ok left st) :
    G2.Ok (some mid) (g2Step st (left, mid, right)) := by
  obtain ⟨merged, state, current⟩ := st
  obtain ⟨hg, hs⟩ := ho
  unfold g2Step G2.Ok
  simp only at hg hs ⊢
  cases left with
  | none =>
    obtain ⟨h1, h2⟩ := hi.1 rfl
    simp only at h1 h2; subst h1 h2
    simp
    exact ⟨fun a b h => hg (a, b) h, fun a b h => hm (a, b) h⟩
  | some lf =>
    have hst := hi.2 (by simp)
    simp only at hst
    cases state with
    | none => exact absurd rfl hst
    | some s =>
      obtain ⟨hcur, hlf⟩ := hs s rfl
      have hlf := hlf lf rfl
      split
      · rename_i hc
        simp only [Option.map_some, Bool.and_eq_true, beq_iff_eq, Option.some.injEq] at hc
        have h1 : lf.1 = mid.1 := hc.1
        refine ⟨hg, ?_⟩
        intro s' hs'
        have e : s' = s := by simpa using hs'.symm
        rw [e]
        refine ⟨?_, ?_⟩
        · intro p hp
          simp only [List.mem_append] at hp
          rcases hp with hp | hp
          · exact hcur p hp
          · rw [hm p hp, ← h1, hlf]
        · intro lf' hlf'
          simp only [Option.some.injEq] at hlf'; subst hlf'
          rw [← h1]; exact hlf
      · refine ⟨?_, ?_⟩
        · intro g hgm
          simp only [Option.map_some, List.mem_append, List.mem_singleton] at hgm
          rcases hgm with hgm | rfl
          · exact hg g hgm
          · intro p hp; rw [hlf]; exact hcur p hp
        · intro s' hs'
          simp only [Option.some.injEq] at hs'; subst hs'
          exact ⟨hm, fun lf' hlf' => by simp only [Option.some.injEq] at hlf'; subst hlf'; rfl⟩

theorem g2_fold_ok (xs : List Group) (hx : ∀ g ∈ xs, GroupOk g) (left : Option Group) (st : G2)
    (hi : G2.Inv left st) (ho : G2.Ok left st) :
    ∃ left', G2.Ok left' ((iterThree left xs).foldl g2Step st) := by
  induction xs generalizing left st with
  | nil => exact ⟨left, by simpa [iterThree] using ho⟩
  | cons m rest ih =>
    have hm := hx m (by simp)
    cases rest with
    | nil =>
      simp only [iterThree, List.foldl_cons, List.foldl_nil]
      exact ⟨some m, g2Step_ok hm hi ho⟩
    | cons r rest' =>
      simp only [iterThree, List.foldl_cons]
      exact ih (fun g hg => hx g (by simp [hg])) (some m) _
        (g2Step_flat (right := some r) (mid := m) hi).2 (g2Step_ok hm hi ho)

theorem group2_ok (groups : List Group) (hx : ∀ g ∈ groups, GroupOk g) : ∀ g ∈ group2 groups, GroupOk g := by
  rw [group2_eq]
  obtain ⟨left', h⟩ := g2_fold_ok groups hx none {} ⟨fun _ => ⟨rfl, rfl⟩, fun h => absurd rfl h⟩
    ⟨by simp, by simp⟩
  generalize (iterThree none groups).foldl g2Step {} = st at h
  obtain ⟨merged, state, current⟩ := st
  obtain ⟨hg, hs⟩ := h
  simp only at hg hs
  unfold g2Finish
  cases current with
  | nil => simpa using hg
  | cons c cs =>
    cases state with
    | none => simpa using hg
    | some s =>
      intro g hgm
      simp only [List.mem_append, List.mem_singleton] at hgm
      rcases hgm with hgm | rfl
      · exact hg g hgm
      · exact (hs s rfl).1

def G3.cflat (st : G3) : List (Cls × Str) :=
  st.out.flatMap chunkCls ++ (st.prevSource.getD []).map (Cls.src, ·)

theorem g3Flush_cflat (st : G3) :
    (g3Flush st).prevSource = none ∧ (g3Flush st).out.flatMap chunkCls = st.cflat := by
  obtain ⟨out, prev⟩ := st
  cases prev <;> simp [g3Flush, G3.cflat, chunkCls]

theorem map_clsLine_of_ok {g : Group} (hg : GroupOk g) :
    g.2.map clsLine = (g.2.map (·.2)).map (g.1.cls, ·) := by
  obtain ⟨lab, lines⟩ := g
  simp only [List.map_map]
  apply List.map_congr_left
  intro p hp
  simp [clsLine, hg p hp]

theorem g3Step_cflat {st st' : G3} {g : Group} (hg : GroupOk g) (h : g3Step st g = .ok st') :
    st'.cflat = st.cflat ++ g.2.map clsLine := by
  rw [map_clsLine_of_ok hg]
  obtain ⟨lab, lines⟩ := g
  unfold g3Step at h
  have hf := g3Flush_cflat st
  cases lab with
  | text =>
    simp only [Except.ok.injEq] at h; subst h
    simp [G3.cflat, hf.1, hf.2, chunkCls, Label.cls]
  | want =>
    obtain ⟨out, prev⟩ := st
    cases prev with
    | none => simp at h
    | some src =>
      simp only [Except.ok.injEq] at h; subst h
      simp [G3.cflat, chunkCls, Label.cls]
  | dsrc =>
    simp only [Except.ok.injEq] at h; subst h
    simp [G3.cflat, hf.2, Label.cls]
  | dcnt =>
    simp only [Except.ok.injEq] at h; subst h
    simp [G3.cflat, hf.2, Label.cls]

theorem g3_fold_cflat {gs : List Group} {st st' : G3} (hg : ∀ g ∈ gs, GroupOk g)
    (h : gs.foldlM g3Step st = .ok st') :
    st'.cflat = st.cflat ++ (gs.flatMap (·.2)).map clsLine := by
  induction gs generalizing st with
  | nil => simp [pure, Except.pure] at h; subst h; simp
  | cons g gs ih =>
    rw [List.foldlM_cons] at h
    cases hs : g3Step st g with
    | error e => simp [hs, bind, Except.bind] at h
    | ok st1 =>
      simp only [hs, bind, Except.bind] at h
      rw [ih (fun x hx => hg x (by simp [hx])) h, g3Step_cflat (hg g (by simp)) hs]; simp

theorem group3_cls {merged : List Group} {cs : List Chunk} (hg : ∀ g ∈ merged, GroupOk g)
    (h : group3 merged = .ok cs) :
    cs.flatMap chunkCls = (merged.flatMap (·.2)).map clsLine := by
  rw [group3_eq] at h
  split at h
  · simp at h
  · rename_i st hst
    have := g3_fold_cflat hg hst
    obtain ⟨out, prev⟩ := st
    simp only [G3.cflat, List.flatMap_nil, List.nil_append, Option.getD_none, List.map_nil] at this
    rw [← this]
    split at h
    · rename_i l ls hp
      simp only at hp; subst hp
      simp only [Except.ok.injEq] at h; subst h
      simp [chunkCls]
    · simp only [Except.ok.injEq] at h; subst h
      cases prev with
      | none => simp
      | some p =>
        cases p with
        | nil => simp
        | cons a as => rename_i hne; exact absurd rfl (hne a as)

/-- (b') grouping keeps the kind of every line: a line ends up in a text chunk, in the source of a
    code chunk, or in its want, according to its label (`dsrc`/`dcnt` are both source) -/
theorem groupLines_cls {labeled : List LLine} {cs : List Chunk} (h : groupLines labeled = .ok cs) :
    cs.flatMap chunkCls = labeled.map clsLine := by
  unfold groupLines at h
  rw [group3_cls (group2_ok _ (group1_ok labeled)) h, group2_flat, group1_flat]

/-! ### a want always directly follows source (or more want) -/

/-- every `want` line directly follows a source or want line: never the first line, never after text -/
def WantFollows (out : List LLine) : Prop :=
  ∀ pre p rest, out = pre ++ p :: rest → p.1 = .want → ∃ pre' q, pre = pre' ++ [q] ∧ q.1 ≠ .text

theorem wantFollows_snoc {out : List LLine} {x : LLine} (h : WantFollows out)
    (hx : x.1 = .want → ∃ pre' q, out = pre' ++ [q] ∧ q.1 ≠ .text) : WantFollows (out ++ [x]) := by
  intro pre p rest he hp
  rcases List.eq_nil_or_concat rest with rfl | ⟨rest', y, rfl⟩
  · have : out = pre ∧ x = p := by
      have := List.append_inj' he (by simp)
      exact ⟨this.1, by simpa using this.2⟩
    obtain ⟨rfl, rfl⟩ := this
    exact hx hp
  · have : out = pre ++ p :: rest' := by
      have h2 : out ++ [x] = (pre ++ p :: rest') ++ [y] := by simpa using he
      exact (List.append_inj' h2 (by simp)).1
    exact h pre p rest' this hp

/-- when no statement is pending, `prev` is the label of the last emitted line -/
def LastInv (st : LabelState) : Prop :=
  st.pending = none → (st.out = [] ∧ st.prev = .text) ∨ ∃ pre q, st.out = pre ++ [q] ∧ q.1 = st.prev

theorem labelStep_want {st st' : LabelState} {line : Str} (hc : st.curLab.isSrc = true)
    (hw : WantFollows st.out) (hi : LastInv st) (h : labelStep st line = .ok st') :
    WantFollows st'.out ∧ LastInv st' := by
  unfold labelStep at h
  split at h
  · rename_i parts hp
    dsimp only at h
    split at h
    · simp at h
    · split at h
      all_goals
        split at h <;> (simp only [Except.ok.injEq] at h; subst h)
      all_goals
        refine ⟨wantFollows_snoc hw (fun hx => ?_), fun hpn => ?_⟩
      all_goals first
        | (exfalso; simp only at hx; split at hx
           · cases hx
           · rw [hx] at hc; cases hc)
        | exact Or.inr ⟨_, _, rfl, rfl⟩
        | (simp at hpn; done)
  · rename_i hpn
    have hlast := hi hpn
    extract_lets li stripL cur sind norm pre lab st1 ps at h
    have hcw : cur = .want → st.prev ≠ .text := by
      intro hcw hprev
      simp only [cur, hprev] at hcw
      split at hcw <;> cases hcw
    clear_value sind
    split at h
    · rename_i hcur
      have hlab : lab.isSrc = true := by
        simp only [Bool.or_eq_true, beq_iff_eq] at hcur
        show (if hasPrefix norm [ps2] = true then Label.dcnt else cur).isSrc = true
        apply isSrc_ite
        rcases hcur with h | h <;> rw [h] <;> rfl
      split at h
      · simp at h
      · split at h <;> (simp only [Except.ok.injEq] at h; subst h)
        · refine ⟨wantFollows_snoc hw (fun hx => ?_), fun _ => Or.inr ⟨_, _, rfl, rfl⟩⟩
          simp only at hx; rw [hx] at hlab; cases hlab
        · refine ⟨wantFollows_snoc hw (fun hx => ?_), fun hp => by simp at hp⟩
          simp only at hx; rw [hx] at hlab; cases hlab
    · simp only [Except.ok.injEq] at h; subst h
      refine ⟨wantFollows_snoc hw (fun hx => ?_), fun _ => Or.inr ⟨_, _, rfl, rfl⟩⟩
      have := hcw hx
      rcases hlast with ⟨_, hpt⟩ | ⟨pre', q, ho, hq⟩
      · exact absurd hpt this
      · exact ⟨pre', q, ho, by rw [hq]; exact this⟩

theorem label_fold_want {ls : List Str} {st st' : LabelState} (hc : st.curLab.isSrc = true)
    (hw : WantFollows st.out) (hi : LastInv st) (h : ls.foldlM labelStep st = .ok st') :
    WantFollows st'.out := by
  induction ls generalizing st with
  | nil => simp [pure, Except.pure] at h; subst h; exact hw
  | cons l ls ih =>
    rw [List.foldlM_cons] at h
    cases hs : labelStep st l with
    | error e => simp [hs, bind, Except.bind] at h
    | ok st1 =>
      simp only [hs, bind, Except.bind] at h
      obtain ⟨hw1, hi1⟩ := labelStep_want hc hw hi hs
      exact ih (labelStep_out hc hs).1 hw1 hi1 h

theorem labelLines_wantFollows {ls : List Str} {out : List LLine} (h : labelLines ls = .ok out) :
    WantFollows out := by
  unfold labelLines at h
  split at h
  · simp at h
  · rename_i st hst
    split at h
    · simp at h
    · simp only [Except.ok.injEq] at h; subst h
      refine label_fold_want (st := {}) rfl ?_ (fun _ => Or.inl ⟨rfl, rfl⟩) hst
      intro pre p rest he
      have : ([] : List LLine) = pre ++ p :: rest := he
      simp at this

end Xdoc.Parser

import XdocModel.Lemmas.Parser
/-!
# The grouping phase cannot fail on the labeller's output

`_group_labeled_lines` has one way to fail: `assert prev_source is not None, 'impossible'` when a
`want` group arrives and no source group is waiting. The labeller never emits a `want` line first or
directly after a `text` line (`WantFollows`, `labelLines_wantFollows`). This file pushes that fact
through the three grouping passes:

* `TW prev ls`  : in the label list `ls` (with `prev` before it) no `want` directly follows `text`;
* `SB prev ls`  : every `want` directly follows a source label (`dsrc` or `dcnt`) — in particular
                  no two `want` are adjacent;
* pass 1 turns `TW` on line labels into `SB` on group labels (a `want` run is one group, the group
  before it ends with a source line, and a group has the class of its lines);
* pass 2 keeps `SB` (a group that is followed by a `want` group, and the `want` group itself, are
  never merged into their neighbours);
* pass 3 succeeds on every group list with `SB`.
-/
namespace Xdoc.Parser
open Xdoc Py Lexer

/-! ## the two label-list predicates -/

/-- no `want` directly after `text` (`prev` is the label before the list) -/
def TW : Label → List Label → Prop
  | _, [] => True
  | p, l :: ls => (l = .want → p ≠ .text) ∧ TW l ls

/-- every `want` directly after a source label (`prev` is the label before the list) -/
def SB : Label → List Label → Prop
  | _, [] => True
  | p, l :: ls => (l = .want → p.isSrc = true) ∧ SB l ls

theorem SB_prefix {p : Label} {A B : List Label} (h : SB p (A ++ B)) : SB p A := by
  induction A generalizing p with
  | nil => trivial
  | cons a as ih => exact ⟨h.1, ih h.2⟩

theorem SB_snoc2 {p x y : Label} {A : List Label} (h : SB p (A ++ [x])) (hy : y = .want → x.isSrc = true) :
    SB p (A ++ [x] ++ [y]) := by
  induction A generalizing p with
  | nil => exact ⟨h.1, hy, trivial⟩
  | cons a as ih => exact ⟨h.1, ih h.2⟩

/-- the label "before" an optional left neighbour: the start of the text counts as `text` -/
def labOf {α : Type} (left : Option (Label × α)) : Label := (left.map (·.1)).getD .text

@[simp] theorem labOf_none {α : Type} : labOf (none : Option (Label × α)) = .text := rfl
@[simp] theorem labOf_some {α : Type} (x : Label × α) : labOf (some x) = x.1 := rfl

/-- `WantFollows` in recursive form -/
theorem tw_of_wantFollows (pre0 : List LLine) (prev : Label) (out : List LLine)
    (hprev : (pre0 = [] ∧ prev = .text) ∨ ∃ p' q, pre0 = p' ++ [q] ∧ q.1 = prev)
    (h : WantFollows (pre0 ++ out)) : TW prev (out.map (·.1)) := by
  induction out generalizing pre0 prev with
  | nil => trivial
  | cons x xs ih =>
    refine ⟨fun hx => ?_, ?_⟩
    · obtain ⟨pre', q, hq, hqt⟩ := h pre0 x xs rfl hx
      rcases hprev with ⟨h0, _⟩ | ⟨p', q', hq', hql⟩
      · rw [h0] at hq; simp at hq
      · rw [hq'] at hq
        have := (List.append_inj' hq (by simp)).2
        simp only [List.cons.injEq, and_true] at this
        rw [← hql, this]; exact hqt
    · exact ih (pre0 ++ [x]) x.1 (Or.inr ⟨pre0, x, rfl, rfl⟩) (by simpa using h)

theorem TW_of_wantFollows {out : List LLine} (h : WantFollows out) : TW .text (out.map (·.1)) :=
  tw_of_wantFollows [] .text out (Or.inl ⟨rfl, rfl⟩) (by simpa using h)

/-! ## pass 1 -/

/-- loop invariant of pass 1: the labels of the closed groups followed by the label of the open
    group satisfy `SB`; the open group has the class of the last line seen -/
def G1.SInv (left : Option LLine) (st : G1) : Prop :=
  match st.state with
  | none => left = none ∧ st.groups = []
  | some s => (∃ lf, left = some lf ∧ lf.1.cls = s.cls) ∧ SB .text (st.groups.map (·.1) ++ [s])

theorem g1Step_some (groups : List Group) (s : Label) (current : List LLine) (lf mid : LLine) (right : Option LLine) :
    g1Step ⟨groups, some s, current⟩ (some lf, mid, right) =
      if (lf.1 != mid.1 || (mid.1 == .dsrc && right.map (·.1) == some .dcnt)) && !(lf.1 == .dsrc && mid.1 == .dcnt)
      then ⟨groups ++ [(s, current)], some mid.1, [mid]⟩ else ⟨groups, some s, current ++ [mid]⟩ := by
  unfold g1Step
  simp only [Option.map_some]
  by_cases h1 : (lf.1 != mid.1 || (mid.1 == .dsrc && right.map (·.1) == some .dcnt)) = true
  · by_cases h2 : (!(lf.1 == .dsrc && mid.1 == .dcnt)) = true
    · have h1' : (some lf.1 != some mid.1 || (mid.1 == .dsrc && right.map (·.1) == some .dcnt)) = true := by
        simpa using h1
      have h2' : (!(some lf.1 == some Label.dsrc && mid.1 == .dcnt)) = true := by simpa using h2
      simp only [h1, h2, h1', h2', if_true, Bool.and_self, List.nil_append]
    · have h1' : (some lf.1 != some mid.1 || (mid.1 == .dsrc && right.map (·.1) == some .dcnt)) = true := by
        simpa using h1
      have h2' : ¬ (!(some lf.1 == some Label.dsrc && mid.1 == .dcnt)) = true := by simpa using h2
      simp only [h1, h2, h1', h2', if_true, if_false, Bool.and_false, Bool.false_eq_true]
  · have h1' : ¬ (some lf.1 != some mid.1 || (mid.1 == .dsrc && right.map (·.1) == some .dcnt)) = true := by
      simpa using h1
    have h3 : ¬ ((lf.1 != mid.1 || (mid.1 == .dsrc && right.map (·.1) == some .dcnt)) && !(lf.1 == .dsrc && mid.1 == .dcnt)) = true := by
      simp only [Bool.and_eq_true]; exact fun h => h1 h.1
    simp only [h1', h3, Bool.false_eq_true, if_false]

theorem g1Step_none (groups : List Group) (current : List LLine) (mid : LLine) (right : Option LLine) :
    g1Step ⟨groups, none, current⟩ (none, mid, right) = ⟨groups, some mid.1, [mid]⟩ := by
  simp [g1Step]

theorem g1Step_sinv {left : Option LLine} {mid : LLine} {right : Option LLine} {st : G1}
    (hi : G1.SInv left st) (hm : mid.1 = .want → labOf left ≠ .text) :
    G1.SInv (some mid) (g1Step st (left, mid, right)) := by
  obtain ⟨groups, state, current⟩ := st
  unfold G1.SInv at hi
  cases state with
  | none =>
    simp only at hi
    obtain ⟨h1, h2⟩ := hi
    subst h1 h2
    rw [g1Step_none]
    simp only [labOf_none, ne_eq, not_true_eq_false, imp_false] at hm
    exact ⟨⟨mid, rfl, rfl⟩, fun h => absurd h hm, trivial⟩
  | some s =>
    simp only at hi
    obtain ⟨⟨lf, hl, hc⟩, hsb⟩ := hi
    subst hl
    simp only [labOf_some] at hm
    rw [g1Step_some]
    split
    · -- a new group starts
      rename_i hcond
      refine ⟨⟨mid, rfl, rfl⟩, ?_⟩
      show SB .text ((groups ++ [(s, current)]).map (·.1) ++ [mid.1])
      simp only [List.map_append, List.map_cons, List.map_nil]
      apply SB_snoc2 hsb
      intro hw
      have hlt := hm hw
      obtain ⟨ll, lstr⟩ := lf
      obtain ⟨ml, ms⟩ := mid
      simp only at hw hlt hc hcond ⊢
      subst hw
      cases ll <;> cases s <;> simp_all [Label.cls, Label.isSrc]
    · rename_i hcond
      refine ⟨⟨mid, rfl, ?_⟩, hsb⟩
      show mid.1.cls = s.cls
      obtain ⟨ll, lstr⟩ := lf
      obtain ⟨ml, ms⟩ := mid
      simp only at hc hcond ⊢
      rw [← hc]
      generalize (Option.map (fun x => x.1) right == some Label.dcnt) = b at hcond
      revert hcond
      cases ll <;> cases ml <;> cases b <;> decide

theorem g1_fold_sinv (xs : List LLine) (left : Option LLine) (st : G1) (hi : G1.SInv left st)
    (ht : TW (labOf left) (xs.map (·.1))) :
    ∃ left', G1.SInv left' ((iterThree left xs).foldl g1Step st) := by
  induction xs generalizing left st with
  | nil => exact ⟨left, by simpa [iterThree] using hi⟩
  | cons m rest ih =>
    cases rest with
    | nil =>
      simp only [iterThree, List.foldl_cons, List.foldl_nil]
      exact ⟨some m, g1Step_sinv hi ht.1⟩
    | cons r rest' =>
      simp only [iterThree, List.foldl_cons]
      exact ih (some m) _ (g1Step_sinv hi ht.1) ht.2

/-- pass 1 : if no `want` line follows a `text` line (or comes first), every `want` group follows a
    source group -/
theorem group1_SB {labeled : List LLine} (h : TW .text (labeled.map (·.1))) :
    SB .text ((group1 labeled).map (·.1)) := by
  rw [group1_eq]
  obtain ⟨left', hi⟩ := g1_fold_sinv labeled none {} ⟨rfl, rfl⟩ h
  generalize (iterThree none labeled).foldl g1Step {} = st at hi
  obtain ⟨groups, state, current⟩ := st
  unfold G1.SInv at hi
  unfold g1Finish
  cases state with
  | none =>
    simp only at hi
    obtain ⟨_, hg⟩ := hi; subst hg
    cases current <;> exact trivial
  | some s =>
    simp only at hi
    cases current with
    | nil => exact SB_prefix hi.2
    | cons c cs => simpa using hi.2

/-! ## pass 2 -/

def G2.SInv (left : Option Group) (st : G2) : Prop :=
  match st.state with
  | none => left = none ∧ st.merged = []
  | some s => (∃ lf, left = some lf ∧ lf.1 = s) ∧ SB .text (st.merged.map (·.1) ++ [s])

theorem g2Step_some (merged : List Group) (s : Label) (current : List LLine) (lf mid : Group) (right : Option Group) :
    g2Step ⟨merged, some s, current⟩ (some lf, mid, right) =
      if lf.1 == mid.1 && right.map (·.1) != some .want
      then ⟨merged, some s, current ++ mid.2⟩ else ⟨merged ++ [(lf.1, current)], some mid.1, mid.2⟩ := by
  unfold g2Step
  simp only [Option.map_some]
  by_cases h1 : (lf.1 == mid.1 && right.map (·.1) != some .want) = true
  · have h1' : (some lf.1 == some mid.1 && right.map (·.1) != some .want) = true := by simpa using h1
    simp only [h1, h1', if_true]
  · have h1' : ¬ (some lf.1 == some mid.1 && right.map (·.1) != some .want) = true := by simpa using h1
    simp only [h1, h1', Bool.false_eq_true, if_false]

theorem g2Step_none (merged : List Group) (current : List LLine) (mid : Group) (right : Option Group) :
    g2Step ⟨merged, none, current⟩ (none, mid, right) = ⟨merged, some mid.1, mid.2⟩ := by
  simp [g2Step]

theorem g2Step_sinv {left : Option Group} {mid : Group} {right : Option Group} {st : G2}
    (hi : G2.SInv left st) (hm : mid.1 = .want → (labOf left).isSrc = true) :
    G2.SInv (some mid) (g2Step st (left, mid, right)) := by
  obtain ⟨merged, state, current⟩ := st
  unfold G2.SInv at hi
  cases state with
  | none =>
    simp only at hi
    obtain ⟨h1, h2⟩ := hi
    subst h1 h2
    rw [g2Step_none]
    simp only [labOf_none] at hm
    exact ⟨⟨mid, rfl, rfl⟩, ⟨fun h => (by have := hm h; cases this), trivial⟩⟩
  | some s =>
    simp only at hi
    obtain ⟨⟨lf, hl, hc⟩, hsb⟩ := hi
    subst hl hc
    simp only [labOf_some] at hm
    rw [g2Step_some]
    split
    · rename_i hcond
      simp only [Bool.and_eq_true, beq_iff_eq] at hcond
      exact ⟨⟨mid, rfl, hcond.1.symm⟩, hsb⟩
    · refine ⟨⟨mid, rfl, rfl⟩, ?_⟩
      show SB .text ((merged ++ [(lf.1, current)]).map (·.1) ++ [mid.1])
      simp only [List.map_append, List.map_cons, List.map_nil]
      exact SB_snoc2 hsb hm

theorem g2_fold_sinv (xs : List Group) (left : Option Group) (st : G2) (hi : G2.SInv left st)
    (ht : SB (labOf left) (xs.map (·.1))) :
    ∃ left', G2.SInv left' ((iterThree left xs).foldl g2Step st) := by
  induction xs generalizing left st with
  | nil => exact ⟨left, by simpa [iterThree] using hi⟩
  | cons m rest ih =>
    cases rest with
    | nil =>
      simp only [iterThree, List.foldl_cons, List.foldl_nil]
      exact ⟨some m, g2Step_sinv hi ht.1⟩
    | cons r rest' =>
      simp only [iterThree, List.foldl_cons]
      exact ih (some m) _ (g2Step_sinv hi ht.1) ht.2

/-- pass 2 keeps "every `want` group follows a source group" -/
theorem group2_SB {groups : List Group} (h : SB .text (groups.map (·.1))) :
    SB .text ((group2 groups).map (·.1)) := by
  rw [group2_eq]
  obtain ⟨left', hi⟩ := g2_fold_sinv groups none {} ⟨rfl, rfl⟩ h
  generalize (iterThree none groups).foldl g2Step {} = st at hi
  obtain ⟨merged, state, current⟩ := st
  unfold G2.SInv at hi
  unfold g2Finish
  cases state with
  | none =>
    simp only at hi
    obtain ⟨_, hg⟩ := hi; subst hg
    cases current <;> exact trivial
  | some s =>
    simp only at hi
    cases current with
    | nil => exact SB_prefix hi.2
    | cons c cs => simpa using hi.2

/-! ## pass 3 -/

/-- one step of pass 3 succeeds when a `want` group finds a waiting source; afterwards a source is
    waiting iff the group was a source group -/
theorem g3Step_ok {st : G3} {g : Group} (h : g.1 = .want → st.prevSource.isSome = true) :
    ∃ st1, g3Step st g = .ok st1 ∧ (g.1.isSrc = true → st1.prevSource.isSome = true) := by
  obtain ⟨lab, lines⟩ := g
  obtain ⟨out, prev⟩ := st
  unfold g3Step
  cases lab with
  | text => exact ⟨_, rfl, fun h => by cases h⟩
  | want =>
    cases prev with
    | none => have := h rfl; simp at this
    | some src => exact ⟨_, rfl, fun h => by cases h⟩
  | dsrc => exact ⟨_, rfl, fun _ => rfl⟩
  | dcnt => exact ⟨_, rfl, fun _ => rfl⟩

theorem g3_fold_ok (gs : List Group) (st : G3) (prev : Label)
    (hp : prev.isSrc = true → st.prevSource.isSome = true) (h : SB prev (gs.map (·.1))) :
    ∃ st', gs.foldlM g3Step st = .ok st' := by
  induction gs generalizing st prev with
  | nil => exact ⟨st, rfl⟩
  | cons g gs ih =>
    obtain ⟨st1, hs, hp1⟩ := g3Step_ok (st := st) (g := g) (fun hw => hp (h.1 hw))
    obtain ⟨st', hst'⟩ := ih st1 g.1 hp1 h.2
    exact ⟨st', by rw [List.foldlM_cons, hs]; exact hst'⟩

/-- pass 3 cannot hit its `assert prev_source is not None` when every `want` group follows a source
    group -/
theorem group3_ok {merged : List Group} (h : SB .text (merged.map (·.1))) : ∃ cs, group3 merged = .ok cs := by
  rw [group3_eq]
  obtain ⟨st', hst'⟩ := g3_fold_ok merged {} .text (fun h => by cases h) h
  rw [hst']
  simp only
  split
  · exact ⟨_, rfl⟩
  · exact ⟨_, rfl⟩

/-- the three passes together: a labelled text in which no `want` comes first or directly after
    `text` is grouped without error -/
theorem groupLines_ok_of_wantFollows {out : List LLine} (h : WantFollows out) :
    ∃ cs, groupLines out = .ok cs := by
  unfold groupLines
  exact group3_ok (group2_SB (group1_SB (TW_of_wantFollows h)))

end Xdoc.Parser

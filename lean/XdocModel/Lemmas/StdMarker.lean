import XdocModel.Lemmas.Stdlib
import XdocModel.Proofs.C06
/-!
# The two `<BLANKLINE>` substitutions agree up to whitespace (C20, wants containing the marker)

The standard module empties every line of the want that is `<BLANKLINE>` followed by whitespace only
(`Std.stdBlankWant`); xdoctest replaces every marker occurrence, together with one adjacent newline,
by a newline (`Re.removeBlanklineMarker`, a left-to-right scan). When every marker occurrence of the
want is such a line (i.e. no marker is left after the standard substitution) the two results have the
same words, hence the same whitespace-collapsed text.
-/
namespace Xdoc
open Py Re
open _root_.Xdoc.Std

namespace Std

/-! ## `re.sub` as a scan: fuel independence and recursion equations -/

theorem scan_fuel (step : Str → Option (Str × Str))
    (hstep : ∀ t o r, step t = some (o, r) → r.length < t.length) :
    ∀ (f1 f2 : Nat) (s : Str), s.length ≤ f1 → s.length ≤ f2 → scan step f1 s = scan step f2 s := by
  intro f1
  induction f1 with
  | zero =>
    intro f2 s h1 _
    have : s = [] := List.eq_nil_of_length_eq_zero (by omega)
    subst this
    cases f2 <;> simp [scan]
  | succ f1 ih =>
    intro f2 s h1 h2
    cases s with
    | nil => cases f2 <;> simp [scan]
    | cons c s =>
      cases f2 with
      | zero => simp at h2
      | succ f2 =>
        simp only [scan]
        cases hs : step (c :: s) with
        | none =>
          simp only
          rw [ih f2 s (by simp at h1; omega) (by simp at h2; omega)]
        | some p =>
          obtain ⟨o, r⟩ := p
          have hl := hstep _ _ _ hs
          simp only [List.length_cons] at hl h1 h2
          simp only
          rw [ih f2 r (by omega) (by omega)]

theorem marker_ne_nil : marker ≠ [] := by decide +kernel
theorem marker_length : marker.length = 11 := by decide +kernel
theorem marker_no_nl : ∀ c ∈ marker, c ≠ '\n' := by decide +kernel
theorem marker_no_space : ∀ c ∈ marker, isSpace c = false := by decide +kernel
theorem marker_head : ∃ r, marker = '<' :: r := ⟨"BLANKLINE>".toList, by decide +kernel⟩

/-- shape of a match of the marker pattern: the replacement is one newline, the rest is a proper suffix -/
theorem blankStep_some {s o r : Str} (h : blankStep s = some (o, r)) :
    o = ['\n'] ∧ r.length < s.length ∧ r <:+ s := by
  unfold blankStep at h
  split at h
  · rename_i r0 hd
    have e := dropPrefix?_eq_some.mp hd
    have hl : s.length = 11 + r0.length := by rw [e]; simp [marker_length]
    split at h
    · rename_i r'
      cases h
      refine ⟨rfl, by simp at hl ⊢; omega, ?_⟩
      rw [e]; exact ⟨marker ++ ['\n'], by simp⟩
    · cases h
      refine ⟨rfl, by omega, ?_⟩
      rw [e]; exact ⟨marker, rfl⟩
  · split at h
    · rename_i s' _
      cases hd : dropPrefix? marker s' with
      | none => simp [hd] at h
      | some r0 =>
        simp only [hd, Option.map_some, Option.some.injEq, Prod.mk.injEq] at h
        obtain ⟨rfl, rfl⟩ := h
        have e := dropPrefix?_eq_some.mp hd
        refine ⟨rfl, by rw [e]; simp [marker_length]; omega, ?_⟩
        rw [e]; exact ⟨'\n' :: marker, by simp⟩
    · cases h

theorem blankStep_shorter : ∀ t o r, blankStep t = some (o, r) → r.length < t.length :=
  fun _ _ _ h => (blankStep_some h).2.1

theorem rm_nil : removeBlanklineMarker [] = [] := by simp [removeBlanklineMarker, sub, scan]

theorem rm_none {c : Char} {s : Str} (h : blankStep (c :: s) = none) :
    removeBlanklineMarker (c :: s) = c :: removeBlanklineMarker s := by
  simp only [removeBlanklineMarker, sub, List.length_cons, scan, h]

theorem rm_some {s o r : Str} (h : blankStep s = some (o, r)) :
    removeBlanklineMarker s = o ++ removeBlanklineMarker r := by
  have hl := (blankStep_some h).2.1
  cases s with
  | nil => simp at hl
  | cons c s =>
    simp only [removeBlanklineMarker, sub, List.length_cons, scan, h]
    rw [scan_fuel _ blankStep_shorter s.length r.length r (by simp at hl; omega) (Nat.le_refl _)]

/-- every character of the result comes from the text or is a newline -/
theorem rm_mem (n : Nat) : ∀ (s : Str), s.length ≤ n → ∀ c ∈ removeBlanklineMarker s, c ∈ s ∨ c = '\n' := by
  induction n with
  | zero =>
    intro s hs c hc
    have : s = [] := List.eq_nil_of_length_eq_zero (by omega)
    subst this; simp [rm_nil] at hc
  | succ n ih =>
    intro s hs c hc
    cases s with
    | nil => simp [rm_nil] at hc
    | cons d s =>
      cases hb : blankStep (d :: s) with
      | none =>
        rw [rm_none hb] at hc
        simp only [List.mem_cons] at hc ⊢
        rcases hc with rfl | hc
        · exact Or.inl (Or.inl rfl)
        · rcases ih s (by simp at hs; omega) c hc with h | h
          · exact Or.inl (Or.inr h)
          · exact Or.inr h
      | some p =>
        obtain ⟨o, r⟩ := p
        obtain ⟨ho, hl, hsuf⟩ := blankStep_some hb
        rw [rm_some hb, ho] at hc
        simp only [List.singleton_append, List.mem_cons] at hc
        rcases hc with rfl | hc
        · exact Or.inr rfl
        · rcases ih r (by simp only [List.length_cons] at hl hs; omega) c hc with h | h
          · exact Or.inl (hsuf.subset h)
          · exact Or.inr h

/-! ## the marker cannot start inside a marker-free line, nor straddle its end -/

/-- `x` marker-free and without newline, `r` empty or starting with a newline: the marker is not a
    prefix of `x ++ r` -/
theorem noMarkerPrefix {x r : Str} (hx : contains marker x = false)
    (hr : r = [] ∨ ∃ r', r = '\n' :: r') : dropPrefix? marker (x ++ r) = none := by
  cases hd : dropPrefix? marker (x ++ r) with
  | none => rfl
  | some q =>
    exfalso
    have e := dropPrefix?_eq_some.mp hd
    rcases List.append_eq_append_iff.mp e with ⟨a, h1, h2⟩ | ⟨b, h1, h2⟩
    · -- marker = x ++ a, r = a ++ q
      cases a with
      | nil =>
        have : contains marker x = true := contains_iff.mpr ⟨[], [], by simp [h1]⟩
        rw [this] at hx; cases hx
      | cons c a =>
        rcases hr with rfl | ⟨r', rfl⟩
        · simp at h2
        · have hc : c = '\n' := by simp at h2; exact h2.1.symm
          exact marker_no_nl c (by rw [h1]; simp) hc
    · -- x = marker ++ b
      have : contains marker x = true := contains_iff.mpr ⟨[], b, by simp [h1]⟩
      rw [this] at hx; cases hx

theorem allSpace_markerFree {t : Str} (ht : ∀ c ∈ t, isSpace c = true) : contains marker t = false := by
  cases hc : contains marker t with
  | false => rfl
  | true =>
    obtain ⟨x, r, e⟩ := contains_iff.mp hc
    obtain ⟨m, hm⟩ := marker_head
    have : '<' ∈ t := by rw [e, hm]; simp
    have h1 := ht _ this
    have h2 : isSpace '<' = false := by decide +kernel
    rw [h2] at h1; cases h1

/-- A1: a marker-free line without newline is copied -/
theorem rm_line {l : Str} (hl : contains marker l = false) (hn : ∀ c ∈ l, c ≠ '\n') {r : Str}
    (hr : r = [] ∨ ∃ r', r = '\n' :: r') :
    removeBlanklineMarker (l ++ r) = l ++ removeBlanklineMarker r := by
  induction l with
  | nil => simp
  | cons c l ih =>
    have hl' : contains marker l = false := contains_false_suffix hl (List.suffix_cons _ _)
    have hb : blankStep ((c :: l) ++ r) = none := by
      unfold blankStep
      rw [noMarkerPrefix hl hr]
      simp only [List.cons_append]
      split
      · rename_i s' heq
        have : c = '\n' := by
          have := congrArg List.head? heq
          simpa using this
        exact absurd this (hn c (by simp))
      · rfl
    rw [List.cons_append] at hb ⊢
    rw [rm_none hb, ih hl' (fun d hd => hn d (by simp [hd]))]
    rfl

theorem dropPrefix_marker_nl (s : Str) : dropPrefix? marker ('\n' :: s) = none := by
  obtain ⟨m, hm⟩ := marker_head
  rw [hm]; simp [dropPrefix?]

/-- A3: a newline in front of a marker-free line is copied -/
theorem rm_nl_line {l r : Str} (hl : contains marker l = false)
    (hr : r = [] ∨ ∃ r', r = '\n' :: r') :
    removeBlanklineMarker ('\n' :: (l ++ r)) = '\n' :: removeBlanklineMarker (l ++ r) := by
  apply rm_none
  unfold blankStep
  rw [dropPrefix_marker_nl]
  simp only [noMarkerPrefix hl hr, Option.map_none]

/-- A2 (after a newline): newline + marker + blanks: the marker goes, newline and blanks stay -/
theorem rm_nl_marker {t r : Str} (ht : ∀ c ∈ t, isSpace c = true) (htn : ∀ c ∈ t, c ≠ '\n')
    (hr : r = [] ∨ ∃ r', r = '\n' :: r') :
    removeBlanklineMarker ('\n' :: (marker ++ t ++ r)) = '\n' :: (t ++ removeBlanklineMarker r) := by
  have hb : blankStep ('\n' :: (marker ++ t ++ r)) = some (['\n'], t ++ r) := by
    unfold blankStep
    rw [dropPrefix_marker_nl]
    simp only [List.append_assoc, dropPrefix?_append, Option.map_some]
  rw [rm_some hb, rm_line (allSpace_markerFree ht) htn hr]; simp

/-- words of a text do not see leading whitespace -/
theorem words_dropLeading (ws s : Str) (h : ∀ c ∈ ws, isSpace c = true) : words (ws ++ s) = words s := by
  induction ws with
  | nil => rfl
  | cons c ws ih =>
    have hc := h c (by simp)
    simp only [List.cons_append, words, wordsAux, hc, ↓reduceIte, List.isEmpty_nil]
    exact ih (fun d hd => h d (by simp [hd]))

theorem wordsAux_append (a X : Str) (hX : hdSp X = true) :
    ∀ acc, wordsAux acc (a ++ X) = wordsAux acc a ++ words X := by
  induction a with
  | nil =>
    intro acc
    simp only [List.nil_append, wordsAux]
    rw [wordsAux_hdSp acc X hX]
    cases acc <;> simp [words]
  | cons c a ih =>
    intro acc
    simp only [List.cons_append, wordsAux]
    split
    · split <;> simp [ih]
    · exact ih _

theorem words_append (a X : Str) (hX : hdSp X = true) : words (a ++ X) = words a ++ words X :=
  wordsAux_append a X hX []

theorem words_nl_line (l X : Str) (hX : hdSp X = true) : words ('\n' :: (l ++ X)) = words l ++ words X := by
  have := words_dropLeading ['\n'] (l ++ X) (by simp [isSpace_nl])
  simp only [List.singleton_append] at this
  rw [this, words_append _ _ hX]

theorem words_nl_ws (t X : Str) (ht : ∀ c ∈ t, isSpace c = true) : words ('\n' :: (t ++ X)) = words X := by
  have := words_dropLeading ('\n' :: t) X (by
    intro c hc
    simp only [List.mem_cons] at hc
    rcases hc with rfl | hc
    · exact isSpace_nl
    · exact ht c hc)
  simpa using this

/-! ## line structure -/

/-- a line the standard substitution handles: no newline inside; marker-free, or the marker followed
    by whitespace only -/
def LineOK (l : Str) : Prop :=
  (∀ c ∈ l, c ≠ '\n') ∧ (contains marker l = false ∨ ∃ t, l = marker ++ t ∧ ∀ c ∈ t, isSpace c = true)

/-- the text after the first line: nothing, or a newline and the other lines -/
def restOf (ls : List Str) : Str := if ls = [] then [] else '\n' :: joinWith ['\n'] ls

theorem restOf_nil : restOf [] = [] := rfl
theorem restOf_cons (l : Str) (ls : List Str) : restOf (l :: ls) = '\n' :: (l ++ restOf ls) := by
  cases ls with
  | nil => simp [restOf, joinWith]
  | cons y ys => simp [restOf, joinWith]

theorem restOf_shape (ls : List Str) : restOf ls = [] ∨ ∃ r', restOf ls = '\n' :: r' := by
  cases ls with
  | nil => exact Or.inl rfl
  | cons l ls => exact Or.inr ⟨_, restOf_cons l ls⟩

theorem hdSp_restOf (ls : List Str) : hdSp (restOf ls) = true := by
  rcases restOf_shape ls with h | ⟨r, h⟩ <;> simp [h, hdSp, isSpace_nl]

theorem joinWith_eq_restOf (l : Str) (ls : List Str) : joinWith ['\n'] (l :: ls) = l ++ restOf ls := by
  cases ls with
  | nil => simp [restOf, joinWith]
  | cons y ys => simp [restOf, joinWith]

theorem blankWantLine_free {l : Str} (h : contains marker l = false) : blankWantLine l = l := by
  simp [blankWantLine, contains_false_dropPrefix h]

theorem blankWantLine_marker {t : Str} (ht : ∀ c ∈ t, isSpace c = true) : blankWantLine (marker ++ t) = [] := by
  have : t.all isSpace = true := List.all_eq_true.mpr ht
  simp [blankWantLine, dropPrefix?_append, this]


/-- C: after a newline -/
theorem rest_words (ls : List Str) (hok : ∀ l ∈ ls, LineOK l) :
    hdSp (removeBlanklineMarker (restOf ls)) = true ∧
    words (removeBlanklineMarker (restOf ls)) = words (restOf (ls.map blankWantLine)) := by
  induction ls with
  | nil => simp [restOf, rm_nil, hdSp]
  | cons l ls ih =>
    obtain ⟨ihh, ihw⟩ := ih (fun x hx => hok x (by simp [hx]))
    obtain ⟨hn, hl⟩ := hok l (by simp)
    rw [restOf_cons, List.map_cons, restOf_cons]
    rcases hl with hl | ⟨t, rfl, ht⟩
    · rw [rm_nl_line hl (restOf_shape ls), rm_line hl hn (restOf_shape ls), blankWantLine_free hl]
      refine ⟨by simp [hdSp, isSpace_nl], ?_⟩
      rw [words_nl_line _ _ ihh, words_nl_line _ _ (hdSp_restOf _), ihw]
    · have htn : ∀ c ∈ t, c ≠ '\n' := fun c hc => hn c (by simp [hc])
      rw [rm_nl_marker ht htn (restOf_shape ls), blankWantLine_marker ht]
      refine ⟨by simp [hdSp, isSpace_nl], ?_⟩
      rw [words_nl_ws _ _ ht, words_nl_ws [] _ (by simp), ihw]

/-- D: at a line start (beginning of the text, or right after a marker that swallowed the newline) -/
theorem line_words (ls : List Str) : ∀ (l : Str), LineOK l → (∀ x ∈ ls, LineOK x) →
    words (removeBlanklineMarker (l ++ restOf ls)) = words (blankWantLine l ++ restOf (ls.map blankWantLine)) := by
  induction ls with
  | nil =>
    intro l ⟨hn, hl⟩ _
    simp only [restOf_nil, List.append_nil, List.map_nil]
    rcases hl with hl | ⟨t, rfl, ht⟩
    · rw [removeBlanklineMarker_id hl, blankWantLine_free hl]
    · have htn : ∀ c ∈ t, c ≠ '\n' := fun c hc => hn c (by simp [hc])
      have hb : blankStep (marker ++ t) = some (['\n'], t) := by
        unfold blankStep
        rw [dropPrefix?_append]
        cases t with
        | nil => rfl
        | cons c t =>
          have : c ≠ '\n' := htn c (by simp)
          simp only
          split
          · rename_i r' heq
            exact absurd (by simpa using congrArg List.head? heq) this
          · rfl
      rw [rm_some hb, removeBlanklineMarker_id (allSpace_markerFree ht), blankWantLine_marker ht]
      have : words (['\n'] ++ t ++ []) = words ([] : Str) :=
        words_dropLeading _ _ (by
          intro c hc
          simp only [List.mem_append, List.mem_singleton] at hc
          rcases hc with rfl | hc
          · exact isSpace_nl
          · exact ht c hc)
      simpa using this
  | cons l2 ls ih =>
    intro l ⟨hn, hl⟩ hok
    have hok' : ∀ x ∈ ls, LineOK x := fun x hx => hok x (by simp [hx])
    have hl2 := hok l2 (by simp)
    obtain ⟨rh, rw_⟩ := rest_words (l2 :: ls) hok
    rcases hl with hl | ⟨t, rfl, ht⟩
    · rw [rm_line hl hn (restOf_shape _), blankWantLine_free hl, words_append _ _ rh,
        words_append _ _ (hdSp_restOf _), rw_]
    · have htn : ∀ c ∈ t, c ≠ '\n' := fun c hc => hn c (by simp [hc])
      rw [blankWantLine_marker ht]
      cases t with
      | nil =>
        -- the marker swallows the newline: the next line is processed at a line start again
        have hb : blankStep (marker ++ [] ++ restOf (l2 :: ls)) = some (['\n'], l2 ++ restOf ls) := by
          unfold blankStep
          rw [List.append_nil, restOf_cons, dropPrefix?_append]
          rfl
        rw [rm_some hb, List.map_cons, restOf_cons]
        have e1 : ['\n'] ++ removeBlanklineMarker (l2 ++ restOf ls) = '\n' :: ([] ++ removeBlanklineMarker (l2 ++ restOf ls)) := rfl
        have e2 : [] ++ '\n' :: (blankWantLine l2 ++ restOf (ls.map blankWantLine)) =
            '\n' :: ([] ++ (blankWantLine l2 ++ restOf (ls.map blankWantLine))) := rfl
        rw [e1, e2, words_nl_ws [] _ (by simp), words_nl_ws [] _ (by simp)]
        exact ih l2 hl2 hok'
      | cons c t =>
        have hc : c ≠ '\n' := htn c (by simp)
        have hb : blankStep (marker ++ (c :: t) ++ restOf (l2 :: ls)) = some (['\n'], (c :: t) ++ restOf (l2 :: ls)) := by
          unfold blankStep
          rw [List.append_assoc, dropPrefix?_append]
          simp only [List.cons_append]
          split
          · rename_i r' heq
            exact absurd (by simpa using congrArg List.head? heq) hc
          · rfl
        rw [rm_some hb, rm_line (allSpace_markerFree ht) htn (restOf_shape _)]
        have e1 : ['\n'] ++ ((c :: t) ++ removeBlanklineMarker (restOf (l2 :: ls))) =
            '\n' :: ((c :: t) ++ removeBlanklineMarker (restOf (l2 :: ls))) := rfl
        rw [e1, words_nl_ws _ _ ht, rw_]
        simp

/-! ## from the hypothesis on the text to the line structure -/

theorem splitOn_no_sep (s : Str) : ∀ l ∈ splitOn '\n' s, ∀ c ∈ l, c ≠ '\n' := by
  induction s with
  | nil => simp [splitOn]
  | cons d s ih =>
    obtain ⟨x, xs, hx⟩ := List.exists_cons_of_ne_nil (splitOn_ne_nil_gen '\n' s)
    rw [hx] at ih
    simp only [splitOn, hx]
    split
    · intro l hl
      simp only [List.mem_cons] at hl
      rcases hl with rfl | hl
      · simp
      · exact ih l (by simpa using hl)
    · rename_i hd
      intro l hl c hc
      simp only [List.headD_cons, List.tail_cons, List.mem_cons] at hl
      rcases hl with rfl | hl
      · simp only [List.mem_cons] at hc
        rcases hc with rfl | hc
        · exact hd
        · exact ih x (by simp) c hc
      · exact ih l (by simp [hl]) c hc

theorem lines_ok {W : Str} (h : contains marker (stdBlankWant W) = false) :
    ∀ l ∈ splitOn '\n' W, LineOK l := by
  intro l hl
  refine ⟨splitOn_no_sep W l hl, ?_⟩
  have hfree : contains marker (blankWantLine l) = false := by
    cases hc : contains marker (blankWantLine l) with
    | false => rfl
    | true =>
      have hin : blankWantLine l <:+: stdBlankWant W :=
        mem_joinWith_infix ['\n'] (List.mem_map.mpr ⟨l, hl, rfl⟩)
      rw [contains_of_infix hin hc] at h; cases h
  unfold blankWantLine at hfree
  cases hd : dropPrefix? marker l with
  | none => rw [hd] at hfree; exact Or.inl hfree
  | some t =>
    rw [hd] at hfree
    simp only at hfree
    split at hfree
    · rename_i hall
      exact Or.inr ⟨t, dropPrefix?_eq_some.mp hd, fun c hc => List.all_eq_true.mp hall c hc⟩
    · exact Or.inl hfree

/-- ★ when the standard substitution leaves no marker behind, the two substitutions agree up to
    whitespace -/
theorem collapse_removeMarker_eq {W : Str} (h : contains marker (stdBlankWant W) = false) :
    collapse (removeBlanklineMarker W) = collapse (stdBlankWant W) := by
  have hok := lines_ok h
  obtain ⟨l, ls, hs⟩ := List.exists_cons_of_ne_nil (splitOn_ne_nil_gen '\n' W)
  have hW : W = l ++ restOf ls := by
    rw [← joinWith_eq_restOf, ← hs, joinWith_splitOn]
  have e : stdBlankWant W = blankWantLine l ++ restOf (ls.map blankWantLine) := by
    unfold stdBlankWant
    rw [hs, List.map_cons, joinWith_eq_restOf]
  rw [hs] at hok
  have := line_words ls l (hok l (by simp)) (fun x hx => hok x (by simp [hx]))
  unfold collapse
  rw [e, ← this, ← hW]

/-! ## a marker the standard substitution leaves behind must occur in a matching got

For a word `w` without whitespace: `w` occurs in `collapse s` iff it occurs in `s`; and (no dot in `w`
either) if `w` occurs in a want that `got` matches with wildcards, it occurs inside one piece, hence in
`got`. So a got without the marker can match, under the standard module, only a want whose markers
are all recognised marker lines. -/

theorem run_word_spacefree {t : Str} (ht : ∀ c ∈ t, isSpace c = false) : run .word t = t := by
  induction t with
  | nil => rfl
  | cons c t ih =>
    rw [run_cons_nonspace (ht c (by simp)), ih (fun d hd => ht d (by simp [hd]))]
    rfl

theorem run_spacefree {w : Str} (hw : ∀ c ∈ w, isSpace c = false) (σ : WsSt) : ∃ pre, run σ w = pre ++ w := by
  cases w with
  | nil => exact ⟨[], by simp [run]⟩
  | cons c t =>
    rw [run_cons_nonspace (hw c (by simp)), run_word_spacefree (fun d hd => hw d (by simp [hd]))]
    cases σ
    · exact ⟨[], rfl⟩
    · exact ⟨[], rfl⟩
    · exact ⟨[' '], rfl⟩

theorem contains_collapse_of_contains {w s : Str} (hw : ∀ c ∈ w, isSpace c = false)
    (h : contains w s = true) : contains w (collapse s) = true := by
  obtain ⟨x, r, rfl⟩ := contains_iff.mp h
  rw [collapse_eq_run, List.append_assoc, run_append, run_append]
  obtain ⟨pre, hp⟩ := run_spacefree hw (fin .start x)
  rw [hp]
  exact contains_iff.mpr ⟨run .start x ++ pre, run (fin (fin .start x) w) r, by simp⟩

/-- a space-free prefix of the transducer's output inside a word is a prefix of the input -/
theorem prefix_of_run_word {w : Str} (hw : ∀ c ∈ w, isSpace c = false) :
    ∀ s, w <+: run .word s → w <+: s := by
  induction w with
  | nil => intro s _; exact List.nil_prefix
  | cons d w ih =>
    intro s h
    have hd := hw d (by simp)
    cases s with
    | nil => simp [run] at h
    | cons e s =>
      by_cases he : isSpace e = true
      · rw [run_cons_space he] at h
        rcases run_gap_head s with h0 | ⟨r, h0⟩
        · simp [WsSt.sp, h0] at h
        · simp only [WsSt.sp, h0] at h
          have : d = ' ' := (List.cons_prefix_cons.mp h).1
          rw [this] at hd
          have : isSpace ' ' = true := by decide +kernel
          rw [this] at hd; cases hd
      · have he' : isSpace e = false := by simpa using he
        rw [run_cons_nonspace he'] at h
        simp only [WsSt.out, List.singleton_append] at h
        obtain ⟨rfl, h2⟩ := List.cons_prefix_cons.mp h
        exact List.cons_prefix_cons.mpr ⟨rfl, ih (fun c hc => hw c (by simp [hc])) s h2⟩

theorem startsWith_prefix {w s : Str} : startsWith w s = true ↔ w <+: s := by
  rw [startsWith_iff]
  exact ⟨fun ⟨r, h⟩ => ⟨r, h.symm⟩, fun ⟨r, h⟩ => ⟨r, h.symm⟩⟩

theorem contains_of_contains_run {d : Char} {w : Str} (hw : ∀ c ∈ d :: w, isSpace c = false) :
    ∀ (s : Str) (σ : WsSt), contains (d :: w) (run σ s) = true → contains (d :: w) s = true := by
  intro s
  induction s with
  | nil => intro σ h; simpa [run] using h
  | cons e s ih =>
    intro σ h
    by_cases he : isSpace e = true
    · rw [run_cons_space he] at h
      exact contains_cons_of_contains (ih _ h)
    · have he' : isSpace e = false := by simpa using he
      rw [run_cons_nonspace he'] at h
      have hd := hw d (by simp)
      -- the occurrence cannot start at the blank the gap state emits
      have h2 : contains (d :: w) (e :: run .word s) = true := by
        cases σ
        · simpa [WsSt.out] using h
        · simpa [WsSt.out] using h
        · simp only [WsSt.out, List.cons_append, List.nil_append, contains, Bool.or_eq_true] at h
          rcases h with h | h
          · exfalso
            have := (List.cons_prefix_cons.mp (startsWith_prefix.mp h)).1
            rw [this] at hd
            have : isSpace ' ' = true := by decide +kernel
            rw [this] at hd; cases hd
          · simpa [contains] using h
      simp only [contains, Bool.or_eq_true] at h2 ⊢
      rcases h2 with h2 | h2
      · left
        obtain ⟨rfl, hp⟩ := List.cons_prefix_cons.mp (startsWith_prefix.mp h2)
        exact startsWith_prefix.mpr (List.cons_prefix_cons.mpr ⟨rfl,
          prefix_of_run_word (fun c hc => hw c (by simp [hc])) s hp⟩)
      · right; exact ih _ h2

theorem contains_of_contains_collapse {d : Char} {w s : Str} (hw : ∀ c ∈ d :: w, isSpace c = false)
    (h : contains (d :: w) (collapse s) = true) : contains (d :: w) s = true := by
  rw [collapse_eq_run] at h
  exact contains_of_contains_run hw s _ h

/-! ### a dot-free, space-free word of the want lies inside one piece -/

/-- the occurrence cannot start in a region whose characters differ from the word's first one -/
theorem contains_skip {d : Char} {w a b : Str} (ha : ∀ c ∈ a, c ≠ d) (h : contains (d :: w) (a ++ b) = true) :
    contains (d :: w) b = true := by
  induction a with
  | nil => simpa using h
  | cons c a ih =>
    simp only [List.cons_append, contains, Bool.or_eq_true] at h
    rcases h with h | h
    · exfalso
      exact ha c (by simp) (List.cons_prefix_cons.mp (startsWith_prefix.mp h)).1.symm
    · exact ih (fun x hx => ha x (by simp [hx])) h

theorem sepStart_none_of_plain {c : Char} (h1 : isSpace c = false) (h2 : c ≠ '.') (s : Str) :
    sepStart (c :: s) = none := by
  rw [sepStart_cons_nonspace h1]
  simp [dots, dropPrefix?, Ne.symm h2]

/-- a prefix made of plain characters (no whitespace, no dot) is a prefix of the first piece -/
theorem plain_prefix_first_piece {u : Str} (hu : ∀ c ∈ u, isSpace c = false ∧ c ≠ '.') :
    ∀ s, u <+: s → ∃ p ps, splitEllipsis s = p :: ps ∧ u <+: p := by
  induction u with
  | nil =>
    intro s _
    obtain ⟨p, ps, e⟩ := List.exists_cons_of_ne_nil (splitEllipsis_ne_nil s)
    exact ⟨p, ps, e, List.nil_prefix⟩
  | cons c u ih =>
    intro s h
    cases s with
    | nil => simp at h
    | cons e s =>
      obtain ⟨rfl, h2⟩ := List.cons_prefix_cons.mp h
      obtain ⟨hc1, hc2⟩ := hu c (by simp)
      obtain ⟨p, ps, e2, hp⟩ := ih (fun x hx => hu x (by simp [hx])) s h2
      refine ⟨c :: p, ps, ?_, List.cons_prefix_cons.mpr ⟨rfl, hp⟩⟩
      rw [splitEllipsis_none (sepStart_none_of_plain hc1 hc2 s), e2]; rfl

theorem mem_prependHead {x q : Str} {L : List Str} (h : q ∈ L) : ∃ q' ∈ prependHead x L, q <:+: q' := by
  cases L with
  | nil => simp at h
  | cons p ps =>
    simp only [prependHead, List.mem_cons] at h ⊢
    rcases h with rfl | h
    · exact ⟨x ++ q, Or.inl rfl, ⟨x, [], by simp⟩⟩
    · exact ⟨q, Or.inr h, List.infix_refl _⟩

/-- a plain word occurring in the want occurs inside one of its pieces -/
theorem contains_piece {d : Char} {w : Str} (hw : ∀ c ∈ d :: w, isSpace c = false ∧ c ≠ '.') (n : Nat) :
    ∀ s, s.length ≤ n → contains (d :: w) s = true → ∃ p ∈ splitEllipsis s, contains (d :: w) p = true := by
  induction n with
  | zero =>
    intro s hs h
    have : s = [] := List.eq_nil_of_length_eq_zero (by omega)
    subst this
    simp [contains, startsWith, dropPrefix?] at h
  | succ n ih =>
    intro s hs h
    cases s with
    | nil => simp [contains, startsWith, dropPrefix?] at h
    | cons c s =>
      cases hsep : sepStart (c :: s) with
      | some rest =>
        have e := (sepStart_eq_some_iff.mp hsep)
        have hlen := sepStart_length hsep
        -- c :: s = blanks ++ dots ++ rest ; the word starts after the separator
        have hsplit : c :: s = ((c :: s).takeWhile isSpace ++ dots ++ rest.takeWhile isSpace) ++ rest.dropWhile isSpace := by
          calc c :: s = (c :: s).takeWhile isSpace ++ (c :: s).dropWhile isSpace := (List.takeWhile_append_dropWhile).symm
            _ = (c :: s).takeWhile isSpace ++ (dots ++ rest) := by rw [e]
            _ = (c :: s).takeWhile isSpace ++ (dots ++ (rest.takeWhile isSpace ++ rest.dropWhile isSpace)) := by
              rw [List.takeWhile_append_dropWhile]
            _ = _ := by simp
        obtain ⟨hd1, hd2⟩ := hw d (by simp)
        have hne : ∀ x ∈ (c :: s).takeWhile isSpace ++ dots ++ rest.takeWhile isSpace, x ≠ d := by
          intro x hx hxd
          subst hxd
          simp only [List.mem_append] at hx
          rcases hx with (hx | hx) | hx
          · rw [mem_takeWhile_pos hx] at hd1; cases hd1
          · simp only [dots, List.mem_cons, List.mem_nil_iff, or_false] at hx
            rcases hx with rfl | rfl | rfl <;> exact hd2 rfl
          · rw [mem_takeWhile_pos hx] at hd1; cases hd1
        rw [hsplit] at h
        have h' := contains_skip hne h
        have hl : (rest.dropWhile isSpace).length ≤ n := by
          have : (rest.dropWhile isSpace).length ≤ rest.length := (List.dropWhile_suffix _).length_le
          simp only [List.length_cons] at hs hlen
          omega
        obtain ⟨p, hp, hc⟩ := ih _ hl h'
        refine ⟨p, ?_, hc⟩
        rw [splitEllipsis_some hsep]
        exact List.mem_cons_of_mem _ hp
      | none =>
        rw [splitEllipsis_none hsep]
        simp only [contains, Bool.or_eq_true] at h
        rcases h with h | h
        · -- the word starts here: it lies in the first piece
          have hpre : (d :: w) <+: c :: s := startsWith_prefix.mp h
          obtain ⟨p, ps, e2, hp⟩ := plain_prefix_first_piece hw (c :: s) hpre
          rw [splitEllipsis_none hsep] at e2
          refine ⟨p, by rw [e2]; simp, ?_⟩
          obtain ⟨r, rfl⟩ := hp
          exact contains_iff.mpr ⟨[], r, by simp⟩
        · obtain ⟨q, hq, hc⟩ := ih s (by simp at hs; omega) h
          obtain ⟨q', hq', hin⟩ := mem_prependHead (x := [c]) hq
          exact ⟨q', hq', contains_of_infix hin hc⟩

theorem scattered_piece_infix {ws : List Str} {m p : Str} (h : Scattered ws m) (hp : p ∈ ws) : p <:+: m := by
  induction h with
  | nil s => simp at hp
  | cons x w ws r _ ih =>
    simp only [List.mem_cons] at hp
    rcases hp with rfl | hp
    · exact ⟨x, r, rfl⟩
    · exact (ih hp).trans ⟨x ++ w, [], by simp⟩

/-- ★ a plain word of the want (no whitespace, no dot) occurs in every got that matches it -/
theorem ellipsisMatch_contains {d : Char} {w : Str} (hw : ∀ c ∈ d :: w, isSpace c = false ∧ c ≠ '.')
    {g pat : Str} (hm : ellipsisMatch g pat = true) (hc : contains (d :: w) pat = true) :
    contains (d :: w) g = true := by
  by_cases hd : contains dots pat = true
  · obtain ⟨first, mids, last, hs, mid, hg, hsc⟩ := (C06.ellipsis_iff_spec g pat hd).mp hm
    obtain ⟨p, hp, hcp⟩ := contains_piece hw pat.length pat (Nat.le_refl _) hc
    rw [hs] at hp
    have hin : p <:+: g := by
      simp only [List.mem_cons, List.mem_append] at hp
      rw [hg]
      rcases hp with rfl | hp | rfl | hp
      · exact ⟨[], mid ++ last, by simp⟩
      · exact (scattered_piece_infix hsc hp).trans ⟨first, last, rfl⟩
      · exact ⟨first ++ mid, [], by simp⟩
      · simp at hp
    exact contains_of_infix hin hcp
  · have hd0 : contains dots pat = false := by simpa using hd
    have := (C06.ellipsis_no_dots g pat hd0).mp hm
    rw [this]; exact hc

end Std
end Xdoc

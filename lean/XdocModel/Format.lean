import XdocModel.Part
/-!
# Model of source display: `DoctestPart.format_part`, `DocTest.format_parts` / `format_src`,
`utils.add_line_numbers`, `utils.indent`, and the text `core.doctest_from_parts` rebuilds

Only `colored=False` (highlighting is pygments, outside the model).
-/
namespace Xdoc.Format
open Xdoc Py

/-- least `d` with `n ≤ 10^d`, searching upwards from `d` with `pow = 10^d` -/
def nDigitsAux (n : Nat) : Nat → Nat → Nat → Nat
  | 0, d, _ => d
  | fuel + 1, d, pow => if n ≤ pow then d else nDigitsAux n fuel (d + 1) (pow * 10)

/-- `int(math.ceil(math.log(max(1, endline), 10)))` as an integer function: the least `d` with
    `max 1 endline ≤ 10^d`. (The float computation agrees with it for every `endline` up to
    `10^15`; checked by the correspondence around every power of ten.) -/
def nDigits (endline : Nat) : Nat := nDigitsAux (max 1 endline) (max 1 endline) 0 1

/-- decimal digits of a number -/
def decimal (n : Nat) : Str := Nat.toDigits 10 n

/-- `'{:>w}'` : right-justify in a field of width `w` (never truncates) -/
def rjust (w : Nat) (s : Str) : Str := List.replicate (w - s.length) ' ' ++ s

/-- `'{count:{n_digits}d} {line}'` -/
def numbered (nd count : Nat) (line : Str) : Str := rjust nd (decimal count) ++ [' '] ++ line

/-- `utils.add_line_numbers(lines, start, n_digits)` on a list of lines -/
def addLineNumbersFrom (nd : Nat) : Nat → List Str → List Str
  | _, [] => []
  | count, l :: ls => numbered nd count l :: addLineNumbersFrom nd (count + 1) ls

def addLineNumbers (lines : List Str) (start : Nat) (nd : Option Nat) : List Str :=
  let nd := nd.getD (nDigits (start + lines.length))
  addLineNumbersFrom nd start lines

/-- `str.replace('\n', '\n' + prefix)` -/
def replaceNL (pre : Str) : Str → Str
  | [] => []
  | c :: s => if c = '\n' then '\n' :: pre ++ replaceNL pre s else c :: replaceNL pre s

/-- `utils.indent(text, prefix)` -/
def indent (text : Str) (pre : Str) : Str := pre ++ replaceNL pre text

structure FmtOpts where
  linenos : Bool := true
  want : Bool := true
  startline : Nat := 1
  nDigits : Option Nat := none
  partnos : Bool := false
  prefix_ : Bool := true
  deriving Repr

/-- `repr` of `partno` inside `'(p{}) {}'.format(self.partno, line)` -/
def partnoText : Option Nat → Str
  | none => "None".toList
  | some n => decimal n

/-- `want_text = self.want if self.want else ''` (an empty want text is falsy, hence `''` too) -/
def wantText (p : Part) : Str :=
  match p.want with
  | some w => w
  | none => []

/-- the two line lists `format_part` builds: `(part_lines, want_lines)` -/
def formatPartLines (p : Part) (o : FmtOpts) : List Str × List Str :=
  let srcText : Str :=
    if o.prefix_ then
      match p.origLines with
      | none => indent p.source ">>> ".toList
      | some ls => joinWith ['\n'] ls
    else p.source
  let wantText : Str := wantText p
  let nd := match o.nDigits with
    | some d => d
    | none => nDigits (o.startline + p.nLines)
  let partLines := splitLines srcText
  let nSpaces := 0
  let (partLines, nSpaces) :=
    if o.linenos then (addLineNumbers partLines (o.startline + p.lineOffset) (some nd), nSpaces + nd + 1)
    else (partLines, nSpaces)
  let (partLines, nSpaces) :=
    if o.partnos then (partLines.map fun l => "(p".toList ++ partnoText p.partno ++ ") ".toList ++ l, nSpaces + 4 + 1)
    else (partLines, nSpaces)
  let wantLines :=
    if wantText.isEmpty then []
    else if o.want then (splitLines wantText).map fun l => List.replicate nSpaces ' ' ++ l
    else []
  (partLines, wantLines)

/-- `DoctestPart.format_part(...)` with `colored=False` -/
def formatPart (p : Part) (o : FmtOpts) : Str :=
  let (pl, wl) := formatPartLines p o
  let partText := joinWith ['\n'] pl
  if wl.isEmpty then partText else partText ++ ['\n'] ++ joinWith ['\n'] wl

structure SrcOpts where
  linenos : Bool := true
  want : Bool := true
  offsetLinenos : Bool := false
  prefix_ : Bool := true
  partnos : Bool := false
  deriving Repr

/-- the options `format_parts` hands to every part: ONE start line and ONE digit count -/
def partOpts (parts : List Part) (lineno : Nat) (o : SrcOpts) : FmtOpts :=
  let startline := if o.linenos && o.offsetLinenos then lineno else 1
  let nd : Option Nat :=
    if o.linenos then some (nDigits (startline + (parts.map Part.nLines).sum)) else none
  { linenos := o.linenos, want := o.want, startline := startline, nDigits := nd, partnos := o.partnos,
    prefix_ := o.prefix_ }

/-- `DocTest.format_parts(...)` (a list; the code yields) -/
def formatParts (parts : List Part) (lineno : Nat) (o : SrcOpts) : List Str :=
  parts.map fun p => formatPart p (partOpts parts lineno o)

/-- `DocTest.format_src(...)` -/
def formatSrc (parts : List Part) (lineno : Nat) (o : SrcOpts) : Str :=
  joinWith ['\n'] (formatParts parts lineno o)

/-- the lines `core.doctest_from_parts` joins (before `textwrap.dedent`):
    `p.orig_lines if p.want is None else p.orig_lines + p.want.splitlines()` -/
def fromPartsLines (parts : List Part) : List Str :=
  parts.flatMap fun p =>
    match p.want with
    | none => p.origLines.getD []
    | some w => p.origLines.getD [] ++ splitLines w

end Xdoc.Format

import XdocModel.Py.Dedent
import XdocModel.Re.Ansi
import XdocModel.Re.Prefix
import XdocModel.Re.Blankline
import XdocModel.Re.Ellipsis
import XdocModel.Re.Traceback
/-!
# Model of `xdoctest/checker.py`
-/
namespace Xdoc
open Py Re

/-- the runtime flags `checker.py` reads -/
structure Flags where
  ellipsis : Bool
  normWs : Bool          -- NORMALIZE_WHITESPACE
  ignWs : Bool           -- IGNORE_WHITESPACE
  normRepr : Bool        -- NORMALIZE_REPR
  noBlank : Bool         -- DONT_ACCEPT_BLANKLINE
  ignDetail : Bool := false   -- IGNORE_EXCEPTION_DETAIL
  deriving DecidableEq, Repr

/-- value of a boolean key of `directive.DEFAULT_RUNTIME_STATE` (regenerated from the code) -/
def defaultBool (k : String) : Bool := (Generated.defaultRuntimeStateBools.lookup k).getD false

/-- `RuntimeState()` seen by the checker -/
def defaultFlags : Flags :=
  { ellipsis := defaultBool "ELLIPSIS", normWs := defaultBool "NORMALIZE_WHITESPACE",
    ignWs := defaultBool "IGNORE_WHITESPACE", normRepr := defaultBool "NORMALIZE_REPR",
    noBlank := defaultBool "DONT_ACCEPT_BLANKLINE", ignDetail := defaultBool "IGNORE_EXCEPTION_DETAIL" }

/-- `checker._check_match` -/
def checkMatch (f : Flags) (got want : Str) : Bool :=
  got == want || (f.ellipsis && ellipsisMatch got want)

/-- `visible_text`: lines (with their terminators) that end in a bare `\r` are erased -/
def eraseCrLines (s : Str) : Str :=
  ((splitLinesKeep s).filter fun l => !(l.getLast? == some '\r')).flatten

/-- the always-on, per-string part of `checker.normalize` that does not depend on the flags
    (except for the blank-line marker, which only concerns `want`) -/
def baseNorm (acceptBlank : Bool) (s : Str) : Str :=
  let s := stripAnsi s
  let s := removePrefixes 'u' 'U' s
  let s := removePrefixes 'b' 'B' s
  let s := if acceptBlank then removeBlanklineMarker s else s
  let s := stripTrailingWs s
  let s := rstrip s
  eraseCrLines s

/-- whitespace normalisation selected by the flags -/
def wsNorm (f : Flags) (s : Str) : Str :=
  let s := if f.normWs || f.ignWs then collapse s else s
  if f.ignWs then deleteWs s else s

/-- everything `normalize` does to one string before the quote step -/
def norm1 (f : Flags) (isWant : Bool) (s : Str) : Str :=
  wsNorm f (baseNorm (isWant && !f.noBlank) s)

/-- `a[1:-1]` if `a.startswith(q) and a.endswith(q)` -/
def unquote? (q : Char) (a : Str) : Option Str :=
  if a.head? == some q && a.getLast? == some q then some (a.drop 1).dropLast else none

/-- `norm_repr(a, b)` inside `checker.normalize` (first argument plays the role of `got`) -/
def normReprStep (f : Flags) (a b : Str) : Str :=
  if checkMatch f a b then a
  else
    match unquote? '"' a with
    | some a' => if checkMatch f a' b then a' else
        (match unquote? '\'' a with
         | some a'' => if checkMatch f a'' b then a'' else a
         | none => a)
    | none =>
      match unquote? '\'' a with
      | some a'' => if checkMatch f a'' b then a'' else a
      | none => a

/-- `checker.normalize(got, want, runstate)` -/
def normalize (f : Flags) (got want : Str) : Str × Str :=
  let g := norm1 f false got
  let w := norm1 f true want
  if f.normRepr then
    let g' := normReprStep f g w
    let w' := normReprStep f w g'
    (g', w')
  else (g, w)

/-- `checker.check_output(got, want, runstate)` -/
def checkOutput (f : Flags) (got want : Str) : Bool :=
  if want.isEmpty then true
  else if got == want then true
  else
    let (g, w) := normalize f got want
    checkMatch f g w

/-! ## exceptions -/

/-- `checker.extract_exc_want` -/
def extractExcWant (want : Str) : Option Str := excSearch (codeblock want)

/-- `checker._strip_exception_details` -/
def stripExceptionDetails (msg : Str) : Str :=
  let line1 := msg.takeWhile (· != '\n')
  let upToColon := line1.takeWhile (· != ':')
  -- after the last '.' before the colon
  ((upToColon.reverse.takeWhile (· != '.')).reverse)

/-- result of `checker.check_exception`: `none` = the original exception is re-raised
    (want is not a traceback block), `some b` = the comparison was made -/
def checkException (f : Flags) (excGot want : Str) : Option Bool :=
  match extractExcWant want with
  | none => none
  | some excWant =>
    if checkOutput f excGot excWant then some true
    else if f.ignDetail then
      let w1 := stripExceptionDetails excWant
      some (!w1.isEmpty && checkOutput f (stripExceptionDetails excGot) w1)
    else some false

/-! ## got vs want -/

/-- what the evaluation of the final expression produced -/
inductive EvalResult where
  | notEvaled                 -- `constants.NOT_EVALED`
  | value (repr : Str)        -- `repr(value)` succeeded with this text
  | reprRaises                -- `repr(value)` raises
  deriving DecidableEq, Repr

inductive GotWant where
  | ok | differs | reprError
  deriving DecidableEq, Repr

/-- `checker.check_got_vs_want` on the pinned tree. `reprError` stands for
    `ExtractGotReprException`; in the stdout+value fallback the pinned code calls `repr`
    unprotected, which is modelled as `reprError` as well (the ladder in `Example` decides
    what becomes of it). -/
def checkGotVsWant (f : Flags) (want stdout : Str) (ev : EvalResult) : GotWant :=
  match ev with
  | .notEvaled => if checkOutput f stdout want then .ok else .differs
  | .value r =>
    if stdout.isEmpty then (if checkOutput f r want then .ok else .differs)
    else if checkOutput f stdout want then .ok
    else if checkOutput f r want then .ok else .differs
  | .reprRaises =>
    if stdout.isEmpty then .reprError
    else if checkOutput f stdout want then .ok else .reprError

end Xdoc

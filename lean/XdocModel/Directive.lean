import XdocModel.Py.Str
import XdocModel.Generated
/-!
# Model of `xdoctest/directive.py` : directives, their effects, `RuntimeState`

Python dicts/sets become association lists / duplicate-free lists. The persistent ("global")
state and the inline overlay are kept apart exactly as `_global_state` / `_inline_state`.
Requirement evaluation (`_is_requires_satisfied`: platform, argv, environment, module existence) is
an oracle `sat : Str → Option Bool` (`none` = the real function raises `ValueError`/`KeyError`).
-/
namespace Xdoc
open Py

structure Directive where
  name : String
  positive : Bool := true
  args : List Str := []
  inline : Bool := false
  deriving DecidableEq, Repr

inductive Effect where
  | noop
  | assign (key : String) (v : Bool)
  | setAdd (key : String) (v : Str)
  | setRemove (key : String) (v : Str)
  | setReportStyle (key : String)
  deriving DecidableEq, Repr

/-- `Directive.effects()`; `none` = requirement evaluation raises -/
def Directive.effects (sat : Str → Option Bool) (d : Directive) : Option (List Effect) :=
  if d.name == "REQUIRES" then
    d.args.mapM fun a =>
      match sat a with
      | none => none
      | some true => some Effect.noop
      | some false => some (if d.positive then Effect.setAdd "REQUIRES" a else Effect.setRemove "REQUIRES" a)
  else if d.name.startsWith "REPORT_" then
    some [if d.positive then Effect.noop else Effect.setReportStyle d.name]
  else
    some [Effect.assign d.name d.positive]

/-! ## association lists with Python `dict` semantics (assignment keeps the position of an existing key) -/

def alSet (k : String) (v : Bool) : List (String × Bool) → List (String × Bool)
  | [] => [(k, v)]
  | (k', v') :: r => if k' == k then (k, v) :: r else (k', v') :: alSet k v r

def alGet (k : String) (l : List (String × Bool)) : Option Bool := l.lookup k

def setInsert (v : Str) (s : List Str) : List Str := if s.contains v then s else s ++ [v]
def setErase (v : Str) (s : List Str) : List Str := s.filter (· != v)

/-- `RuntimeState` : `_global_state` (booleans + the REQUIRES set) and `_inline_state` -/
structure RState where
  gBools : List (String × Bool)
  gReq : List Str := []
  iBools : List (String × Bool) := []
  iReq : Option (List Str) := none
  deriving DecidableEq, Repr

namespace RState

/-- `copy.deepcopy(DEFAULT_RUNTIME_STATE)` (table regenerated from the code) updated with
    boolean defaults (`--options`, `default_runtime_state`) -/
def init (defaults : List (String × Bool)) : RState :=
  { gBools := defaults.foldl (fun acc kv => alSet kv.1 kv.2 acc) Generated.defaultRuntimeStateBools }

/-- `runstate[key]` for a boolean key (`none` = `KeyError`) -/
def getBool (s : RState) (k : String) : Option Bool :=
  match alGet k s.gBools with
  | none => none
  | some g => some ((alGet k s.iBools).getD g)

/-- `runstate['REQUIRES']` -/
def requires (s : RState) : List Str := s.iReq.getD s.gReq

/-- `set_report_style(choice)` on the persistent state: every `REPORT_*` off, then the chosen on -/
def setReportStyle (s : RState) (key : String) : RState :=
  let cleared := s.gBools.map fun (k, v) => if k.startsWith "REPORT_" then (k, false) else (k, v)
  { s with gBools := alSet key true cleared }

def applyEffect (inline : Bool) (s : RState) : Effect → RState
  | .noop => s
  | .setReportStyle key => s.setReportStyle key      -- always the persistent state (sic)
  | .assign k v =>
    if inline then { s with iBools := alSet k v s.iBools } else { s with gBools := alSet k v s.gBools }
  | .setAdd _ v =>
    if inline then { s with iReq := some (setInsert v (s.iReq.getD s.gReq)) }
    else { s with gReq := setInsert v s.gReq }
  | .setRemove _ v =>
    if inline then { s with iReq := some (setErase v (s.iReq.getD s.gReq)) }
    else { s with gReq := setErase v s.gReq }

def applyDirective (sat : Str → Option Bool) (s : RState) (d : Directive) : Option RState :=
  (d.effects sat).map fun es => es.foldl (applyEffect d.inline) s

/-- `RuntimeState.update(directives)` : clears the overlay first. `none` = raises. -/
def update (sat : Str → Option Bool) (s : RState) (ds : List Directive) : Option RState :=
  ds.foldlM (applyDirective sat) { s with iBools := [], iReq := none }

/-- the skip test of the run loop: `runstate['SKIP'] or len(runstate['REQUIRES']) > 0` -/
def skips (s : RState) : Bool := (s.getBool "SKIP").getD false || !s.requires.isEmpty

/-- `to_dict()` restricted to booleans, canonical order = key order of the persistent state -/
def toBools (s : RState) : List (String × Bool) :=
  s.gBools.map fun (k, g) => (k, (alGet k s.iBools).getD g)

end RState

/-! ## option strings -/

/-- `_split_opstr` : split at commas outside parentheses, strip; `none` = unbalanced
    (`stack.pop()` on an empty stack → IndexError, or the final `assert`) -/
def splitOpstrGo : Str → Nat → Str → List Str → Option (List Str)
  | [], depth, cur, acc => if depth == 0 then some (acc ++ [strip cur.reverse]) else none
  | c :: s, depth, cur, acc =>
    if c == ',' && depth == 0 then splitOpstrGo s depth [] (acc ++ [strip cur.reverse])
    else if c == '(' then splitOpstrGo s (depth + 1) (c :: cur) acc
    else if c == ')' then
      (if depth == 0 then none else splitOpstrGo s (depth - 1) (c :: cur) acc)
    else splitOpstrGo s depth (c :: cur) acc

def splitOpstr (s : Str) : Option (List Str) := splitOpstrGo s 0 [] []

def upperAscii (c : Char) : Char :=
  if 'a'.toNat ≤ c.toNat && c.toNat ≤ 'z'.toNat then Char.ofNat (c.toNat - 32) else c
def lowerAscii (c : Char) : Char :=
  if 'A'.toNat ≤ c.toNat && c.toNat ≤ 'Z'.toNat then Char.ofNat (c.toNat + 32) else c

/-- `directive.COMMANDS` (keys of the regenerated default state + REQUIRES) -/
def commands : List String :=
  Generated.defaultRuntimeStateBools.map (·.1) ++ Generated.defaultRuntimeStateSets ++ ["REQUIRES"]

/-- `parse_directive_optstr(optpart, inline)`; `none` = unknown directive (a warning) -/
def parseDirectiveOptstr (optpart : Str) (inline : Bool) : Option Directive :=
  let s := (strip optpart).filter (· != ' ')
  let (head, args) :=
    match findIdx? '(' s with
    | some p =>
      let after := s.drop (p + 1)
      -- `optpart[paren_pos + 1 : optpart.find(')')]` with Python slice semantics
      let body :=
        match findIdx? ')' s with
        | some q => if q ≥ p + 1 then after.take (q - (p + 1)) else []
        | none => after.dropLast      -- find = -1 : slice [p+1:-1]
      (s.take p, (splitOn ',' body).map strip)
    | none => (s, [])
  let (positive, name) :=
    match head with
    | '+' :: r => (true, r)
    | '-' :: r => (false, r)
    | _ => (true, head)
  let name := String.ofList (name.map upperAscii)
  if commands.contains name then some { name := name, positive := positive, args := args, inline := inline }
  else none

/-- `DIRECTIVE_RE.match(text)` (IGNORECASE): `x?doctest:\s*(.*)` or `x?doc:\s*(.*)`; returns the
    option string (the group; `.` does not match `\n`, so up to the end of the line) -/
def directiveReMatch (text : Str) : Option Str :=
  let t := match text with
    | c :: r => if lowerAscii c == 'x' then
        (if (dropPrefix? "doc".toList (r.map lowerAscii |>.take 3)).isSome then r else text) else text
    | [] => text
  let low := t.map lowerAscii
  let rest? :=
    match dropPrefix? "doctest:".toList (low.take 8) with
    | some _ => some (t.drop 8)
    | none =>
      match dropPrefix? "doc:".toList (low.take 4) with
      | some _ => some (t.drop 4)
      | none => none
  rest?.map fun r => (r.dropWhile isSpace).takeWhile (· != '\n')

end Xdoc

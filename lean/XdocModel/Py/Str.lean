import XdocModel.Py.Char
/-!
# Python `str` methods on `List Char`

Only what xdoctest uses. Every function is total and structurally recursive, so that it
reduces in the kernel (`decide`) and compiles into the native driver.
-/
namespace Xdoc.Py

variable {α : Type} [DecidableEq α]

/-- `s = p ++ r  ↦  some r` (Python: `s.startswith(p)` and `s[len(p):]`). -/
def dropPrefix? : List α → List α → Option (List α)
  | [], s => some s
  | _ :: _, [] => none
  | a :: p, b :: s => if a = b then dropPrefix? p s else none

def startsWith (p s : List α) : Bool := (dropPrefix? p s).isSome

/-- `s = r ++ p ↦ some r` (Python: `s.endswith(p)` and `s[:len(s)-len(p)]`). -/
def dropSuffix? (p s : List α) : Option (List α) :=
  (dropPrefix? p.reverse s.reverse).map List.reverse

def endsWith (p s : List α) : Bool := (dropSuffix? p s).isSome

/-- `w in s` -/
def contains (w : List α) : List α → Bool
  | [] => startsWith w []
  | c :: s => startsWith w (c :: s) || contains w s

/-- `s.rstrip()` -/
def rstrip (s : Str) : Str := (s.reverse.dropWhile isSpace).reverse
/-- `s.lstrip()` -/
def lstrip (s : Str) : Str := s.dropWhile isSpace
/-- `s.strip()` -/
def strip (s : Str) : Str := rstrip (lstrip s)

/-- `s.split(sep)` for a one-character separator. -/
def splitOn (sep : α) : List α → List (List α)
  | [] => [[]]
  | c :: s =>
    let r := splitOn sep s
    if c = sep then [] :: r else (c :: r.headD []) :: r.tail

/-- `sep.join(xs)` -/
def joinWith (sep : List α) : List (List α) → List α
  | [] => []
  | [x] => x
  | x :: y :: xs => x ++ sep ++ joinWith sep (y :: xs)

/-- `s.splitlines(keepends=True)` -/
def splitLinesKeep : Str → List Str
  | [] => []
  | [c] => [[c]]
  | c :: d :: s =>
    if c = '\r' ∧ d = '\n' then [c, d] :: splitLinesKeep s
    else if isLineBreak c then [c] :: splitLinesKeep (d :: s)
    else match splitLinesKeep (d :: s) with
      | [] => [[c]]
      | l :: ls => (c :: l) :: ls

/-- remove the line terminator kept by `splitLinesKeep` -/
def chompLine (l : Str) : Str :=
  match l.reverse with
  | '\n' :: '\r' :: r => r.reverse
  | c :: r => if isLineBreak c then r.reverse else l
  | [] => l

/-- `s.splitlines()` -/
def splitLines (s : Str) : List Str := (splitLinesKeep s).map chompLine

/-- `s.split()` : split on runs of whitespace, no empty words. `acc` is the current word, reversed. -/
def wordsAux : Str → Str → List Str
  | acc, [] => if acc.isEmpty then [] else [acc.reverse]
  | acc, c :: s =>
    if isSpace c then (if acc.isEmpty then wordsAux [] s else acc.reverse :: wordsAux [] s)
    else wordsAux (c :: acc) s

def words (s : Str) : List Str := wordsAux [] s

/-- `' '.join(s.split())` -/
def collapse (s : Str) : Str := joinWith [' '] (words s)

/-- `re.sub(r'\s', '', s)` -/
def deleteWs (s : Str) : Str := s.filter (fun c => !isSpace c)

/-- `s.count(c)` -/
def countChar (c : α) (s : List α) : Nat := s.count c

/-- `s.find(c)` as an option -/
def findIdx? (c : α) : List α → Option Nat
  | [] => none
  | d :: s => if d = c then some 0 else (findIdx? c s).map (· + 1)

/-- `s.rfind(c)` as an option -/
def rfindIdx? (c : α) (s : List α) : Option Nat :=
  (findIdx? c s.reverse).map (fun i => s.length - 1 - i)

/-- leading-run length -/
def spanLen (p : α → Bool) : List α → Nat
  | [] => 0
  | c :: s => if p c then spanLen p s + 1 else 0

end Xdoc.Py

import XdocModel.Py.Str
/-!
# `textwrap.dedent` (CPython 3.12) and `utils.codeblock`

Whitespace-only lines (`^[ \t]+$`) are emptied; the margin is the longest common prefix of the
leading `[ \t]*` of all remaining non-empty lines; the margin is removed from every line
that starts with it. Lines are separated by `\n` only.
-/
namespace Xdoc.Py

def commonPrefix {α : Type} [DecidableEq α] : List α → List α → List α
  | a :: as, b :: bs => if a = b then a :: commonPrefix as bs else []
  | _, _ => []

def dedentLines (ls : List Str) : List Str :=
  let ls := ls.map fun l => if l.all isBlank then [] else l
  let indents := ls.filterMap fun l => if l.isEmpty then none else some (l.takeWhile isBlank)
  match indents with
  | [] => ls
  | i :: is =>
    let margin := is.foldl commonPrefix i
    ls.map fun l => (dropPrefix? margin l).getD l

def dedent (s : Str) : Str := joinWith ['\n'] (dedentLines (splitOn '\n' s))

/-- `s.strip('\n')` -/
def stripNL (s : Str) : Str :=
  ((s.dropWhile (· == '\n')).reverse.dropWhile (· == '\n')).reverse

/-- `utils.codeblock` -/
def codeblock (s : Str) : Str := stripNL (dedent s)

end Xdoc.Py

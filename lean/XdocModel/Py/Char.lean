/-!
# Python character classes on Unicode scalar values

Hand-written tables, compared with the running interpreter on every scalar value by
`harness/corr/tables.py` on every check run (so they are *checked*, not trusted).
-/
namespace Xdoc

abbrev Str := List Char

namespace Py

/-- Python `str.isspace` on one code point == regex `\s` (str pattern) : 29 code points. -/
def isSpace (c : Char) : Bool :=
  let n := c.toNat
  (0x09 ≤ n && n ≤ 0x0D) || (0x1C ≤ n && n ≤ 0x20) || n == 0x85 || n == 0xA0 || n == 0x1680 ||
  (0x2000 ≤ n && n ≤ 0x200A) || n == 0x2028 || n == 0x2029 || n == 0x202F || n == 0x205F ||
  n == 0x3000

/-- characters at which `str.splitlines` breaks a line (besides the pair `\r\n`). -/
def isLineBreak (c : Char) : Bool :=
  let n := c.toNat
  n == 0x0A || n == 0x0B || n == 0x0C || n == 0x0D || n == 0x1C || n == 0x1D || n == 0x1E ||
  n == 0x85 || n == 0x2028 || n == 0x2029

/-- `[ \t]` -/
def isBlank (c : Char) : Bool := c == ' ' || c == '\t'

def isQuote (c : Char) : Bool := c == '\'' || c == '"'

/-- ASCII part of `\w`; the non-ASCII part comes from `Generated.wordRanges`. -/
def isAsciiWord (c : Char) : Bool :=
  let n := c.toNat
  (0x30 ≤ n && n ≤ 0x39) || (0x41 ≤ n && n ≤ 0x5A) || (0x61 ≤ n && n ≤ 0x7A) || n == 0x5F

def inRanges (rs : List (Nat × Nat)) (n : Nat) : Bool :=
  rs.any fun (lo, hi) => lo ≤ n && n ≤ hi

/- The elaborator's `whnf` runs away on these comparisons against large literals when a
   definition that uses them is compiled by the equation compiler; the predicates are therefore
   irreducible for the elaborator (unfold them explicitly with `unfold`/`simp [isSpace]`).
   The kernel ignores the attribute: concrete witnesses are proved with `decide +kernel`. -/
attribute [irreducible] isSpace isLineBreak isAsciiWord

theorem isLineBreak_isSpace {c : Char} (h : isLineBreak c = true) : isSpace c = true := by
  unfold isLineBreak at h; unfold isSpace
  simp only [Bool.or_eq_true, beq_iff_eq, Bool.and_eq_true, decide_eq_true_eq] at *
  omega

theorem isBlank_isSpace {c : Char} (h : isBlank c = true) : isSpace c = true := by
  simp only [isBlank, Bool.or_eq_true, beq_iff_eq] at h
  rcases h with rfl | rfl <;> decide +kernel

end Py
end Xdoc

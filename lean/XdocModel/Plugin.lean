import XdocModel.Runner
/-!
# Model of the pytest plugin (`plugin.py`) next to the native runner

Both front ends obtain the doctests of a module from the same `core.parse_doctestables` call
(collection: C07) and run each with `DocTest.run` (model: `Example.lean`).  They differ in
* the force-disable test (`is_disabled(pytest=True)` knows one more pattern) and what it leads to
  (pytest: the item is reported `skipped`; native `all`: the doctest is left out),
* `on_error` (`raise` under pytest, `return` natively) and `DocTest.mode` (`pytest`: an all-skipped
  run calls `pytest.skip()` inside `run`; `native`: the summary says `skipped`),
* how the outcome is read off: pytest = did `runtest` raise / skip / return (plus the
  `anything_ran()` test), native = the flags of the returned summary.

`pytestVerdict` and `nativeVerdict` are functions of the outcome of the SAME run-loop model on the
same parts, requirement oracle `sat`, execution oracle `sem`, import oracle and directive defaults;
only `on_error` and the mode differ (`pytestCfg`, `nativeCfg`).
-/
namespace Xdoc
open Py

inductive Verdict where
  | passed | failed | skipped
  deriving DecidableEq, Repr

variable {Env : Type}

/-- `XDoctestItem.runtest` runs `self.dtest.run(on_error='raise')`; the plugin never sets
    `dtest.mode`, which defaults to `'pytest'` -/
def pytestCfg (defaults : List (String × Bool)) (importOk : Bool) : RunCfg :=
  { onError := .raise, importOk := importOk, pytestMode := true, defaults := defaults }

/-- `DocTest.anything_ran()` : `len(self.logged_stdout) > 0` -/
def anythingRan (o : RunOutcome Env) : Bool := !o.state.logged.isEmpty

/-- outcome pytest reports for the item, given how `dtest.run(on_error='raise')` ended:
    an exception out of `runtest` (a recorded failure that is re-raised, or the one that escapes) is
    `failed`; `pytest.skip()` (inside `run`, or after it when nothing ran) is `skipped` -/
def pytestVerdictOfRun (o : RunOutcome Env) : Verdict :=
  match o.ending with
  | .raised _ => .failed
  | .escaped => .failed
  | .pytestSkip => .skipped
  | .returned => if anythingRan o then .passed else .skipped

/-- `XDoctestItem.runtest` -/
def pytestVerdict (docsrc : Str) (o : RunOutcome Env) : Verdict :=
  if isDisabled true docsrc then .skipped else pytestVerdictOfRun o

/-- the branch order of `_run_examples` (and of the `SKIPPED / SUCCESS / FAILURE` line of
    `_post_run`) : skipped, else passed, else failed -/
def verdictOfSummary (s : Summary) : Verdict :=
  if s.skipped then .skipped else if s.passed then .passed else .failed

/-- what the native runner reports for a doctest it runs; `none` = the run is aborted by an
    exception (or interrupted) and no verdict is reported -/
def nativeVerdictOfResult : RunResult → Option Verdict
  | .summary s => some (verdictOfSummary s)
  | _ => none

def nativeVerdict (o : RunOutcome Env) : Option Verdict := nativeVerdictOfResult (resultOfRun o)

/-! ## the reports of the two front ends for a module -/

/-- pytest: one item per collected doctest, named by its unique callname (`XDoctestModule.collect`) -/
def pytestItems (docs : List Doc) : List Str := docs.map (·.uniqueCallname)

/-- native `all`: the doctests that are not force-disabled (native pattern list) -/
def nativeRun (docs : List Doc) : List Doc := docs.filter fun d => !isDisabled false d.docsrc

/-- exit status of the pytest process as far as it depends on the items' outcomes (pytest's own
    convention, trusted): 5 when nothing was collected, 1 when an item failed, else 0 -/
def pytestExit (vs : List Verdict) : Nat :=
  if vs.isEmpty then 5 else if vs.contains .failed then 1 else 0

/-! ## options -/

/-- argparse `type=str_lower` of `--options` / `--xdoctest-options` (ASCII; other cased letters
    are outside the model) -/
def strLower (s : Str) : Str := s.map lowerAscii

/-- `DoctestConfig._populate_from_cli(ns)['default_runtime_state']` : every comma-separated piece
    is parsed as a directive; `none` = `Exception('Failed to parse directive …')`.  A dict
    assignment becomes `alSet`. -/
def populateFromCli (options : Option Str) : Option (List (String × Bool)) :=
  match options with
  | none => some []
  | some [] => some []
  | some s =>
    (splitOn ',' s).foldlM (fun acc piece =>
      (parseDirectiveOptstr piece false).map fun d => alSet d.name d.positive acc) []

/-- native CLI: `--options`, else the `options` of `pyproject.toml` / `xdoctest_options` of
    `pytest.ini` in the working directory (`fileOptions`, not lower-cased), else `''` -/
def nativeDefaults (cli : Option Str) (fileOptions : Str := []) : Option (List (String × Bool)) :=
  populateFromCli (some (match cli with | some s => strLower s | none => fileOptions))

/-- pytest: `--xdoctest-options` / `--xdoc-options` only (the ini option is not registered) -/
def pytestDefaults (cli : Option Str) : Option (List (String × Bool)) :=
  populateFromCli (cli.map strLower)

end Xdoc

import XdocModel.Py.Str
/-!
# Mini-lexer: what xdoctest needs from the (vendored, pure-Python 3.11) tokenizer

`static_analysis.is_balanced_statement(lines, only_tokens=True)` and `extract_comments` run
`_tokenize.generate_tokens` over the NON-EMPTY lines, handing each line over WITHOUT a newline
character. Consequences reproduced here (each was checked against the real function):

* a backslash at the end of a line never continues a statement (the regex wants `\\\r?\n`);
* a single-quoted string never continues on the next line; an unterminated quote is a lone
  error token and the text after it is scanned as code;
* only triple-quoted strings span lines; each line is matched on its own (a trailing backslash
  does not protect the first character of the next line);
* at a statement boundary (bracket depth 0, no open string) a whitespace-only line makes the
  tokenizer `break` out of its line loop: tokenizing stops there and the answer is "balanced";
* a column-0 `#` at a statement boundary yields a COMMENT and skips indentation processing;
* a dedent to a column that is not on the indentation stack raises `IndentationError`
  ("unbalanced" for `is_balanced_statement`, propagated by `extract_comments`);
* bracket depth is not checked for going negative; any non-zero depth at the end is
  "EOF in multi-line statement".

String prefixes, names, numbers and operators do not matter for any of this: they contain no
quote, bracket, `#` or `;`, so the scanner below walks character by character.
-/
namespace Xdoc.Lexer
open Xdoc Py

/-- remainder after the closing quote of a single-quoted string body (`\x` escapes any `x`) -/
def closeSingle (q : Char) : Str → Option Str
  | [] => none
  | c :: s =>
    if c == q then some s
    else if c == '\\' then
      match s with
      | [] => none
      | _ :: s' => closeSingle q s'
    else closeSingle q s

/-- remainder after the closing `qqq` of a triple-quoted string body, if it closes on this line -/
def closeTriple (q : Char) : Str → Option Str
  | [] => none
  | c :: s =>
    if c == '\\' then
      match s with
      | [] => none
      | _ :: s' => closeTriple q s'
    else if c == q then
      match s with
      | d :: e :: s' => if d == q && e == q then some s' else closeTriple q s
      | _ => closeTriple q s
    else closeTriple q s

/-- what scanning (part of) one line at code level found -/
structure LineScan where
  paren : Int
  openStr : Option Char := none     -- a triple-quoted string was left open
  comment : Option Str := none      -- the COMMENT token of the line, if any
  semicolon : Bool := false         -- an `;` operator token was seen
  deriving Repr, DecidableEq

/-- scan code from a token boundary; `fuel` ≥ length is always enough -/
def scanCode : Nat → Int → Bool → Str → LineScan
  | 0, p, semi, _ => { paren := p, semicolon := semi }
  | _, p, semi, [] => { paren := p, semicolon := semi }
  | fuel + 1, p, semi, c :: s =>
    if c == '#' then { paren := p, semicolon := semi, comment := some (c :: s) }
    else if c == '\'' || c == '"' then
      match s with
      | d :: e :: s' =>
        if d == c && e == c then
          (match closeTriple c s' with
           | some r => scanCode fuel p semi r
           | none => { paren := p, semicolon := semi, openStr := some c })
        else
          (match closeSingle c s with
           | some r => scanCode fuel p semi r
           | none => scanCode fuel p semi s)
      | _ =>
        (match closeSingle c s with
         | some r => scanCode fuel p semi r
         | none => scanCode fuel p semi s)
    else if c == '(' || c == '[' || c == '{' then scanCode fuel (p + 1) semi s
    else if c == ')' || c == ']' || c == '}' then scanCode fuel (p - 1) semi s
    else if c == ';' then scanCode fuel p true s
    else scanCode fuel p semi s

def scan (p : Int) (s : Str) : LineScan := scanCode s.length p false s

/-- leading whitespace of a statement line: column (tab stops of 8, form feed resets) and rest -/
def measureIndent : Nat → Str → Nat × Str
  | col, c :: s =>
    if c == ' ' then measureIndent (col + 1) s
    else if c == '\t' then measureIndent ((col / 8 + 1) * 8) s
    else if c.toNat == 0x0C then measureIndent 0 s
    else (col, c :: s)
  | col, [] => (col, [])

/-- pop the indentation stack (top first) down to `col`; `none` = the column is not on it -/
def dedentTo (col : Nat) : List Nat → Option (List Nat)
  | [] => none
  | top :: rest =>
    if col < top then (if (top :: rest).contains col then dedentTo col rest else none)
    else some (top :: rest)

inductive LexEnd where
  | ok            -- tokenizing finished normally
  | eofString     -- TokenError: EOF in multi-line string
  | eofStatement  -- TokenError: EOF in multi-line statement
  | badDedent     -- IndentationError: unindent does not match any outer indentation level
  deriving Repr, DecidableEq

structure LexState where
  openStr : Option Char := none
  paren : Int := 0
  indents : List Nat := [0]         -- top first
  comments : List Str := []         -- in order
  semicolon : Bool := false
  deriving Repr

def applyScan (st : LexState) (r : LineScan) : LexState :=
  { st with paren := r.paren, openStr := r.openStr,
            comments := match r.comment with | some c => st.comments ++ [c] | none => st.comments,
            semicolon := st.semicolon || r.semicolon }

/-- the tokenizer's loop over the (non-empty) lines -/
def lexGo : LexState → List Str → LexState × LexEnd
  | st, [] =>
    if st.openStr.isSome then (st, .eofString)
    else if st.paren == 0 then (st, .ok)
    else (st, .eofStatement)
  | st, l :: ls =>
    match st.openStr with
    | some q =>
      (match closeTriple q l with
       | some r => lexGo (applyScan { st with openStr := none } (scan st.paren r)) ls
       | none => lexGo st ls)
    | none =>
      if st.paren == 0 then
        let (col, rest) := measureIndent 0 l
        match rest with
        | [] => (st, .ok)                                   -- whitespace only: `break`
        | c :: _ =>
          if c == '#' then lexGo { st with comments := st.comments ++ [rest] } ls
          else
            let top := st.indents.headD 0
            if col > top then lexGo (applyScan { st with indents := col :: st.indents } (scan 0 rest)) ls
            else
              match dedentTo col st.indents with
              | none => (st, .badDedent)
              | some ind => lexGo (applyScan { st with indents := ind } (scan 0 rest)) ls
      else lexGo (applyScan st (scan st.paren l)) ls

def lex (lines : List Str) : LexState × LexEnd := lexGo {} (lines.filter (!·.isEmpty))

/-- `static_analysis.is_balanced_statement(lines, only_tokens=True)` -/
def isBalanced (lines : List Str) : Bool := (lex lines).2 == .ok

/-- `list(static_analysis.extract_comments(lines))`: `none` = IndentationError propagates;
    a TokenError is swallowed (the comments seen so far are kept) -/
def extractComments (lines : List Str) : Option (List Str) :=
  match lex lines with
  | (_, .badDedent) => none
  | (st, _) => some st.comments

/-- does an `;` operator occur (for syntactically valid code = what `tokenize` reports) -/
def hasSemicolon (lines : List Str) : Bool := (lex lines).1.semicolon

end Xdoc.Lexer

import XdocModel.Parser
import XdocModel.Generated
/-!
# Model of `core.parse_docstr_examples` and the per-docstring loop of `core.parse_doctestables`

Only the control flow that decides *which examples a docstring contributes, whether a warning is
emitted, and whether an exception leaves the function* is modelled. Oracle inputs (`Env`):

* `parseDoc` : `DoctestParser().parse(text)` — for the theorems that tie this file to the parser
  model it is instantiated with `parseDocOf facts` (the model `Parser.parse` plus the CPython facts);
* `googleBlocks` : `docscrape_google.split_google_docblocks(docstr)` as `(tag, body)` pairs, or the
  exception it raises (the splitter itself belongs to the google model).

A Python generator that yields examples and may then raise is the pair
`(examples yielded so far, exception that ended it)`.
-/
namespace Xdoc.CoreExamples
open Xdoc Py Parser

/-- the exception classes that matter to the control flow -/
inductive PyExc where
  | parseError (fp : FailPoint) (orig : ParseError)   -- exceptions.DoctestParseError
  | malformed                                          -- exceptions.MalformedDocstr
  | other (name : String)                              -- any other exception
  deriving DecidableEq, Repr

def PyExc.isOther : PyExc → Bool
  | .other _ => true
  | _ => false

inductive Style where
  | auto | google | freeform
  deriving DecidableEq, Repr

/-- a collected `DocTest` as far as collection is concerned -/
structure Example where
  callname : Str
  num : Nat
  parts : List PPart
  deriving Repr

structure Env where
  parseDoc : Str → Except PyExc (List Piece)
  googleBlocks : Str → Except PyExc (List (Str × Str))

/-- a generator run: what it yielded, and the exception that ended it (if any) -/
abbrev Gen := List Example × Option PyExc

def partsOf (ps : List Piece) : List PPart :=
  ps.filterMap fun p => match p with | .part q => some q | .text _ => none

def lowerAscii (c : Char) : Char :=
  if 'A'.toNat ≤ c.toNat && c.toNat ≤ 'Z'.toNat then Char.ofNat (c.toNat + 32) else c

/-- `_start_ignoring(prev)` : the previous piece is text whose stripped, lower-cased form ends with
    one of the skip patterns (`str.lower` is modelled for ASCII; see ASSUMPTIONS) -/
def startIgnoring (prev : Option Piece) : Bool :=
  match prev with
  | some (.text t) =>
    let low := (strip t).map lowerAscii
    Generated.c14FreeformSkipPatterns.any fun p => endsWith (p.toList.map lowerAscii) low
  | _ => false

/-- the loop of `parse_freeform_docstr_examples(asone=True)` : the parts that are not ignored -/
def freeformKeep : List Piece → Option Piece → Bool → List PPart
  | [], _, _ => []
  | .text t :: rest, _, _ => freeformKeep rest (some (.text t)) false
  | .part p :: rest, prev, ignoring =>
    if ignoring || startIgnoring prev then freeformKeep rest (some (.part p)) true
    else p :: freeformKeep rest (some (.part p)) false

/-- `parse_freeform_docstr_examples(docstr, asone=True)` -/
def freeform (env : Env) (callname docstr : Str) : Gen :=
  match env.parseDoc docstr with
  | .error e => ([], some e)
  | .ok ps =>
    match freeformKeep ps none false with
    | [] => ([], none)
    | kept => ([{ callname := callname, num := 0, parts := kept }], none)

def isExampleTag (tag : Str) : Bool :=
  Generated.c14ExampleTags.any fun t => startsWith t.toList tag

/-- the loop over the example blocks with `eager_parse=True`: stops at the first block that fails -/
def googleLoop (env : Env) (callname : Str) : List (Str × Str) → Nat → Gen
  | [], _ => ([], none)
  | (_, body) :: rest, num =>
    match env.parseDoc body with
    | .error e => ([], some e)
    | .ok ps =>
      let (xs, e) := googleLoop env callname rest (num + 1)
      ({ callname := callname, num := num, parts := partsOf ps } :: xs, e)

/-- `parse_google_docstr_examples(docstr)` -/
def google (env : Env) (callname docstr : Str) : Gen :=
  match env.googleBlocks docstr with
  | .error e => ([], some e)
  | .ok blocks => googleLoop env callname (blocks.filter fun b => isExampleTag b.1) 0

/-- `parse_auto_docstr_examples(docstr)` : google first; an exception is re-raised only when
    something was already yielded; with nothing found, freeform -/
def auto (env : Env) (callname docstr : Str) : Gen :=
  match google env callname docstr with
  | (x :: xs, e) => (x :: xs, e)
  | ([], _) => freeform env callname docstr

/-- the generator `parse_docstr_examples` selects for the style -/
def genOf (env : Env) (style : Style) (callname docstr : Str) : Gen :=
  match style with
  | .freeform => freeform env callname docstr
  | .google => google env callname docstr
  | .auto => auto env callname docstr

structure DocResult where
  examples : List Example
  warned : Bool
  escaped : Option PyExc
  deriving Repr

/-- `list(parse_docstr_examples(docstr, style=...))` with its warning and the exception that leaves it -/
def docExamples (env : Env) (style : Style) (callname docstr : Str) : DocResult :=
  let g : Gen := genOf env style callname docstr
  match g.2 with
  | none => { examples := g.1, warned := false, escaped := none }
  | some e =>
    -- always warn; swallow MalformedDocstr and DoctestParseError, re-raise the rest
    { examples := g.1, warned := true, escaped := if e.isOther then some e else none }

structure ModResult where
  examples : List Example
  warnings : Nat
  escaped : Option PyExc
  deriving Repr

/-- the loop of `parse_doctestables` over the docstrings `(callname, docstr)` of one module: an
    exception that leaves `parse_docstr_examples` ends the whole collection -/
def moduleExamples (env : Env) (style : Style) : List (Str × Str) → ModResult
  | [] => { examples := [], warnings := 0, escaped := none }
  | (name, doc) :: rest =>
    let r := docExamples env style name doc
    match r.escaped with
    | some e => { examples := r.examples, warnings := if r.warned then 1 else 0, escaped := some e }
    | none =>
      let m := moduleExamples env style rest
      { examples := r.examples ++ m.examples, warnings := (if r.warned then 1 else 0) + m.warnings,
        escaped := m.escaped }

/-- the wrapper at the end of `DoctestParser.parse`: whatever the three phases raise becomes a
    `DoctestParseError` carrying the fail point and the original exception -/
def parseDocOf (facts : Str → List ChunkFacts) (docstr : Str) : Except PyExc (List Piece) :=
  match Parser.parse docstr (facts docstr) with
  | .ok ps => .ok ps
  | .error (fp, e) => .error (.parseError fp e)

end Xdoc.CoreExamples

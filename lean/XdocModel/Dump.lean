import XdocModel.Format
/-!
# Model of `runner._convert_to_test_module` (the `dump` command)

One function per enabled example: `def test_<mod>_<callname>():`, a docstring header, optionally an
import line for the names pyflakes reports as undefined (an oracle input: pyflakes is not
xdoctest), then per part its exec lines minus lines containing `' import *'`, followed by the want
as `# ` comments; everything indented by four blanks. `global_exec` is `None` (the default).
-/
namespace Xdoc.Dump
open Xdoc Py Format

/-- `s.replace('.', '_')` -/
def dotsToUnderscore (s : Str) : Str := s.map fun c => if c = '.' then '_' else c

structure Example where
  modname : Str
  callname : Str
  node : Str
  parts : List Part
  /-- `sorted(undefined_names(body))`; empty also when pyflakes is missing or raises -/
  undefined : List Str := []
  deriving Repr

def funcName (e : Example) : Str :=
  "test_".toList ++ dotsToUnderscore e.modname ++ "_".toList ++ dotsToUnderscore e.callname

/-- `if ' import *' in line: continue` -/
def removeStar (lines : List Str) : List Str :=
  lines.filter fun l => !contains " import *".toList l

/-- the text of one part in the function body -/
def dumpPart (p : Part) : Str :=
  let p' := { p with execLines := removeStar p.execLines }
  let body := formatPart p' { linenos := false, want := false, prefix_ := false, partnos := false }
  match p.want with
  | some (c :: w) => body ++ ['\n'] ++ "# doctest want:\n".toList ++ indent (c :: w) "# ".toList
  | _ => body

def docstrLines (e : Example) : List Str :=
  ["\"\"\"".toList, "converted from ".toList ++ e.node, "\"\"\"".toList]

def headerLines (e : Example) : List Str :=
  match e.undefined with
  | [] => []
  | us => ["from ".toList ++ e.modname ++ " import ".toList ++ joinWith ", ".toList us]

def bodyTexts (e : Example) : List Str :=
  match e.parts.map dumpPart with
  | [] => ["...".toList]
  | bs => bs

/-- the text of one test function -/
def dumpExample (e : Example) : Str :=
  let body := joinWith ['\n'] (docstrLines e ++ headerLines e ++ bodyTexts e)
  "def ".toList ++ funcName e ++ "():\n".toList ++ indent body "    ".toList

/-- `_convert_to_test_module(enabled_examples)` -/
def dumpModule (es : List Example) : Str := joinWith "\n\n\n".toList (es.map dumpExample)

end Xdoc.Dump

import XdocModel.Checker
import XdocModel.Directive
/-!
# Reference model of the STANDARD library's `doctest` checker (CPython 3.12 `doctest.py`)

Written next to the xdoctest model so that C20 ("what passes under the standard module passes
here") can be stated between two executable functions. Only what a doctest can select with no
extra option flags plus the option directives of the property is modelled:

* `OutputChecker.check_output(want, got, optionflags)` for `optionflags ⊆ {ELLIPSIS,
  NORMALIZE_WHITESPACE}` (DONT_ACCEPT_TRUE_FOR_1 and DONT_ACCEPT_BLANKLINE are off):
  `_toAscii`, identity, the `True`/`1` rule, `<BLANKLINE>` in want, whitespace-only lines in got,
  NORMALIZE_WHITESPACE, ELLIPSIS;
* `_ellipsis_match(want, got)`: `want.split('...')` LITERALLY (no whitespace is absorbed),
  `startswith` / `endswith` anchoring, `find` of the middle pieces in order. The loop is the same
  code as `xdoctest.checker._ellipsis_match` (which was copied from here), so the index-free
  `Re.ellipsisPieces` is reused; only the split differs;
* the exception check of `DocTestRunner.__run`: `DocTestParser._EXCEPTION_RE.match(want)` (anchored
  at the start of the want, whereas xdoctest searches), comparison of the message with the last line
  of `format_exception_only`, `_strip_exception_details` under IGNORE_EXCEPTION_DETAIL.

Everything here is tied to CPython by the correspondence run of `harness/props/C20.py`
(`doctest.OutputChecker().check_output`, `doctest._ellipsis_match`, `DocTestParser._EXCEPTION_RE`,
`doctest._strip_exception_details` on the same inputs).
-/
namespace Xdoc.Std
open Xdoc Py Re

/-- the option flags of the standard module that the property's directives can switch on -/
structure StdFlags where
  ellipsis : Bool
  normWs : Bool
  ignDetail : Bool := false
  deriving DecidableEq, Repr

/-! ## `_toAscii` : `s.encode('ASCII', 'backslashreplace').decode('ASCII')` -/

def hexDigit (n : Nat) : Char := if n < 10 then Char.ofNat (48 + n) else Char.ofNat (87 + n)

/-- `w` lower-case hex digits of `n`, most significant first -/
def hexN : Nat → Nat → Str
  | 0, _ => []
  | w + 1, n => hexN w (n / 16) ++ [hexDigit (n % 16)]

def toAsciiChar (c : Char) : Str :=
  let n := c.toNat
  if n < 128 then [c]
  else if n < 256 then '\\' :: 'x' :: hexN 2 n
  else if n < 65536 then '\\' :: 'u' :: hexN 4 n
  else '\\' :: 'U' :: hexN 8 n

def toAscii (s : Str) : Str := (s.map toAsciiChar).flatten

/-! ## `<BLANKLINE>` and whitespace-only lines

`re.sub(r'(?m)^<BLANKLINE>\s*?$', '', want)`: `^` is a line start (`\n` only), the lazy `\s*?`
stops at the first position where `$` holds (before the next `\n` or at the end), so inside one
`\n`-separated line: marker, then only whitespace. The line's text is deleted, its `\n` stays.
`re.sub(r'(?m)^[^\S\n]+$', '', got)`: a non-empty line of whitespace only is emptied. -/

def blankWantLine (l : Str) : Str :=
  match dropPrefix? marker l with
  | some t => if t.all isSpace then [] else l
  | none => l

def stdBlankWant (want : Str) : Str := joinWith ['\n'] ((splitOn '\n' want).map blankWantLine)

def blankGotLine (l : Str) : Str := if l.all isSpace then [] else l

def stdBlankGot (got : Str) : Str := joinWith ['\n'] ((splitOn '\n' got).map blankGotLine)

/-! ## `_ellipsis_match` -/

/-- `want.split('...')` : leftmost, non-overlapping, nothing else is consumed -/
def splitDotsGo : Nat → Str → Str → List Str
  | 0, _, acc => [acc.reverse]
  | _, [], acc => [acc.reverse]
  | fuel + 1, c :: s, acc =>
    match dropPrefix? dots (c :: s) with
    | some rest => acc.reverse :: splitDotsGo fuel rest []
    | none => splitDotsGo fuel s (c :: acc)

def splitDots (s : Str) : List Str := splitDotsGo s.length s []

/-- `doctest._ellipsis_match(want, got)` (argument order of the model: got first) -/
def stdEllipsis (got want : Str) : Bool :=
  if !contains dots want then want == got
  else
    match splitDots want with
    | [] => false
    | [_] => false
    | first :: rest => ellipsisPieces first rest.dropLast (rest.getLast?.getD []) got

/-! ## `OutputChecker.check_output` -/

def trueFor1 (got want : Str) : Bool :=
  (got == "True\n".toList && want == "1\n".toList) || (got == "False\n".toList && want == "0\n".toList)

/-- `OutputChecker().check_output(want, got, flags)`; model argument order: got first -/
def stdCheck (f : StdFlags) (got want : Str) : Bool :=
  let got := toAscii got
  let want := toAscii want
  if got == want then true
  else if trueFor1 got want then true
  else
    let want := stdBlankWant want
    let got := stdBlankGot got
    if got == want then true
    else
      let got := if f.normWs then collapse got else got
      let want := if f.normWs then collapse want else want
      if f.normWs && got == want then true
      else f.ellipsis && stdEllipsis got want

/-! ## exceptions -/

/-- `DocTestParser._EXCEPTION_RE.match(want).group('msg')`: the regex text is the one xdoctest
    copied (`Re/Traceback.lean`), but it is applied with `match`, i.e. the header must be the
    FIRST line of the want. -/
def stdExcMatch (want : Str) : Option Str :=
  match splitOn '\n' want with
  | [] => none
  | l :: ls => if isTbHeaderLine l then firstWordLineOn ls else none

/-- `doctest._strip_exception_details` is, statement for statement, the function xdoctest copied;
    the same model function is used and both real functions are compared with it by the harness -/
def stdStripDetails (msg : Str) : Str := stripExceptionDetails msg

/-- outcome of the exception branch of `DocTestRunner.__run` for an example whose want is `want`
    when the example raised and `excGot` is the last line of `format_exception_only`:
    `none` = the example had no `exc_msg` (unexpected exception: failure), `some b` = compared -/
def stdExcCheck (f : StdFlags) (excGot want : Str) : Option Bool :=
  match stdExcMatch want with
  | none => none
  | some m =>
    some (stdCheck f excGot m ||
      (f.ignDetail && stdCheck f (stdStripDetails excGot) (stdStripDetails m)))

/-! ## what the REPL shows for one example (`single` mode): stdout followed by the echo -/

/-- the text the standard runner compares with the want: everything written to stdout while the
    example ran; in `single` mode the display hook writes `repr(value) + '\n'` there too -/
def replGot (stdout : Str) (ev : EvalResult) : Str :=
  match ev with
  | .value r => stdout ++ r ++ ['\n']
  | _ => stdout

/-! ## correspondence of flags -/

/-- the xdoctest runtime state a standard-syntax doctest runs under: the defaults (regenerated from
    `directive.DEFAULT_RUNTIME_STATE`) with the directives of the standard module switched on -/
def corrFlags (f : StdFlags) : Flags :=
  { defaultFlags with
    ellipsis := defaultFlags.ellipsis || f.ellipsis,
    normWs := defaultFlags.normWs || f.normWs,
    ignDetail := defaultFlags.ignDetail || f.ignDetail }

end Xdoc.Std

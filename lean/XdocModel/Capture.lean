import XdocModel.Py.Str
/-!
# Model of `utils.util_stream.CaptureStdout` (one object re-used for every part of a doctest)

`cap_stdout` is an `io.StringIO`: a buffer plus a file position. `write` puts text AT the file
position (overwriting what is there, extending the buffer at its end), `log_part` does
`seek(_pos); text = read(); _pos = tell()`, `start`/`stop` swap `sys.stdout`. What the doctest code
writes is an event; text written while `sys.stdout` is not the capture buffer goes to the original
stream (`outside`). A doctest that seeks in `sys.stdout` itself is outside this model.
-/
namespace Xdoc.Capture
open Xdoc

/-- the events of one `CaptureStdout` object -/
inductive Ev where
  /-- `cap.start()` (`__enter__`) -/
  | start
  /-- the code under test writes `s` to `sys.stdout` -/
  | write (s : Str)
  /-- `cap.__exit__` : `log_part()` then `stop()` -/
  | exit
  deriving DecidableEq, Repr

structure Cap where
  buf : Str := []               -- contents of `cap_stdout`
  filePos : Nat := 0            -- file position of `cap_stdout`
  pos : Nat := 0                -- `_pos` : how much has been logged
  parts : List Str := []        -- `cap.parts`
  text : Option Str := none     -- `cap.text`
  started : Bool := false
  capturing : Bool := false     -- `sys.stdout is cap_stdout`
  outside : Str := []           -- what reached the original stdout (suppress=True: only while not capturing)
  deriving DecidableEq, Repr

/-- `StringIO.write(s)` at file position `p` (for `p ≤ len(buf)`, which is an invariant here) -/
def writeAt (buf : Str) (p : Nat) (s : Str) : Str :=
  buf.take p ++ s ++ buf.drop (p + s.length)

def step (c : Cap) : Ev → Cap
  | .start => { c with text := some [], started := true, capturing := true }
  | .write s =>
    if c.capturing then { c with buf := writeAt c.buf c.filePos s, filePos := c.filePos + s.length }
    else { c with outside := c.outside ++ s }
  | .exit =>
    -- log_part: seek(_pos); text = read(); _pos = tell(); parts.append(text); then stop()
    let text := c.buf.drop c.pos
    { c with filePos := c.buf.length, pos := c.buf.length, parts := c.parts ++ [text], text := some text,
             started := false, capturing := false }

def run (evs : List Ev) (c : Cap := {}) : Cap := evs.foldl step c

/-! ## specification, written without a buffer -/

/-- the texts that must be logged: at every `exit`, everything written while capturing since the
    previous `exit` (`cap`: currently capturing; `pend`: written and not yet logged) -/
def spec : Bool → Str → List Ev → List Str
  | _, _, [] => []
  | _, pend, .start :: r => spec true pend r
  | cap, pend, .write s :: r => spec cap (if cap then pend ++ s else pend) r
  | _, pend, .exit :: r => pend :: spec false [] r

/-- what is written while capturing and not logged by the end -/
def pending : Bool → Str → List Ev → Str
  | _, pend, [] => pend
  | _, pend, .start :: r => pending true pend r
  | cap, pend, .write s :: r => pending cap (if cap then pend ++ s else pend) r
  | _, _, .exit :: r => pending false [] r

/-- everything written while capturing -/
def captured : Bool → List Ev → Str
  | _, [] => []
  | _, .start :: r => captured true r
  | cap, .write s :: r => (if cap then s else []) ++ captured cap r
  | _, .exit :: r => captured false r

/-- everything written while NOT capturing -/
def uncaptured : Bool → List Ev → Str
  | _, [] => []
  | _, .start :: r => uncaptured true r
  | cap, .write s :: r => (if cap then [] else s) ++ uncaptured cap r
  | _, .exit :: r => uncaptured false r

/-- one well-bracketed cycle: `start`, the writes of the part, `exit` -/
def cycle (writes : List Str) : List Ev := .start :: writes.map .write ++ [.exit]

/-- a run of the doctest: before each part's cycle, writes made by others (the runner itself,
    another doctest) while this object is not capturing -/
def cycles : List (List Str × List Str) → List Ev
  | [] => []
  | (before, writes) :: r => before.map .write ++ cycle writes ++ cycles r

end Xdoc.Capture

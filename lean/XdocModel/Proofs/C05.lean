import XdocModel.Checker
import XdocModel.Lemmas.Checker
import XdocModel.Lemmas.Collapse
import XdocModel.Lemmas.NormRepr
import XdocModel.Proofs.C06
/-!
# C05 — Output matching equals the documented relation for every flag combination

Property theorems only. `Flags` fields: `ellipsis normWs ignWs normRepr noBlank`
(= ELLIPSIS, NORMALIZE_WHITESPACE, IGNORE_WHITESPACE, NORMALIZE_REPR, DONT_ACCEPT_BLANKLINE).
-/
namespace Xdoc.C05
open Xdoc Py Re

/-- ★ identical texts always match -/
theorem checkOutput_refl (f : Flags) (s : Str) : checkOutput f s s = true := by
  unfold checkOutput; split <;> simp

/-- ★ an empty want matches everything (code without a want is never compared) -/
theorem checkOutput_empty_want (f : Flags) (g : Str) : checkOutput f g [] = true := by
  simp [checkOutput]

/-- what `check_output` does in general: empty want, identical, or `_check_match` on the
    normalised pair (the documented relation, step by step: `normalize`) -/
theorem checkOutput_unfold (f : Flags) (g w : Str) :
    checkOutput f g w = true ↔
      w = [] ∨ g = w ∨ checkMatch f (normalize f g w).1 (normalize f g w).2 = true := by
  unfold checkOutput
  by_cases h1 : w = []
  · simp [h1]
  · by_cases h2 : g = w
    · simp [h2]
    · simp [h1, h2]

/-- all leniencies off -/
def strictFlags : Flags :=
  { ellipsis := false, normWs := false, ignWs := false, normRepr := false, noBlank := true }

/-- ★ with every leniency switched off the comparison is exact up to the always-on removals
    (ANSI codes, string-prefix letters, per-line trailing blanks, trailing whitespace, lines
    erased by a bare carriage return): equality of `baseNorm false`. -/
theorem strict_is_base_equality (g w : Str) :
    checkOutput strictFlags g w = true ↔ w = [] ∨ g = w ∨ baseNorm false g = baseNorm false w := by
  rw [checkOutput_unfold]
  simp [normalize, norm1, wsNorm, strictFlags, checkMatch]


/-- ★ `content_preserved` (no false pass): when `...` cannot act as a wildcard (ELLIPSIS off, or
    the normalised want has no `...`), a match implies that got and want have the same
    non-whitespace characters after the documented removals — up to one pair of identical
    surrounding quotes on either side, and that only under NORMALIZE_REPR. -/
theorem content_preserved (f : Flags) (g w : Str)
    (hW : f.ellipsis = false ∨ contains dots (norm1 f true w) = false)
    (h : checkOutput f g w = true) :
    w = [] ∨ g = w ∨
      ∃ a b, UnqRel f.normRepr (deleteWs (baseNorm false g)) a ∧
             UnqRel f.normRepr (deleteWs (baseNorm (!f.noBlank) w)) b ∧ a = b := by
  rcases (checkOutput_unfold f g w).mp h with h | h | h
  · exact Or.inl h
  · exact Or.inr (Or.inl h)
  · refine Or.inr (Or.inr ?_)
    -- the two normalised texts are related to the per-string normal forms by `UnqRel`
    have key : ∃ g' w', UnqRel f.normRepr (norm1 f false g) g' ∧ UnqRel f.normRepr (norm1 f true w) w' ∧
        (normalize f g w) = (g', w') := by
      cases hnr : f.normRepr
      · exact ⟨norm1 f false g, norm1 f true w, .same _, .same _, by simp [normalize, hnr]⟩
      · exact ⟨normReprStep f (norm1 f false g) (norm1 f true w),
          normReprStep f (norm1 f true w) (normReprStep f (norm1 f false g) (norm1 f true w)),
          normReprStep_rel f _ _, normReprStep_rel f _ _, by simp [normalize, hnr]⟩
    obtain ⟨g', w', hg, hw, he⟩ := key
    rw [he] at h
    simp only at h
    -- no wildcard: the final `_check_match` is equality
    have heq : g' = w' := by
      rcases hW with hE | hD
      · exact (C06.checkMatch_ellipsis_off f g' w' hE).mp h
      · have hd' : contains dots w' = false := by
          cases hc : contains dots w' with
          | false => rfl
          | true => rw [contains_of_infix hw.infix hc] at hD; cases hD
        unfold checkMatch at h
        simp only [Bool.or_eq_true, beq_iff_eq, Bool.and_eq_true] at h
        rcases h with h | ⟨_, h⟩
        · exact h
        · exact (C06.ellipsis_no_dots g' w' hd').mp h
    refine ⟨deleteWs g', deleteWs w', ?_, ?_, by rw [heq]⟩
    · have := hg.deleteWs
      simpa [norm1, deleteWs_wsNorm] using this
    · have := hw.deleteWs
      simpa [norm1, deleteWs_wsNorm] using this

/-! ## monotonicity: switching a leniency on never turns a match into a mismatch

One theorem per switch, for all got/want and all settings of the other switches that satisfy the
stated guard. The unguarded sentence is **false** of the unchanged code: see the witnesses below. -/

/-- with NORMALIZE_REPR off, `normalize` is the two per-string normal forms -/
theorem checkOutput_nr_off (f : Flags) (hnr : f.normRepr = false) (g w : Str) :
    checkOutput f g w = true ↔
      w = [] ∨ g = w ∨ checkMatch f (norm1 f false g) (norm1 f true w) = true := by
  rw [checkOutput_unfold]; simp [normalize, hnr]

/-- ★ ELLIPSIS (guard: NORMALIZE_REPR off) -/
theorem mono_ellipsis (f : Flags) (g w : Str) (hnr : f.normRepr = false)
    (h : checkOutput { f with ellipsis := false } g w = true) :
    checkOutput { f with ellipsis := true } g w = true := by
  obtain ⟨e, nw, iw, nr, nb, d⟩ := f
  simp only at hnr; subst hnr
  rw [checkOutput_nr_off _ rfl] at h ⊢
  rcases h with h | h | h
  · exact Or.inl h
  · exact Or.inr (Or.inl h)
  · refine Or.inr (Or.inr ?_)
    have e : ∀ b s, norm1 { ellipsis := true, normWs := nw, ignWs := iw, normRepr := false, noBlank := nb, ignDetail := d } b s
        = norm1 { ellipsis := false, normWs := nw, ignWs := iw, normRepr := false, noBlank := nb, ignDetail := d } b s :=
      fun _ _ => rfl
    simp only [checkMatch, Bool.false_and, Bool.or_false, beq_iff_eq] at h
    simp only [checkMatch, Bool.or_eq_true, beq_iff_eq, e]
    exact Or.inl h

/-- ◐ NORMALIZE_WHITESPACE (guard: NORMALIZE_REPR off and ELLIPSIS off).
    Missing for the full statement: ELLIPSIS on (needs "collapse respects the piece
    decomposition"), and NORMALIZE_REPR on where the sentence is false (K-C05-a).
    Superseded by `mono_normalize_whitespace` below (ELLIPSIS guard removed). -/
theorem mono_normalize_whitespace_partial (f : Flags) (g w : Str) (hnr : f.normRepr = false)
    (he : f.ellipsis = false)
    (h : checkOutput { f with normWs := false } g w = true) :
    checkOutput { f with normWs := true } g w = true := by
  obtain ⟨e, nw, iw, nr, nb, d⟩ := f
  simp only at hnr he; subst hnr he
  rw [checkOutput_nr_off _ rfl] at h ⊢
  rcases h with h | h | h
  · exact Or.inl h
  · exact Or.inr (Or.inl h)
  · refine Or.inr (Or.inr ?_)
    simp only [checkMatch, norm1, wsNorm, Bool.false_and, Bool.or_false, beq_iff_eq,
      Bool.false_or, Bool.true_or, ↓reduceIte] at h ⊢
    cases iw
    · simp only [Bool.false_eq_true, ↓reduceIte] at h ⊢; rw [h]
    · simp only [↓reduceIte] at h ⊢; exact h

/-- ◐ IGNORE_WHITESPACE (guard: NORMALIZE_REPR off and ELLIPSIS off).
    Missing: ELLIPSIS on, where the sentence is false in class K-C05-d.
    Superseded by `mono_ignore_whitespace` below (ELLIPSIS on under the split-stability guard). -/
theorem mono_ignore_whitespace_partial (f : Flags) (g w : Str) (hnr : f.normRepr = false)
    (he : f.ellipsis = false)
    (h : checkOutput { f with ignWs := false } g w = true) :
    checkOutput { f with ignWs := true } g w = true := by
  obtain ⟨e, nw, iw, nr, nb, d⟩ := f
  simp only at hnr he; subst hnr he
  rw [checkOutput_nr_off _ rfl] at h ⊢
  rcases h with h | h | h
  · exact Or.inl h
  · exact Or.inr (Or.inl h)
  · refine Or.inr (Or.inr ?_)
    simp only [checkMatch, norm1, wsNorm, Bool.false_and, Bool.or_false, beq_iff_eq,
      Bool.or_true, Bool.or_false, ↓reduceIte, Bool.false_eq_true] at h ⊢
    cases nw
    · simp only [Bool.false_eq_true, ↓reduceIte] at h
      rw [deleteWs_collapse, deleteWs_collapse, h]
    · simp only [↓reduceIte] at h; rw [h]

/-- ★ "collapse respects the piece decomposition": the wildcard relation survives collapsing the
    whitespace runs of both texts, for ALL strings (no guard). -/
theorem ellipsisMatch_collapse (a b : Str) (h : ellipsisMatch a b = true) :
    ellipsisMatch (collapse a) (collapse b) = true := by
  by_cases hd : contains dots b = true
  · have hd' : contains dots (collapse b) = true := by rw [contains_dots_collapse]; exact hd
    obtain ⟨first, mids, last, hs, mid, ha, hm⟩ := (C06.ellipsis_iff_spec a b hd).mp h
    obtain ⟨h1, mid', h2, h3⟩ := spec_collapse hs ha hm
    exact (C06.ellipsis_iff_spec _ _ hd').mpr ⟨_, _, _, h1, mid', h2, h3⟩
  · have hd0 : contains dots b = false := by simpa using hd
    have := (C06.ellipsis_no_dots a b hd0).mp h
    subst this
    exact (C06.ellipsis_no_dots _ _ (by rw [contains_dots_collapse]; exact hd0)).mpr rfl

/-- ★ the wildcard relation survives deleting all whitespace from both texts, provided that
    deleting whitespace maps the pieces of the want one by one (otherwise false: K-C05-d). -/
theorem ellipsisMatch_deleteWs (a b : Str)
    (hg : splitEllipsis (deleteWs b) = (splitEllipsis b).map deleteWs)
    (h : ellipsisMatch a b = true) :
    ellipsisMatch (deleteWs a) (deleteWs b) = true := by
  by_cases hd : contains dots b = true
  · have hd' : contains dots (deleteWs b) = true := by rw [contains_dots_deleteWs hg]; exact hd
    obtain ⟨first, mids, last, hs, mid, ha, hm⟩ := (C06.ellipsis_iff_spec a b hd).mp h
    obtain ⟨h1, h2, h3⟩ := spec_deleteWs hg hs ha hm
    exact (C06.ellipsis_iff_spec _ _ hd').mpr ⟨_, _, _, h1, _, h2, h3⟩
  · have hd0 : contains dots b = false := by simpa using hd
    have := (C06.ellipsis_no_dots a b hd0).mp h
    subst this
    exact (C06.ellipsis_no_dots _ _ (by rw [contains_dots_deleteWs hg]; exact hd0)).mpr rfl

/-- ★ NORMALIZE_WHITESPACE (guard: NORMALIZE_REPR off only; ELLIPSIS on or off).
    With NORMALIZE_REPR on the sentence is false (K-C05-a). -/
theorem mono_normalize_whitespace (f : Flags) (g w : Str) (hnr : f.normRepr = false)
    (h : checkOutput { f with normWs := false } g w = true) :
    checkOutput { f with normWs := true } g w = true := by
  obtain ⟨e, nw, iw, nr, nb, d⟩ := f
  simp only at hnr; subst hnr
  rw [checkOutput_nr_off _ rfl] at h ⊢
  rcases h with h | h | h
  · exact Or.inl h
  · exact Or.inr (Or.inl h)
  · refine Or.inr (Or.inr ?_)
    cases iw
    · simp only [checkMatch, norm1, wsNorm, Bool.or_false, Bool.false_eq_true, ↓reduceIte,
        Bool.or_eq_true, beq_iff_eq, Bool.and_eq_true] at h ⊢
      rcases h with h | ⟨h1, h2⟩
      · exact Or.inl (by rw [h])
      · exact Or.inr ⟨h1, ellipsisMatch_collapse _ _ h2⟩
    · exact h

/-- ★ IGNORE_WHITESPACE (guard: NORMALIZE_REPR off, and ELLIPSIS off or deleting whitespace does
    not create, destroy or move an ellipsis separator of the collapsed, base-normalised want).
    Without the second guard the sentence is false (K-C05-d). -/
theorem mono_ignore_whitespace (f : Flags) (g w : Str) (hnr : f.normRepr = false)
    (hg : f.ellipsis = false ∨
      splitEllipsis (deleteWs (collapse (baseNorm (!f.noBlank) w))) =
        (splitEllipsis (collapse (baseNorm (!f.noBlank) w))).map deleteWs)
    (h : checkOutput { f with ignWs := false } g w = true) :
    checkOutput { f with ignWs := true } g w = true := by
  rcases hg with he | hg
  · exact mono_ignore_whitespace_partial f g w hnr he h
  obtain ⟨e, nw, iw, nr, nb, d⟩ := f
  simp only at hnr hg; subst hnr
  rw [checkOutput_nr_off _ rfl] at h ⊢
  rcases h with h | h | h
  · exact Or.inl h
  · exact Or.inr (Or.inl h)
  · refine Or.inr (Or.inr ?_)
    simp only [checkMatch, norm1, wsNorm, Bool.or_true, Bool.or_false, ↓reduceIte,
      Bool.or_eq_true, beq_iff_eq, Bool.and_eq_true, Bool.true_and, Bool.false_eq_true] at h ⊢
    cases nw
    · simp only [Bool.false_eq_true, ↓reduceIte] at h
      rcases h with h | ⟨h1, h2⟩
      · exact Or.inl (by rw [h])
      · exact Or.inr ⟨h1, ellipsisMatch_deleteWs _ _ hg (ellipsisMatch_collapse _ _ h2)⟩
    · simp only [↓reduceIte] at h
      rcases h with h | ⟨h1, h2⟩
      · exact Or.inl (by rw [h])
      · exact Or.inr ⟨h1, ellipsisMatch_deleteWs _ _ hg h2⟩

/-- the guard of `mono_ignore_whitespace` in the form of DESIGN.md (`deleteWs ∘ collapse = deleteWs`) -/
theorem ignWs_guard_iff (w : Str) :
    splitEllipsis (deleteWs (collapse w)) = (splitEllipsis (collapse w)).map deleteWs ↔
    splitEllipsis (deleteWs w) = (splitEllipsis (collapse w)).map deleteWs := by
  rw [deleteWs_collapse]

/-! non-vacuity of the four theorems above: concrete instances of their hypotheses (and of the
    conclusions they yield), ELLIPSIS on, whitespace inside and around the pieces -/
example : ellipsisMatch "a \n x  b \t c ".toList "a  ...  b \t c ".toList = true := by decide +kernel
example : ellipsisMatch (collapse "a \n x  b \t c ".toList) (collapse "a  ...  b \t c ".toList) = true := by
  decide +kernel
example : splitEllipsis (deleteWs "a ... b c ...".toList) = (splitEllipsis "a ... b c ...".toList).map deleteWs ∧
    ellipsisMatch "a q\tb c\n".toList "a ... b c ...".toList = true := by decide +kernel
example : ellipsisMatch (deleteWs "a q\tb c\n".toList) (deleteWs "a ... b c ...".toList) = true := by
  decide +kernel
example :
    checkOutput { ellipsis := true, normWs := false, ignWs := false, normRepr := false, noBlank := false }
      "x  1\n  y  z".toList "x ...\n  y  z".toList = true ∧
    checkOutput { ellipsis := true, normWs := true, ignWs := false, normRepr := false, noBlank := false }
      "x  1\n  y  z".toList "x ...\n  y  z".toList = true := by decide +kernel
example :
    let f : Flags := { ellipsis := true, normWs := false, ignWs := false, normRepr := false, noBlank := false }
    let w := "a ... b  c".toList
    splitEllipsis (deleteWs (collapse (baseNorm (!f.noBlank) w))) =
        (splitEllipsis (collapse (baseNorm (!f.noBlank) w))).map deleteWs ∧
    checkOutput { f with ignWs := false } "a  q b  c".toList w = true ∧
    checkOutput { f with ignWs := true } "a  q b  c".toList w = true := by decide +kernel
/-- the guard of `mono_ignore_whitespace` is what excludes K-C05-d -/
example :
    splitEllipsis (deleteWs (collapse (baseNorm true ".\t...".toList))) ≠
      (splitEllipsis (collapse (baseNorm true ".\t...".toList))).map deleteWs := by decide +kernel

/-- ◐ NORMALIZE_REPR (guard: ELLIPSIS off). With ELLIPSIS on the second quote-stripping call
    uses got as the pattern. Superseded by `mono_normalize_repr` below (no guard at all). -/
theorem mono_normalize_repr_partial (f : Flags) (g w : Str) (he : f.ellipsis = false)
    (h : checkOutput { f with normRepr := false } g w = true) :
    checkOutput { f with normRepr := true } g w = true := by
  obtain ⟨e, nw, iw, nr, nb, d⟩ := f
  simp only at he; subst he
  rw [checkOutput_nr_off _ rfl] at h
  rw [checkOutput_unfold]
  rcases h with h | h | h
  · exact Or.inl h
  · exact Or.inr (Or.inl h)
  · refine Or.inr (Or.inr ?_)
    simp only [checkMatch, Bool.false_and, Bool.or_false, beq_iff_eq] at h
    have h' : norm1 { ellipsis := false, normWs := nw, ignWs := iw, normRepr := true, noBlank := nb, ignDetail := d } false g
        = norm1 { ellipsis := false, normWs := nw, ignWs := iw, normRepr := true, noBlank := nb, ignDetail := d } true w := h
    simp [normalize, normReprStep, checkMatch, h']

/-- with NORMALIZE_REPR on, `check_output` is `nrCore` on the two per-string normal forms -/
theorem checkOutput_nr_on (f : Flags) (hnr : f.normRepr = true) (g w : Str) :
    checkOutput f g w = true ↔
      w = [] ∨ g = w ∨ nrCore f (norm1 f false g) (norm1 f true w) = true := by
  rw [checkOutput_unfold]; simp [normalize, hnr, nrCore]

/-- ★ NORMALIZE_REPR, no guard: for ALL got/want and ALL settings of the other switches
    (ELLIPSIS on included). A pair that matches without the quote step is left untouched by both
    `norm_repr` calls: the first returns got because it already matches; the second (roles swapped,
    got is the pattern) cannot strip the want's quotes, because a got that matches the want starts
    with at least as many quotes as the want, and an unquoted want would need even fewer
    (`normReprStep_of_rev_match`). Brute force over all pairs of length ≤ 6 over
    `a ␠ . ' " \n` agrees (no counterexample). -/
theorem mono_normalize_repr (f : Flags) (g w : Str)
    (h : checkOutput { f with normRepr := false } g w = true) :
    checkOutput { f with normRepr := true } g w = true := by
  obtain ⟨e, nw, iw, nr, nb, d⟩ := f
  rw [checkOutput_nr_off _ rfl] at h
  rw [checkOutput_nr_on _ rfl]
  rcases h with h | h | h
  · exact Or.inl h
  · exact Or.inr (Or.inl h)
  · exact Or.inr (Or.inr (nrCore_of_match _ h))

/-- non-vacuity of `mono_normalize_repr` with ELLIPSIS on, quotes at both ends of the want and a
    got that the want matches only through the wildcard -/
example :
    checkOutput { ellipsis := true, normWs := false, ignWs := false, normRepr := false, noBlank := false }
      "'a b c'".toList "'a ... c'".toList = true ∧
    checkOutput { ellipsis := true, normWs := false, ignWs := false, normRepr := true, noBlank := false }
      "'a b c'".toList "'a ... c'".toList = true := by decide +kernel

/-- guard of ELLIPSIS-monotonicity under NORMALIZE_REPR: the normalised want is not a quoted copy
    of the normalised got that the got, read as a pattern, matches. (In that situation the second
    `norm_repr` call sees a match of the quoted want against the got-as-pattern, keeps the quotes,
    and the final comparison of the got against the quoted want fails: K-C05-c.) -/
def EllipsisNrGuard (f : Flags) (g w : Str) : Prop :=
  ∀ q, (q = '"' ∨ q = '\'') → unquote? q (norm1 f true w) = some (norm1 f false g) →
    ellipsisMatch (norm1 f true w) (norm1 f false g) = false

/-- ★ ELLIPSIS (guard: NORMALIZE_REPR off, or `EllipsisNrGuard`), for all got/want and all settings
    of the other switches. The guard is exact: `mono_ellipsis_nr_guard_exact`. -/
theorem mono_ellipsis_nr_guarded (f : Flags) (g w : Str)
    (hg : f.normRepr = false ∨ EllipsisNrGuard f g w)
    (h : checkOutput { f with ellipsis := false } g w = true) :
    checkOutput { f with ellipsis := true } g w = true := by
  rcases hg with hnr | hg
  · exact mono_ellipsis f g w hnr h
  obtain ⟨e, nw, iw, nr, nb, d⟩ := f
  cases nr
  · exact mono_ellipsis _ g w rfl h
  rw [checkOutput_nr_on _ rfl] at h ⊢
  rcases h with h | h | h
  · exact Or.inl h
  · exact Or.inr (Or.inl h)
  · exact Or.inr (Or.inr (nrCore_mono_ellipsis _ _ rfl _ _ hg h))

/-- natural sufficient guard 1: the normalised got contains no `...` -/
theorem ellipsisNrGuard_of_got_no_dots (f : Flags) (g w : Str)
    (h : contains dots (norm1 f false g) = false) : EllipsisNrGuard f g w := by
  intro q _ hu
  cases hm : ellipsisMatch (norm1 f true w) (norm1 f false g) with
  | false => rfl
  | true => exact absurd ((C06.ellipsis_no_dots _ _ h).mp hm) (unquote?_ne hu)

/-- natural sufficient guard 2: the normalised want is not surrounded by a pair of identical quotes -/
theorem ellipsisNrGuard_of_want_unquoted (f : Flags) (g w : Str)
    (h1 : unquote? '"' (norm1 f true w) = none) (h2 : unquote? '\'' (norm1 f true w) = none) :
    EllipsisNrGuard f g w := by
  intro q hq hu
  rcases hq with rfl | rfl
  · rw [h1] at hu; cases hu
  · rw [h2] at hu; cases hu

/-- ★ ELLIPSIS under NORMALIZE_REPR when the normalised got contains no `...` (the class K-C05-c
    is exactly excluded: there got is `...`) -/
theorem mono_ellipsis_nr_got_no_dots (f : Flags) (g w : Str)
    (hd : contains dots (norm1 f false g) = false)
    (h : checkOutput { f with ellipsis := false } g w = true) :
    checkOutput { f with ellipsis := true } g w = true :=
  mono_ellipsis_nr_guarded f g w (Or.inr (ellipsisNrGuard_of_got_no_dots f g w hd)) h

/-- ★ exactness of `EllipsisNrGuard`: when it is violated (the normalised want is the normalised
    got in quotes and the got-as-pattern matches it) and the escape route is closed (with ELLIPSIS
    on, neither the got nor its unquoted version matches the want), the pair matches with ELLIPSIS
    off and does not match with ELLIPSIS on. -/
theorem mono_ellipsis_nr_guard_exact (f : Flags) (g w : Str) (hnr : f.normRepr = true)
    (hw : w ≠ []) (hgw : g ≠ w) {q : Char} (hq : q = '"' ∨ q = '\'')
    (hu : unquote? q (norm1 f true w) = some (norm1 f false g))
    (hm : ellipsisMatch (norm1 f true w) (norm1 f false g) = true)
    (hn : checkMatch { f with ellipsis := true }
      (normReprStep { f with ellipsis := true } (norm1 f false g) (norm1 f true w)) (norm1 f true w) = false) :
    checkOutput { f with ellipsis := false } g w = true ∧
    checkOutput { f with ellipsis := true } g w = false := by
  obtain ⟨e, nw, iw, nr, nb, d⟩ := f
  simp only at hnr; subst hnr
  have key := nrCore_ellipsis_fail
    { ellipsis := false, normWs := nw, ignWs := iw, normRepr := true, noBlank := nb, ignDetail := d }
    { ellipsis := true, normWs := nw, ignWs := iw, normRepr := true, noBlank := nb, ignDetail := d }
    rfl rfl _ _ hq hu hm hn
  constructor
  · rw [checkOutput_nr_on _ rfl]; exact Or.inr (Or.inr key.1)
  · cases hc : checkOutput { ellipsis := true, normWs := nw, ignWs := iw, normRepr := true, noBlank := nb, ignDetail := d } g w with
    | false => rfl
    | true =>
      rcases (checkOutput_nr_on _ rfl g w).mp hc with h | h | h
      · exact absurd h hw
      · exact absurd h hgw
      · exact h.symm.trans key.2

/-! non-vacuity of the guarded ELLIPSIS theorems: instances with NORMALIZE_REPR on where the
    hypotheses hold, and the instance of the exactness theorem -/
example :
    let f : Flags := { ellipsis := false, normWs := false, ignWs := false, normRepr := true, noBlank := false }
    contains dots (norm1 f false "x = 1".toList) = false ∧
    checkOutput { f with ellipsis := false } "x = 1".toList "'x = 1'".toList = true ∧
    checkOutput { f with ellipsis := true } "x = 1".toList "'x = 1'".toList = true := by decide +kernel
example :
    let f : Flags := { ellipsis := false, normWs := false, ignWs := false, normRepr := true, noBlank := false }
    unquote? '"' (norm1 f true "[...]".toList) = none ∧ unquote? '\'' (norm1 f true "[...]".toList) = none ∧
    checkOutput { f with ellipsis := false } "'[...]'".toList "[...]".toList = true ∧
    checkOutput { f with ellipsis := true } "'[...]'".toList "[...]".toList = true := by decide +kernel
example :
    let f : Flags := { ellipsis := false, normWs := false, ignWs := false, normRepr := true, noBlank := false }
    unquote? '\'' (norm1 f true "'...'".toList) = some (norm1 f false "...".toList) ∧
    ellipsisMatch (norm1 f true "'...'".toList) (norm1 f false "...".toList) = true ∧
    checkMatch { f with ellipsis := true }
      (normReprStep { f with ellipsis := true } (norm1 f false "...".toList) (norm1 f true "'...'".toList))
      (norm1 f true "'...'".toList) = false := by decide +kernel

/-- the unguarded monotonicity sentence of the property -/
def mono_full_statement : Prop :=
  ∀ (f : Flags) (g w : Str),
    (checkOutput { f with ellipsis := false } g w = true → checkOutput { f with ellipsis := true } g w = true) ∧
    (checkOutput { f with normWs := false } g w = true → checkOutput { f with normWs := true } g w = true) ∧
    (checkOutput { f with ignWs := false } g w = true → checkOutput { f with ignWs := true } g w = true) ∧
    (checkOutput { f with normRepr := false } g w = true → checkOutput { f with normRepr := true } g w = true) ∧
    (checkOutput { f with noBlank := true } g w = true → checkOutput { f with noBlank := false } g w = true)

/-! ### kernel-checked witnesses: the four corner classes where it fails (known findings) -/

/-- K-C05-a : got `" a"`, want `"' a'"`, NORMALIZE_REPR on: NORMALIZE_WHITESPACE off matches, on does not -/
theorem witness_K_C05_a :
    checkOutput { ellipsis := false, normWs := false, ignWs := false, normRepr := true, noBlank := false }
      " a".toList "' a'".toList = true ∧
    checkOutput { ellipsis := false, normWs := true, ignWs := false, normRepr := true, noBlank := false }
      " a".toList "' a'".toList = false := by decide +kernel

/-- K-C05-b : got `"."`, want `"<BLANKLINE>\r."`: strict mode matches, accepting mode does not -/
theorem witness_K_C05_b :
    checkOutput { ellipsis := false, normWs := false, ignWs := false, normRepr := false, noBlank := true }
      ".".toList "<BLANKLINE>\r.".toList = true ∧
    checkOutput { ellipsis := false, normWs := false, ignWs := false, normRepr := false, noBlank := false }
      ".".toList "<BLANKLINE>\r.".toList = false := by decide +kernel

/-- K-C05-c : got `"\n\n..."`, want `"'...'"`, IGNORE_WHITESPACE + NORMALIZE_REPR: ELLIPSIS off matches, on does not -/
theorem witness_K_C05_c :
    checkOutput { ellipsis := false, normWs := false, ignWs := true, normRepr := true, noBlank := false }
      "\n\n...".toList "'...'".toList = true ∧
    checkOutput { ellipsis := true, normWs := false, ignWs := true, normRepr := true, noBlank := false }
      "\n\n...".toList "'...'".toList = false := by decide +kernel

/-- K-C05-d : got `"\t...a"`, want `".\t..."`, ELLIPSIS + NORMALIZE_WHITESPACE matches, adding IGNORE_WHITESPACE does not -/
theorem witness_K_C05_d :
    checkOutput { ellipsis := true, normWs := true, ignWs := false, normRepr := false, noBlank := false }
      "\t...a".toList ".\t...".toList = true ∧
    checkOutput { ellipsis := true, normWs := true, ignWs := true, normRepr := false, noBlank := false }
      "\t...a".toList ".\t...".toList = false := by decide +kernel

/-- K-C05-c, minimal form : got `"..."`, want `"'...'"`, NORMALIZE_REPR alone: ELLIPSIS off matches
    (the want's quotes are stripped), on does not (the quoted want matches the got-as-pattern, so the
    quotes stay). No whitespace switch is involved. -/
theorem witness_K_C05_c_min :
    checkOutput { ellipsis := false, normWs := false, ignWs := false, normRepr := true, noBlank := false }
      "...".toList "'...'".toList = true ∧
    checkOutput { ellipsis := true, normWs := false, ignWs := false, normRepr := true, noBlank := false }
      "...".toList "'...'".toList = false := by decide +kernel

/-- K-C05-c, got with a quote : got `"'..."`, want `"''...'"`: the got is not surrounded by quotes
    and still the class occurs, so no guard on the quotes of the got alone can work; the guard has
    to speak about the want being a quoted copy of the got (`EllipsisNrGuard`) or about `...` in
    the got. -/
theorem witness_K_C05_c_quote :
    checkOutput { ellipsis := false, normWs := false, ignWs := false, normRepr := true, noBlank := false }
      "'...".toList "''...'".toList = true ∧
    checkOutput { ellipsis := true, normWs := false, ignWs := false, normRepr := true, noBlank := false }
      "'...".toList "''...'".toList = false := by decide +kernel

/-- K-C05-c, no `...` in the raw got : got `". . ."`, want `"'. . .'"`, IGNORE_WHITESPACE +
    NORMALIZE_REPR: the `...` of the normalised got is created by deleting whitespace, so the
    guard must speak about the normalised got (as `mono_ellipsis_nr_got_no_dots` does). -/
theorem witness_K_C05_c_ws :
    checkOutput { ellipsis := false, normWs := false, ignWs := true, normRepr := true, noBlank := false }
      ". . .".toList "'. . .'".toList = true ∧
    checkOutput { ellipsis := true, normWs := false, ignWs := true, normRepr := true, noBlank := false }
      ". . .".toList "'. . .'".toList = false := by decide +kernel

/-- the unguarded sentence is false of the model (and of the code: the witnesses are replayed on
    the implementation by every run of the check) -/
theorem mono_full_false : ¬ mono_full_statement := by
  intro h
  have := (h { ellipsis := false, normWs := false, ignWs := false, normRepr := true, noBlank := false }
    " a".toList "' a'".toList).2.1
  have w := witness_K_C05_a
  rw [this w.1] at w
  exact absurd w.2 (by simp)

/-! ### non-vacuity -/
example : checkOutput defaultFlags "u'a'  \n".toList "'a'".toList = true := by decide +kernel
example : checkOutput strictFlags "a \n".toList "a".toList = true := by decide +kernel
example : checkOutput strictFlags "a b".toList "a  b".toList = false := by decide +kernel
example : contains dots (norm1 defaultFlags true "a b".toList) = false := by decide +kernel

end Xdoc.C05

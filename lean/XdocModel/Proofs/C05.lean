import XdocModel.Checker
namespace Xdoc.C05
open Xdoc Py Re

/-- identical texts always match -/
theorem checkOutput_refl (f : Flags) (s : Str) : checkOutput f s s = true := by
  unfold checkOutput; split <;> simp

/-- an empty want matches everything -/
theorem checkOutput_empty_want (f : Flags) (g : Str) : checkOutput f g [] = true := by
  simp [checkOutput]

end Xdoc.C05

import XdocModel.Lemmas.Static
import XdocModel.Lemmas.Package
import XdocModel.Lemmas.Google
import XdocModel.CoreCollect
/-!
# C07 — collection is exact

Theorems about the models of `TopLevelVisitor` (`Static.visit`), `package_modpaths`,
`split_google_docblocks` and `parse_docstr_examples`, for ALL mini-ASTs, directory trees,
docstrings and parser outputs.
-/
namespace Xdoc.C07
open Xdoc Py Static Google Core

/-! ## the visitor -/

/-- The visitor computes exactly the ordered-map fold of the declarative inventory — for EVERY tree,
    also with repeated names (a repeated callname keeps its first position and its last value). -/
theorem collect_eq_fold (loc : Locator) (m : Module) :
    visitModule loc m = insertAll (topLevel loc m.body) (moduleEntry loc m) :=
  visitModule_eq_fold loc m

/-- **collection is exact**: for every module whose callnames are pairwise distinct, the collected
    map is the inventory of the property sentence: the module docstring (if non-empty), every
    function / async function, every class followed by its methods (plain, static, class, property
    getter; decorated or not), reached through any nesting of non-definition compound statements —
    each exactly once, in source order, under `func` / `Class` / `Class.method`. -/
theorem collect_eq_inventory (loc : Locator) (m : Module)
    (h : (keys (inventory loc m)).Nodup) : visitModule loc m = inventory loc m := by
  rw [collect_eq_fold]
  exact insertAll_of_nodup (by simpa [inventory] using h)

/-- nothing else: the result does not depend on function bodies (nested functions and classes),
    on classes nested in classes, on property setters/deleters, or on code under the main guard
    (either spelling; its `else` branch is ordinary module-level code) —
    replacing all of them by inert statements leaves the collection unchanged. -/
theorem nothing_else (loc : Locator) (m : Module) :
    visitModule loc m = visitModule loc { m with body := prune m.body false } := by
  rw [collect_eq_fold, collect_eq_fold]
  simp [topLevel_prune, moduleEntry]

/-- the four regions, one by one, at the place where the visitor meets them -/
theorem nothing_else_function_body (loc : Locator) (a : Bool) (n : Str) (ds : List Deco) (doc : Option Doc)
    (b b' next : Tree) (st : St) :
    visit loc (.func a n ds doc b next) st = visit loc (.func a n ds doc b' next) st := rfl

theorem nothing_else_nested_class (loc : Locator) (n c : Str) (ds : List Deco) (doc : Option Doc)
    (b next : Tree) (cds : List CallDef) :
    visit loc (.cls n ds doc b next) { calldefs := cds, cur := some c } =
      visit loc next { calldefs := cds, cur := some c } := rfl

theorem nothing_else_setter (loc : Locator) (a : Bool) (n : Str) (ds : List Deco) (doc : Option Doc)
    (b next : Tree) (st : St) (h : skipDeco ds = true) :
    visit loc (.func a n ds doc b next) st = visit loc next st := by
  simp [visit, h]

theorem nothing_else_main_guard (loc : Locator) (t : Test) (r1 r2 : Bool) (b e next : Tree) (st : St)
    (h : isMainGuard t = true) :
    visit loc (.ifs t r1 r2 b e next) st = visit loc next (visit loc e st) := by
  simp [visit, h]

/-- every collected key is the key of an inventory entry, and conversely -/
theorem mem_keys_collect (loc : Locator) (m : Module) (k : Str) :
    k ∈ keys (visitModule loc m) ↔ k ∈ keys (inventory loc m) := by
  rw [collect_eq_fold, mem_keys_insertAll]; simp [inventory]

/-- callnames are unique within a module (unconditionally: the map is keyed by callname) -/
theorem identifiers_nodup (loc : Locator) (m : Module) : (keys (visitModule loc m)).Nodup := by
  rw [collect_eq_fold]
  apply nodup_keys_insertAll
  unfold moduleEntry
  split
  · split <;> simp [keys]
  · simp [keys]

/-- the setter/deleter rule and the main-guard test are what the property says -/
example : skipDeco [.name "property".toList] = false := by decide
example : skipDeco [.attr "setter".toList] = true := by decide
example : skipDeco [.other, .attr "deleter".toList] = true := by decide
example : isMainGuard { isCompare := true, op0Eq := true, leftId := some "__name__".toList, comp0 := some "__main__".toList } = true := by decide
/-- `'__main__' == __name__` is recognised as well (repair 29b8101) -/
example : isMainGuard { isCompare := true, op0Eq := true, leftId := none, comp0 := none, leftStr := some "__main__".toList, comp0Id := some "__name__".toList } = true := by decide
example : isMainGuard { isCompare := true, op0Eq := false, leftId := some "__name__".toList, comp0 := some "__main__".toList } = false := by
  decide

/-- non-vacuity of `collect_eq_inventory` : a module with a docstring, a decorated async function
    with a nested function, a class with a method, a property with setter, a nested class, and a
    main guard whose `else` branch holds a definition. -/
def demoModule : Module :=
  { doc := some ⟨"m".toList, 1, 1⟩,
    body :=
      .func true "f".toList [.other] (some ⟨"d".toList, 3, 3⟩) (.func false "inner".toList [] none .done .done) <|
      .cls "C".toList [] none
        (.func false "m".toList [] none .done <|
         .func false "p".toList [.name "property".toList] (some ⟨"g".toList, 9, 9⟩) .done <|
         .func false "p".toList [.attr "setter".toList] none .done <|
         .cls "N".toList [] none (.func false "x".toList [] none .done .done) .done) <|
      .ifs { isCompare := true, op0Eq := true, leftId := some "__name__".toList, comp0 := some "__main__".toList } false false
        (.func false "hidden".toList [] none .done .done)
        (.func false "onimport".toList [] none .done .done) <|
      .comp true (.func false "g".toList [] none .done .done) .done }

example : (keys (inventory (fun _ => none) demoModule)).Nodup := by decide
example : keys (visitModule (fun _ => none) demoModule) =
    ["__doc__", "f", "C", "C.m", "C.p", "onimport", "g"].map String.toList := by decide

/-! ## `package_modpaths` -/

/-- **package walk**, default flags (`with_mod`, no `with_pkg`, recursive, `check`): a path is
    yielded iff the root directory has an `__init__.py` entry and the path is `p ++ [f]` where
    following `p` from the root enters only directories that have an `__init__.py` entry, `f` is a
    file entry of the directory reached, its extension (`os.path.splitext`) is a valid one, and
    `f` is not `__init__.py`. -/
theorem package_walk_spec (exts : List Str) (l : Fs) (q : List Str) :
    q ∈ packageModpaths { validExts := exts } true (.dir l) ↔
      hasEntry initPy l = true ∧
      ∃ p l' f, PkgChain p l l' ∧ q = p ++ [f] ∧ IsFileOf f l' ∧
        exts.contains (splitExt f) = true ∧ f ≠ initPy := by
  simp only [packageModpaths, Bool.false_and, Bool.not_true, Bool.or_false, Bool.false_eq_true,
    if_false, List.nil_append, if_true]
  by_cases hi : hasEntry initPy l = true
  · rw [if_pos hi, mem_walk_all]
    simp only [hi, true_and, yieldHere, if_true, Bool.false_eq_true, if_false, List.append_nil,
      mem_yieldFiles]
    constructor
    · rintro ⟨p, l', hc, f, h1, h2, h3, h4⟩; exact ⟨p, l', f, hc, h1, h2, h3, h4⟩
    · rintro ⟨p, l', f, hc, h1, h2, h3, h4⟩; exact ⟨p, l', hc, f, h1, h2, h3, h4⟩
  · simp [hi]

/-- the `__init__.py` files (`with_pkg`, as `package_calldefs` calls it; here without the module
    files): yielded for exactly the directories reachable through package directories -/
theorem package_walk_inits (l : Fs) (q : List Str) :
    q ∈ packageModpaths { withPkg := true, withMod := false } true (.dir l) ↔
      hasEntry initPy l = true ∧ ∃ p l', PkgChain p l l' ∧ q = p ++ [initPy] := by
  simp only [packageModpaths, Bool.true_and, Bool.not_true, Bool.false_or, Bool.or_false, if_true]
  by_cases hi : hasEntry initPy l = true
  · rw [if_pos hi, if_pos hi, List.mem_append, mem_walk_all]
    simp only [hi, true_and, yieldHere, if_true, Bool.false_eq_true, if_false, List.nil_append,
      mem_yieldInits, List.mem_singleton]
    constructor
    · rintro (h | ⟨p, lm, hc, d, s, h1, h2, h3⟩)
      · exact ⟨[], l, rfl, by simpa using h⟩
      · exact ⟨p ++ [d], s, pkgChain_snoc.mpr ⟨lm, hc, h2, h3⟩, by simpa using h1⟩
    · rintro ⟨p, l', hc, h1⟩
      rcases List.eq_nil_or_concat p with rfl | ⟨p0, d', rfl⟩
      · exact Or.inl (by simpa using h1)
      · rw [List.concat_eq_append] at hc h1
        obtain ⟨lm, x, y, z⟩ := pkgChain_snoc.mp hc
        exact Or.inr ⟨p0, lm, x, d', l', by simpa using h1, y, z⟩
  · simp [hi]

/-- a single file given as the package is yielded as it is -/
theorem package_walk_file (cfg : WalkCfg) (check : Bool) : packageModpaths cfg check .file = [[]] := rfl

/-- non-vacuity: `pkg/{__init__.py, a.py, notes.txt, sub/{__init__.py, b.py}, data/{c.py}}` -/
def demoFs : Fs :=
  .file initPy <| .file "a.py".toList <| .file "notes.txt".toList <|
  .dir "sub".toList (.file initPy <| .file "b.py".toList .nil) <|
  .dir "data".toList (.file "c.py".toList .nil) .nil

example : packageModpaths {} true (.dir demoFs) = [["a.py".toList], ["sub".toList, "b.py".toList]] := by
  decide
example : PkgChain ["sub".toList] demoFs (.file initPy <| .file "b.py".toList .nil) :=
  ⟨_, Or.inl ⟨rfl, rfl⟩, by decide, rfl⟩

/-! ## google blocks -/

/-- **blocks tile the docstring**: every block returned by `split_google_docblocks` is made from a
    non-empty run `g` of consecutive (dedented) docstring lines, its `offset` is the index of the
    first line of that run, and the runs of distinct blocks are disjoint and in order (offsets
    strictly increase). The number of lines is that of the raw docstring. -/
theorem google_offsets (docstr : Str) :
    (∀ b ∈ splitGoogle docstr, ∃ pre g post, prepLines docstr = pre ++ g ++ post ∧ g ≠ [] ∧
        b = blockOf g pre.length ∧ b.offset = pre.length) ∧
    ((splitGoogle docstr).map (·.offset)).Pairwise (· < ·) ∧
    (prepLines docstr).length = (splitOn '\n' docstr).length := by
  refine ⟨?_, mkBlocks_sorted 0 _ (groupsOf_ne_nil docstr), prepLines_length docstr⟩
  intro b hb
  obtain ⟨pre, g, post, h1, _, h3⟩ := mem_mkBlocks hb
  refine ⟨pre.flatten, g, post.flatten, ?_, ?_, by simpa using h3, by rw [h3, blockOf_offset]; simp⟩
  · rw [← groupsOf_flatten, h1]; simp
  · exact groupsOf_ne_nil docstr g (by rw [h1]; simp)

/-- a block whose key passes the `example_tags` test starts at a tag line: the line at its offset
    matches the tag pattern, the key is the (alias-resolved) text of that line, and the block text
    is the dedented text of the lines that follow it in the run -/
theorem example_block_starts_at_tag (docstr : Str) (b : Block) (hb : b ∈ splitGoogle docstr)
    (hk : isExampleKey b.key = true) :
    ∃ pre l0 val post, prepLines docstr = pre ++ (l0 :: val) ++ post ∧ b.offset = pre.length ∧
      isTagLine l0 = true ∧ (prepLines docstr)[b.offset]? = some l0 ∧
      b.key = aliasOf (rstripColon (strip l0)) ∧ b.text = joinWith ['\n'] (dedentLines val) := by
  obtain ⟨pre, g, post, h1, hne, h3, h4⟩ := (google_offsets docstr).1 b hb
  cases g with
  | nil => exact absurd rfl hne
  | cons l0 val =>
    by_cases ht : isTagLine l0 = true
    · refine ⟨pre, l0, val, post, h1, h4, ht, ?_, ?_, ?_⟩
      · rw [h4, h1]; simp
      · rw [h3]; simp [blockOf, ht]
      · rw [h3]; simp [blockOf, ht]
    · exfalso
      have : b.key = docKey := by rw [h3]; simp [blockOf, ht]
      rw [this] at hk
      revert hk; decide

theorem enumFrom_length {α β : Type} (f : Nat → α → β) (n : Nat) (l : List α) :
    (enumFrom f n l).length = l.length := by
  induction l generalizing n with
  | nil => rfl
  | cons a as ih => simp [enumFrom, ih]

theorem enumFrom_getElem? {α β : Type} (f : Nat → α → β) (n i : Nat) (l : List α) :
    (enumFrom f n l)[i]? = (l[i]?).map (f (n + i)) := by
  induction l generalizing n i with
  | nil => simp [enumFrom]
  | cons a as ih =>
    cases i with
    | zero => simp [enumFrom]
    | succ i => simp only [enumFrom, List.getElem?_cons_succ, ih]; congr 2; omega

/-- **one doctest per Example/Doctest block, in order**: the `i`-th example comes from the `i`-th
    block whose key starts with one of `example_tags`; it is numbered `i`, its source is the block
    text, and its line is `lineno + offset + 1` (the line after the tag line) -/
theorem one_example_per_block_in_order (docstr callname : Str) (lineno : Nat) :
    (googleAll docstr callname lineno).length = (exampleBlocks docstr).length ∧
    ∀ i, (googleAll docstr callname lineno)[i]? =
      ((exampleBlocks docstr)[i]?).map fun b =>
        ({ callname := callname, num := i, lineno := lineno + b.offset + 1, docsrc := b.text,
           blockType := some b.key } : Ex) := by
  refine ⟨enumFrom_length _ _ _, fun i => ?_⟩
  unfold googleAll
  rw [enumFrom_getElem?, Nat.zero_add]
  rfl

/-- when no block fails to parse, every one of them is yielded -/
theorem takeOk_all {α : Type} (l : List α) (oks : List Bool) (h : ∀ b ∈ oks, b = true) :
    takeOk l oks = (l, false) := by
  induction l generalizing oks with
  | nil => rfl
  | cons a as ih =>
    cases oks with
    | nil => simp [takeOk, ih [] (by simp)]
    | cons ok oks =>
      have h1 : ok = true := h ok (by simp)
      simp [takeOk, h1, ih oks (fun b hb => h b (List.mem_cons_of_mem _ hb))]

theorem google_all_when_parsable (docstr callname : Str) (lineno : Nat) (gOk : List Bool)
    (h : ∀ b ∈ gOk, b = true) :
    parseDocstrExamples .google docstr callname lineno gOk none = googleAll docstr callname lineno := by
  simp [parseDocstrExamples, googleYield, takeOk_all _ _ h]

/-- a yielded prefix is a prefix: a parse error in block `k` keeps blocks `0..k-1` -/
theorem takeOk_prefix {α : Type} (l : List α) (oks : List Bool) : (takeOk l oks).1 <+: l := by
  induction l generalizing oks with
  | nil => simp [takeOk]
  | cons a as ih =>
    cases oks with
    | nil => simpa [takeOk] using ih []
    | cons ok oks =>
      cases ok
      · simp [takeOk]
      · simpa [takeOk] using ih oks

/-! ## styles -/

/-- **auto = google if it yields anything, else freeform** (the rule of the code: the fallback
    depends on what the google pass YIELDED, not on whether blocks exist) -/
theorem auto_is_google_or_freeform (docstr callname : Str) (lineno : Nat) (gOk : List Bool)
    (pieces : Option (List FPiece)) :
    let g := parseDocstrExamples .google docstr callname lineno gOk pieces
    let f := parseDocstrExamples .freeform docstr callname lineno gOk pieces
    let a := parseDocstrExamples .auto docstr callname lineno gOk pieces
    (g ≠ [] → a = g) ∧ (g = [] → a = f) := by
  simp only [parseDocstrExamples]
  constructor
  · intro h; split
    · rename_i heq; exact absurd heq h
    · rfl
  · intro h; rw [h]

/-- **freeform yields at most one doctest per docstring**, numbered 0 -/
theorem freeform_at_most_one (pieces : Option (List FPiece)) (docstr callname : Str) (lineno : Nat)
    (gOk : List Bool) :
    (parseDocstrExamples .freeform docstr callname lineno gOk pieces).length ≤ 1 ∧
    ∀ e ∈ parseDocstrExamples .freeform docstr callname lineno gOk pieces, e.num = 0 := by
  simp only [parseDocstrExamples, freeformYield]
  cases pieces with
  | none => simp
  | some ps =>
    simp only [freeform]
    split <;> simp

/-- identifiers `callname:num` of the examples of one docstring are pairwise distinct -/
theorem example_nums_nodup (docstr callname : Str) (lineno : Nat) (style : Style) (gOk : List Bool)
    (pieces : Option (List FPiece)) :
    ((parseDocstrExamples style docstr callname lineno gOk pieces).map (·.num)).Nodup := by
  have hall : ((googleAll docstr callname lineno).map (·.num)).Nodup := by
    have : ∀ (n : Nat) (l : List Block),
        (enumFrom (googleExOf callname lineno) n l).map (·.num) = List.range' n l.length := by
      intro n l
      induction l generalizing n with
      | nil => rfl
      | cons a as ih => simp [enumFrom, googleExOf, ih, List.range'_succ]
    unfold googleAll
    rw [this]; exact List.nodup_range'
  have hg : ((googleYield docstr callname lineno gOk).1.map (·.num)).Nodup := by
    obtain ⟨t, ht⟩ := takeOk_prefix (googleAll docstr callname lineno) gOk
    unfold googleYield
    rw [← ht, List.map_append] at hall
    exact (List.nodup_append.mp hall).1
  have hf : ((freeformYield pieces callname lineno).map (·.num)).Nodup := by
    cases pieces with
    | none => simp [freeformYield]
    | some ps => simp only [freeformYield, freeform]; split <;> simp
  cases style
  · exact hf
  · exact hg
  · cases hy : (googleYield docstr callname lineno gOk).1 with
    | nil => simpa only [parseDocstrExamples, hy] using hf
    | cons e es => rw [hy] at hg; simpa only [parseDocstrExamples, hy] using hg

/-- `unique_callname` is `callname:num` -/
theorem uniqueCallname_spec (e : Ex) : uniqueCallname e = e.callname ++ [':'] ++ natStr e.num := rfl

/-- non-vacuity: a docstring with prose, an `Args` block and two example blocks -/
def demoDoc : Str :=
  "summary\n\nArgs:\n    x: int\n\nExample:\n    >>> f(1)\n    1\n\nDoctest ::\n    >>> g()\n".toList

example : (splitGoogle demoDoc).map (fun b => (b.key, b.offset)) =
    [("__DOC__".toList, 0), ("Args".toList, 2), ("Example".toList, 5), ("Doctest ".toList, 9)] := by
  decide +kernel
example : (googleAll demoDoc "f".toList 10).map (fun e => (e.num, e.lineno, e.docsrc)) =
    [(0, 16, ">>> f(1)\n1\n".toList), (1, 20, ">>> g()\n".toList)] := by decide +kernel

end Xdoc.C07

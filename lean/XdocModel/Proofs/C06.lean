import XdocModel.Checker
import XdocModel.Lemmas.Ellipsis
/-!
# C06 — Ellipsis is a true wildcard: `...` matches any text, the rest in order

Property theorems only (helper lemmas live in `Lemmas/Ellipsis.lean`).
-/
namespace Xdoc.C06
open Xdoc Py Re

/-- The property sentence: `got` can be written as the want's literal pieces in order, the first
    anchored at the start and the last at the end (an empty first/last piece is what a want that
    begins/ends with `...` produces), arbitrary text in place of each `...` and the whitespace
    around it; pieces never overlap (`Scattered`: `mid = x₁ ++ m₁ ++ x₂ ++ … ++ mₖ ++ xₖ₊₁`). -/
def Spec (got want : Str) : Prop :=
  ∃ first mids last, splitEllipsis want = first :: (mids ++ [last]) ∧
    ∃ mid, got = first ++ mid ++ last ∧ Scattered mids mid

/-- `'...' in want` really is substring containment. -/
theorem contains_dots_iff (want : Str) :
    contains dots want = true ↔ ∃ x r, want = x ++ ['.', '.', '.'] ++ r :=
  contains_iff

/-- a want that contains `...` always splits into at least two pieces
    (the `assert len(ws) >= 2` of the code never fires) -/
theorem split_has_two_pieces (want : Str) (h : contains dots want = true) :
    ∃ first mids last, splitEllipsis want = first :: (mids ++ [last]) := by
  have hl := splitEllipsisGo_length_of_contains want.length want [] (Nat.le_refl _) h
  unfold splitEllipsis
  match hs : splitEllipsisGo want.length want [] with
  | [] => simp [hs] at hl
  | [_] => simp [hs] at hl
  | first :: b :: rest =>
    refine ⟨first, (b :: rest).dropLast, (b :: rest).getLast (by simp), ?_⟩
    rw [List.dropLast_concat_getLast]

/-- ★ the matcher decides exactly the property sentence, for all strings. -/
theorem ellipsis_iff_spec (got want : Str) (h : contains dots want = true) :
    ellipsisMatch got want = true ↔ Spec got want := by
  obtain ⟨first, mids, last, hs⟩ := split_has_two_pieces want h
  unfold ellipsisMatch Spec
  simp only [h, Bool.not_true, Bool.false_eq_true, ↓reduceIte, hs]
  have hne : mids ++ [last] ≠ [] := by simp
  cases hm : mids ++ [last] with
  | nil => exact absurd hm hne
  | cons a as =>
    simp only
    rw [← hm]
    simp only [List.dropLast_concat, List.getLast?_concat, Option.getD_some]
    rw [ellipsisPieces_iff]
    constructor
    · rintro ⟨mid, h1, h2⟩
      exact ⟨first, mids, last, rfl, mid, h1, h2⟩
    · rintro ⟨f', m', l', he, mid, h1, h2⟩
      have he' : first = f' ∧ mids ++ [last] = m' ++ [l'] := by simpa using he
      obtain ⟨rfl, he2⟩ := he'
      have := List.append_inj' he2 rfl
      obtain ⟨rfl, hl⟩ := this
      have : last = l' := by simpa using hl
      subst this
      exact ⟨mid, h1, h2⟩

/-- ★ without `...` in the want the matcher is plain equality -/
theorem ellipsis_no_dots (got want : Str) (h : contains dots want = false) :
    ellipsisMatch got want = true ↔ got = want := by
  unfold ellipsisMatch
  simp only [h, Bool.not_false, ↓reduceIte, beq_iff_eq]
  exact eq_comm

/-- ★ with ELLIPSIS disabled `...` has no special meaning: `_check_match` is equality -/
theorem checkMatch_ellipsis_off (f : Flags) (got want : Str) (h : f.ellipsis = false) :
    checkMatch f got want = true ↔ got = want := by
  simp [checkMatch, h]

/-- ★ with ELLIPSIS enabled `_check_match` is equality or the wildcard relation -/
theorem checkMatch_ellipsis_on (f : Flags) (got want : Str) (h : f.ellipsis = true)
    (hd : contains dots want = true) :
    checkMatch f got want = true ↔ (got = want ∨ Spec got want) := by
  simp [checkMatch, h, ellipsis_iff_spec got want hd]

/-- corollary: arbitrary, possibly multi-line text may stand for an ellipsis -/
theorem wildcard_any_text (first last x : Str) :
    ellipsisPieces first [] last (first ++ x ++ last) = true :=
  (ellipsisPieces_iff first last [] _).mpr ⟨x, rfl, .nil _⟩

/-! ### non-vacuity: concrete instances (kernel evaluation of the model) -/

example : contains dots "aa...aa".toList = true := by decide +kernel
example : splitEllipsis "best=...s ave=...s".toList = ["best=".toList, "s ave=".toList, "s".toList] := by
  decide +kernel
example : ellipsisMatch "aaa".toList "aa...aa".toList = false := by decide +kernel
example : ellipsisMatch "took=3.4s".toList "took=...s".toList = true := by decide +kernel
example : ellipsisMatch "a\nb\nc".toList "a ... c".toList = true := by decide +kernel
example : Spec "foo".toList "... foo".toList :=
  ⟨[], [], "foo".toList, by decide +kernel, [], by decide +kernel, .nil _⟩

end Xdoc.C06

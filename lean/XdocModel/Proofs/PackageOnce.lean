import XdocModel.Proofs.C07
import XdocModel.Proofs.PackageNodup
/-!
# Collection over a package names every callable once (C07 ∘ package walk; used by C10)

`core.package_calldefs` walks `package_modpaths(pkgpath, with_pkg=True)` and, for every module path, asks the static
visitor for its calldefs. `Proofs/C07.lean: identifiers_nodup` says a callname occurs once per module,
`Proofs/PackageNodup.lean: packageModpaths_nodup` says a module path occurs once per walk; together: the pair
(module path, callname) occurs once in the whole collection — for every directory tree, every module contents
(`mods` is an arbitrary assignment of module ASTs to paths) and every locator. With the per-docstring numbering of
examples (`Proofs/C07.lean: example_nums_nodup`-style statements) this is the "each exactly once" of C07 and the
premise of C10's "every collected doctest runs once".
-/
namespace Xdoc.C07
open Xdoc Py Static

/-- pairs `(p, k)` for `p` from a duplicate-free list and `k` from a duplicate-free list that may depend on `p` -/
theorem nodup_flatMap_pairs {α β : Type} (ps : List α) (f : α → List β) (hp : ps.Nodup)
    (hf : ∀ p ∈ ps, (f p).Nodup) : (ps.flatMap fun p => (f p).map (Prod.mk p)).Nodup := by
  induction ps with
  | nil => simp
  | cons p ps ih =>
    simp only [List.nodup_cons] at hp
    simp only [List.flatMap_cons]
    rw [List.nodup_append]
    refine ⟨?_, ih hp.2 (fun q hq => hf q (List.mem_cons_of_mem _ hq)), ?_⟩
    · exact List.Pairwise.map (Prod.mk p) (fun a b hne heq => hne (Prod.mk.inj heq).2) (hf p List.mem_cons_self)
    · intro a ha b hb hab
      subst hab
      obtain ⟨k, _, rfl⟩ := List.mem_map.mp ha
      obtain ⟨q, hq, hb⟩ := List.mem_flatMap.mp hb
      obtain ⟨k', _, hk⟩ := List.mem_map.mp hb
      have : q = p := (Prod.mk.inj hk).1
      exact hp.1 (this ▸ hq)

/-- **every (module, callname) of a package is collected once**: for every directory tree without repeated names in a listing,
    every assignment of module contents to paths, every walk option and locator -/
theorem package_callnames_nodup (cfg : WalkCfg) (check : Bool) (root : Root)
    (h : match root with | .file => True | .dir l => NamesDistinct l)
    (loc : List Str → Locator) (mods : List Str → Module) :
    ((packageModpaths cfg check root).flatMap fun p =>
      (keys (visitModule (loc p) (mods p))).map (Prod.mk p)).Nodup :=
  nodup_flatMap_pairs _ _ (packageModpaths_nodup cfg check root h) (fun p _ => identifiers_nodup (loc p) (mods p))

end Xdoc.C07

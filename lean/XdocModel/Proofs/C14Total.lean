import XdocModel.Proofs.C14
import XdocModel.Lemmas.GroupTotal
import XdocModel.Lemmas.Lexer
/-!
# C14, continued — which failures of `parse` exist at all

* `group_never_fails_after_label` : the `assert prev_source is not None, 'impossible'` of
  `_group_labeled_lines` is indeed impossible on the labeller's output;
* `parse_failpoints` : the exact list of (fail point, error) pairs `parse` can end with, a witness
  docstring for each of them, and the proof that every other pair is impossible;
* the loops of `balanced_intervals` and of the tokenizer model do not depend on their fuel.
-/
namespace Xdoc.C14
open Xdoc Py Parser CoreExamples Lexer

/-! ## (1) grouping never fails after labelling -/

/-- ★ the grouping phase cannot fail on what the labeller returns: a `want` line is never the first
    line and never directly follows a `text` line (`labelLines_wantFollows`), so when pass 3 meets a
    `want` group a source group is waiting -/
theorem group_never_fails_after_label {ls : List Str} {out : List LLine} (h : labelLines ls = .ok out) :
    ∃ cs, groupLines out = .ok cs :=
  groupLines_ok_of_wantFollows (labelLines_wantFollows h)

/-- the error of a result, if any -/
def errOfE {ε α : Type} : Except ε α → Option ε
  | .ok _ => none
  | .error e => some e

/-- the hypothesis is needed: on labelled lines the labeller cannot produce, the assertion fires -/
example : errOfE (groupLines [(.want, "w".toList)]) = some .assertion := by decide +kernel
example : errOfE (groupLines [(.dsrc, ">>> x".toList), (.text, []), (.want, "w".toList)]) = some .assertion := by
  decide +kernel
/-- and the labeller does produce `want` lines (the statement is not about want-free texts only) -/
example : (labelLines [">>> x".toList, "w".toList]).toOption.map (·.map (·.1)) = some [.dsrc, .want] := by
  decide +kernel

/-- `chunksOf` (labelling then grouping) fails only in the labeller -/
theorem chunksOf_error_is_label_error (docstr : Str) (e : ParseError) (h : chunksOf docstr = .error e) :
    labelLines (prepareLines docstr) = .error e := by
  unfold chunksOf at h
  cases hl : labelLines (prepareLines docstr) with
  | error e' => simpa [hl, bind, Except.bind] using h
  | ok out =>
    obtain ⟨cs, hcs⟩ := group_never_fails_after_label hl
    simp [hl, hcs, bind, Except.bind] at h

/-- ★ `parse` never reports the fail point `_group_labeled_lines` -/
theorem parse_never_fails_in_group (docstr : Str) (facts : List ChunkFacts) (e : ParseError) :
    parse docstr facts ≠ .error (.group, e) := by
  intro h
  rcases failpoint_is_phase docstr facts .group e h with ⟨h1, _⟩ | ⟨_, out, hl, hg⟩ | ⟨h1, _⟩
  · cases h1
  · obtain ⟨cs, hcs⟩ := group_never_fails_after_label hl
    rw [hcs] at hg; cases hg
  · cases h1

/-! ## (2) the errors of the packaging phase -/

theorem foldlM_error {α β ε : Type} {f : β → α → Except ε β} {xs : List α} {b : β} {e : ε}
    (h : xs.foldlM f b = .error e) : ∃ b' x, x ∈ xs ∧ f b' x = .error e := by
  induction xs generalizing b with
  | nil => simp [pure, Except.pure] at h
  | cons x xs ih =>
    rw [List.foldlM_cons] at h
    cases hs : f b x with
    | error e1 =>
      simp only [hs, bind, Except.bind, Except.error.injEq] at h; subst h
      exact ⟨b, x, by simp, hs⟩
    | ok b1 =>
      simp only [hs, bind, Except.bind] at h
      obtain ⟨b', y, hy, hf⟩ := ih h
      exact ⟨b', y, by simp [hy], hf⟩

/-- `Directive.extract` on the lines of a PS1 group: the tokenizer's `IndentationError`, or a
    malformed option string -/
theorem extractDirectives_error {lines : List Str} {e : ParseError} (h : extractDirectives lines = .error e) :
    e = .indentation ∨ e = .directive := by
  unfold extractDirectives at h
  simp only at h
  split at h
  · simp only [Except.error.injEq] at h; exact Or.inl h.symm
  · obtain ⟨acc, c, _, hf⟩ := foldlM_error h
    split at hf
    · simp at hf
    · split at hf
      · simp at hf
      · split at hf
        · simp only [Except.error.injEq] at hf; exact Or.inr hf.symm
        · simp at hf

theorem breaksOf_error {el : List Str} {ps1s : List Nat} {e : ParseError} (h : breaksOf el ps1s = .error e) :
    e = .indentation ∨ e = .directive := by
  unfold breaksOf at h
  obtain ⟨acc, p, _, hf⟩ := foldlM_error h
  cases hd : extractDirectives (sliceFrom el p.1 p.2) with
  | error e' =>
    simp only [hd, bind, Except.bind, Except.error.injEq] at hf; subst hf
    exact extractDirectives_error hd
  | ok ds =>
    simp only [hd, bind, Except.bind] at hf
    cases ds <;> simp [pure, Except.pure] at hf

theorem ite_ok_ne_error {α ε : Type} {c : Prop} [Decidable c] {a b : α} {e : ε} :
    (if c then (Except.ok a : Except ε α) else .ok b) ≠ .error e := by
  split <;> exact fun h => by cases h

theorem assemble_error {el sl wl : List Str} {lineno : Nat} {ps1s : List Nat} {mode : CompileMode}
    {breaks : List Nat} {dm : List (Nat × List Directive)} {e : ParseError}
    (h : assemble el sl wl lineno ps1s mode breaks dm = .error e) : e = .index := by
  unfold assemble at h
  simp only [bind, Except.bind, pure, Except.pure] at h
  split at h
  · cases hl : ps1s.getLast? with
    | none =>
      simp only [hl, throw, throwThe, MonadExceptOf.throw, Except.error.injEq] at h
      exact h.symm
    | some s2 =>
      simp only [hl] at h
      exact absurd h ite_ok_ne_error
  · cases h

theorem locatePs1_error {sl : List Str} {facts : ChunkFacts} {e : ParseError}
    (h : locatePs1 sl facts = .error e) : e = .syntax ∧ facts = .syntaxError := by
  unfold locatePs1 at h
  cases facts with
  | syntaxError => simp only [Except.error.injEq] at h; exact ⟨h.symm, rfl⟩
  | parsed starts le => simp at h

theorem hackComments_error {lines : List Str} {e : ParseError} (h : hackComments lines = .error e) :
    e = .incomplete := by
  unfold hackComments at h
  split at h
  · simp only [Except.error.injEq] at h; exact h.symm
  · cases h

/-- the errors of `_package_chunk` -/
theorem packageChunk_error {src want : List Str} {lineno : Nat} {facts : ChunkFacts} {e : ParseError}
    (h : packageChunk src want lineno facts = .error e) :
    e = .syntax ∨ e = .indentation ∨ e = .directive ∨ e = .index := by
  rw [packageChunk_eq] at h
  simp only [bind, Except.bind] at h
  split at h
  · rename_i e' he
    simp only [Except.error.injEq] at h; subst h
    exact Or.inl (locatePs1_error he).1
  · rename_i v hv
    obtain ⟨ps1s, mode⟩ := v
    simp only at h
    split at h
    · rename_i e' he
      simp only [Except.error.injEq] at h; subst h
      rcases breaksOf_error he with h | h
      · exact Or.inr (Or.inl h)
      · exact Or.inr (Or.inr (Or.inl h))
    · rename_i w hw
      obtain ⟨breaks, dm⟩ := w
      simp only at h
      exact Or.inr (Or.inr (Or.inr (assemble_error h)))

/-- the error classes of the packaging phase: `IncompleteParseError` (`balanced_intervals` of the
    comment hack), `SyntaxError` (`ast.parse`), `IndentationError` / a malformed directive (directive
    extraction), `IndexError` (`ps1_linenos[-1]` of an empty list). No `AssertionError`. -/
theorem package_error_classes (chunks : List Chunk) (facts : List ChunkFacts) (lineno : Nat) (e : ParseError)
    (h : packageGroups chunks facts lineno = .error e) :
    e = .incomplete ∨ e = .syntax ∨ e = .indentation ∨ e = .directive ∨ e = .index := by
  induction chunks generalizing facts lineno with
  | nil => simp [packageGroups] at h
  | cons c cs ih =>
    cases c with
    | text ls =>
      simp only [packageGroups, bind, Except.bind, pure, Except.pure] at h
      split at h
      · rename_i e' he
        simp only [Except.error.injEq] at h; subst h
        exact ih _ _ he
      · simp at h
    | code src want =>
      simp only [packageGroups, bind, Except.bind, pure, Except.pure] at h
      split at h
      · rename_i e' he
        simp only [Except.error.injEq] at h; subst h
        exact Or.inl (hackComments_error he)
      · split at h
        · rename_i e' he
          simp only [Except.error.injEq] at h; subst h
          rcases packageChunk_error he with h | h | h | h
          · exact Or.inr (Or.inl h)
          · exact Or.inr (Or.inr (Or.inl h))
          · exact Or.inr (Or.inr (Or.inr (Or.inl h)))
          · exact Or.inr (Or.inr (Or.inr (Or.inr h)))
        · split at h
          · rename_i e' he
            simp only [Except.error.injEq] at h; subst h
            exact ih _ _ he
          · simp at h

/-! ## (2) the complete list of failures -/

/-- every way `DoctestParser.parse` can fail: (message of `DoctestParseError`, original error) -/
def possibleFailures : List (FailPoint × ParseError) :=
  [(.label, .syntax), (.label, .assertion), (.label, .incomplete),
   (.package, .incomplete), (.package, .syntax), (.package, .indentation), (.package, .directive),
   (.package, .index)]

/-- the pairs that never occur -/
def impossibleFailures : List (FailPoint × ParseError) :=
  [(.label, .index), (.label, .indentation), (.label, .directive),
   (.group, .assertion), (.group, .syntax), (.group, .incomplete), (.group, .index),
   (.group, .indentation), (.group, .directive),
   (.package, .assertion)]

/-- the two lists partition all 18 pairs -/
theorem failures_partition (fp : FailPoint) (e : ParseError) :
    ((fp, e) ∈ possibleFailures ∨ (fp, e) ∈ impossibleFailures) ∧
    ¬ ((fp, e) ∈ possibleFailures ∧ (fp, e) ∈ impossibleFailures) := by
  cases fp <;> cases e <;> decide

/-- ★ `parse` returns pieces, or fails with one of the eight pairs of `possibleFailures` -/
theorem parse_failpoints (docstr : Str) (facts : List ChunkFacts) :
    (∃ ps, parse docstr facts = .ok ps) ∨
    (∃ x, x ∈ possibleFailures ∧ parse docstr facts = .error x) := by
  rcases parse_total docstr facts with h | ⟨fp, e, h⟩
  · exact Or.inl h
  · refine Or.inr ⟨(fp, e), ?_, h⟩
    rcases failpoint_is_phase docstr facts fp e h with ⟨rfl, hl⟩ | ⟨rfl, out, hl, hg⟩ | ⟨rfl, cs, _, hp⟩
    · rcases label_error_classes _ _ hl with rfl | rfl | rfl <;> decide
    · exact absurd h (parse_never_fails_in_group docstr facts e)
    · rcases package_error_classes _ _ _ _ hp with rfl | rfl | rfl | rfl | rfl <;> decide

/-- ★ none of the ten other pairs is ever the outcome of `parse` -/
theorem parse_impossible_failures (docstr : Str) (facts : List ChunkFacts) (x : FailPoint × ParseError)
    (hx : x ∈ impossibleFailures) : parse docstr facts ≠ .error x := by
  intro h
  rcases parse_failpoints docstr facts with ⟨ps, hps⟩ | ⟨y, hy, hpy⟩
  · rw [hps] at h; cases h
  · rw [hpy] at h
    simp only [Except.error.injEq] at h; subst h
    obtain ⟨fp, e⟩ := y
    exact (failures_partition fp e).2 ⟨hy, hx⟩

/-- ★ each of the eight pairs does occur: a witness docstring (and CPython facts for the chunk) for
    every element of `possibleFailures`; each was also run through the real
    `DoctestParser().parse` -/
def failureWitness : FailPoint × ParseError → Str × List ChunkFacts
  | (.label, .syntax)        => (">>> x = (1,\n  2)\n".toList, [])
  | (.label, .assertion)     => ("\u00a0\u00a0>>> x\n".toList, [])
  | (.label, .incomplete)    => (">>> x = (\n".toList, [])
  | (.package, .incomplete)  => (">>> (\n...   \n... )\n".toList, [])
  | (.package, .syntax)      => (">>> x = = 1\n".toList, [.syntaxError])
  | (.package, .indentation) => (">>> if x:\n...         a = 1 + \\\n...     2\n".toList, [.parsed [0] false])
  | (.package, .directive)   => (">>> 1 # xdoctest: +SKIP(\n".toList, [.parsed [0] true])
  | (.package, .index)       => (">>>\n... 1\nwant\n".toList, [.parsed [1] true])
  | _ => ([], [])

theorem possibleFailures_all_occur :
    ∀ x ∈ possibleFailures, errOf (parse (failureWitness x).1 (failureWitness x).2) = some x := by
  decide +kernel

/-! ## (3) no loop depends on its fuel -/

/-- the counter of the inner `while` of `balanced_intervals` (`a` moves up from `b - 1`) is not
    observable: starting the search anywhere at or above `b` gives the same answer -/
theorem findStart_counter_irrelevant (lines : List Str) (b n : Nat) (h : b ≤ n) :
    findStart lines b n = findStart lines b b := by
  induction n with
  | zero => have : b = 0 := by omega
            subst this; rfl
  | succ n ih =>
    rcases Nat.lt_or_ge n b with hlt | hge
    · have : b = n + 1 := by omega
      subst this; rfl
    · have hn : ¬ n < b := by omega
      have : findStart lines b (n + 1) = findStart lines b n := by
        conv => lhs; unfold findStart
        simp only [hn, decide_false, Bool.false_and, Bool.false_eq_true, if_false]
      rw [this]; exact ih hge

/-- the inner loop is a bounded search: it answers `none` exactly when no start below `min n b`
    gives a balanced interval -/
theorem findStart_none_iff (lines : List Str) (b n : Nat) :
    findStart lines b n = none ↔ ∀ a, a < n → a < b → isBalanced ((lines.drop a).take (b - a)) = false := by
  induction n with
  | zero => simp [findStart]
  | succ n ih =>
    unfold findStart
    split
    · rename_i hc
      simp only [Bool.and_eq_true, decide_eq_true_eq] at hc
      simp only [reduceCtorEq, false_iff]
      intro hall
      have := hall n (by omega) hc.1
      rw [hc.2] at this; cases this
    · rename_i hc
      rw [ih]
      constructor
      · intro hall a han hab
        rcases Nat.lt_or_ge a n with h | h
        · exact hall a h hab
        · have : a = n := by omega
          subst this
          simp only [Bool.and_eq_true, decide_eq_true_eq, not_and, Bool.not_eq_true] at hc
          exact hc hab
      · intro hall a han hab
        exact hall a (by omega) hab

/-- and when it answers `some a`, `a` is the LARGEST start below `min n b` of a balanced interval -/
theorem findStart_some_spec {lines : List Str} {b n a : Nat} (h : findStart lines b n = some a) :
    a < n ∧ a < b ∧ isBalanced ((lines.drop a).take (b - a)) = true ∧
    ∀ a', a < a' → a' < n → a' < b → isBalanced ((lines.drop a').take (b - a')) = false := by
  induction n with
  | zero => simp [findStart] at h
  | succ n ih =>
    unfold findStart at h
    split at h
    · rename_i hc
      simp only [Option.some.injEq] at h; subst h
      simp only [Bool.and_eq_true, decide_eq_true_eq] at hc
      exact ⟨by omega, hc.1, hc.2, fun a' h1 h2 _ => by omega⟩
    · rename_i hc
      obtain ⟨h1, h2, h3, h4⟩ := ih h
      refine ⟨by omega, h2, h3, fun a' ha1 ha2 ha3 => ?_⟩
      rcases Nat.lt_or_ge a' n with hl | hg
      · exact h4 a' ha1 hl ha3
      · have : a' = n := by omega
        subst this
        simp only [Bool.and_eq_true, decide_eq_true_eq, not_and, Bool.not_eq_true] at hc
        exact hc ha3

/-- ★ the measure of the outer `while b > 0` : the interval starts are strictly decreasing and below
    `b`, whatever the fuel — so the loop runs at most `b` times -/
theorem intervalStarts_decreasing {lines : List Str} {fuel b : Nat} {l : List Nat}
    (h : intervalStarts lines fuel b = some l) : (b :: l).Pairwise (· > ·) := by
  induction fuel generalizing b l with
  | zero => simp only [intervalStarts, Option.some.injEq] at h; subst h; simp
  | succ fuel ih =>
    cases b with
    | zero => simp only [intervalStarts, Option.some.injEq] at h; subst h; simp
    | succ b =>
      simp only [intervalStarts] at h
      cases hf : findStart lines (b + 1) (b + 1) with
      | none => simp [hf] at h
      | some a =>
        simp only [hf, Option.map_eq_some_iff] at h
        obtain ⟨l', hl', rfl⟩ := h
        have hlt := findStart_lt hf
        have hp := ih hl'
        refine List.pairwise_cons.mpr ⟨?_, hp⟩
        intro x hx
        rcases List.mem_cons.mp hx with rfl | hx
        · exact hlt
        · have := (List.pairwise_cons.mp hp).1 x hx
          omega

theorem pairwise_gt_length {b : Nat} {l : List Nat} (h : (b :: l).Pairwise (· > ·)) : l.length ≤ b := by
  induction l generalizing b with
  | nil => simp
  | cons a as ih =>
    have h1 := List.pairwise_cons.mp h
    have := ih h1.2
    have := h1.1 a (by simp)
    simp; omega

theorem intervalStarts_length_le {lines : List Str} {fuel b : Nat} {l : List Nat}
    (h : intervalStarts lines fuel b = some l) : l.length ≤ b :=
  pairwise_gt_length (intervalStarts_decreasing h)

/-- ★ `_hack_comment_statements` does not depend on the fuel of its `balanced_intervals` -/
theorem hackComments_fuel_free (execLines : List Str) (fuel : Nat) (h : execLines.length ≤ fuel) :
    hackComments execLines =
      (match intervalStarts execLines fuel execLines.length with
       | none => .error .incomplete
       | some starts =>
         .ok (execLines.zipIdx.map fun (l, i) =>
           if starts.contains i && startsWith ['#'] l then "_._ = None".toList else l)) := by
  unfold hackComments
  rw [intervalStarts_fuel execLines execLines.length fuel execLines.length (Nat.le_refl _) h]
  rfl

/-! ### the tokenizer loop -/

/-- `lexGo` with an explicit fuel for the scan of each line (the model uses the length of the line) -/
def lexGoF (fuel : Nat) : LexState → List Str → LexState × LexEnd
  | st, [] =>
    if st.openStr.isSome then (st, .eofString)
    else if st.paren == 0 then (st, .ok)
    else (st, .eofStatement)
  | st, l :: ls =>
    match st.openStr with
    | some q =>
      (match closeTriple q l with
       | some r => lexGoF fuel (applyScan { st with openStr := none } (scanCode fuel st.paren false r)) ls
       | none => lexGoF fuel st ls)
    | none =>
      if st.paren == 0 then
        let (col, rest) := measureIndent 0 l
        match rest with
        | [] => (st, .ok)
        | c :: _ =>
          if c == '#' then lexGoF fuel { st with comments := st.comments ++ [rest] } ls
          else
            let top := st.indents.headD 0
            if col > top then lexGoF fuel (applyScan { st with indents := col :: st.indents } (scanCode fuel 0 false rest)) ls
            else
              match dedentTo col st.indents with
              | none => (st, .badDedent)
              | some ind => lexGoF fuel (applyScan { st with indents := ind } (scanCode fuel 0 false rest)) ls
      else lexGoF fuel (applyScan st (scanCode fuel st.paren false l)) ls

theorem measureIndent_length (col : Nat) (l : Str) : (measureIndent col l).2.length ≤ l.length := by
  induction l generalizing col with
  | nil => simp [measureIndent]
  | cons c s ih =>
    unfold measureIndent
    split
    · have := ih (col + 1); simp; omega
    · split
      · have := ih ((col / 8 + 1) * 8); simp; omega
      · split
        · have := ih 0; simp; omega
        · simp

theorem scan_fuel (fuel : Nat) (p : Int) (s : Str) (h : s.length ≤ fuel) : scanCode fuel p false s = scan p s :=
  scanCode_fuel_irrelevant fuel p false s h

/-- ★ the tokenizer model does not depend on the scan fuel: any fuel that covers the longest line
    gives the result of `lexGo` (which itself is a structural recursion over the lines: one line is
    consumed per iteration) -/
theorem lexGoF_eq (fuel : Nat) (st : LexState) (ls : List Str) (h : ∀ l ∈ ls, l.length ≤ fuel) :
    lexGoF fuel st ls = lexGo st ls := by
  induction ls generalizing st with
  | nil => simp [lexGoF, lexGo]
  | cons l ls ih =>
    have hl : l.length ≤ fuel := h l (by simp)
    have ih' := fun st => ih st (fun x hx => h x (by simp [hx]))
    cases ho : st.openStr with
    | some q =>
      cases hc : closeTriple q l with
      | none => rw [lexGoF, lexGo]; simp only [ho, hc]; exact ih' st
      | some r =>
        have := closeTriple_length q l hc
        rw [lexGoF, lexGo]; simp only [ho, hc]
        rw [scan_fuel fuel _ r (by omega), ih']
    | none =>
      cases hp : (st.paren == 0) with
      | true =>
        have hm := measureIndent_length 0 l
        rcases hmi : measureIndent 0 l with ⟨col, rest⟩
        rw [hmi] at hm
        simp only at hm
        cases rest with
        | nil => rw [lexGoF, lexGo]; simp only [ho, hp, hmi, ↓reduceIte]
        | cons c t =>
          have hs := scan_fuel fuel 0 (c :: t) (by omega)
          cases hcc : (c == '#') with
          | true => rw [lexGoF, lexGo]; simp only [ho, hp, hmi, hcc, ↓reduceIte]; exact ih' _
          | false =>
            by_cases hcol : col > st.indents.headD 0
            · rw [lexGoF, lexGo]; simp only [ho, hp, hmi, hcc, hcol, Bool.false_eq_true, ↓reduceIte, hs]
              exact ih' _
            · cases hd : dedentTo col st.indents with
              | none =>
                rw [lexGoF, lexGo]; simp only [ho, hp, hmi, hcc, hcol, hd, Bool.false_eq_true, ↓reduceIte]
              | some ind =>
                rw [lexGoF, lexGo]; simp only [ho, hp, hmi, hcc, hcol, hd, Bool.false_eq_true, ↓reduceIte, hs]
                exact ih' _
      | false =>
        rw [lexGoF, lexGo]; simp only [ho, hp, Bool.false_eq_true, ↓reduceIte]
        rw [scan_fuel fuel _ l hl, ih']

/-- `lex` with an explicit scan fuel -/
def isBalancedF (fuel : Nat) (lines : List Str) : Bool :=
  (lexGoF fuel {} (lines.filter (!·.isEmpty))).2 == .ok

/-- ★ `is_balanced_statement` (model) does not depend on the scan fuel -/
theorem isBalanced_fuel_free (fuel : Nat) (lines : List Str) (h : ∀ l ∈ lines, l.length ≤ fuel) :
    isBalancedF fuel lines = isBalanced lines := by
  unfold isBalancedF isBalanced lex
  rw [lexGoF_eq]
  intro l hl
  exact h l (List.mem_filter.mp hl).1

/-- the labeller (with the inner `while` of `_complete_source` folded in) consumes exactly one input
    line per emitted line: no line is read twice, the loop ends with the text -/
theorem labelLines_length {ls : List Str} {out : List LLine} (h : labelLines ls = .ok out) :
    out.length = ls.length :=
  (labelLines_lines h).length_eq.symm

/-! ### non-vacuity -/

def exLines : List Str := ["(".toList, ")".toList, "x".toList]

example : findStart exLines 2 2 = some 0 := by decide +kernel
example : findStart exLines 2 7 = findStart exLines 2 2 := findStart_counter_irrelevant _ _ _ (by decide)
example : findStart ["(".toList] 1 1 = none := by decide +kernel
example : intervalStarts exLines 3 3 = some [2, 0] := by decide +kernel
example : intervalStarts exLines 100 3 = some [2, 0] := by decide +kernel
/-- too little fuel IS observable (so the hypothesis of `intervalStarts_fuel` is needed): the model
    always passes `lines.length` -/
example : intervalStarts exLines 1 3 = some [2] := by decide +kernel
/-- same for the scan fuel: with fuel 1 the closing bracket of `(x)` is not seen -/
example : (lexGoF 1 {} ["(x)".toList]).2 = .eofStatement ∧ (lexGo {} ["(x)".toList]).2 = .ok := by decide +kernel
example : isBalancedF 3 ["(x)".toList] = true := by decide +kernel
example : (hackComments ["# c".toList, "x".toList]).toOption = some ["_._ = None".toList, "x".toList] := by
  decide +kernel
example : errOfE (chunksOf ">>> x = (\n".toList) = some .incomplete := by decide +kernel
/-- a text on which labelling and grouping succeed with a want -/
example : (chunksOf "t\n>>> x\nw\n".toList).toOption =
    some [.text ["t".toList], .code [">>> x".toList] ["w".toList]] := by decide +kernel

end Xdoc.C14

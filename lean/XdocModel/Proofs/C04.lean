import XdocModel.Directive
import XdocModel.Example
import XdocModel.Lemmas.Example
import XdocModel.Parser
import XdocModel.Lemmas.Lexer
/-!
# C04 — Directive scoping: block persists, inline is local, skipped code never runs

About `RuntimeState.update` / the skip rule of the run loop, for ALL states, ALL directive lists
and ALL requirement oracles `sat`.
-/
namespace Xdoc.C04
open Xdoc Py

/-- the directive is not one of the `REPORT_*` family (those rewrite the persistent report
    style even when written inline: known finding K-C04-b) -/
def NotReport (d : Directive) : Prop := d.name.startsWith "REPORT_" = false

theorem effects_no_report {sat : Str → Option Bool} {d : Directive} (h : NotReport d)
    {es : List Effect} (he : d.effects sat = some es) : ∀ e ∈ es, ∀ k, e ≠ .setReportStyle k := by
  unfold Directive.effects at he
  split at he
  · intro e hmem k hk
    subst hk
    -- every element produced by the REQUIRES branch is noop / setAdd / setRemove
    have : ∀ (args : List Str) (es : List Effect),
        (args.mapM fun a => match sat a with
          | none => none
          | some true => some Effect.noop
          | some false => some (if d.positive then Effect.setAdd "REQUIRES" a else Effect.setRemove "REQUIRES" a)) = some es →
        ∀ e ∈ es, ∀ k, e ≠ .setReportStyle k := by
      intro args
      induction args with
      | nil => intro es h; simp at h; subst h; simp
      | cons a as ih =>
        intro es h e hmem k
        simp only [List.mapM_cons, Option.bind_eq_bind] at h
        cases hs : sat a with
        | none => simp [hs] at h
        | some b =>
          cases hrest : (as.mapM fun a => match sat a with
              | none => none
              | some true => some Effect.noop
              | some false => some (if d.positive then Effect.setAdd "REQUIRES" a else Effect.setRemove "REQUIRES" a)) with
          | none => cases b <;> simp [hs, hrest] at h
          | some es' =>
            cases b <;> simp [hs, hrest] at h <;> subst h
            · rcases List.mem_cons.mp hmem with rfl | hm
              · split <;> simp
              · exact ih es' hrest e hm k
            · rcases List.mem_cons.mp hmem with rfl | hm
              · simp
              · exact ih es' hrest e hm k
    exact this d.args es he _ hmem k rfl
  · split at he
    · rename_i h2; unfold NotReport at h; rw [h] at h2; cases h2
    · cases he; intro e hmem k; simp at hmem; subst hmem; simp

/-- an inline effect other than the report style touches only the overlay -/
theorem applyEffect_inline_persist (s : RState) (e : Effect) (h : ∀ k, e ≠ .setReportStyle k) :
    (RState.applyEffect true s e).gBools = s.gBools ∧ (RState.applyEffect true s e).gReq = s.gReq := by
  cases e with
  | noop => exact ⟨rfl, rfl⟩
  | assign k v => exact ⟨rfl, rfl⟩
  | setAdd k v => exact ⟨rfl, rfl⟩
  | setRemove k v => exact ⟨rfl, rfl⟩
  | setReportStyle k => exact absurd rfl (h k)

theorem foldl_inline_persist (s : RState) (es : List Effect) (h : ∀ e ∈ es, ∀ k, e ≠ .setReportStyle k) :
    (es.foldl (RState.applyEffect true) s).gBools = s.gBools ∧
    (es.foldl (RState.applyEffect true) s).gReq = s.gReq := by
  induction es generalizing s with
  | nil => exact ⟨rfl, rfl⟩
  | cons e es ih =>
    simp only [List.foldl_cons]
    have h1 := applyEffect_inline_persist s e (h e (by simp))
    have h2 := ih (RState.applyEffect true s e) (fun e' he' => h e' (by simp [he']))
    exact ⟨h2.1.trans h1.1, h2.2.trans h1.2⟩

theorem foldlM_inline_persist (sat : Str → Option Bool) (ds : List Directive)
    (hin : ∀ d ∈ ds, d.inline = true ∧ NotReport d) (s s' : RState)
    (h : ds.foldlM (RState.applyDirective sat) s = some s') :
    s'.gBools = s.gBools ∧ s'.gReq = s.gReq := by
  induction ds generalizing s with
  | nil => simp at h; subst h; exact ⟨rfl, rfl⟩
  | cons d ds ih =>
    simp only [List.foldlM_cons, Option.bind_eq_bind] at h
    cases hd : RState.applyDirective sat s d with
    | none => simp [hd] at h
    | some s1 =>
      simp only [hd, Option.bind_some] at h
      have ⟨hi, hn⟩ := hin d (by simp)
      have h1 : s1.gBools = s.gBools ∧ s1.gReq = s.gReq := by
        unfold RState.applyDirective at hd
        cases he : d.effects sat with
        | none => simp [he] at hd
        | some es =>
          simp only [he, Option.map_some, Option.some.injEq] at hd
          subst hd
          rw [hi]
          exact foldl_inline_persist s es (effects_no_report hn he)
      have h2 := ih (fun d' hd' => hin d' (by simp [hd'])) s1 h
      exact ⟨h2.1.trans h1.1, h2.2.trans h1.2⟩

/-- ★ `inline_leaves_persistent_untouched`: an update made of inline directives (outside the
    REPORT family) leaves the persistent state exactly as it was -/
theorem inline_leaves_persistent_untouched (sat : Str → Option Bool) (s s' : RState)
    (ds : List Directive) (hin : ∀ d ∈ ds, d.inline = true ∧ NotReport d)
    (h : s.update sat ds = some s') : s'.gBools = s.gBools ∧ s'.gReq = s.gReq := by
  unfold RState.update at h
  exact foldlM_inline_persist sat ds hin { s with iBools := [], iReq := none } s' h

/-- ★ `inline_does_not_leak`: what an inline directive did is forgotten by the next update —
    the statement after it sees exactly the state it would have seen without it -/
theorem inline_does_not_leak (sat : Str → Option Bool) (s s1 : RState) (ds ds' : List Directive)
    (hin : ∀ d ∈ ds, d.inline = true ∧ NotReport d) (h : s.update sat ds = some s1) :
    s1.update sat ds' = s.update sat ds' := by
  obtain ⟨h1, h2⟩ := inline_leaves_persistent_untouched sat s s1 ds hin h
  unfold RState.update
  have : ({ s1 with iBools := [], iReq := none } : RState) = { s with iBools := [], iReq := none } := by
    cases s; cases s1; simp_all
  rw [this]

/-- ★ a block directive on a boolean flag is visible in the updated state (unless the same update
    also carries an inline assignment of that flag, which wins for that statement only) -/
theorem block_assign_visible (s : RState) (k : String) (v : Bool)
    (hover : alGet k s.iBools = none) :
    (RState.applyEffect false s (.assign k v)).getBool k = some v := by
  have key : ∀ (l : List (String × Bool)), alGet k (alSet k v l) = some v := by
    intro l
    induction l with
    | nil => simp [alSet, alGet, List.lookup]
    | cons kv r ih =>
      obtain ⟨k', v'⟩ := kv
      simp only [alSet]
      split
      · simp [alGet, List.lookup]
      · rename_i hne
        simp only [alGet, List.lookup] at ih ⊢
        have : (k == k') = false := by
          simp only [beq_eq_false_iff_ne, ne_eq] at hne ⊢
          intro h; exact hne (by simp [h])
        simp [this, ih]
  simp [RState.applyEffect, RState.getBool, key, hover]

/-- ★ `+REQUIRES(x)` followed by `-REQUIRES(x)` (x unmet) gives back the pending set -/
theorem requires_inverse (req : List Str) (x : Str) (hx : x ∉ req) :
    setErase x (setInsert x req) = req := by
  unfold setInsert setErase
  have hc : req.contains x = false := by simpa using hx
  simp only [hc, Bool.false_eq_true, ↓reduceIte, List.filter_append]
  have : req.filter (· != x) = req := by
    apply List.filter_eq_self.mpr
    intro a ha
    simp only [bne_iff_ne, ne_eq]
    intro h; subst h; exact hx ha
  simp [this]

/-- ★ a satisfied requirement is a no-op -/
theorem satisfied_requirement_noop (sat : Str → Option Bool) (pos inl : Bool) (x : Str)
    (h : sat x = some true) :
    ({ name := "REQUIRES", positive := pos, args := [x], inline := inl } : Directive).effects sat
      = some [.noop] := by
  simp [Directive.effects, h]

/-- ★ the execution rule: a part is handed to the interpreter iff, in the state updated with
    its directives, SKIP is off and no unmet requirement is pending — and it holds some code -/
theorem executed_iff (sat : Str → Option Bool) (cfg : RunCfg) (rs0 : RState) (di : Bool) (p : RunPart) :
    (∃ rs, preStage sat cfg rs0 di p = .exec rs ∨ preStage sat cfg rs0 di p = .importFail rs) ↔
      ∃ rs, rs0.update sat p.directives = some rs ∧
        (rs.getBool "SKIP").getD false = false ∧ rs.requires = [] ∧ p.part.hasAnyCode = true := by
  unfold preStage
  cases h : rs0.update sat p.directives with
  | none => simp
  | some rs =>
    simp only [Option.some.injEq, exists_eq_left']
    by_cases hs : rs.skips = true
    · simp only [hs, ↓reduceIte]
      constructor
      · rintro ⟨_, h | h⟩ <;> cases h
      · rintro ⟨h1, h2, _⟩
        simp [RState.skips, h1, h2] at hs
    · simp only [hs, Bool.false_eq_true, ↓reduceIte]
      by_cases hc : p.part.hasAnyCode = true
      · simp only [hc, Bool.not_true, Bool.false_eq_true, ↓reduceIte]
        have hs' : (rs.getBool "SKIP").getD false = false ∧ rs.requires = [] := by
          simp only [RState.skips, Bool.or_eq_true, Bool.not_eq_true', List.isEmpty_eq_false_iff,
            not_or, Bool.not_eq_true, ne_eq, Decidable.not_not] at hs
          exact hs
        constructor
        · intro _; exact ⟨hs'.1, hs'.2, trivial⟩
        · intro _
          split
          · exact ⟨rs, Or.inr rfl⟩
          · exact ⟨rs, Or.inl rfl⟩
      · simp only [hc, Bool.not_false, ↓reduceIte]
        constructor
        · rintro ⟨_, h | h⟩ <;> cases h
        · rintro ⟨_, _, h⟩; exact absurd h (by simpa using hc)

/-- ★ `skipped_has_no_effect`: a skipped part changes neither the namespace, nor the logged
    output, nor the unmatched output, is not executed, and its want is never checked (the only
    change is the entry in `_skipped_parts`) -/
theorem skipped_has_no_effect {Env : Type} (cfg : RunCfg) (s : RunState Env) (i : Nat) (env' : Env) :
    applyAct cfg s i env' .skip =
      .continue { s with skipped := s.skipped ++ [i] } := rfl

theorem skip_decision {Env : Type} (sat : Str → Option Bool) (sem : Env → Nat → RunPart → ExecResult × Env)
    (cfg : RunCfg) (s : RunState Env) (i : Nat) (p : RunPart) (rs : RState)
    (h : preStage sat cfg s.rs s.didImport p = .skip rs) :
    stepPart sat sem cfg s i p = .continue { s with rs := rs, skipped := s.skipped ++ [i] } := by
  simp [stepPart, h, applyAct]

/-- ★ `cli_default_is_leading_block`: a boolean default given on the command line is the state a
    leading block directive produces (REQUIRES through `--options` is excluded: known finding
    K-C04-c, the real code stores `True` in place of the set) -/
theorem cli_default_is_leading_block (sat : Str → Option Bool) (k : String) (b : Bool)
    (hk : k ≠ "REQUIRES") (hr : k.startsWith "REPORT_" = false) :
    (RState.init []).update sat [{ name := k, positive := b, inline := false }]
      = some (RState.init [(k, b)]) := by
  have hk' : (k == "REQUIRES") = false := by simpa using hk
  simp [RState.update, RState.applyDirective, Directive.effects, hk', hr, RState.applyEffect,
    RState.init]

/-! ### non-vacuity -/
example : NotReport { name := "SKIP" } := by unfold NotReport; decide +kernel
example : ((RState.init []).update (fun _ => some false)
    [{ name := "REQUIRES", args := ["--x".toList], inline := true }]).map (·.skips) = some true := by
  decide +kernel
example : (((RState.init []).update (fun _ => some false)
    [{ name := "REQUIRES", args := ["--x".toList], inline := true }]).bind
      (·.update (fun _ => some false) [])).map (·.skips) = some false := by decide +kernel

end Xdoc.C04

/-!
# C04, clause "directive-looking text inside string literals is not a directive"

Directives are looked for in the COMMENT tokens only (`Directive.extract` → `extract_comments` →
the tokenizer). At the level of the mini-lexer, for ALL strings: the fuel of the scanner is not
observable; a closed string literal is skipped whatever its body, so that a `#` inside it never
starts the comment of the line; the comment is a suffix of the line; hence a source line whose
only `#` sit inside a string literal carries no comment and no directive.

Two hypotheses that cannot be dropped (counterexamples are given as `example`s below):
* the body of a single-quoted literal is empty only if the text after it does not start with the
  same quote (`''` followed by `'` opens a triple-quoted string);
* the quote is closed: an unterminated single quote is a lone error token and the text after it is
  scanned as code (so `x = '# a` does carry the comment `# a`, in the real tokenizer as well).
-/
namespace Xdoc.C04
open Xdoc Py Lexer Parser

/-- ★ (1) the fuel of the scanner is not observable -/
theorem scan_fuel_irrelevant (fuel : Nat) (p : Int) (semi : Bool) (s : Str) (h : s.length ≤ fuel) :
    scanCode fuel p semi s = scanCode s.length p semi s :=
  scanCode_fuel_irrelevant fuel p semi s h

/-- plain code (no quote, no `#`): the scan is the bracket count and the search for a `;` -/
theorem scan_plain (p : Int) (pre : Str) (hpre : Plain pre) :
    scan p pre = { paren := depthAfter p pre, semicolon := pre.contains ';' } := by
  rw [scan_eq_scanS, scanS_plain _ _ _ hpre]; simp

/-- the scanner composes over a plain prefix (it reaches the end of `pre` at a token boundary) -/
theorem scan_plain_append (p : Int) (pre rest : Str) (hpre : Plain pre) :
    scan p (pre ++ rest) = withSemi (scan p pre).semicolon (scan (scan p pre).paren rest) := by
  simp only [scan_eq_scanS]
  rw [scanS_plain_append _ _ _ _ hpre, scanS_plain _ _ _ hpre]
  simp only [Bool.false_or]
  exact scanS_semi _ _ _

/-- whatever closes as a single-quoted string is skipped as a whole -/
theorem scan_skips_single (p : Int) (pre s r : Str) (q : Char) (hpre : Plain pre) (hq : IsQuote q)
    (hc : closeSingle q s = some r) (hnt : ∀ t, s ≠ q :: q :: t) :
    scan p (pre ++ q :: s) = withSemi (scan p pre).semicolon (scan (scan p pre).paren r) := by
  rw [scan_plain_append _ _ _ hpre]
  simp only [scan_eq_scanS]
  rw [scanS_single _ _ hq hc hnt]

/-- whatever closes as a triple-quoted string on the same line is skipped as a whole -/
theorem scan_skips_triple (p : Int) (pre s r : Str) (q : Char) (hpre : Plain pre) (hq : IsQuote q)
    (hc : closeTriple q s = some r) :
    scan p (pre ++ q :: q :: q :: s) =
      withSemi (scan p pre).semicolon (scan (scan p pre).paren r) := by
  rw [scan_plain_append _ _ _ hpre]
  simp only [scan_eq_scanS]
  rw [scanS_triple _ _ hq hc]

theorem singleBody_not_triple {q : Char} (hq : IsQuote q) {body post : Str} (hb : SingleBody q body)
    (hnt : body = [] → post.head? ≠ some q) : ∀ t, body ++ q :: post ≠ q :: q :: t := by
  intro t h
  cases body with
  | nil =>
    simp only [List.nil_append, List.cons.injEq, true_and] at h
    exact hnt rfl (by simp [h])
  | cons c b =>
    simp only [List.cons_append, List.cons.injEq] at h
    exact hb.head_ne hq.ne_backslash (by simp [h.1])

/-- ★ (2) `string_literal_is_not_comment`, one line, single-quoted: the line
    `pre 'body' post` is scanned as `pre` followed by `post` — the comment of the line is the
    comment found in `post` at the depth reached after `pre`; a `#` inside `body` never starts it -/
theorem string_literal_is_not_comment (p : Int) (pre body post : Str) (q : Char)
    (hpre : Plain pre) (hq : IsQuote q) (hb : SingleBody q body)
    (hnt : body = [] → post.head? ≠ some q) :
    (scan p (pre ++ q :: (body ++ q :: post))).comment = (scan (scan p pre).paren post).comment ∧
    (scan p (pre ++ q :: (body ++ q :: post))).paren = (scan (scan p pre).paren post).paren ∧
    (scan p (pre ++ q :: (body ++ q :: post))).openStr = (scan (scan p pre).paren post).openStr ∧
    (scan p (pre ++ q :: (body ++ q :: post))).semicolon =
      ((scan p pre).semicolon || (scan (scan p pre).paren post).semicolon) := by
  rw [scan_skips_single p pre _ post q hpre hq (closeSingle_body hq.ne_backslash hb post)
    (singleBody_not_triple hq hb hnt)]
  exact ⟨rfl, rfl, rfl, rfl⟩

/-- ★ (2') the same for a triple-quoted literal closed on the line -/
theorem triple_literal_is_not_comment (p : Int) (pre body post : Str) (q : Char)
    (hpre : Plain pre) (hq : IsQuote q) (hb : TripleBody q body) :
    (scan p (pre ++ q :: q :: q :: (body ++ q :: q :: q :: post))).comment
      = (scan (scan p pre).paren post).comment ∧
    (scan p (pre ++ q :: q :: q :: (body ++ q :: q :: q :: post))).paren
      = (scan (scan p pre).paren post).paren ∧
    (scan p (pre ++ q :: q :: q :: (body ++ q :: q :: q :: post))).openStr
      = (scan (scan p pre).paren post).openStr ∧
    (scan p (pre ++ q :: q :: q :: (body ++ q :: q :: q :: post))).semicolon =
      ((scan p pre).semicolon || (scan (scan p pre).paren post).semicolon) := by
  rw [scan_skips_triple p pre _ post q hpre hq (closeTriple_body hq.ne_backslash hb post)]
  exact ⟨rfl, rfl, rfl, rfl⟩

/-- ★ (3) `comment_is_suffix`: the comment of a line is a suffix of it and starts with `#` -/
theorem comment_is_suffix (p : Int) (s c : Str) (h : (scan p s).comment = some c) :
    ∃ a, s = a ++ c ∧ c.head? = some '#' := by
  obtain ⟨⟨a, ha⟩, h2⟩ := scanCode_comment _ _ _ _ _ h
  exact ⟨a, ha.symm, h2⟩

/-- (2)+(3): the comment of `pre 'body' post` lies wholly after the literal -/
theorem comment_lies_after_literal (p : Int) (pre body post c : Str) (q : Char)
    (hpre : Plain pre) (hq : IsQuote q) (hb : SingleBody q body)
    (hnt : body = [] → post.head? ≠ some q)
    (h : (scan p (pre ++ q :: (body ++ q :: post))).comment = some c) :
    ∃ a, post = a ++ c ∧ c.head? = some '#' := by
  rw [(string_literal_is_not_comment p pre body post q hpre hq hb hnt).1] at h
  exact comment_is_suffix _ _ _ h

/-- ★ (4a) a one-line source: `extract_comments` is one scan at depth 0 (indentation included) -/
theorem extractComments_single_line (l : Str) :
    extractComments [l] = some (scan 0 l).comment.toList := by
  obtain ⟨h1, h2, _⟩ := lex_single l
  unfold extractComments
  rcases hl : lex [l] with ⟨st, e⟩
  rw [hl] at h1 h2
  simp only at h1 h2
  have hne : e ≠ .badDedent := by
    rw [h1]; unfold Lexer.endOf
    split
    · simp
    · split <;> simp
  cases e <;> simp_all

/-- `is_balanced_statement` of a one-line source -/
theorem isBalanced_single_line (l : Str) :
    isBalanced [l] = ((scan 0 l).openStr.isNone && (scan 0 l).paren == 0) := by
  obtain ⟨h1, _, _⟩ := lex_single l
  unfold isBalanced
  rw [h1]; unfold Lexer.endOf
  cases (scan 0 l).openStr <;> simp
  split
  · rename_i h
    rw [show (LexEnd.ok == LexEnd.ok) = true from by decide]; simp [h]
  · rename_i h
    rw [show (LexEnd.eofStatement == LexEnd.ok) = false from by decide]; simp [h]

/-- ★ (4b) the comments of the source line `pre 'body' post` do not depend on `body` -/
theorem extractComments_string_literal (pre body post : Str) (q : Char)
    (hpre : Plain pre) (hq : IsQuote q) (hb : SingleBody q body)
    (hnt : body = [] → post.head? ≠ some q) :
    extractComments [pre ++ q :: (body ++ q :: post)]
      = some (scan (scan 0 pre).paren post).comment.toList := by
  rw [extractComments_single_line, (string_literal_is_not_comment 0 pre body post q hpre hq hb hnt).1]

/-- ★ (4c) a source line whose only `#` are inside a string literal has no comment … -/
theorem no_comment_in_string_literal (pre body post : Str) (q : Char)
    (hpre : Plain pre) (hq : IsQuote q) (hb : SingleBody q body) (hpost : Plain post) :
    extractComments [pre ++ q :: (body ++ q :: post)] = some [] := by
  have hnt : body = [] → post.head? ≠ some q := by
    intro _ h
    cases post with
    | nil => simp at h
    | cons c t =>
      simp only [List.head?_cons, Option.some.injEq] at h
      subst h
      have := (plain_cons.mp hpost).1
      rcases hq with rfl | rfl
      · exact this.1 rfl
      · exact this.2.1 rfl
  rw [extractComments_string_literal pre body post q hpre hq hb hnt, scan_eq_scanS,
    (scanS_plain_comment _ _ _ hpost).1]
  rfl

/-- ★ (4d) … hence no directive: `Directive.extract` of that line is empty whatever the body of
    the literal is, `# xdoctest: +SKIP` included -/
theorem no_directive_in_string_literal (pre body post : Str) (q : Char)
    (hpre : Plain pre) (hq : IsQuote q) (hb : SingleBody q body) (hpost : Plain post) :
    extractDirectives [pre ++ q :: (body ++ q :: post)] = .ok [] := by
  unfold extractDirectives
  simp only [no_comment_in_string_literal pre body post q hpre hq hb hpost]
  rfl

/-- ★ (4e) the directives of the source line `pre 'body' post` do not depend on `body`: whatever
    is written inside the string literal, the directives are those of the real comment in `post`
    (here `post` is arbitrary: it may hold a real `# xdoctest: …` comment) -/
theorem directives_ignore_string_body (pre body body' post : Str) (q : Char)
    (hpre : Plain pre) (hq : IsQuote q) (hb : SingleBody q body) (hb' : SingleBody q body')
    (hnt : body = [] → post.head? ≠ some q) (hnt' : body' = [] → post.head? ≠ some q) :
    extractDirectives [pre ++ q :: (body ++ q :: post)]
      = extractDirectives [pre ++ q :: (body' ++ q :: post)] := by
  have h1 := extractComments_string_literal pre body post q hpre hq hb hnt
  have h2 := extractComments_string_literal pre body' post q hpre hq hb' hnt'
  have s1 := strip_not_hash pre q (body ++ q :: post) hpre hq.not_space hq.ne_hash
  have s2 := strip_not_hash pre q (body' ++ q :: post) hpre hq.not_space hq.ne_hash
  have g1 : ([pre ++ q :: (body ++ q :: post)].getLast? == some []) = false := by simp
  have g2 : ([pre ++ q :: (body' ++ q :: post)].getLast? == some []) = false := by simp
  unfold extractDirectives
  simp only [h1, h2, g1, g2, Bool.false_eq_true, ↓reduceIte, List.all_cons, List.all_nil, s1, s2,
    Bool.and_true]

/-- a `;` inside a string literal is not a statement separator -/
theorem semicolon_in_string_literal (pre body post : Str) (q : Char)
    (hpre : Plain pre) (hq : IsQuote q) (hb : SingleBody q body)
    (hnt : body = [] → post.head? ≠ some q) :
    hasSemicolon [pre ++ q :: (body ++ q :: post)]
      = ((scan 0 pre).semicolon || (scan (scan 0 pre).paren post).semicolon) := by
  unfold hasSemicolon
  rw [(lex_single _).2.2, (string_literal_is_not_comment 0 pre body post q hpre hq hb hnt).2.2.2]

/-- brackets and quotes inside a string literal do not count for `is_balanced_statement` -/
theorem brackets_in_string_literal (pre body post : Str) (q : Char)
    (hpre : Plain pre) (hq : IsQuote q) (hb : SingleBody q body)
    (hnt : body = [] → post.head? ≠ some q) :
    isBalanced [pre ++ q :: (body ++ q :: post)]
      = ((scan (scan 0 pre).paren post).openStr.isNone && (scan (scan 0 pre).paren post).paren == 0) := by
  obtain ⟨_, h2, h3, _⟩ := string_literal_is_not_comment 0 pre body post q hpre hq hb hnt
  rw [isBalanced_single_line, h2, h3]

/-! ### the same in ANY context: lines before, lines after, any bracket depth -/

/-- `q :: s` starts with a string literal closed on the line, `post` is the text after it:
    single-quoted (`s` = body, quote, post — not the start of a triple quote) or triple-quoted -/
def Lit (q : Char) (s post : Str) : Prop :=
  (closeSingle q s = some post ∧ ∀ t, s ≠ q :: q :: t) ∨
  (∃ s', s = q :: q :: s' ∧ closeTriple q s' = some post)

theorem Lit.single {q : Char} (hq : IsQuote q) {body post : Str} (hb : SingleBody q body)
    (hnt : body = [] → post.head? ≠ some q) : Lit q (body ++ q :: post) post :=
  Or.inl ⟨closeSingle_body hq.ne_backslash hb post, singleBody_not_triple hq hb hnt⟩

theorem Lit.triple {q : Char} (hq : IsQuote q) {body : Str} (hb : TripleBody q body) (post : Str) :
    Lit q (q :: q :: (body ++ q :: q :: q :: post)) post :=
  Or.inr ⟨_, rfl, closeTriple_body hq.ne_backslash hb post⟩

/-- a closed literal is skipped as a whole -/
theorem scan_skips_literal (p : Int) (pre s post : Str) (q : Char) (hpre : Plain pre)
    (hq : IsQuote q) (hl : Lit q s post) :
    scan p (pre ++ q :: s) = withSemi (scan p pre).semicolon (scan (scan p pre).paren post) := by
  rcases hl with ⟨h1, h2⟩ | ⟨s', rfl, h⟩
  · exact scan_skips_single p pre s post q hpre hq h1 h2
  · exact scan_skips_triple p pre s' post q hpre hq h

/-- one step of the tokenizer loop, from any state without an open triple-quoted string (any
    bracket depth, any indentation stack): the body of the literal is not observable -/
theorem lexGo_ignores_string_body (st : LexState) (hopen : st.openStr = none) (ls : List Str)
    (pre s s' post : Str) (q : Char) (hpre : Plain pre) (hq : IsQuote q)
    (hl : Lit q s post) (hl' : Lit q s' post) :
    lexGo st ((pre ++ q :: s) :: ls) = lexGo st ((pre ++ q :: s') :: ls) := by
  have key : ∀ (p : Int) (pre : Str), Plain pre → scan p (pre ++ q :: s) = scan p (pre ++ q :: s') :=
    fun p pre hpre => by
      rw [scan_skips_literal p pre s post q hpre hq hl, scan_skips_literal p pre s' post q hpre hq hl']
  rw [lexGo, lexGo]
  simp only [hopen]
  cases hp : (st.paren == 0) with
  | false =>
    simp only [Bool.false_eq_true, ↓reduceIte]
    rw [key st.paren pre hpre]
  | true =>
    obtain ⟨col', pre', hpl, hmi⟩ := measureIndent_plain_split 0 pre q hpre hq.not_indent
    have hsc := key 0 pre' hpl
    simp only [↓reduceIte, hmi]
    cases pre' with
    | nil =>
      have hh : (q == '#') = false := by simpa using hq.ne_hash
      simp only [List.nil_append] at hsc ⊢
      simp only [hh, Bool.false_eq_true, ↓reduceIte, hsc]
    | cons c t =>
      have hh : (c == '#') = false := by simpa using (plain_cons.mp hpl).1.2.2
      simp only [List.cons_append] at hsc ⊢
      simp only [hh, Bool.false_eq_true, ↓reduceIte, hsc]

/-- ★ (4f) whole sources: in a source of any number of lines, on a line that is reached with no
    triple-quoted string open, the body of a closed string literal preceded by plain code is not
    observable by the tokenizer loop: same comments, same end, same `;` flag -/
theorem lex_ignores_string_body (before after : List Str) (pre s s' post : Str) (q : Char)
    (hopen : (lex before).1.openStr = none) (hpre : Plain pre) (hq : IsQuote q)
    (hl : Lit q s post) (hl' : Lit q s' post) :
    lex (before ++ (pre ++ q :: s) :: after) = lex (before ++ (pre ++ q :: s') :: after) := by
  unfold lex at *
  have hf : ∀ X : Str, (before ++ (pre ++ q :: X) :: after).filter (!·.isEmpty)
      = before.filter (!·.isEmpty) ++ (pre ++ q :: X) :: after.filter (!·.isEmpty) := by
    intro X; simp
  rw [hf, hf]
  rcases lexGo_append {} (before.filter (!·.isEmpty)) with h | h
  · rw [h, h]
  · rw [h, h]
    exact lexGo_ignores_string_body _ hopen _ pre s s' post q hpre hq hl hl'

theorem extractComments_ignores_string_body (before after : List Str) (pre s s' post : Str)
    (q : Char) (hopen : (lex before).1.openStr = none) (hpre : Plain pre) (hq : IsQuote q)
    (hl : Lit q s post) (hl' : Lit q s' post) :
    extractComments (before ++ (pre ++ q :: s) :: after)
      = extractComments (before ++ (pre ++ q :: s') :: after) := by
  unfold extractComments
  rw [lex_ignores_string_body before after pre s s' post q hopen hpre hq hl hl']

theorem isBalanced_ignores_string_body (before after : List Str) (pre s s' post : Str)
    (q : Char) (hopen : (lex before).1.openStr = none) (hpre : Plain pre) (hq : IsQuote q)
    (hl : Lit q s post) (hl' : Lit q s' post) :
    isBalanced (before ++ (pre ++ q :: s) :: after)
      = isBalanced (before ++ (pre ++ q :: s') :: after) := by
  unfold isBalanced
  rw [lex_ignores_string_body before after pre s s' post q hopen hpre hq hl hl']

theorem hasSemicolon_ignores_string_body (before after : List Str) (pre s s' post : Str)
    (q : Char) (hopen : (lex before).1.openStr = none) (hpre : Plain pre) (hq : IsQuote q)
    (hl : Lit q s post) (hl' : Lit q s' post) :
    hasSemicolon (before ++ (pre ++ q :: s) :: after)
      = hasSemicolon (before ++ (pre ++ q :: s') :: after) := by
  unfold hasSemicolon
  rw [lex_ignores_string_body before after pre s s' post q hopen hpre hq hl hl']

theorem textLines_not_all_comment (before after : List Str) (l : Str) (hl : l ≠ [])
    (hf : startsWith ['#'] (strip l) = false) :
    ((if (before ++ l :: after).getLast? == some [] then (before ++ l :: after).dropLast
      else before ++ l :: after).all fun l => startsWith ['#'] (strip l)) = false := by
  split
  · rename_i h
    cases after with
    | nil => simp [hl] at h
    | cons a as =>
      rw [List.dropLast_append_of_ne_nil (by simp), List.dropLast_cons_of_ne_nil (by simp)]
      simp [hf]
  · simp [hf]

/-- ★ (4g) `Directive.extract` of a group of lines does not depend on the body of a closed string
    literal in it (same side conditions as (4f)): directive-looking text inside a string literal is
    not a directive, and it does not hide or alter the real directives around it -/
theorem directives_ignore_literal_anywhere (before after : List Str) (pre s s' post : Str)
    (q : Char) (hopen : (lex before).1.openStr = none) (hpre : Plain pre) (hq : IsQuote q)
    (hl : Lit q s post) (hl' : Lit q s' post) :
    extractDirectives (before ++ (pre ++ q :: s) :: after)
      = extractDirectives (before ++ (pre ++ q :: s') :: after) := by
  have hc := extractComments_ignores_string_body before after pre s s' post q hopen hpre hq hl hl'
  have t1 := textLines_not_all_comment before after (pre ++ q :: s) (by simp)
    (strip_not_hash pre q s hpre hq.not_space hq.ne_hash)
  have t2 := textLines_not_all_comment before after (pre ++ q :: s') (by simp)
    (strip_not_hash pre q s' hpre hq.not_space hq.ne_hash)
  unfold extractDirectives
  simp only [hc, t1, t2]

/-- (4g) spelled out for two single-quoted bodies -/
theorem directives_ignore_string_body_anywhere (before after : List Str)
    (pre body body' post : Str) (q : Char) (hopen : (lex before).1.openStr = none)
    (hpre : Plain pre) (hq : IsQuote q) (hb : SingleBody q body) (hb' : SingleBody q body')
    (hnt : body = [] → post.head? ≠ some q) (hnt' : body' = [] → post.head? ≠ some q) :
    extractDirectives (before ++ (pre ++ q :: (body ++ q :: post)) :: after)
      = extractDirectives (before ++ (pre ++ q :: (body' ++ q :: post)) :: after) :=
  directives_ignore_literal_anywhere before after pre _ _ post q hopen hpre hq
    (Lit.single hq hb hnt) (Lit.single hq hb' hnt')

/-- (4g) spelled out for two triple-quoted bodies closed on the line -/
theorem directives_ignore_triple_body_anywhere (before after : List Str)
    (pre body body' post : Str) (q : Char) (hopen : (lex before).1.openStr = none)
    (hpre : Plain pre) (hq : IsQuote q) (hb : TripleBody q body) (hb' : TripleBody q body') :
    extractDirectives (before ++ (pre ++ q :: q :: q :: (body ++ q :: q :: q :: post)) :: after)
      = extractDirectives (before ++ (pre ++ q :: q :: q :: (body' ++ q :: q :: q :: post)) :: after) :=
  directives_ignore_literal_anywhere before after pre _ _ post q hopen hpre hq
    (Lit.triple hq hb post) (Lit.triple hq hb' post)

/-- ★ (5) a triple-quoted string over several lines: the lines inside it are not looked at, so a
    `#` there is not a comment; the comments of the statement are those after the closing quotes.
    `closeTriple q m = none` holds in particular for every line without the quote character
    (`closeTriple_none_of_not_mem`). Empty lines may occur anywhere in `mids`. -/
theorem multiline_string_is_not_comment (pre b0 last post : Str) (mids : List Str) (q : Char)
    (hpre : Plain pre) (hq : IsQuote q) (h0 : closeTriple q b0 = none)
    (hm : ∀ m ∈ mids, closeTriple q m = none) (hl : closeTriple q last = some post) :
    extractComments ((pre ++ q :: q :: q :: b0) :: (mids ++ [last]))
      = some (scan (scan 0 pre).paren post).comment.toList := by
  have hlast : last ≠ [] := by intro h; subst h; simp [closeTriple] at hl
  have hf : ((pre ++ q :: q :: q :: b0) :: (mids ++ [last])).filter (!·.isEmpty)
      = (pre ++ q :: q :: q :: b0) :: (mids.filter (!·.isEmpty) ++ [last]) := by
    simp [hlast]
  obtain ⟨c, r, hmi, hc⟩ := measureIndent_plain_prefix 0 pre q (q :: q :: b0) hpre hq.not_indent
    hq.ne_hash
  obtain ⟨ind, hfirst⟩ := lexGo_first (pre ++ q :: q :: q :: b0) (mids.filter (!·.isEmpty) ++ [last])
    c r hmi hc
  have hs : scan 0 (pre ++ q :: q :: q :: b0)
      = { paren := (scan 0 pre).paren, semicolon := (scan 0 pre).semicolon, openStr := some q } := by
    rw [scan_plain_append _ _ _ hpre]
    simp only [scan_eq_scanS]
    rw [scanS_triple_open _ _ hq h0]
    simp [withSemi]
  unfold extractComments lex
  rw [hf, hfirst, hs]
  rw [lexGo_open_skip _ q rfl _ _ (fun m hm' => hm m (List.mem_filter.mp hm').1)]
  rw [lexGo_open_close _ q rfl _ _ _ hl]
  obtain ⟨h1, h2⟩ := lexGo_nil_comments
    (applyScan { applyScan ({ indents := ind } : LexState)
        { paren := (scan 0 pre).paren, semicolon := (scan 0 pre).semicolon, openStr := some q }
      with openStr := none }
      (scan (applyScan ({ indents := ind } : LexState)
        { paren := (scan 0 pre).paren, semicolon := (scan 0 pre).semicolon, openStr := some q }).paren
        post))
  revert h1 h2
  generalize lexGo _ [] = res
  obtain ⟨st', e⟩ := res
  intro h1 h2
  simp only at h1 h2
  subst h1
  cases e <;> first | exact absurd rfl h2 | (simp [applyScan]; cases (scan (scan 0 pre).paren post).comment <;> rfl)

/-! ### non-vacuity, and why the side conditions are needed -/

-- the hypotheses of (2)–(4) on `x = '# xdoctest: +SKIP'`
example : Plain "x = ".toList := by decide
example : IsQuote '\'' := by decide
example : SingleBody '\'' "# xdoctest: +SKIP".toList := by
  repeat (first | exact .nil | refine .char _ _ (by decide) (by decide) ?_)
example : SingleBody '"' "a \\\" # b".toList := by
  repeat (first | exact .nil | refine .esc _ _ ?_ | refine .char _ _ (by decide) (by decide) ?_)
example : TripleBody '"' "a \" # \"\" b".toList := by
  repeat (first | exact .nil | refine .char _ _ (by decide) (by decide) ?_
                | refine .two _ _ (by decide) ?_ | refine .one _ _ (by decide) ?_)
-- the conclusion of (4d) on that line, and the contrast: the same text as a real comment
example : (extractDirectives ["x = '# xdoctest: +SKIP'".toList]).toOption = some [] := by
  decide +kernel
example : (extractDirectives ["x = 1  # xdoctest: +SKIP".toList]).toOption
    = some [{ name := "SKIP", inline := true }] := by decide +kernel
example : extractComments ["x = \"# not a comment\"  # real".toList] = some ["# real".toList] := by
  decide +kernel
-- (4e): a directive-looking string body next to a real directive comment: only the comment counts
example : (extractDirectives ["x = '# xdoctest: +SKIP'  # xdoctest: +IGNORE_WANT".toList]).toOption
    = some [{ name := "IGNORE_WANT", inline := true }] := by decide +kernel
example : Plain "  ".toList ∧ ¬ Plain "  # xdoctest: +IGNORE_WANT".toList := by decide
-- (4f)/(4g): the literal on a continuation line inside brackets, a real directive after it
example : (lex ["f(".toList]).1.openStr = none := by decide +kernel
example : (extractDirectives ["f(".toList, "  '# xdoctest: +SKIP',".toList,
    ")  # xdoctest: +IGNORE_WANT".toList]).toOption = some [{ name := "IGNORE_WANT", inline := true }] := by
  decide +kernel
-- (4f) needs `hopen`: inside an open triple-quoted string the body of a "literal" is observable
-- (line = `"` body `"` ` # b` with body = `'''# a` or `# a`)
example : (lex ["x = '''".toList]).1.openStr = some '\'' := by decide +kernel
example : extractComments ["x = '''".toList, "\"'''# a\" # b".toList] = some ["# a\" # b".toList] ∧
    extractComments ["x = '''".toList, "\"# a\" # b".toList] = some [] := by decide +kernel
-- (5) on three lines
example : extractComments ["x = '''# a".toList, "# xdoctest: +SKIP".toList, "c''' # d".toList]
    = some ["# d".toList] := by decide +kernel
example : closeTriple '\'' "# a".toList = none ∧ closeTriple '\'' "# xdoctest: +SKIP".toList = none ∧
    closeTriple '\'' "c''' # d".toList = some " # d".toList := by decide +kernel
-- counterexample to (2) without `hnt`: empty body followed by the same quote = a triple quote
example : (scan 0 ("" ++ "'" ++ "" ++ "'" ++ "'# x").toList).comment = none ∧
    (scan 0 "'# x".toList).comment = some "# x".toList := by decide +kernel
-- counterexample to (2) for an unterminated quote: the `#` after it does start a comment
-- (the real `extract_comments(["x = '# a"])` yields `# a` as well)
example : extractComments ["x = '# a".toList] = some ["# a".toList] := by decide +kernel

end Xdoc.C04

import XdocModel.Directive
import XdocModel.Example
import XdocModel.Lemmas.Example
/-!
# C04 — Directive scoping: block persists, inline is local, skipped code never runs

About `RuntimeState.update` / the skip rule of the run loop, for ALL states, ALL directive lists
and ALL requirement oracles `sat`.
-/
namespace Xdoc.C04
open Xdoc Py

/-- the directive is not one of the `REPORT_*` family (those rewrite the persistent report
    style even when written inline: known finding K-C04-b) -/
def NotReport (d : Directive) : Prop := d.name.startsWith "REPORT_" = false

theorem effects_no_report {sat : Str → Option Bool} {d : Directive} (h : NotReport d)
    {es : List Effect} (he : d.effects sat = some es) : ∀ e ∈ es, ∀ k, e ≠ .setReportStyle k := by
  unfold Directive.effects at he
  split at he
  · intro e hmem k hk
    subst hk
    -- every element produced by the REQUIRES branch is noop / setAdd / setRemove
    have : ∀ (args : List Str) (es : List Effect),
        (args.mapM fun a => match sat a with
          | none => none
          | some true => some Effect.noop
          | some false => some (if d.positive then Effect.setAdd "REQUIRES" a else Effect.setRemove "REQUIRES" a)) = some es →
        ∀ e ∈ es, ∀ k, e ≠ .setReportStyle k := by
      intro args
      induction args with
      | nil => intro es h; simp at h; subst h; simp
      | cons a as ih =>
        intro es h e hmem k
        simp only [List.mapM_cons, Option.bind_eq_bind] at h
        cases hs : sat a with
        | none => simp [hs] at h
        | some b =>
          cases hrest : (as.mapM fun a => match sat a with
              | none => none
              | some true => some Effect.noop
              | some false => some (if d.positive then Effect.setAdd "REQUIRES" a else Effect.setRemove "REQUIRES" a)) with
          | none => cases b <;> simp [hs, hrest] at h
          | some es' =>
            cases b <;> simp [hs, hrest] at h <;> subst h
            · rcases List.mem_cons.mp hmem with rfl | hm
              · split <;> simp
              · exact ih es' hrest e hm k
            · rcases List.mem_cons.mp hmem with rfl | hm
              · simp
              · exact ih es' hrest e hm k
    exact this d.args es he _ hmem k rfl
  · split at he
    · rename_i h2; unfold NotReport at h; rw [h] at h2; cases h2
    · cases he; intro e hmem k; simp at hmem; subst hmem; simp

/-- an inline effect other than the report style touches only the overlay -/
theorem applyEffect_inline_persist (s : RState) (e : Effect) (h : ∀ k, e ≠ .setReportStyle k) :
    (RState.applyEffect true s e).gBools = s.gBools ∧ (RState.applyEffect true s e).gReq = s.gReq := by
  cases e with
  | noop => exact ⟨rfl, rfl⟩
  | assign k v => exact ⟨rfl, rfl⟩
  | setAdd k v => exact ⟨rfl, rfl⟩
  | setRemove k v => exact ⟨rfl, rfl⟩
  | setReportStyle k => exact absurd rfl (h k)

theorem foldl_inline_persist (s : RState) (es : List Effect) (h : ∀ e ∈ es, ∀ k, e ≠ .setReportStyle k) :
    (es.foldl (RState.applyEffect true) s).gBools = s.gBools ∧
    (es.foldl (RState.applyEffect true) s).gReq = s.gReq := by
  induction es generalizing s with
  | nil => exact ⟨rfl, rfl⟩
  | cons e es ih =>
    simp only [List.foldl_cons]
    have h1 := applyEffect_inline_persist s e (h e (by simp))
    have h2 := ih (RState.applyEffect true s e) (fun e' he' => h e' (by simp [he']))
    exact ⟨h2.1.trans h1.1, h2.2.trans h1.2⟩

theorem foldlM_inline_persist (sat : Str → Option Bool) (ds : List Directive)
    (hin : ∀ d ∈ ds, d.inline = true ∧ NotReport d) (s s' : RState)
    (h : ds.foldlM (RState.applyDirective sat) s = some s') :
    s'.gBools = s.gBools ∧ s'.gReq = s.gReq := by
  induction ds generalizing s with
  | nil => simp at h; subst h; exact ⟨rfl, rfl⟩
  | cons d ds ih =>
    simp only [List.foldlM_cons, Option.bind_eq_bind] at h
    cases hd : RState.applyDirective sat s d with
    | none => simp [hd] at h
    | some s1 =>
      simp only [hd, Option.bind_some] at h
      have ⟨hi, hn⟩ := hin d (by simp)
      have h1 : s1.gBools = s.gBools ∧ s1.gReq = s.gReq := by
        unfold RState.applyDirective at hd
        cases he : d.effects sat with
        | none => simp [he] at hd
        | some es =>
          simp only [he, Option.map_some, Option.some.injEq] at hd
          subst hd
          rw [hi]
          exact foldl_inline_persist s es (effects_no_report hn he)
      have h2 := ih (fun d' hd' => hin d' (by simp [hd'])) s1 h
      exact ⟨h2.1.trans h1.1, h2.2.trans h1.2⟩

/-- ★ `inline_leaves_persistent_untouched`: an update made of inline directives (outside the
    REPORT family) leaves the persistent state exactly as it was -/
theorem inline_leaves_persistent_untouched (sat : Str → Option Bool) (s s' : RState)
    (ds : List Directive) (hin : ∀ d ∈ ds, d.inline = true ∧ NotReport d)
    (h : s.update sat ds = some s') : s'.gBools = s.gBools ∧ s'.gReq = s.gReq := by
  unfold RState.update at h
  exact foldlM_inline_persist sat ds hin { s with iBools := [], iReq := none } s' h

/-- ★ `inline_does_not_leak`: what an inline directive did is forgotten by the next update —
    the statement after it sees exactly the state it would have seen without it -/
theorem inline_does_not_leak (sat : Str → Option Bool) (s s1 : RState) (ds ds' : List Directive)
    (hin : ∀ d ∈ ds, d.inline = true ∧ NotReport d) (h : s.update sat ds = some s1) :
    s1.update sat ds' = s.update sat ds' := by
  obtain ⟨h1, h2⟩ := inline_leaves_persistent_untouched sat s s1 ds hin h
  unfold RState.update
  have : ({ s1 with iBools := [], iReq := none } : RState) = { s with iBools := [], iReq := none } := by
    cases s; cases s1; simp_all
  rw [this]

/-- ★ a block directive on a boolean flag is visible in the updated state (unless the same update
    also carries an inline assignment of that flag, which wins for that statement only) -/
theorem block_assign_visible (s : RState) (k : String) (v : Bool)
    (hover : alGet k s.iBools = none) :
    (RState.applyEffect false s (.assign k v)).getBool k = some v := by
  have key : ∀ (l : List (String × Bool)), alGet k (alSet k v l) = some v := by
    intro l
    induction l with
    | nil => simp [alSet, alGet, List.lookup]
    | cons kv r ih =>
      obtain ⟨k', v'⟩ := kv
      simp only [alSet]
      split
      · simp [alGet, List.lookup]
      · rename_i hne
        simp only [alGet, List.lookup] at ih ⊢
        have : (k == k') = false := by
          simp only [beq_eq_false_iff_ne, ne_eq] at hne ⊢
          intro h; exact hne (by simp [h])
        simp [this, ih]
  simp [RState.applyEffect, RState.getBool, key, hover]

/-- ★ `+REQUIRES(x)` followed by `-REQUIRES(x)` (x unmet) gives back the pending set -/
theorem requires_inverse (req : List Str) (x : Str) (hx : x ∉ req) :
    setErase x (setInsert x req) = req := by
  unfold setInsert setErase
  have hc : req.contains x = false := by simpa using hx
  simp only [hc, Bool.false_eq_true, ↓reduceIte, List.filter_append]
  have : req.filter (· != x) = req := by
    apply List.filter_eq_self.mpr
    intro a ha
    simp only [bne_iff_ne, ne_eq]
    intro h; subst h; exact hx ha
  simp [this]

/-- ★ a satisfied requirement is a no-op -/
theorem satisfied_requirement_noop (sat : Str → Option Bool) (pos inl : Bool) (x : Str)
    (h : sat x = some true) :
    ({ name := "REQUIRES", positive := pos, args := [x], inline := inl } : Directive).effects sat
      = some [.noop] := by
  simp [Directive.effects, h]

/-- ★ the execution rule: a part is handed to the interpreter iff, in the state updated with
    its directives, SKIP is off and no unmet requirement is pending — and it holds some code -/
theorem executed_iff (sat : Str → Option Bool) (cfg : RunCfg) (rs0 : RState) (di : Bool) (p : RunPart) :
    (∃ rs, preStage sat cfg rs0 di p = .exec rs ∨ preStage sat cfg rs0 di p = .importFail rs) ↔
      ∃ rs, rs0.update sat p.directives = some rs ∧
        (rs.getBool "SKIP").getD false = false ∧ rs.requires = [] ∧ p.part.hasAnyCode = true := by
  unfold preStage
  cases h : rs0.update sat p.directives with
  | none => simp
  | some rs =>
    simp only [Option.some.injEq, exists_eq_left']
    by_cases hs : rs.skips = true
    · simp only [hs, ↓reduceIte]
      constructor
      · rintro ⟨_, h | h⟩ <;> cases h
      · rintro ⟨h1, h2, _⟩
        simp [RState.skips, h1, h2] at hs
    · simp only [hs, Bool.false_eq_true, ↓reduceIte]
      by_cases hc : p.part.hasAnyCode = true
      · simp only [hc, Bool.not_true, Bool.false_eq_true, ↓reduceIte]
        have hs' : (rs.getBool "SKIP").getD false = false ∧ rs.requires = [] := by
          simp only [RState.skips, Bool.or_eq_true, Bool.not_eq_true', List.isEmpty_eq_false_iff,
            not_or, Bool.not_eq_true, ne_eq, Decidable.not_not] at hs
          exact hs
        constructor
        · intro _; exact ⟨hs'.1, hs'.2, trivial⟩
        · intro _
          split
          · exact ⟨rs, Or.inr rfl⟩
          · exact ⟨rs, Or.inl rfl⟩
      · simp only [hc, Bool.not_false, ↓reduceIte]
        constructor
        · rintro ⟨_, h | h⟩ <;> cases h
        · rintro ⟨_, _, h⟩; exact absurd h (by simpa using hc)

/-- ★ `skipped_has_no_effect`: a skipped part changes neither the namespace, nor the logged
    output, nor the unmatched output, is not executed, and its want is never checked (the only
    change is the entry in `_skipped_parts`) -/
theorem skipped_has_no_effect {Env : Type} (cfg : RunCfg) (s : RunState Env) (i : Nat) (env' : Env) :
    applyAct cfg s i env' .skip =
      .continue { s with skipped := s.skipped ++ [i] } := rfl

theorem skip_decision {Env : Type} (sat : Str → Option Bool) (sem : Env → Nat → RunPart → ExecResult × Env)
    (cfg : RunCfg) (s : RunState Env) (i : Nat) (p : RunPart) (rs : RState)
    (h : preStage sat cfg s.rs s.didImport p = .skip rs) :
    stepPart sat sem cfg s i p = .continue { s with rs := rs, skipped := s.skipped ++ [i] } := by
  simp [stepPart, h, applyAct]

/-- ★ `cli_default_is_leading_block`: a boolean default given on the command line is the state a
    leading block directive produces (REQUIRES through `--options` is excluded: known finding
    K-C04-c, the real code stores `True` in place of the set) -/
theorem cli_default_is_leading_block (sat : Str → Option Bool) (k : String) (b : Bool)
    (hk : k ≠ "REQUIRES") (hr : k.startsWith "REPORT_" = false) :
    (RState.init []).update sat [{ name := k, positive := b, inline := false }]
      = some (RState.init [(k, b)]) := by
  have hk' : (k == "REQUIRES") = false := by simpa using hk
  simp [RState.update, RState.applyDirective, Directive.effects, hk', hr, RState.applyEffect,
    RState.init]

/-! ### non-vacuity -/
example : NotReport { name := "SKIP" } := by unfold NotReport; decide +kernel
example : ((RState.init []).update (fun _ => some false)
    [{ name := "REQUIRES", args := ["--x".toList], inline := true }]).map (·.skips) = some true := by
  decide +kernel
example : (((RState.init []).update (fun _ => some false)
    [{ name := "REQUIRES", args := ["--x".toList], inline := true }]).bind
      (·.update (fun _ => some false) [])).map (·.skips) = some false := by decide +kernel

end Xdoc.C04

import XdocModel.Proofs.C10
/-!
# C10 — the exit status as the parent process sees it

`exitCode` models the value `main()` returns and `sys.exit` is given. The operating system keeps only
its low eight bits (`waitpid`: `WEXITSTATUS = status & 0xff`). The theorems here state that the modelled
value survives that truncation for ALL command results — it is 0 or 1 — so that every `exit … ≠ 0 ↔ …`
theorem of C10/C15 is also a statement about `$?`; and that the obvious variant "return the number
of failures" does not (`raw_count_wraps`: 256 failures read as success), which is the seeded change
C10-6A.
-/
namespace Xdoc.C10
open Xdoc

/-- what a parent process reads from `waitpid` for a child that called `sys.exit(n)` -/
def osStatus (n : Nat) : Nat := n % 256

theorem exitCode_le_one (r : CommandResult) : exitCode r ≤ 1 := by
  unfold exitCode; split
  · exact Nat.le_refl 1
  · split <;> omega

/-- ★ the status the parent sees is the value `main` returned -/
theorem osStatus_exitCode (r : CommandResult) : osStatus (exitCode r) = exitCode r := by
  have := exitCode_le_one r; unfold osStatus; omega

/-- ★ `$? ≠ 0` iff the run was aborted by an exception or counted at least one failure -/
theorem osStatus_nonzero_iff (r : CommandResult) :
    osStatus (exitCode r) ≠ 0 ↔ (r = .aborted ∨ nFailedOf r > 0) := by
  rw [osStatus_exitCode]
  cases r <;> simp [exitCode, nFailedOf]
  case ran rs => by_cases h : rs.nFailed > 0 <;> simp [h] <;> omega

/-- the variant that hands the failure count itself to `sys.exit` -/
def rawExit : CommandResult → Nat
  | .aborted => 1
  | r => nFailedOf r

/-- the two agree on "non-zero" before truncation … -/
theorem rawExit_nonzero_iff (r : CommandResult) : rawExit r ≠ 0 ↔ exitCode r ≠ 0 := by
  cases r <;> simp [rawExit, exitCode, nFailedOf]

/-- … and differ after it: 256 failing doctests exit with status 0 -/
theorem raw_count_wraps :
    ∃ r, nFailedOf r > 0 ∧ osStatus (rawExit r) = 0 ∧ osStatus (exitCode r) = 1 :=
  ⟨.ran { nTotal := 256, nPassed := 0, nFailed := 256, nSkipped := 0, failed := [], ran := [] }, by decide⟩

end Xdoc.C10

import XdocModel.Proofs.C03
/-!
# C03 — corollaries of `expected_exception_iff`

What the flag IGNORE_EXCEPTION_DETAIL can and cannot do, for ALL exception lines and wants: without a
traceback-shaped want nothing ever counts as an expected exception; with the flag off only a match of the
full final part counts; and the flag can only relax — it never turns an exception that was expected into an
unexpected one, and it never accepts an empty expected name.
-/
namespace Xdoc.C03
open Xdoc Py

/-- ★ a want that is not a traceback block never makes an exception "expected", whatever the flags -/
theorem non_traceback_want_never_expected (f : Flags) (line want : Str) (h : extractExcWant want = none) :
    checkException f line want ≠ some true := by
  intro hc
  obtain ⟨ew, he, _⟩ := (expected_exception_iff f line want).mp hc
  rw [h] at he; cases he

/-- ★ with IGNORE_EXCEPTION_DETAIL off the final part of the traceback must match in full -/
theorem detail_off_exact (f : Flags) (line want : Str) (h : f.ignDetail = false) :
    checkException f line want = some true ↔
      ∃ ew, extractExcWant want = some ew ∧ checkOutput f line ew = true := by
  rw [expected_exception_iff]
  constructor
  · rintro ⟨ew, he, h1 | ⟨h2, _⟩⟩
    · exact ⟨ew, he, h1⟩
    · rw [h] at h2; cases h2
  · rintro ⟨ew, he, h1⟩; exact ⟨ew, he, Or.inl h1⟩

/-- ★ a full match is accepted under every setting of the flag -/
theorem full_match_expected (f : Flags) (line want ew : Str) (he : extractExcWant want = some ew)
    (hm : checkOutput f line ew = true) : checkException f line want = some true :=
  (expected_exception_iff f line want).mpr ⟨ew, he, Or.inl hm⟩

/-- ★ even with the flag on, a want whose bare exception name is empty is accepted only through a full match -/
theorem empty_name_needs_full_match (f : Flags) (line want ew : Str) (he : extractExcWant want = some ew)
    (hn : stripExceptionDetails ew = []) (hc : checkException f line want = some true) :
    checkOutput f line ew = true := by
  obtain ⟨ew', he', h1 | ⟨_, h3, _⟩⟩ := (expected_exception_iff f line want).mp hc
  · rw [he] at he'; cases he'; exact h1
  · rw [he] at he'; cases he'; exact absurd hn h3

end Xdoc.C03

import XdocModel.Runner
import XdocModel.Lemmas.Runner
import XdocModel.Proofs.C02
/-!
# C10 — Native runner tallies and exit status agree with the per-doctest outcomes

Theorems about the runner model (`Runner.lean`) for ALL lists of collected doctests, ALL source
texts, ALL per-doctest results.  Where the per-doctest result is the summary of a run of the
`Example.lean` model, `C02.verdict_trichotomy` supplies the "exactly one of passed / failed /
skipped" fact the tallies need.
-/
namespace Xdoc.C10
open Xdoc Py

variable {Env : Type}

/-! ## per-doctest results produced by the run-loop model -/

/-- every summary `DocTest.run` returns is exclusive (uses `verdict_trichotomy`) -/
theorem run_summary_exclusive (sat : Str → Option Bool) (sem : Env → Nat → RunPart → ExecResult × Env)
    (cfg : RunCfg) (env0 : Env) (parts : List RunPart) :
    (run sat sem cfg env0 parts).summary.Exclusive :=
  C02.verdict_trichotomy sat sem cfg env0 parts

/-- ★ a recorded failure is a FAILED doctest whatever ran before it — in particular when the
    failure precedes the first executed part (compile-only error such as `return 5` in the first
    part that is not skipped, a malformed directive, the module under test raising on import):
    nothing was logged, no part was skipped at the failing position, and the summary still says
    failed, not skipped.  (`skipped` is "every part is in `_skipped_parts`", not "nothing ran".) -/
theorem failure_recorded_is_failed (sat : Str → Option Bool) (sem : Env → Nat → RunPart → ExecResult × Env)
    (cfg : RunCfg) (env0 : Env) (parts : List RunPart)
    (h : (run sat sem cfg env0 parts).state.failure.isSome = true) :
    (run sat sem cfg env0 parts).summary.failed = true ∧
    (run sat sem cfg env0 parts).summary.skipped = false ∧
    (run sat sem cfg env0 parts).summary.passed = false := by
  have hf : (run sat sem cfg env0 parts).summary.failed = true := by
    rw [(C02.run_state_eq sat sem cfg env0 parts).1] at h
    rw [(C02.run_state_eq sat sem cfg env0 parts).2]
    simpa [summaryOf] using h
  have hx := C02.verdict_trichotomy sat sem cfg env0 parts
  simp only at hx
  rcases hx with ⟨_, h2, _⟩ | ⟨h1, _, h3⟩ | ⟨_, h2, _⟩
  · rw [hf] at h2; cases h2
  · exact ⟨hf, h3, h1⟩
  · rw [hf] at h2; cases h2

/-- the native runner never sees an interrupt coming out of the model, and every summary it sees
    is exclusive -/
theorem resultOfRun_spec (o : RunOutcome Env) :
    resultOfRun o ≠ .interrupt ∧ ∀ s, resultOfRun o = .summary s → s = o.summary := by
  unfold resultOfRun
  cases o.ending <;> simp

/-- the entries of a module: each collected doctest with the result of running its parts in the
    run-loop model under the native configuration (any oracles, any defaults) -/
def entriesOf (sat : Str → Option Bool) (sem : Doc → Env → Nat → RunPart → ExecResult × Env)
    (defaults : List (String × Bool)) (importOk : Bool) (env0 : Env)
    (docs : List (Doc × List RunPart)) : List Entry :=
  docs.map fun dp => { doc := dp.1, result := resultOfRun (run sat (sem dp.1) (nativeCfg defaults importOk) env0 dp.2) }

theorem entriesOf_exclusive (sat : Str → Option Bool) (sem : Doc → Env → Nat → RunPart → ExecResult × Env)
    (defaults : List (String × Bool)) (importOk : Bool) (env0 : Env) (docs : List (Doc × List RunPart)) :
    ∀ e ∈ entriesOf sat sem defaults importOk env0 docs,
      e.result ≠ .interrupt ∧ ∀ s, e.result = .summary s → s.Exclusive := by
  intro e he
  simp only [entriesOf, List.mem_map] at he
  obtain ⟨dp, _, rfl⟩ := he
  refine ⟨(resultOfRun_spec _).1, ?_⟩
  intro s hs
  rw [(resultOfRun_spec _).2 s hs]
  exact run_summary_exclusive _ _ _ _ _

/-! ## tallies -/

/-- what `_run_examples` returns when every `run` call returns: one summary per enabled doctest,
    every enabled doctest run once in order, `failed` = the ones in the failed branch -/
theorem runExamples_of_returns (es : List Entry) (h : ∀ e ∈ es, e.returns) :
    runExamples es = some (summaryOfReturns es) := by
  simp [runExamples, runLoopExamples_returns es {} h, summaryOfReturns]

theorem returns_of (es : List Entry) (rs : RunSummary) (h : runExamples es = some rs)
    (hni : ∀ e ∈ es, e.result ≠ .interrupt) : ∀ e ∈ es, e.returns := by
  intro e he
  cases hr : e.result with
  | summary s => exact ⟨s, hr⟩
  | interrupt => exact absurd hr (hni e he)
  | escaped =>
    exfalso
    obtain ⟨pre, post, rfl⟩ := List.append_of_mem he
    -- an escaping call before which all returned or not: find the first one
    have : ∀ (l : List Entry) (a : LoopAcc), (∀ x ∈ l, x.result ≠ .interrupt) →
        (∃ x ∈ l, x.result = .escaped) → runLoopExamples l a = none := by
      intro l
      induction l with
      | nil => intro a _ ⟨x, hx, _⟩; cases hx
      | cons y ys ih =>
        intro a hni ⟨x, hx, hxe⟩
        cases hy : y.result with
        | escaped => simp [runLoopExamples, hy]
        | interrupt => exact absurd hy (hni y (by simp))
        | summary s =>
          simp only [runLoopExamples, hy]
          rcases List.mem_cons.mp hx with rfl | hx
          · rw [hy] at hxe; cases hxe
          · exact ih _ (fun z hz => hni z (by simp [hz])) ⟨x, hx, hxe⟩
    have hnone := this (pre ++ e :: post) {} hni ⟨e, by simp, hr⟩
    simp [runExamples, hnone] at h

/-- ★ `tally_adds_up` (arithmetic core): when every summary is exclusive and no run was interrupted
    by Ctrl-C, the numbers of passed, failed and skipped doctests add up to the number run -/
theorem tally_adds_up_core (es : List Entry) (rs : RunSummary) (h : runExamples es = some rs)
    (hex : ∀ e ∈ es, ∀ s, e.result = .summary s → s.Exclusive)
    (hni : ∀ e ∈ es, e.result ≠ .interrupt) :
    rs.nPassed + rs.nFailed + rs.nSkipped = rs.nTotal ∧ rs.nTotal = rs.ran.length := by
  have hret := returns_of es rs h hni
  rw [runExamples_of_returns es hret] at h
  cases h
  simp only [summaryOfReturns]
  have hlen : (es.filterMap Entry.summary?).length = es.length := by
    clear hex hni
    induction es with
    | nil => rfl
    | cons e es ih =>
      obtain ⟨s, hs⟩ := hret e (by simp)
      have : Entry.summary? e = some s := by simp [Entry.summary?, hs]
      simp [this, ih (fun x hx => hret x (by simp [hx]))]
  refine ⟨?_, trivial⟩
  rw [← hlen]
  apply countTrue_exclusive
  intro s hs
  obtain ⟨e, he, hes⟩ := List.mem_filterMap.mp hs
  refine hex e he s ?_
  unfold Entry.summary? at hes
  split at hes <;> simp_all

/-- ★ `tally_adds_up`: for every module (list of collected doctests with their parts), every
    requirement / execution / import oracle and every option default, and EVERY command, whenever
    the native runner runs doctests and returns a run summary,
    `n_passed + n_failed + n_skipped = n_total` (= the number of doctests it ran). -/
theorem tally_adds_up (sat : Str → Option Bool) (sem : Doc → Env → Nat → RunPart → ExecResult × Env)
    (defaults : List (String × Bool)) (importOk : Bool) (env0 : Env)
    (docs zeroDocs : List (Doc × List RunPart)) (cmd : Str) (rs : RunSummary)
    (h : doctestModule cmd (entriesOf sat sem defaults importOk env0 docs)
          (entriesOf sat sem defaults importOk env0 zeroDocs) = .ran rs) :
    rs.nPassed + rs.nFailed + rs.nSkipped = rs.nTotal ∧ rs.nTotal = rs.ran.length := by
  unfold doctestModule at h
  split at h
  · cases h
  · simp only at h
    split at h
    · cases h
    · split at h
      · cases h
      · rename_i rs' hrs
        cases h
        have hsub : ∀ e ∈ gather cmd (entriesOf sat sem defaults importOk env0 docs)
            (entriesOf sat sem defaults importOk env0 zeroDocs),
            e.result ≠ .interrupt ∧ ∀ s, e.result = .summary s → s.Exclusive := by
          intro e he
          rcases mem_gather he with he | he
          · exact entriesOf_exclusive sat sem defaults importOk env0 docs e he
          · exact entriesOf_exclusive sat sem defaults importOk env0 zeroDocs e he
        exact tally_adds_up_core _ rs hrs (fun e he => (hsub e he).2) (fun e he => (hsub e he).1)

/-- the hypothesis "no Ctrl-C" is needed: an interrupted run counts doctests that never ran -/
theorem interrupt_breaks_tally :
    ∃ es rs, runExamples es = some rs ∧ rs.nPassed + rs.nFailed + rs.nSkipped < rs.nTotal ∧
      exitCode (.ran rs) = 0 :=
  ⟨[⟨⟨"f".toList, 0, []⟩, .summary ⟨true, false, false⟩⟩, ⟨⟨"g".toList, 0, []⟩, .interrupt⟩,
    ⟨⟨"h".toList, 0, []⟩, .summary ⟨false, true, false⟩⟩], _, rfl, by decide, by decide⟩

/-! ## the failed list -/

/-- ★ `failed_list_exact`: the `failed` list holds exactly the doctests that were run and whose
    summary says failed, in run order; `n_failed` is its length -/
theorem failed_list_exact (es : List Entry) (rs : RunSummary) (h : runExamples es = some rs)
    (hex : ∀ e ∈ es, ∀ s, e.result = .summary s → s.Exclusive)
    (hni : ∀ e ∈ es, e.result ≠ .interrupt) :
    rs.failed = es.filter Entry.failed ∧ rs.nFailed = rs.failed.length ∧
    (∀ e, e ∈ rs.failed ↔ e ∈ es ∧ e.failed = true) := by
  have hret := returns_of es rs h hni
  rw [runExamples_of_returns es hret] at h
  cases h
  simp only [summaryOfReturns]
  have hbranch : ∀ e ∈ es, Entry.inFailedBranch e = Entry.failed e := by
    intro e he
    obtain ⟨s, hs⟩ := hret e he
    have := hex e he s hs
    simp only [Entry.inFailedBranch, Entry.failed, hs]
    rcases this with ⟨h1, h2, h3⟩ | ⟨h1, h2, h3⟩ | ⟨h1, h2, h3⟩ <;> simp [h1, h2, h3]
  have hf : es.filter Entry.inFailedBranch = es.filter Entry.failed :=
    List.filter_congr hbranch
  refine ⟨hf, ?_, ?_⟩
  · rw [hf]
    clear hex hni hbranch hf
    induction es with
    | nil => rfl
    | cons e es ih =>
      obtain ⟨s, hs⟩ := hret e (by simp)
      have ih := ih (fun x hx => hret x (by simp [hx]))
      have h1 : Entry.summary? e = some s := by simp [Entry.summary?, hs]
      have h2 : Entry.failed e = s.failed := by simp [Entry.failed, hs]
      simp only [countTrue] at ih ⊢
      simp only [List.filterMap_cons, h1, List.filter_cons, h2]
      cases s.failed <;> simp [ih]
  · intro e; rw [hf]; simp [List.mem_filter]

/-! ## exit status -/

/-- ★ `exit_nonzero_iff_failed` (core): the exit status of a completed run is non-zero iff at least
    one of the doctests that were run failed -/
theorem exit_nonzero_iff_failed_core (es : List Entry) (rs : RunSummary) (h : runExamples es = some rs)
    (hex : ∀ e ∈ es, ∀ s, e.result = .summary s → s.Exclusive)
    (hni : ∀ e ∈ es, e.result ≠ .interrupt) :
    exitCode (.ran rs) ≠ 0 ↔ ∃ e ∈ es, e.failed = true := by
  obtain ⟨h1, h2, h3⟩ := failed_list_exact es rs h hex hni
  simp only [exitCode, nFailedOf, h2]
  constructor
  · intro hne
    have : rs.failed ≠ [] := by
      intro hnil; simp [hnil] at hne
    obtain ⟨e, he⟩ := List.exists_mem_of_ne_nil _ this
    exact ⟨e, (h3 e).mp he⟩
  · rintro ⟨e, he, hf⟩
    have : e ∈ rs.failed := (h3 e).mpr ⟨he, hf⟩
    have : 0 < rs.failed.length := List.length_pos_of_mem this
    simp [this]

/-- `list` and `dump` always exit with status 0 -/
theorem exit_zero_list_dump (examples zero : List Entry) :
    exitCode (doctestModule cmdList examples zero) = 0 ∧
    exitCode (doctestModule cmdDump examples zero) = 0 := by
  constructor <;> simp [doctestModule, exitCode, nFailedOf, cmdList, cmdDump] <;> decide

/-! ## `all` -/

/-- no zero-arg function is consulted for `all` unless one is itself called `all` -/
theorem gatherZero_all (zero : List Entry) (hz : ∀ z ∈ zero, z.doc.callname ≠ cmdAll) :
    gatherZero cmdAll zero = [] := by
  unfold gatherZero
  rw [List.filter_eq_nil_iff]
  intro z hz'
  have h1 : z.doc.callname ≠ cmdAll := hz z hz'
  have h2 : z.doc.uniqueCallname ≠ cmdAll :=
    uniqueCallname_ne_of_no_colon _ _ (by decide)
  have h3 : zeroAllCommands.contains cmdAll = false := by decide
  simp only [Doc.validTestnames, h3, Bool.or_false]
  simp [Ne.symm h1, Ne.symm h2]

theorem gather_all (examples zero : List Entry) (hz : ∀ z ∈ zero, z.doc.callname ≠ cmdAll) :
    gather cmdAll examples zero = examples.filter (fun e => !isDisabled false e.doc.docsrc) := by
  have hn : gatherNamed cmdAll examples = examples.filter (fun e => !isDisabled false e.doc.docsrc) := by
    unfold gatherNamed
    apply List.filter_congr
    intro e _
    have : gatherAll cmdAll = true := by decide
    simp [this]
  unfold gather
  split
  · rename_i hnil
    rw [← hn, hnil]; exact gatherZero_all zero hz
  · rename_i hne
    rw [← hn]

/-- ★ `all_runs_enabled_once`: `all` runs exactly the collected doctests that are not
    force-disabled, each once, in collection order, and no other (the zero-arg fallback stays
    silent unless a function is itself called `all`); `n_total` is their number.  Stated for
    every run that is not cut short by an escaping exception or Ctrl-C. -/
theorem all_runs_enabled_once (examples zero : List Entry)
    (hz : ∀ z ∈ zero, z.doc.callname ≠ cmdAll)
    (hret : ∀ e ∈ examples, isDisabled false e.doc.docsrc = false → e.returns) :
    ∃ rs, doctestModule cmdAll examples zero = .ran rs ∧
      rs.ran = examples.filter (fun e => !isDisabled false e.doc.docsrc) ∧
      rs.nTotal = rs.ran.length ∧
      (∀ e, rs.ran.count e = if isDisabled false e.doc.docsrc then 0 else examples.count e) := by
  have hg := gather_all examples zero hz
  have hr : ∀ e ∈ examples.filter (fun e => !isDisabled false e.doc.docsrc), e.returns := by
    intro e he
    obtain ⟨h1, h2⟩ := List.mem_filter.mp he
    exact hret e h1 (by simpa using h2)
  have hdm : doctestModule cmdAll examples zero =
      .ran (summaryOfReturns (examples.filter (fun e => !isDisabled false e.doc.docsrc))) := by
    unfold doctestModule
    have h1 : (cmdAll == cmdList) = false := by decide
    have h2 : (cmdAll == cmdDump) = false := by decide
    simp only [h1, h2, Bool.false_eq_true, ↓reduceIte, hg, runExamples_of_returns _ hr]
  refine ⟨_, hdm, rfl, rfl, ?_⟩
  intro e
  simp only [summaryOfReturns]
  cases hd : isDisabled false e.doc.docsrc
  · simp only [Bool.false_eq_true, ↓reduceIte]
    exact List.count_filter (by simp [hd])
  · simp only [↓reduceIte]
    apply List.count_eq_zero_of_not_mem
    intro hm
    have := (List.mem_filter.mp hm).2
    simp [hd] at this

/-- ★ `exit_nonzero_iff_failed`: `python -m xdoctest <mod> all` exits non-zero iff at least one
    collected doctest that is not force-disabled failed -/
theorem exit_nonzero_iff_failed (examples zero : List Entry)
    (hz : ∀ z ∈ zero, z.doc.callname ≠ cmdAll)
    (hret : ∀ e ∈ examples, isDisabled false e.doc.docsrc = false → e.returns)
    (hex : ∀ e ∈ examples, ∀ s, e.result = .summary s → s.Exclusive) :
    exitCode (doctestModule (mainCommand none) examples zero) ≠ 0 ↔
      ∃ e ∈ examples, isDisabled false e.doc.docsrc = false ∧ e.failed = true := by
  obtain ⟨rs, h1, h2, _, _⟩ := all_runs_enabled_once examples zero hz hret
  have hg := gather_all examples zero hz
  have hrun : runExamples (examples.filter (fun e => !isDisabled false e.doc.docsrc)) = some rs := by
    have h1' := h1
    unfold doctestModule at h1'
    have c1 : (cmdAll == cmdList) = false := by decide
    have c2 : (cmdAll == cmdDump) = false := by decide
    simp only [c1, c2, Bool.false_eq_true, ↓reduceIte, hg] at h1'
    split at h1'
    · cases h1'
    · rename_i rs' hrs; cases h1'; exact hrs
  simp only [mainCommand, Option.getD_none]
  rw [h1, exit_nonzero_iff_failed_core _ rs hrun
    (fun e he => hex e (List.mem_filter.mp he).1)
    (fun e he => by
      obtain ⟨s, hs⟩ := hret e (List.mem_filter.mp he).1 (by simpa using (List.mem_filter.mp he).2)
      rw [hs]; simp)]
  constructor
  · rintro ⟨e, he, hf⟩
    obtain ⟨h1, h2⟩ := List.mem_filter.mp he
    exact ⟨e, h1, by simpa using h2, hf⟩
  · rintro ⟨e, he, hd, hf⟩
    exact ⟨e, List.mem_filter.mpr ⟨he, by simp [hd]⟩, hf⟩

/-! ## `list` -/

/-- ★ `list_names_all`: `list` names every collected doctest — force-disabled or not — exactly
    once, in collection order, by its unique callname, runs nothing and exits with status 0 -/
theorem list_names_all (examples zero : List Entry) :
    doctestModule cmdList examples zero = .listed (examples.map (·.doc.uniqueCallname)) ∧
    (listNames examples).length = examples.length ∧
    (∀ e ∈ examples, e.doc.uniqueCallname ∈ listNames examples) ∧
    exitCode (doctestModule cmdList examples zero) = 0 := by
  refine ⟨by simp [doctestModule, listNames], by simp [listNames], ?_, (exit_zero_list_dump examples zero).1⟩
  intro e he
  exact List.mem_map_of_mem (f := fun e => e.doc.uniqueCallname) he

/-! ## naming a doctest -/

theorem gatherAll_false_of_colon (cmd : Str) (h : ':' ∈ cmd) : gatherAll cmd = false := by
  unfold gatherAll
  have h1 : cmd ≠ cmdAll := by intro heq; rw [heq] at h; revert h; decide
  have h2 : cmd ≠ cmdDump := by intro heq; rw [heq] at h; revert h; decide
  simp [h1, h2]

/-- ★ `unique_name_runs_exactly_one`: naming a collected doctest by its unique callname
    (`callname:num`) gathers exactly that doctest — whether or not it is force-disabled: `is_disabled`
    is not consulted — provided unique callnames are unique in the module and callnames contain no
    colon (both hold for every collected module: callnames are dotted identifiers, `num` counts
    within the callable). -/
theorem unique_name_runs_exactly_one (examples zero : List Entry) (e : Entry) (he : e ∈ examples)
    (hnd : (examples.map (·.doc.uniqueCallname)).Nodup)
    (hcolon : ∀ x ∈ examples, ':' ∉ x.doc.callname) :
    gather e.doc.uniqueCallname examples zero = [e] ∧
    (e.returns → ∃ rs, doctestModule e.doc.uniqueCallname examples zero = .ran rs ∧
        rs.ran = [e] ∧ rs.nTotal = 1) := by
  have hga := gatherAll_false_of_colon e.doc.uniqueCallname (colon_mem_uniqueCallname _)
  have hn : gatherNamed e.doc.uniqueCallname examples = [e] := by
    rw [← filter_key_eq_singleton (fun x : Entry => x.doc.uniqueCallname) examples e he hnd]
    unfold gatherNamed
    apply List.filter_congr
    intro x hx
    have h' : ¬ e.doc.uniqueCallname = x.doc.callname := by
      intro heq; exact hcolon x hx (heq ▸ colon_mem_uniqueCallname _)
    by_cases hxe : x.doc.uniqueCallname = e.doc.uniqueCallname
    · simp [hga, Doc.validTestnames, hxe]
    · simp [hga, Doc.validTestnames, h', hxe, Ne.symm hxe]
  have hg : gather e.doc.uniqueCallname examples zero = [e] := by
    unfold gather; rw [hn]
  refine ⟨hg, ?_⟩
  intro hret
  have hr : ∀ x ∈ [e], x.returns := by intro x hx; simp at hx; exact hx ▸ hret
  refine ⟨summaryOfReturns [e], ?_, rfl, rfl⟩
  unfold doctestModule
  have h1 : (e.doc.uniqueCallname == cmdList) = false := by
    have : e.doc.uniqueCallname ≠ cmdList := uniqueCallname_ne_of_no_colon _ _ (by decide)
    simp [this]
  have h2 : (e.doc.uniqueCallname == cmdDump) = false := by
    have : e.doc.uniqueCallname ≠ cmdDump := uniqueCallname_ne_of_no_colon _ _ (by decide)
    simp [this]
  simp only [h1, h2, Bool.false_eq_true, ↓reduceIte, hg, runExamples_of_returns _ hr]

/-- ★ stated, not hidden: naming a BARE callname (no `:num`) gathers ALL doctests of that
    callable, in order, force-disabled or not; it is "exactly one" only for a callable with a
    single doctest -/
theorem bare_callname_runs_all_of_it (examples : List Entry) (c : Str)
    (hc : ':' ∉ c) (h1 : c ≠ cmdAll) (h2 : c ≠ cmdDump) :
    gatherNamed c examples = examples.filter (fun e => e.doc.callname == c) := by
  unfold gatherNamed
  apply List.filter_congr
  intro x _
  have hga : gatherAll c = false := by simp [gatherAll, h1, h2]
  have h' : ¬ c = x.doc.uniqueCallname := Ne.symm (uniqueCallname_ne_of_no_colon _ _ hc)
  by_cases hxc : x.doc.callname = c
  · simp [hga, Doc.validTestnames, hxc]
  · simp [hga, Doc.validTestnames, h', hxc, Ne.symm hxc]

/-! ### non-vacuity -/
section Examples
def dPass : Entry := ⟨⟨"f".toList, 0, ">>> print(1)\n1".toList⟩, .summary ⟨true, false, false⟩⟩
def dFail : Entry := ⟨⟨"f".toList, 1, ">>> print(1)\n2".toList⟩, .summary ⟨false, true, false⟩⟩
def dSkip : Entry := ⟨⟨"g".toList, 0, ">>> # xdoctest: +SKIP\n>>> print(1)".toList⟩, .summary ⟨false, false, true⟩⟩
def dDis : Entry := ⟨⟨"h".toList, 0, ">>>  #  disable_DOCTEST\n>>> print(1)\n2".toList⟩, .summary ⟨false, true, false⟩⟩
def exMod : List Entry := [dPass, dDis, dFail, dSkip]

example : isDisabled false dDis.doc.docsrc = true := by decide +kernel
example : isDisabled false dSkip.doc.docsrc = false := by decide +kernel
example : doctestModule cmdAll exMod [] =
    .ran { nTotal := 3, nPassed := 1, nFailed := 1, nSkipped := 1, failed := [dFail], ran := [dPass, dFail, dSkip] } := by
  decide +kernel
example : exitCode (doctestModule cmdAll exMod []) = 1 := by decide +kernel
example : doctestModule cmdList exMod [] = .listed ["f:0".toList, "h:0".toList, "f:1".toList, "g:0".toList] := by
  decide +kernel
/-- the force-disabled one runs when named -/
example : (match doctestModule "h:0".toList exMod [] with | .ran rs => rs.ran | _ => []) = [dDis] := by
  decide +kernel
/-- the bare callname `f` runs both of its doctests -/
example : (match doctestModule "f".toList exMod [] with | .ran rs => rs.ran | _ => []) = [dPass, dFail] := by
  decide +kernel
example : (exMod.map (·.doc.uniqueCallname)).Nodup ∧ ∀ x ∈ exMod, ':' ∉ x.doc.callname := by decide +kernel
/-- the zero-arg fallback: a name that matches no doctest runs the function of that name -/
example : gather "k".toList exMod [⟨⟨"k".toList, 0, ">>> k()".toList⟩, .summary ⟨true, false, false⟩⟩] =
    [⟨⟨"k".toList, 0, ">>> k()".toList⟩, .summary ⟨true, false, false⟩⟩] := by decide +kernel

/-! doctests that fail BEFORE anything ran: compile-only error in the first executed part (after a
    skipped one), malformed directive, module raising on import — each is tallied as failed -/
def earlySem : Unit → Nat → RunPart → ExecResult × Unit := fun _ _ p =>
  (if p.part.execLines == ["return 5".toList] then .compileError (some 1) else .ok [] .notEvaled, ())
def earlySat : Str → Option Bool := fun _ => none     -- `foo:bar` : requirement evaluation raises
def pCompile : List RunPart :=
  [{ part := { execLines := ["print(1)".toList], wantLines := some ["x".toList] },
     directives := [{ name := "SKIP", inline := true }] },
   { part := { execLines := ["return 5".toList] } }]
def pDirective : List RunPart :=
  [{ part := { execLines := ["print(1)".toList] },
     directives := [{ name := "REQUIRES", args := ["foo:bar".toList] }] }]
def pPlain : List RunPart := [{ part := { execLines := ["print(1)".toList] } }]
def earlyMod : List Entry :=
  [⟨⟨"f".toList, 0, ">>> print(1)  # xdoctest: +SKIP\nx\n>>> return 5".toList⟩,
      resultOfRun (run earlySat earlySem (nativeCfg [] true) () pCompile)⟩,
   ⟨⟨"g".toList, 0, ">>> # xdoctest: +REQUIRES(foo:bar)\n>>> print(1)".toList⟩,
      resultOfRun (run earlySat earlySem (nativeCfg [] true) () pDirective)⟩,
   ⟨⟨"h".toList, 0, ">>> print(1)".toList⟩,
      resultOfRun (run earlySat earlySem (nativeCfg [] false) () pPlain)⟩]
example : (run earlySat earlySem (nativeCfg [] true) () pCompile).state.executed = [] ∧
    (run earlySat earlySem (nativeCfg [] true) () pCompile).state.logged = [] ∧
    (run earlySat earlySem (nativeCfg [] true) () pCompile).state.failure =
      some { kind := .compile, partIdx := 1, tbLineno := 1 } := by decide +kernel
example : (run earlySat earlySem (nativeCfg [] true) () pDirective).state.failure.map (·.kind) = some .directive := by
  decide +kernel
example : (run earlySat earlySem (nativeCfg [] false) () pPlain).state.failure.map (·.kind) = some .importError := by
  decide +kernel
example : (match doctestModule cmdAll earlyMod [] with
    | .ran rs => (rs.nTotal, rs.nPassed, rs.nFailed, rs.nSkipped, rs.failed.length) | _ => (0, 0, 0, 0, 0)) = (3, 0, 3, 0, 3) := by
  decide +kernel
example : exitCode (doctestModule cmdAll earlyMod []) = 1 := by decide +kernel
end Examples

end Xdoc.C10

import XdocModel.Lemmas.Dynamic
import XdocModel.Proofs.C07
/-!
# C16 — static and dynamic analysis find the same doctests

`static_eq_dynamic`: for every module of the fragment, the `(callname, docstring)` pairs collected
by the model of the AST visitor equal — as LISTS, hence as sets — the pairs collected by the model
of the `__dict__` walk on the object graph that importing the module builds. The doctests of a
calldef are a function of `(callname, docstring, style)` (`Core.parseDocstrExamples`), so equal
pairs give equal identifiers `callname:num` and equal doctest sources.

Outside the model: that importing a module of the fragment builds `execModule` (CPython; link 3
of the correspondence compares it with `vars()` of the imported module on every generated file),
and the import machinery itself.
-/
namespace Xdoc.C16
open Xdoc Py Static Dynamic

/-- the side conditions, all decidable on the mini-AST -/
structure InFragment (modname other : Str) (m : Module) : Prop where
  /-- imported names come from another module -/
  otherModule : other ≠ modname
  /-- decorators / executed branches / main guard: see `Dynamic.inFragment` -/
  shape : inFragment false m.body = true
  /-- names bound at module level are pairwise distinct -/
  topDistinct : ((bindsTop modname other m.body).map (·.1)).Nodup
  /-- names bound in each module-level class are pairwise distinct -/
  classDistinct : classScopesDistinct modname other m.body = true

instance (modname other : Str) (m : Module) : Decidable (InFragment modname other m) :=
  if h : other ≠ modname ∧ inFragment false m.body = true ∧
      ((bindsTop modname other m.body).map (·.1)).Nodup ∧ classScopesDistinct modname other m.body = true
  then isTrue ⟨h.1, h.2.1, h.2.2.1, h.2.2.2⟩
  else isFalse fun hf => h ⟨hf.otherModule, hf.shape, hf.topDistinct, hf.classDistinct⟩

theorem fragmentOk_iff (modname other : Str) (m : Module) :
    fragmentOk modname other m = true ↔ InFragment modname other m := by
  simp only [fragmentOk, Bool.and_eq_true, decide_eq_true_eq]
  constructor
  · rintro ⟨⟨⟨a, b⟩, c⟩, d⟩; exact ⟨a, b, c, d⟩
  · intro h; exact ⟨⟨⟨h.otherModule, h.shape⟩, h.topDistinct⟩, h.classDistinct⟩

theorem pairs_moduleEntry (loc : Locator) (m : Module) :
    pairs (moduleEntry loc m) =
      if truthy (m.doc.map (·.text)) then [(docName, m.doc.map (·.text))] else [] := by
  unfold moduleEntry
  cases m.doc with
  | none => simp [truthy]
  | some d =>
    by_cases he : d.text.isEmpty = true <;> simp [truthy, he, mkCallDef]

/-- **static = dynamic** on the fragment: same callnames with the same docstrings, in the same
    order. -/
theorem static_eq_dynamic (loc : Locator) (modname other : Str) (m : Module)
    (h : InFragment modname other m) :
    pairs (visitModule loc m) = dynamicCollect (execModule modname other m) := by
  rw [C07.collect_eq_fold, pairs_insertAll, pairs_moduleEntry]
  unfold dynamicCollect execModule
  simp only
  have hs : setAll (bindsTop modname other m.body) [] = bindsTop modname other m.body := by
    rw [setAll_of_nodup (by simpa using h.topDistinct)]; simp
  rw [inFragment_noAlias false m.body h.shape]
  simp only [applyAliases, List.foldl_nil]
  rw [hs, entries_eq_topLevel loc modname other h.otherModule m.body h.shape h.classDistinct]

/-- as sets of identifiers with docstrings -/
theorem static_eq_dynamic_mem (loc : Locator) (modname other : Str) (m : Module)
    (h : InFragment modname other m) (k : Str) (d : Option Str) :
    (k, d) ∈ pairs (visitModule loc m) ↔ (k, d) ∈ dynamicCollect (execModule modname other m) := by
  rw [static_eq_dynamic loc modname other m h]

/-- non-vacuity: module docstring, decorated async function, class with static method, property
    with setter, nested class, definitions inside an executed `try` body, an imported name, a main
    guard that is not executed, with an `else` branch that is; `f` is wrapped by a decorator imported from the
    other module. -/
def demoModule : Module :=
  { doc := some ⟨"m".toList, 1, 1⟩,
    body :=
      .imp "join".toList <|
      .func true "f".toList [.ext "ext_deco".toList] (some ⟨"d".toList, 3, 3⟩) (.func false "inner".toList [] none .done .done) <|
      .cls "C".toList [] (some ⟨"c".toList, 5, 5⟩)
        (.func false "s".toList [.name "staticmethod".toList] (some ⟨"sd".toList, 7, 7⟩) .done <|
         .func false "p".toList [.name "property".toList] (some ⟨"g".toList, 9, 9⟩) .done <|
         .func false "p".toList [.attr "setter".toList] none .done <|
         .cls "N".toList [] none (.func false "x".toList [] none .done .done) .done) <|
      .comp true (.func false "g".toList [] none .done .done) <|
      .comp false (.other .done) <|
      .ifs { isCompare := true, op0Eq := true, leftId := some "__name__".toList, comp0 := some "__main__".toList } false true
        (.func false "hidden".toList [] none .done .done)
        (.func false "onimport".toList [] (some ⟨"o".toList, 30, 30⟩) .done .done) .done }

example : InFragment "mod".toList "posixpath".toList demoModule := by decide
example : dynamicCollect (execModule "mod".toList "posixpath".toList demoModule) =
    [("__doc__".toList, some "m".toList), ("f".toList, some "d".toList), ("C".toList, some "c".toList),
     ("C.s".toList, some "sd".toList), ("C.p".toList, some "g".toList), ("g".toList, none), ("onimport".toList, some "o".toList)] := by decide

/-- a function wrapped by a `functools.wraps` decorator imported from another module: its `__globals__` name the
    OTHER module, its `__module__` this one — `is_defined_by_module` accepts it on `__module__` alone -/
example : (funcItem "mod".toList "helper".toList [.ext "ext_deco".toList] none).target.globalsName = some "helper".toList ∧
    definedBy "mod".toList (funcItem "mod".toList "helper".toList [.ext "ext_deco".toList] none).target = true := by decide

/-- outside the fragment the two collectors really differ: a definition in a branch the import
    does not execute is seen by the static collector only -/
def unexecuted : Module :=
  { doc := none,
    body := .ifs { isCompare := false, op0Eq := false, leftId := none, comp0 := none } false true (.func false "f".toList [] none .done .done) .done .done }

example : ¬ InFragment "mod".toList "o".toList unexecuted := by decide
example : pairs (visitModule (fun _ => none) unexecuted) ≠
    dynamicCollect (execModule "mod".toList "o".toList unexecuted) := by decide

/-- a second name for a class (`Alias = C`): the static collector keeps the `def`/`class` statements only, the dynamic
    walk goes by the KEYS of the module dict and reports the class and its methods under both names -/
def aliased : Module :=
  { doc := none,
    body := .cls "C".toList [] (some ⟨"c".toList, 2, 2⟩) (.func false "m".toList [] (some ⟨"d".toList, 4, 4⟩) .done .done) <|
            .alias "Alias".toList "C".toList .done }

example : ¬ InFragment "mod".toList "o".toList aliased := by decide
example : pairs (visitModule (fun _ => none) aliased) = [("C".toList, some "c".toList), ("C.m".toList, some "d".toList)] := by decide
example : dynamicCollect (execModule "mod".toList "o".toList aliased) =
    [("C".toList, some "c".toList), ("C.m".toList, some "d".toList),
     ("Alias".toList, some "c".toList), ("Alias.m".toList, some "d".toList)] := by decide

end Xdoc.C16

import XdocModel.Proofs.C18
import XdocModel.Proofs.C13Labels
/-!
# C18 ☆ — a step towards `ReparseSame`: the labels of the re-parsed display

`reparse_same_partial` (C18) shows that the text `format_src` displays (prompts and wants, no
numbers) is the `\n`-join of `orig_lines ++ want_lines`, part after part. Here:

* `prepareLines_formatSrc` : what the labeller of the SECOND parse receives (`prepareLines`: tabs,
  common indent, `splitlines`) is exactly that list of lines;
* `reparse_labels` : whenever these lines are rendered by a list of blocks of the (larger) grammar of
  `C13Labels`, the second parse labels them as intended (`C13.labels_are_intended_general`).

Still missing for `ReparseSame`: that the lines of a PARSED doctest are always in the grammar (the
converse of `labels_are_intended`; false as it stands for the triple-quote hack, which changes what
the oracle is asked), and the grouping/packaging of the second parse.
-/
namespace Xdoc.C18
open Xdoc Py Format Parser

/-- the lines `format_src` displays -/
def shownLines (parts : List Part) : List Str := parts.flatMap (fun p => origOf p ++ wantOf p)

theorem foldl_min_zero (is : List Nat) : is.foldl min 0 = 0 := by
  induction is with
  | nil => rfl
  | cons i is ih => simpa using ih

theorem indentOf?_head {c : Char} (s : Str) (hc : isSpace c = false) : indentOf? (c :: s) = some 0 := by
  have hne : (c == ' ') = false := by
    cases h : (c == ' ') with
    | false => rfl
    | true => rw [beq_iff_eq] at h; subst h; rw [isSpace_sp] at hc; cases hc
  unfold indentOf?
  rw [List.dropWhile_cons_of_neg (by simp [hne])]
  simp only [hc, Bool.false_eq_true, if_false]
  rw [List.takeWhile_cons_of_neg (by simp [hne])]
  rfl

theorem minIndentation_zero (x : Str) (ls : List Str) (hclean : ∀ l ∈ x :: ls, NoBreak l)
    (hx : indentOf? x = some 0) : minIndentation (joinWith ['\n'] (x :: ls)) = 0 := by
  unfold minIndentation
  rw [splitOn_joinWith_clean x ls hclean]
  simp only [List.filterMap_cons, hx]
  exact foldl_min_zero _

theorem lastOk_append {a b : List Str} (ha : a.getLast? ≠ some []) (hb : b.getLast? ≠ some []) :
    (a ++ b).getLast? ≠ some [] := by
  rw [List.getLast?_append]
  cases h : b.getLast? with
  | none => simpa using ha
  | some y => rw [h] at hb; simpa using hb

theorem shownLines_clean (parts : List Part) (hp : ∀ p ∈ parts, CleanPart p) :
    CleanLines (shownLines parts) := by
  induction parts with
  | nil => exact ⟨by simp [shownLines], by simp [shownLines]⟩
  | cons p ps ih =>
    obtain ⟨x, ls, ho, hc⟩ := (hp p List.mem_cons_self).orig
    have hw := (hp p List.mem_cons_self).want
    have ih' := ih (fun q hq => hp q (List.mem_cons_of_mem _ hq))
    have e : shownLines (p :: ps) = (origOf p ++ wantOf p) ++ shownLines ps := by
      simp [shownLines]
    have ho' : origOf p = x :: ls := by simp [origOf, ho]
    rw [e]
    refine ⟨?_, lastOk_append (lastOk_append (by rw [ho']; exact hc.2) hw.2) ih'.2⟩
    intro l hl
    simp only [List.mem_append] at hl
    rcases hl with (hl | hl) | hl
    · rw [ho'] at hl; exact hc.1 l hl
    · exact hw.1 l hl
    · exact ih'.1 l hl

/-- ★ the labeller of the second parse receives exactly the displayed lines: `orig_lines` then
    `want_lines`, part after part (clean parts without tabs whose first line is a `>>>` prompt at
    column 0, as the parser builds them) -/
theorem prepareLines_formatSrc (parts : List Part) (hp : ∀ p ∈ parts, CleanPart p) (hne : parts ≠ [])
    (hnotab : ∀ p ∈ parts, ∀ l ∈ origOf p ++ wantOf p, '\t' ∉ l)
    (hfirst : ∃ x ls, shownLines parts = x :: ls ∧ hasPrefix x [ps1] = true) :
    prepareLines (formatSrc parts 0 { linenos := false }) = shownLines parts := by
  obtain ⟨h1, h2⟩ := reparse_same_partial parts hp hne hnotab
  obtain ⟨x, ls, hx, hpx⟩ := hfirst
  have hclean := shownLines_clean parts hp
  have hm : minIndentation (formatSrc parts 0 { linenos := false }) = 0 := by
    rw [h1]
    show minIndentation (joinWith ['\n'] (shownLines parts)) = 0
    rw [hx]
    obtain ⟨-, -, -, ⟨c, s, rfl, hc⟩, -⟩ := ps1_line hpx
    exact minIndentation_zero _ ls (by rw [← hx]; exact hclean.1) (indentOf?_head s hc)
  unfold prepareLines
  simp only [h2, hm, Nat.lt_irrefl, if_false]
  rw [h1]
  exact splitLines_joinWith _ hclean.1 hclean.2

/-- ★ the second parse labels the displayed lines as intended whenever they are in the grammar -/
theorem reparse_labels (parts : List Part) (hp : ∀ p ∈ parts, CleanPart p) (hne : parts ≠ [])
    (hnotab : ∀ p ∈ parts, ∀ l ∈ origOf p ++ wantOf p, '\t' ∉ l)
    (hfirst : ∃ x ls, shownLines parts = x :: ls ∧ hasPrefix x [ps1] = true)
    (bs : List C13.Block) (hbs : shownLines parts = bs.flatMap C13.Block.render)
    (hwf : ∀ b ∈ bs, b.WellFormedG ∧ b.ContOrdered) (hsep : C13.SeparatedG bs) :
    ∃ out, labelLines (prepareLines (formatSrc parts 0 { linenos := false })) = .ok out ∧
      out.map (·.1) = bs.flatMap C13.Block.intended := by
  rw [prepareLines_formatSrc parts hp hne hnotab hfirst, hbs]
  exact C13.labels_are_intended_general bs hwf hsep

/-! non-vacuity: the two parts of `exParts` (`>>> x = 1` / `>>> x` with want `1`) -/

def exBlocks : List C13.Block := [.example 0 [[">>> x = 1".toList], [">>> x".toList]] ["1".toList]]

example : ∃ out, labelLines (prepareLines (formatSrc exParts 0 { linenos := false })) = .ok out ∧
    out.map (·.1) = [.dsrc, .dsrc, .want] :=
  reparse_labels exParts exParts_clean (by simp [exParts]) (by decide +kernel)
    ⟨_, _, rfl, by decide +kernel⟩ exBlocks (by decide +kernel)
    (fun b hb => C13.Block.checkG_sound (List.all_eq_true.mp (by decide +kernel) b hb))
    (C13.separatedGB_sound (by decide +kernel))

end Xdoc.C18

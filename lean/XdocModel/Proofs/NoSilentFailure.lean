import XdocModel.Proofs.C09
import XdocModel.Proofs.C10
/-!
# C09 — no silent failure, read from the summary

For ALL part lists, execution oracles and configurations: a summary that says `passed` or `skipped` has no
recorded failure behind it, a recorded failure is never reported as passed or skipped, and a doctest
without parts cannot fail. (`failed_iff_failure_recorded` + the exclusivity of the three flags.)
-/
namespace Xdoc.C09
open Xdoc Py

variable {Env : Type}

/-- ★ a doctest reported as passed has no recorded failure -/
theorem passed_no_failure (sat : Str → Option Bool)
    (sem : Env → Nat → RunPart → ExecResult × Env) (cfg : RunCfg) (env0 : Env) (parts : List RunPart)
    (h : (run sat sem cfg env0 parts).summary.passed = true) :
    (run sat sem cfg env0 parts).state.failure = none := by
  have hx := C10.run_summary_exclusive sat sem cfg env0 parts
  have hf := failed_iff_failure_recorded sat sem cfg env0 parts
  rcases hx with ⟨_, h2, _⟩ | ⟨h1, _, _⟩ | ⟨h1, _, _⟩
  · rw [h2] at hf
    cases hs : (run sat sem cfg env0 parts).state.failure with
    | none => rfl
    | some fl => rw [hs] at hf; cases hf
  · rw [h] at h1; cases h1
  · rw [h] at h1; cases h1

/-- ★ a doctest reported as skipped has no recorded failure -/
theorem skipped_no_failure (sat : Str → Option Bool)
    (sem : Env → Nat → RunPart → ExecResult × Env) (cfg : RunCfg) (env0 : Env) (parts : List RunPart)
    (h : (run sat sem cfg env0 parts).summary.skipped = true) :
    (run sat sem cfg env0 parts).state.failure = none := by
  have hx := C10.run_summary_exclusive sat sem cfg env0 parts
  have hf := failed_iff_failure_recorded sat sem cfg env0 parts
  rcases hx with ⟨_, _, h3⟩ | ⟨_, _, h3⟩ | ⟨_, h2, _⟩
  · rw [h] at h3; cases h3
  · rw [h] at h3; cases h3
  · rw [h2] at hf
    cases hs : (run sat sem cfg env0 parts).state.failure with
    | none => rfl
    | some fl => rw [hs] at hf; cases hf

/-- ★ a recorded failure is reported as failed and as nothing else -/
theorem failure_reported_only_as_failed (sat : Str → Option Bool)
    (sem : Env → Nat → RunPart → ExecResult × Env) (cfg : RunCfg) (env0 : Env) (parts : List RunPart)
    (fl : Failure) (h : (run sat sem cfg env0 parts).state.failure = some fl) :
    (run sat sem cfg env0 parts).summary.failed = true ∧
    (run sat sem cfg env0 parts).summary.passed = false ∧
    (run sat sem cfg env0 parts).summary.skipped = false := by
  have hx := C10.run_summary_exclusive sat sem cfg env0 parts
  have hf := failed_iff_failure_recorded sat sem cfg env0 parts
  rw [h] at hf
  have hf' : (run sat sem cfg env0 parts).summary.failed = true := by simpa using hf
  rcases hx with ⟨_, h2, _⟩ | ⟨h1, _, h3⟩ | ⟨_, h2, _⟩
  · rw [hf'] at h2; cases h2
  · exact ⟨hf', h1, h3⟩
  · rw [hf'] at h2; cases h2

/-- a doctest without parts cannot record a failure -/
theorem no_parts_no_failure (sat : Str → Option Bool)
    (sem : Env → Nat → RunPart → ExecResult × Env) (cfg : RunCfg) (env0 : Env) :
    (run sat sem cfg env0 []).state.failure = none := by
  cases hs : (run sat sem cfg env0 []).state.failure with
  | none => rfl
  | some fl => exact absurd (failure_names_part sat sem cfg env0 [] fl hs) (by simp)

end Xdoc.C09

import XdocModel.Example
import XdocModel.Lemmas.Example
import XdocModel.Proofs.C02
import XdocModel.Proofs.C03
/-!
# C09 — Every failure is recorded and rendered; one bad doctest never aborts the run

The exception ladder of `DocTest.run` as decisions of the model. "Whatever goes wrong" is the
list of fault kinds of the property; each is shown to be *recorded* (a failure value, hence a
summary marked failed) and `run(on_error='return')` is shown never to raise.
-/
namespace Xdoc.C09
open Xdoc Py

variable {Env : Type}

/-- ★ `return_mode_never_raises`: asked to return errors, a native run always returns a summary —
    for all part lists, oracles and configurations — provided every exception raised by executing
    doctest code carries a doctest frame in its traceback (CPython guarantees that for code run
    by `exec`/`eval` of the compiled part; the harness checks it on every observed run). -/
theorem return_mode_never_raises (sat : Str → Option Bool)
    (sem : Env → Nat → RunPart → ExecResult × Env) (cfg : RunCfg) (env0 : Env) (parts : List RunPart)
    (hret : cfg.onError = .ret) (hnat : cfg.pytestMode = false)
    (hframe : ∀ env i p o l, (sem env i p).1 ≠ .raised o l none) :
    (run sat sem cfg env0 parts).ending = .returned := by
  have r := C02.run_result sat sem cfg env0 parts
  unfold run
  simp only
  cases he : (runLoop sat sem cfg { env := env0, rs := RState.init cfg.defaults } 0 parts).2 with
  | none => simp [hnat]
  | some e =>
    rcases r.ending e he with ⟨h, _⟩ | ⟨h, _⟩ | ⟨fl, _, h, _⟩
    · subst h; rfl
    · subst h
      obtain ⟨env, i, p, o, l, h⟩ := r.escaped he
      exact absurd h (hframe env i p o l)
    · rw [hret] at h; cases h

/-- ★ the summary is marked failed exactly when a failure was recorded -/
theorem failed_iff_failure_recorded (sat : Str → Option Bool)
    (sem : Env → Nat → RunPart → ExecResult × Env) (cfg : RunCfg) (env0 : Env) (parts : List RunPart) :
    (run sat sem cfg env0 parts).summary.failed = (run sat sem cfg env0 parts).state.failure.isSome := by
  rw [(C02.run_state_eq sat sem cfg env0 parts).2, (C02.run_state_eq sat sem cfg env0 parts).1]
  rfl

/-- ★ a recorded failure always names an existing part (so the report can locate and show it) -/
theorem failure_names_part (sat : Str → Option Bool)
    (sem : Env → Nat → RunPart → ExecResult × Env) (cfg : RunCfg) (env0 : Env) (parts : List RunPart)
    (fl : Failure) (h : (run sat sem cfg env0 parts).state.failure = some fl) :
    fl.partIdx < parts.length :=
  (C02.failure_stops sat sem cfg env0 parts fl h).1

/-! ## every fault kind of the property is recorded as a failure -/

/-- wrong output -/
theorem wrong_output_recorded (f : Flags) (want out : Str) (ev : EvalResult) (unm : List Str)
    (h : partCheck f want out ev unm = .differs) :
    decideExec f false (some want) unm (.ok out ev) = .halt true out (some (.gotWant, 1)) := by
  rw [C02.want_decision, h]

/-- exception in the doctest, in code it calls, or in a helper defined by an earlier part
    (all three are an exception with a doctest frame in its traceback) without a matching want -/
theorem exception_recorded (f : Flags) (iw : Bool) (unm : List Str) (out line : Str) (ln : Nat) :
    decideExec f iw none unm (.raised out line (some ln)) = .halt true out (some (.exception, ln)) := rfl

/-- an error found only when the part is compiled -/
theorem compile_error_recorded (f : Flags) (iw : Bool) (want : Option Str) (unm : List Str) (ln : Option Nat) :
    decideExec f iw want unm (.compileError ln) = .halt false [] (some (.compile, ln.getD 1)) := rfl

/-- a repr that raises never lets the check say "differs": the part either matches through its
    stdout or the repr failure is what is recorded -/
theorem repr_raises_never_differs (f : Flags) (want out : Str) (unm : List Str) :
    partCheck f want out .reprRaises unm ≠ .differs := by
  unfold partCheck
  rw [C02.checkTrailing_eq]
  have nd : ∀ c, checkGotVsWant f want c .reprRaises ≠ .differs := by
    intro c h
    unfold checkGotVsWant at h
    simp only at h
    split at h <;> (try split at h) <;> simp at h
  -- a non-empty list of verdicts none of which is "differs" does not give "differs"
  have key : ∀ (l : List GotWant), l ≠ [] → (∀ g ∈ l, g ≠ .differs) → C02.verdictOf l ≠ .differs := by
    intro l
    induction l with
    | nil => intro h; exact absurd rfl h
    | cons g l _ =>
      intro _ hall
      cases g with
      | ok => simp [C02.verdictOf]
      | differs => exact absurd rfl (hall _ List.mem_cons_self)
      | reprError =>
        simp only [C02.verdictOf]
        cases C02.verdictOf l <;> simp
  apply key
  · cases unm.reverse <;> simp [C02.candidates]
  · intro g hg
    obtain ⟨c, _, rfl⟩ := List.mem_map.mp hg
    exact nd c

theorem repr_raises_recorded (f : Flags) (want out : Str) (unm : List Str) :
    decideExec f false (some want) unm (.ok out .reprRaises) = .ran out .clear ∨
    decideExec f false (some want) unm (.ok out .reprRaises) = .halt true out (some (.reprError, 1)) := by
  rw [C02.want_decision]
  have := repr_raises_never_differs f want out unm
  cases h : partCheck f want out .reprRaises unm
  · exact Or.inl rfl
  · exact absurd h this
  · exact Or.inr rfl

/-- an import error of the module under test, a malformed directive -/
theorem import_error_recorded (sat : Str → Option Bool) (sem : Env → Nat → RunPart → ExecResult × Env)
    (cfg : RunCfg) (s : RunState Env) (i : Nat) (p : RunPart) (rs : RState)
    (h : preStage sat cfg s.rs s.didImport p = .importFail rs) :
    stepPart sat sem cfg s i p =
      .stop { s with rs := rs, failure := some { kind := .importError, partIdx := i, tbLineno := 1 } }
        (endOf cfg .importError) := by
  simp [stepPart, h, applyAct]

theorem malformed_directive_recorded (sat : Str → Option Bool) (sem : Env → Nat → RunPart → ExecResult × Env)
    (cfg : RunCfg) (s : RunState Env) (i : Nat) (p : RunPart)
    (h : s.rs.update sat p.directives = none) :
    stepPart sat sem cfg s i p =
      .stop { s with failure := some { kind := .directive, partIdx := i, tbLineno := 1 } }
        (endOf cfg .directive) := by
  simp [stepPart, preStage, h, applyAct]

/-- ★ the context line quoted under a doctest frame is total: a frame whose line number lies
    beyond the failing part (a helper defined by an earlier, longer part) yields no context line
    instead of an index error -/
theorem tbContextLine_total (p : Part) (n : Nat) :
    (∃ l, tbContextLine p n = some l ∧ ∃ ls, p.origLines = some ls ∧ ls[n - 1]? = some l ∧ 0 < n ∧ n ≤ ls.length) ∨
    tbContextLine p n = none := by
  unfold tbContextLine
  cases h : p.origLines with
  | none => exact Or.inr rfl
  | some ls =>
    simp only
    split
    · rename_i hc
      cases hl : ls[n - 1]? with
      | none => exact Or.inr rfl
      | some l => exact Or.inl ⟨l, rfl, ls, rfl, hl, hc.1, hc.2⟩
    · exact Or.inr rfl

/-! ### non-vacuity -/
example : tbContextLine { execLines := [], origLines := some [">>> helper(1)".toList] } 5 = none := by
  decide +kernel
example : tbContextLine { execLines := [], origLines := some [">>> helper(1)".toList] } 1
    = some ">>> helper(1)".toList := by decide +kernel

end Xdoc.C09

import XdocModel.Example
import XdocModel.Lemmas.Example
import XdocModel.Proofs.C02
/-!
# C03 — Exceptions are never swallowed; only a matching expected traceback passes

The decision table of the `except` branch of `DocTest.run`, for ALL texts and ALL flag settings.
`excLine` is the last line of `traceback.format_exception_only`, `tb` the line of the outermost
doctest frame of the traceback (present whenever the exception was raised by executing doctest
code).
-/
namespace Xdoc.C03
open Xdoc Py Re

/-- ★ no want: the doctest fails with that exception -/
theorem raise_no_want_fails (f : Flags) (iw : Bool) (unm : List Str) (out line : Str) (ln : Nat) :
    decideExec f iw none unm (.raised out line (some ln)) = .halt true out (some (.exception, ln)) := rfl

/-- ★ a want that is not a traceback block never hides an exception — whatever the flags,
    including IGNORE_WANT -/
theorem raise_nontraceback_want_fails_with_it (f : Flags) (iw : Bool) (unm : List Str)
    (out line want : Str) (ln : Nat) (h : extractExcWant want = none) :
    decideExec f iw (some want) unm (.raised out line (some ln)) = .halt true out (some (.exception, ln)) := by
  simp [decideExec, checkException, h]

/-- ★ a matching traceback want: the part is fine, the loop goes on (so the following statements
    still run) and the unmatched output is left alone -/
theorem raise_traceback_match_continues (f : Flags) (iw : Bool) (unm : List Str)
    (out line want : Str) (tb : Option Nat) (h : checkException f line want = some true) :
    decideExec f iw (some want) unm (.raised out line tb) = .ran out .keep := by
  simp [decideExec, h]

/-- ★ a traceback want that does not match fails the doctest with a got/want error -/
theorem raise_traceback_mismatch_fails (f : Flags) (iw : Bool) (unm : List Str)
    (out line want : Str) (tb : Option Nat) (h : checkException f line want = some false) :
    decideExec f iw (some want) unm (.raised out line tb) = .halt true out (some (.gotWant, 1)) := by
  simp [decideExec, h]

/-- ★ a traceback want on code that does not raise is an ordinary want: it is compared with the
    output like any other text (and therefore fails unless the output happens to equal it) -/
theorem no_raise_traceback_want_is_plain_comparison (f : Flags) (unm : List Str)
    (out want : Str) (ev : EvalResult) :
    decideExec f false (some want) unm (.ok out ev) =
      match partCheck f want out ev unm with
      | .ok => .ran out .clear
      | .differs => .halt true out (some (.gotWant, 1))
      | .reprError => .halt true out (some (.reprError, 1)) :=
  C02.want_decision f want unm out ev

/-- ★ when exactly an expected exception passes: the want is a traceback block whose final part
    matches the raised exception's line under the active flags, or — only with
    IGNORE_EXCEPTION_DETAIL — the bare exception names match and the expected name is not empty -/
theorem expected_exception_iff (f : Flags) (line want : Str) :
    checkException f line want = some true ↔
      ∃ ew, extractExcWant want = some ew ∧
        (checkOutput f line ew = true ∨
          (f.ignDetail = true ∧ stripExceptionDetails ew ≠ [] ∧
            checkOutput f (stripExceptionDetails line) (stripExceptionDetails ew) = true)) := by
  unfold checkException
  cases h : extractExcWant want with
  | none => simp
  | some ew =>
    simp only [Option.some.injEq, exists_eq_left']
    by_cases h1 : checkOutput f line ew = true
    · simp [h1]
    · by_cases h2 : f.ignDetail = true
      · simp [h1, h2]
      · simp [h1, h2]

/-- ★ `_strip_exception_details`: module path and message are dropped, the bare name is kept -/
theorem stripDetails_spec (modpath name msg rest : Str)
    (hn : ∀ c ∈ name, c ≠ '.' ∧ c ≠ ':' ∧ c ≠ '\n')
    (hm : ∀ c ∈ modpath, c ≠ ':' ∧ c ≠ '\n')
    (hmsg : ∀ c ∈ msg, c ≠ '\n') :
    stripExceptionDetails (modpath ++ ['.'] ++ name ++ [':'] ++ msg ++ ['\n'] ++ rest) = name := by
  unfold stripExceptionDetails
  have e1 : (modpath ++ ['.'] ++ name ++ [':'] ++ msg ++ ['\n'] ++ rest).takeWhile (· != '\n')
      = modpath ++ ['.'] ++ name ++ [':'] ++ msg := by
    have : ∀ c ∈ modpath ++ ['.'] ++ name ++ [':'] ++ msg, (c != '\n') = true := by
      intro c hc
      simp only [List.mem_append, List.mem_singleton] at hc
      rcases hc with (((hc | hc) | hc) | hc) | hc
      · simpa using (hm c hc).2
      · subst hc; decide
      · simpa using (hn c hc).2.2
      · subst hc; decide
      · simpa using hmsg c hc
    rw [List.append_assoc (modpath ++ ['.'] ++ name ++ [':'] ++ msg), List.takeWhile_append_of_pos this]
    simp
  simp only [e1]
  have e2 : (modpath ++ ['.'] ++ name ++ [':'] ++ msg).takeWhile (· != ':') = modpath ++ ['.'] ++ name := by
    have : ∀ c ∈ modpath ++ ['.'] ++ name, (c != ':') = true := by
      intro c hc
      simp only [List.mem_append, List.mem_singleton] at hc
      rcases hc with (hc | hc) | hc
      · simpa using (hm c hc).1
      · subst hc; decide
      · simpa using (hn c hc).2.1
    rw [List.append_assoc (modpath ++ ['.'] ++ name), List.takeWhile_append_of_pos this]
    simp
  simp only [e2]
  have e3 : (modpath ++ ['.'] ++ name).reverse.takeWhile (· != '.') = name.reverse := by
    have : ∀ c ∈ name.reverse, (c != '.') = true := by
      intro c hc; simpa using (hn c (List.mem_reverse.mp hc)).1
    simp only [List.reverse_append, List.reverse_cons, List.reverse_nil, List.nil_append,
      List.append_assoc]
    rw [List.takeWhile_append_of_pos this]
    simp
  rw [e3]; simp

/-! ### non-vacuity -/
example : extractExcWant "Traceback (most recent call last):\n    ...\nValueError: m1".toList
    = some "ValueError: m1".toList := by decide +kernel
example : checkException defaultFlags "ValueError: m1\n".toList
    "Traceback (most recent call last):\n    ...\nValueError: m1".toList = some true := by decide +kernel
example : checkException defaultFlags "ValueError: m1\n".toList
    "Traceback (most recent call last):\n    ...\nValueError: other".toList = some false := by decide +kernel
example : checkException { defaultFlags with ignDetail := true } "ValueError: m1\n".toList
    "Traceback (most recent call last):\n    ...\nsome.module.ValueError: other".toList = some true := by
  decide +kernel
example : extractExcWant "ValueError: m1".toList = none := by decide +kernel
example : stripExceptionDetails "foo.bar.MyError: la di da\n".toList = "MyError".toList := by decide +kernel

end Xdoc.C03

import XdocModel.Lemmas.Compose2
import XdocModel.Proofs.Compose
import XdocModel.Proofs.C19
import XdocModel.Proofs.C09
import XdocModel.Proofs.C10
import XdocModel.Proofs.C15
import XdocModel.Proofs.C11
import XdocModel.Proofs.C04
/-!
# Compositions, second batch — theorems of one cluster with the model of another plugged in

1. C19 ∘ C13/C01 : the dumped test function of a PARSED docstring is the docstring's program;
2. C08 (google) ∘ C13 : a part of a google block, parsed on its own, is on the file line
   `lineno + line_offset`;
3. C10 ∘ C09 ∘ C02 : the tally theorems with the run-loop model plugged in, the only hypothesis left
   being C09's doctest-frame hypothesis;
4. C15 ∘ C10 ∘ C09 : both front ends exit non-zero iff a doctest failed, same hypothesis;
5. C11 ∘ C04 : default options are a leading block directive, in every run of a session.
-/
namespace Xdoc.Compose2
open Xdoc Py Parser

/-! ## 1. C19 ∘ C13/C01 : dump of a parsed docstring

C19 speaks about a `Dump.Example` whose parts are plain `Part`s and takes their cleanliness
(`CleanExample`) as a hypothesis. `Compose.parse_exec_lines_are_program` speaks about the `PPart`s
(part + attached directives) of `CoreExamples.partsOf`. The two part lists are the same up to
forgetting the directives (`partsOf_eq`); the dump never looks at directives. Cleanliness of the
lines follows from the parse (`Compose.parsed_parts_plain`). What stays a hypothesis
(`DumpResidue`) is what the parser does NOT guarantee:

* the example has a part (a docstring without prompt yields no example at all);
* after the star-import filter every part still has a line, and the last one is not empty. Both
  can fail for parsed doctests: a part that is only `from m import *` is dumped as ONE EMPTY line
  although it has no line left (`star_only_part_leaves_blank_line`) — harmless for Python, but the
  line-exact statement of C19 excludes it;
* the names contain no newline.
-/

/-- the plain parts (C18/C19) are the parts-with-directives (C14/Compose) minus the directives -/
theorem partsOf_eq (ps : List Piece) : C18.partsOf ps = (CoreExamples.partsOf ps).map (·.part) := by
  induction ps with
  | nil => rfl
  | cons x r ih =>
    cases x with
    | text s => simpa [C18.partsOf, CoreExamples.partsOf] using ih
    | part q => simpa [C18.partsOf, CoreExamples.partsOf] using ih

/-- what the parser does not give about the parts of a dumped example -/
structure DumpResidue (e : Dump.Example) : Prop where
  nonempty : e.parts ≠ []
  keptLast : ∀ p ∈ e.parts, ∃ x r, C19.kept p = x :: r ∧ (x :: r).getLast? ≠ some []
  names : '\n' ∉ e.modname ∧ '\n' ∉ e.callname ∧ '\n' ∉ e.node ∧ ∀ u ∈ e.undefined, '\n' ∉ u

/-- ★ C19's cleanliness hypothesis holds for the parts of a parsed docstring (C13 tiling: every
    exec / want line is a line of `prepareLines`, hence free of line breaks) -/
theorem cleanExample_of_parse (docstr : Str) (facts : List ChunkFacts) (ps : List Piece)
    (e : Dump.Example) (h : parse docstr facts = .ok ps) (hparts : e.parts = C18.partsOf ps)
    (hr : DumpResidue e) : C19.CleanExample e := by
  refine ⟨?_, hr.nonempty, hr.names⟩
  intro p hp
  obtain ⟨⟨ls, _, hexec, hpl⟩, hw⟩ := Compose.parsed_parts_plain docstr facts ps h p (hparts ▸ hp)
  obtain ⟨x, r, hk, hlast⟩ := hr.keptLast p hp
  refine ⟨⟨x, r, hk, ?_, hlast⟩, fun l hl => (hw l hl).1.no_nl⟩
  intro l hl
  have hl' : l ∈ p.execLines := by
    rw [← hk] at hl
    exact (List.mem_filter.mp hl).1
  rw [hexec] at hl'
  obtain ⟨y, hy, rfl⟩ := List.mem_map.mp hl'
  exact fun c hc => (hpl y hy).1 c (List.mem_of_mem_drop hc)

/-- a line of the dumped body that starts with `# ` (every want comment does) -/
def isHashLine : Str → Bool
  | '#' :: ' ' :: _ => true
  | _ => false

/-- the code of a dumped test function: drop the `def` line, the three docstring lines and the
    optional import line, remove the 4-blank indent, drop the lines that start with `# ` -/
def codeOfDump (e : Dump.Example) (text : Str) : List Str :=
  (((splitOn '\n' text).drop (4 + (Dump.headerLines e).length)).map (·.drop 4)).filter
    (fun l => !isHashLine l)

/-- the program of a docstring: the de-prompted source lines of its code chunks, in order -/
def programOf (chunks : List Chunk) : List Str := chunks.flatMap Compose.chunkProgram

theorem wantComments_hash (p : Part) : ∀ l ∈ C19.wantComments p, isHashLine l = true := by
  intro l hl
  unfold C19.wantComments at hl
  split at hl
  · split at hl
    · simp at hl
    · rcases List.mem_cons.mp hl with rfl | hl
      · decide
      · obtain ⟨w, _, rfl⟩ := List.mem_map.mp hl
        simp [isHashLine]
  · simp at hl

theorem drop_header (d : Str) (A B C : List Str) (pre : Str) (hA : A.length = 3) :
    ((d :: (A ++ B ++ C).map (pre ++ ·)).drop (4 + B.length)).map (·.drop pre.length) = C := by
  have e1 : 4 + B.length = (3 + B.length) + 1 := by omega
  rw [e1, List.drop_succ_cons, List.map_append]
  rw [List.drop_left' (by simp [hA])]
  simp [List.map_map, Function.comp_def]

theorem flatMap_kept (parts : List Part) :
    parts.flatMap C19.kept = Dump.removeStar (parts.map (·.execLines)).flatten := by
  induction parts with
  | nil => rfl
  | cons p r ih =>
    simp only [List.flatMap_cons, List.map_cons, List.flatten_cons, ih, C19.kept, Dump.removeStar,
      List.filter_append]

theorem filter_body (parts : List Part) :
    (parts.flatMap fun p => C19.kept p ++ C19.wantComments p).filter (fun l => !isHashLine l) =
    (parts.flatMap C19.kept).filter (fun l => !isHashLine l) := by
  induction parts with
  | nil => rfl
  | cons p r ih =>
    simp only [List.flatMap_cons, List.filter_append, ih]
    have : (C19.wantComments p).filter (fun l => !isHashLine l) = [] := by
      rw [List.filter_eq_nil_iff]
      intro l hl
      simp [wantComments_hash p l hl]
    rw [this]; simp

/-- ★ `dump_of_parsed_is_program` (C19 `dump_body_is_source` ∘ C13/C01
    `parse_exec_lines_are_program`): parse a docstring, dump the doctest made of ALL its parts as a
    test function. Then
    * line-exact: the text is the `def` line, then — each indented by four blanks — the three
      docstring lines, the optional import line, and for every part its exec lines minus the
      star-imports followed by its want as `# ` comments;
    * the exec lines that survive, concatenated over the parts, are exactly the de-prompted source
      lines of the docstring's code chunks, in source order, minus the lines containing
      `' import *'` — each once, none added, none moved, no text and no want line among them;
    * read back as a function of the TEXT: dropping the header lines, the 4-blank indent and the
      lines that start with `# ` leaves that program minus its own `# ` lines (a source line that is
      itself a column-0 comment cannot be told from a want comment; it is a no-op for Python). -/
theorem dump_of_parsed_is_program (docstr : Str) (facts : List ChunkFacts) (ps : List Piece)
    (e : Dump.Example) (h : parse docstr facts = .ok ps) (hparts : e.parts = C18.partsOf ps)
    (hr : DumpResidue e) :
    ∃ chunks, chunksOf docstr = .ok chunks ∧
      splitOn '\n' (Dump.dumpExample e) = C19.defLine e ::
        (Dump.docstrLines e ++ Dump.headerLines e ++
          e.parts.flatMap (fun p => C19.kept p ++ C19.wantComments p)).map ("    ".toList ++ ·) ∧
      e.parts.flatMap C19.kept = Dump.removeStar (programOf chunks) ∧
      codeOfDump e (Dump.dumpExample e) =
        (Dump.removeStar (programOf chunks)).filter (fun l => !isHashLine l) := by
  obtain ⟨chunks, hc, hprog⟩ := Compose.parse_exec_lines_are_program docstr facts ps h
  have hsrc := C19.dump_body_is_source e (cleanExample_of_parse docstr facts ps e h hparts hr)
  have hk : e.parts.flatMap C19.kept = Dump.removeStar (programOf chunks) := by
    rw [flatMap_kept, hparts, partsOf_eq, programOf, ← hprog]
    simp [List.map_map, Function.comp_def]
  refine ⟨chunks, hc, hsrc, hk, ?_⟩
  unfold codeOfDump
  rw [hsrc]
  unfold C19.bodyLines
  have := drop_header (C19.defLine e) (Dump.docstrLines e) (Dump.headerLines e)
    (e.parts.flatMap fun p => C19.kept p ++ C19.wantComments p) "    ".toList rfl
  have hlen : "    ".toList.length = 4 := rfl
  rw [hlen] at this
  rw [this, filter_body, hk]

/-- corollary: when no source line of the docstring starts with `# ` after de-prompting, reading the
    dump back gives the program minus star-imports, exactly -/
theorem dump_of_parsed_is_program_exact (docstr : Str) (facts : List ChunkFacts) (ps : List Piece)
    (e : Dump.Example) (h : parse docstr facts = .ok ps) (hparts : e.parts = C18.partsOf ps)
    (hr : DumpResidue e)
    (hnc : ∀ chunks, chunksOf docstr = .ok chunks → ∀ l ∈ programOf chunks, isHashLine l = false) :
    ∃ chunks, chunksOf docstr = .ok chunks ∧
      codeOfDump e (Dump.dumpExample e) = Dump.removeStar (programOf chunks) := by
  obtain ⟨chunks, hc, _, _, h4⟩ := dump_of_parsed_is_program docstr facts ps e h hparts hr
  refine ⟨chunks, hc, ?_⟩
  rw [h4, List.filter_eq_self]
  intro l hl
  have := hnc chunks hc l (List.mem_filter.mp hl).1
  simp [this]

/-! ### non-vacuity -/

/-- decidable form of `DumpResidue` -/
def dumpResidueB (e : Dump.Example) : Bool :=
  !e.parts.isEmpty &&
  e.parts.all (fun p => !(C19.kept p).isEmpty && (C19.kept p).getLast? != some []) &&
  !e.modname.contains '\n' && !e.callname.contains '\n' && !e.node.contains '\n' &&
  e.undefined.all (fun u => !u.contains '\n')

theorem dumpResidue_of_b {e : Dump.Example} (h : dumpResidueB e = true) : DumpResidue e := by
  simp only [dumpResidueB, Bool.and_eq_true, Bool.not_eq_eq_eq_not, Bool.not_true,
    List.isEmpty_eq_false_iff, List.all_eq_true, bne_iff_ne, ne_eq, List.contains_eq_mem,
    decide_eq_false_iff_not] at h
  obtain ⟨⟨⟨⟨⟨h1, h2⟩, h3⟩, h4⟩, h5⟩, h6⟩ := h
  refine ⟨h1, ?_, h3, h4, h5, h6⟩
  intro p hp
  obtain ⟨ha, hb⟩ := h2 p hp
  cases hk : C19.kept p with
  | nil => exact absurd hk ha
  | cons x r => exact ⟨x, r, rfl, hk ▸ hb⟩

/-- the dumped example made from a parsed docstring -/
def dumpOf (ps : List Piece) : Dump.Example :=
  { modname := "pkg.m".toList, callname := "f".toList, node := "m.py::f:0".toList,
    parts := C18.partsOf ps, undefined := ["K".toList] }

/-- a docstring with prose, a star import, a two-line statement and an expression with a want -/
def dumpDoc : Str :=
  "intro\n>>> from os import *\n>>> x = [1,\n...      2]\n>>> print(x)\n[1, 2]\n\nmore".toList
def dumpFacts : List ChunkFacts := [.parsed [0, 1] false, .parsed [0] true]

/-- all hypotheses of `dump_of_parsed_is_program` hold on it, and the text read back is the program -/
example : ∃ ps, parse dumpDoc dumpFacts = .ok ps ∧ (dumpOf ps).parts = C18.partsOf ps ∧
    DumpResidue (dumpOf ps) ∧
    codeOfDump (dumpOf ps) (Dump.dumpExample (dumpOf ps)) =
      ["x = [1,".toList, "     2]".toList, "print(x)".toList] := by
  have hp : (parse dumpDoc dumpFacts).toOption.map (fun ps => dumpResidueB (dumpOf ps) &&
      decide (codeOfDump (dumpOf ps) (Dump.dumpExample (dumpOf ps)) =
        ["x = [1,".toList, "     2]".toList, "print(x)".toList])) = some true := by
    decide +kernel
  cases hps : parse dumpDoc dumpFacts with
  | error e => rw [hps] at hp; simp [Except.toOption] at hp
  | ok ps =>
    rw [hps] at hp
    simp only [Except.toOption, Option.map_some, Option.some.injEq, Bool.and_eq_true,
      decide_eq_true_eq] at hp
    exact ⟨ps, rfl, rfl, dumpResidue_of_b hp.1, hp.2⟩

/-- the extra hypothesis of `dump_of_parsed_is_program_exact` holds on it: no source line is a
    column-0 `# ` comment -/
example : ∀ chunks, chunksOf dumpDoc = .ok chunks → ∀ l ∈ programOf chunks, isHashLine l = false := by
  have hc : (chunksOf dumpDoc).toOption.map (fun cs => (programOf cs).all (fun l => !isHashLine l)) =
      some true := by decide +kernel
  intro chunks h l hl
  rw [h] at hc
  simp only [Except.toOption, Option.map_some, Option.some.injEq, List.all_eq_true,
    Bool.not_eq_eq_eq_not, Bool.not_true] at hc
  exact hc l hl

/-- the residue `keptLast` is not implied by the parse: a part that consists of a star import only
    has no line left, yet the dump emits one (empty, indented) line for it -/
theorem star_only_part_leaves_blank_line :
    (parse ">>> from os import *\n>>> f()\n1".toList [.parsed [0, 1] true]).toOption.map
      (fun ps => ((C18.partsOf ps).map C19.kept,
        (splitOn '\n' (Dump.dumpExample { (dumpOf ps) with undefined := [] })).drop 4)) =
    some ([[], ["f()".toList]],
      ["    ".toList, "    f()".toList, "    # doctest want:".toList, "    # 1".toList]) := by
  decide +kernel

/-! ## 2. C08 (google) ∘ C13 : parse a google block on its own, then locate its parts

Unlike the freeform theorems, C08's google theorems (`google_offset_is_tag_index`,
`part_line_is_file_line_google`) carry NO tiling hypothesis: google examples are collected with
`parts = none`, only `docsrc` (the dedented block body) and `lineno` (the line after the tag) are
set, and C08 locates the LINES OF THE BODY: body line `k` is on file line `lineno + k`. The parts
come into being later, when `docsrc` is parsed on its own. What C08 leaves open is therefore
"`part.line_offset` is an index into the body lines": that is C13's tiling of the per-block parse
(`Compose.parse_part_line`), plus the bridge between the parser's line counting
(`expandtabs().splitlines()`, common indent removed) and the body's (`split('\n')`) — they agree
for texts without tabs whose only line break is `\n` (`prepareLines_suffix_splitOn`; otherwise
K-C08-c, `google_lineno_counts_splitlines_witness`). -/

section GoogleBlocks
open Core Google

/-- C08 `part_line_is_file_line_google` with the body made explicit: every body line is a suffix of
    a `split('\n')` line of the docstring (so it has no `\n` and only characters of the docstring) -/
theorem google_body (F : List Str) (a : Nat) (docstr callname : Str) (i : Nat) (e : Ex)
    (hlay : C08.LiteralLayout F a docstr) (he : (googleAll docstr callname (a + 1))[i]? = some e) :
    ∃ body, e.docsrc = joinWith ['\n'] body ∧
      ∀ k bl, body[k]? = some bl → ∃ l fl, l ∈ splitOn '\n' docstr ∧ bl <:+ l ∧
        F[e.lineno + k - 1]? = some fl ∧ l <:+: fl := by
  obtain ⟨b, pre, l0, val, post, _, h1, _, _, h4, _, h6⟩ :=
    C08.google_offset_is_tag_index docstr callname (a + 1) i e he
  refine ⟨dedentLines val, h6, ?_⟩
  intro k bl hk
  obtain ⟨vl, hvl, hs1⟩ := dedentLines_suffix val k bl hk
  have hp : (prepLines docstr)[pre.length + 1 + k]? = some vl := by
    rw [h1]; exact C08.getElem?_mid pre val post l0 k vl hvl
  obtain ⟨l, hl, hs2⟩ := prepLines_suffix docstr _ vl (by omega) hp
  obtain ⟨fl, hfl, hs3⟩ := hlay _ l hl
  refine ⟨l, fl, List.mem_of_getElem? hl, hs1.trans hs2, ?_, hs3⟩
  rw [h4]
  have : a + 1 + pre.length + 1 + k - 1 = a + (pre.length + 1 + k) := by omega
  rw [this]; exact hfl

/-- ★ `parse_then_file_line_google` (C08 google ∘ C13): a docstring literal laid out on the file
    lines from `a` on, without tabs and with `\n` as its only line break; its `i`-th google example
    block; the block body parsed ON ITS OWN by the model parser. Then every part `q` of that parse
    that has a first line sits where the report says: the text of file line number
    `e.lineno + q.line_offset` contains the line the labeller saw at index `line_offset`, and that
    line is the part's first source line `orig_lines[0]` (up to the chunk indent `k` and the
    triple-quote hack `HackRel`). -/
theorem parse_then_file_line_google (F : List Str) (a : Nat) (docstr callname : Str) (i : Nat) (e : Ex)
    (facts : List ChunkFacts) (ps : List Piece)
    (hlay : C08.LiteralLayout F a docstr) (hpl : PlainText docstr)
    (he : (googleAll docstr callname (a + 1))[i]? = some e)
    (h : parse e.docsrc facts = .ok ps)
    (q : PPart) (hq : Piece.part q ∈ ps) (x : Str) (xs : List Str)
    (hx : q.part.origLines = some (x :: xs)) :
    ∃ k line raw fl, (prepareLines e.docsrc)[q.part.lineOffset]? = some line ∧ HackRel line raw ∧
      x = raw.drop k ∧ F[e.lineno + q.part.lineOffset - 1]? = some fl ∧ line <:+: fl := by
  obtain ⟨body, hb, hbody⟩ := google_body F a docstr callname i e hlay he
  have hbl : ∀ bl ∈ body, ∀ c ∈ bl, c ∈ docstr ∧ c ≠ '\n' := by
    intro bl hbl c hc
    obtain ⟨k, hk⟩ := List.getElem?_of_mem hbl
    obtain ⟨l, _, hl, hs, _, _⟩ := hbody k bl hk
    have hcl : c ∈ l := hs.subset hc
    exact ⟨mem_splitOn_subset hl c hcl, fun e => mem_splitOn_sep '\n' docstr l hl (e ▸ hcl)⟩
  have hplain : PlainText e.docsrc := by
    rw [hb]
    intro c hc
    rcases C18.mem_joinWith_nl hc with rfl | ⟨l, hl, hcl⟩
    · exact ⟨by decide, fun _ => rfl⟩
    · exact hpl c (hbl l hl c hcl).1
  obtain ⟨k, line, raw, h1, h2, h3⟩ := Compose.parse_part_line e.docsrc facts ps h q hq x xs hx
  obtain ⟨l0, hl0, hs0⟩ := prepareLines_suffix_splitOn hplain _ _ h1
  cases body with
  | nil =>
    have hnil : prepareLines ([] : Str) = [] := by decide +kernel
    rw [hb] at h1
    simp [joinWith, hnil] at h1
  | cons b bs =>
    rw [hb, C19.splitOn_joinWith_noNL b bs
      (fun l hl hm => (hbl l hl '\n' hm).2 rfl)] at hl0
    obtain ⟨l, fl, _, hs1, hfl, hs2⟩ := hbody _ l0 hl0
    exact ⟨k, line, raw, fl, h1, h2, h3, hfl, ((hs0.trans hs1).isInfix).trans hs2⟩

/-- the per-block parse is tiled in the sense of C08 as well (instance of `Compose.parse_tiled`):
    within the block, every part's `line_offset` is the number of lines of the pieces before it -/
theorem google_block_tiled (docstr callname : Str) (lineno i : Nat) (e : Ex) (facts : List ChunkFacts)
    (ps : List Piece) (_he : (googleAll docstr callname lineno)[i]? = some e)
    (h : parse e.docsrc facts = .ok ps) (hf : Compose.FactsOk e.docsrc facts) :
    Tiled 0 (Compose.toFPieces ps) :=
  Compose.parse_tiled e.docsrc facts ps h hf

/-- ★ the same bridge for the FREEFORM theorem: `Compose.parse_then_file_line` locates "docstring
    line number `line_offset`" (`split('\n')` counting), `Compose.parse_part_line` says what the
    labeller saw there (`splitlines` counting); for a plain docstring the two are the same line, so
    the part's first line is on the file line the report names -/
theorem parse_then_part_on_file_line (F : List Str) (a : Nat) (docstr : Str) (facts : List ChunkFacts)
    (ps : List Piece) (hlay : C08.LiteralLayout F a docstr) (hpl : PlainText docstr)
    (h : parse docstr facts = .ok ps)
    (q : PPart) (hq : Piece.part q ∈ ps) (x : Str) (xs : List Str)
    (hx : q.part.origLines = some (x :: xs)) :
    ∃ k line raw fl, (prepareLines docstr)[q.part.lineOffset]? = some line ∧ HackRel line raw ∧
      x = raw.drop k ∧ F[a + q.part.lineOffset]? = some fl ∧ line <:+: fl := by
  obtain ⟨k, line, raw, h1, h2, h3⟩ := Compose.parse_part_line docstr facts ps h q hq x xs hx
  obtain ⟨l0, hl0, hs0⟩ := prepareLines_suffix_splitOn hpl _ _ h1
  obtain ⟨fl, hfl, hs⟩ := hlay _ l0 hl0
  exact ⟨k, line, raw, fl, h1, h2, h3, hfl, hs0.isInfix.trans hs⟩

/-! ### non-vacuity and necessity -/

def gFile : List Str :=
  ["def f():".toList, "    \"\"\"Example:".toList, "        >>> f()".toList, "        1\"\"\"".toList]
def gDoc : Str := "Example:\n        >>> f()\n        1".toList
def gEx : Ex := { callname := "f".toList, num := 0, lineno := 3, docsrc := ">>> f()\n1".toList,
                  blockType := some "Example".toList }

theorem gDoc_layout : C08.LiteralLayout gFile 1 gDoc := by
  have hsplit : splitOn '\n' gDoc = ["Example:".toList, "        >>> f()".toList, "        1".toList] := by
    decide +kernel
  intro i l h
  rw [hsplit] at h
  rcases i with _ | _ | _ | i
  · have : l = "Example:".toList := by simpa using h.symm
    subst this
    exact ⟨_, rfl, "    \"\"\"".toList, [], by decide +kernel⟩
  · have : l = "        >>> f()".toList := by simpa using h.symm
    subst this
    exact ⟨_, rfl, [], [], by decide +kernel⟩
  · have : l = "        1".toList := by simpa using h.symm
    subst this
    exact ⟨_, rfl, [], "\"\"\"".toList, by decide +kernel⟩
  · simp at h

/-- all hypotheses of `parse_then_file_line_google` together, and the located line: the prompt of the
    block is reported at file line `3 + 0`, where it is -/
example : C08.LiteralLayout gFile 1 gDoc ∧ PlainText gDoc ∧
    (googleAll gDoc "f".toList (1 + 1))[0]? = some gEx ∧
    ∃ ps q x xs, parse gEx.docsrc [.parsed [0] true] = .ok ps ∧ Piece.part q ∈ ps ∧
      q.part.origLines = some (x :: xs) ∧ gEx.lineno + q.part.lineOffset = 3 := by
  refine ⟨gDoc_layout, by decide +kernel, by decide +kernel, ?_⟩
  have hp : (parse gEx.docsrc [.parsed [0] true]).toOption.map (fun ps => ps.map fun p =>
      match p with
      | .part q => (q.part.origLines, q.part.lineOffset)
      | .text _ => (none, 0)) = some [(some [">>> f()".toList], 0)] := by decide +kernel
  cases hps : parse gEx.docsrc [.parsed [0] true] with
  | error e => rw [hps] at hp; simp [Except.toOption] at hp
  | ok ps =>
    rw [hps] at hp
    simp only [Except.toOption, Option.map_some, Option.some.injEq] at hp
    obtain ⟨p, rfl⟩ : ∃ p, ps = [p] := by
      cases ps with
      | nil => simp at hp
      | cons p r =>
        cases r with
        | nil => exact ⟨p, rfl⟩
        | cons _ _ => simp at hp
    cases p with
    | text s => simp at hp
    | part q =>
      simp only [List.map_cons, List.map_nil, List.cons.injEq, Prod.mk.injEq, and_true] at hp
      exact ⟨_, q, _, _, rfl, by simp, hp.1, by rw [hp.2]; rfl⟩

/-- non-vacuity of `google_block_tiled`: the oracle answer for the block body is in range -/
example : (googleAll gDoc "f".toList 2)[0]? = some gEx ∧
    C13.isOk (parse gEx.docsrc [.parsed [0] true]) = true ∧
    Compose.FactsOk gEx.docsrc [.parsed [0] true] :=
  ⟨by decide +kernel, by decide +kernel,
   Compose.factsOk_of_b (chunks := [.code [">>> f()".toList] ["1".toList]])
     (by decide +kernel) (by decide +kernel)⟩

/-- non-vacuity of `parse_then_part_on_file_line`: the same file, the docstring parsed freeform: the
    part is at docstring line 1, file line index `1 + 1` -/
example : C08.LiteralLayout gFile 1 gDoc ∧ PlainText gDoc ∧
    ∃ ps q x xs, parse gDoc [.parsed [0] true] = .ok ps ∧ Piece.part q ∈ ps ∧
      q.part.origLines = some (x :: xs) ∧ gFile[1 + q.part.lineOffset]? = some "        >>> f()".toList := by
  refine ⟨gDoc_layout, by decide +kernel, ?_⟩
  have hp : (parse gDoc [.parsed [0] true]).toOption.map (fun ps => ps.map fun p =>
      match p with
      | .part q => (q.part.origLines, q.part.lineOffset)
      | .text _ => (none, 0)) = some [(none, 0), (some [">>> f()".toList], 1)] := by decide +kernel
  cases hps : parse gDoc [.parsed [0] true] with
  | error e => rw [hps] at hp; simp [Except.toOption] at hp
  | ok ps =>
    rw [hps] at hp
    simp only [Except.toOption, Option.map_some, Option.some.injEq] at hp
    obtain ⟨p0, p, rfl⟩ : ∃ p0 p, ps = [p0, p] := by
      rcases ps with _ | ⟨p0, _ | ⟨p, _ | ⟨_, _⟩⟩⟩ <;> simp at hp
      exact ⟨p0, p, rfl⟩
    cases p with
    | text s => simp at hp
    | part q =>
      simp only [List.map_cons, List.map_nil, List.cons.injEq, Prod.mk.injEq, and_true] at hp
      exact ⟨_, q, _, _, rfl, by simp, hp.2.1, by rw [hp.2.2]; rfl⟩

/-- K-C08-c for google blocks: the hypothesis `PlainText` cannot be dropped. A form feed in the
    prose of the block body makes the parser count one line more than the file has: the prompt is
    body line 1 (file line `lineno + 1`), the part's `line_offset` is 2 -/
theorem google_lineno_counts_splitlines_witness :
    ((googleAll "Example:\n    a\x0cb\n    >>> f()".toList "f".toList 1)[0]?).map
      (fun e => (e.lineno, e.docsrc,
        (parse e.docsrc [.parsed [0] true]).toOption.map (fun ps => (Compose.toFPieces ps).map fun p =>
          match p with
          | .part q => (q.lineOffset, q.nLines)
          | .text s => (0, countChar '\n' s + 1)))) =
      some (2, "a\x0cb\n>>> f()".toList, some [(0, 2), (2, 1)]) ∧
    (splitOn '\n' "a\x0cb\n>>> f()".toList)[1]? = some ">>> f()".toList := by
  decide +kernel

end GoogleBlocks

/-! ## 3. C10 ∘ C09 ∘ C02 : the tallies with the run-loop model plugged in

C10's module-level theorems take "every `run(on_error='return')` call returns a summary"
(`Entry.returns`, hypotheses `hret` of `all_runs_enabled_once` / `exit_nonzero_iff_failed`) or
"`doctest_module` returned a run summary" (`tally_adds_up`) as hypotheses about the entries. With the
entries COMPUTED by the run-loop model (`C10.entriesOf`), C09 `return_mode_never_raises` discharges
them: the only hypothesis left is C09's own — every exception raised by doctest code carries a
doctest frame (`FramesAll`; without it `ValueError('Could not clean traceback')` escapes,
`frames_needed`). "No `BaseException`" (K-C10-a/b: `KeyboardInterrupt`, `SystemExit` out of doctest
code) is not a hypothesis here but a LIMIT OF THE MODEL: `ExecResult` has no constructor for it, so
`resultOfRun` never yields `.interrupt`; C10 `interrupt_breaks_tally` shows what happens outside. -/

section Tally
variable {Env : Type}

/-- C09's hypothesis for the per-doctest execution oracles of a module: an exception raised by
    executing doctest code always has a doctest frame in its traceback -/
def FramesAll (sem : Doc → Env → Nat → RunPart → ExecResult × Env) : Prop :=
  ∀ d env i p o l, (sem d env i p).1 ≠ .raised o l none

/-- ★ every native run of the model returns a summary (C09 plugged into C10's entries) -/
theorem entriesOf_returns (sat : Str → Option Bool) (sem : Doc → Env → Nat → RunPart → ExecResult × Env)
    (defaults : List (String × Bool)) (importOk : Bool) (env0 : Env) (docs : List (Doc × List RunPart))
    (hframe : FramesAll sem) :
    ∀ e ∈ C10.entriesOf sat sem defaults importOk env0 docs, e.returns := by
  intro e he
  simp only [C10.entriesOf, List.mem_map] at he
  obtain ⟨dp, _, rfl⟩ := he
  have := C09.return_mode_never_raises sat (sem dp.1) (nativeCfg defaults importOk) env0 dp.2 rfl rfl
    (hframe dp.1)
  exact ⟨(run sat (sem dp.1) (nativeCfg defaults importOk) env0 dp.2).summary, by simp [resultOfRun, this]⟩

/-- ★ `tally_adds_up_unconditional`: for every module, all oracles, all option defaults and every
    command other than `list` / `dump`, the native runner RETURNS a run summary (it never aborts),
    it ran exactly the gathered doctests in order, and
    `n_passed + n_failed + n_skipped = n_total` = the number of doctests run. -/
theorem tally_adds_up_unconditional (sat : Str → Option Bool)
    (sem : Doc → Env → Nat → RunPart → ExecResult × Env)
    (defaults : List (String × Bool)) (importOk : Bool) (env0 : Env)
    (docs zeroDocs : List (Doc × List RunPart)) (cmd : Str)
    (hframe : FramesAll sem) (h1 : cmd ≠ cmdList) (h2 : cmd ≠ cmdDump) :
    ∃ rs, doctestModule cmd (C10.entriesOf sat sem defaults importOk env0 docs)
          (C10.entriesOf sat sem defaults importOk env0 zeroDocs) = .ran rs ∧
      rs.ran = gather cmd (C10.entriesOf sat sem defaults importOk env0 docs)
          (C10.entriesOf sat sem defaults importOk env0 zeroDocs) ∧
      rs.nPassed + rs.nFailed + rs.nSkipped = rs.nTotal ∧ rs.nTotal = rs.ran.length := by
  have hret : ∀ e ∈ gather cmd (C10.entriesOf sat sem defaults importOk env0 docs)
      (C10.entriesOf sat sem defaults importOk env0 zeroDocs), e.returns := fun e he =>
    (mem_gather he).elim (entriesOf_returns sat sem defaults importOk env0 docs hframe e)
      (entriesOf_returns sat sem defaults importOk env0 zeroDocs hframe e)
  have c1 : (cmd == cmdList) = false := by simpa using h1
  have c2 : (cmd == cmdDump) = false := by simpa using h2
  have hdm : doctestModule cmd (C10.entriesOf sat sem defaults importOk env0 docs)
      (C10.entriesOf sat sem defaults importOk env0 zeroDocs) =
      .ran (summaryOfReturns (gather cmd (C10.entriesOf sat sem defaults importOk env0 docs)
        (C10.entriesOf sat sem defaults importOk env0 zeroDocs))) := by
    unfold doctestModule
    simp only [c1, c2, Bool.false_eq_true, ↓reduceIte, C10.runExamples_of_returns _ hret]
  exact ⟨_, hdm, rfl, C10.tally_adds_up sat sem defaults importOk env0 docs zeroDocs cmd _ hdm⟩

/-- ★ the native runner never aborts, whatever the command -/
theorem doctestModule_never_aborts (sat : Str → Option Bool)
    (sem : Doc → Env → Nat → RunPart → ExecResult × Env)
    (defaults : List (String × Bool)) (importOk : Bool) (env0 : Env)
    (docs zeroDocs : List (Doc × List RunPart)) (cmd : Str) (hframe : FramesAll sem) :
    doctestModule cmd (C10.entriesOf sat sem defaults importOk env0 docs)
      (C10.entriesOf sat sem defaults importOk env0 zeroDocs) ≠ .aborted := by
  by_cases h1 : cmd = cmdList
  · subst h1; simp [doctestModule]
  · by_cases h2 : cmd = cmdDump
    · subst h2
      have : (cmdDump == cmdList) = false := by decide
      simp [doctestModule, this]
    · obtain ⟨rs, h, _⟩ := tally_adds_up_unconditional sat sem defaults importOk env0 docs zeroDocs
        cmd hframe h1 h2
      rw [h]; simp

/-- ★ `all_runs_enabled_once` with the run-loop model plugged in: `all` runs exactly the collected
    doctests that are not force-disabled, each once, in collection order -/
theorem all_runs_enabled_once_unconditional (sat : Str → Option Bool)
    (sem : Doc → Env → Nat → RunPart → ExecResult × Env)
    (defaults : List (String × Bool)) (importOk : Bool) (env0 : Env)
    (docs zeroDocs : List (Doc × List RunPart))
    (hz : ∀ z ∈ zeroDocs, z.1.callname ≠ cmdAll) (hframe : FramesAll sem) :
    ∃ rs, doctestModule cmdAll (C10.entriesOf sat sem defaults importOk env0 docs)
        (C10.entriesOf sat sem defaults importOk env0 zeroDocs) = .ran rs ∧
      rs.ran = (C10.entriesOf sat sem defaults importOk env0 docs).filter
        (fun e => !isDisabled false e.doc.docsrc) ∧
      rs.nTotal = rs.ran.length ∧
      rs.nPassed + rs.nFailed + rs.nSkipped = rs.nTotal ∧
      (∀ e, rs.ran.count e = if isDisabled false e.doc.docsrc then 0
        else (C10.entriesOf sat sem defaults importOk env0 docs).count e) := by
  have hz' : ∀ z ∈ C10.entriesOf sat sem defaults importOk env0 zeroDocs, z.doc.callname ≠ cmdAll := by
    intro z hzm
    simp only [C10.entriesOf, List.mem_map] at hzm
    obtain ⟨dp, hdp, rfl⟩ := hzm
    exact hz dp hdp
  obtain ⟨rs, h1, h2, h3, h4⟩ := C10.all_runs_enabled_once _ _ hz'
    (fun e he _ => entriesOf_returns sat sem defaults importOk env0 docs hframe e he)
  exact ⟨rs, h1, h2, h3,
    (C10.tally_adds_up sat sem defaults importOk env0 docs zeroDocs cmdAll rs h1).1, h4⟩

/-- ★ `exit_nonzero_iff_failed` with the run-loop model plugged in -/
theorem exit_nonzero_iff_failed_unconditional (sat : Str → Option Bool)
    (sem : Doc → Env → Nat → RunPart → ExecResult × Env)
    (defaults : List (String × Bool)) (importOk : Bool) (env0 : Env)
    (docs zeroDocs : List (Doc × List RunPart))
    (hz : ∀ z ∈ zeroDocs, z.1.callname ≠ cmdAll) (hframe : FramesAll sem) :
    exitCode (doctestModule (mainCommand none) (C10.entriesOf sat sem defaults importOk env0 docs)
        (C10.entriesOf sat sem defaults importOk env0 zeroDocs)) ≠ 0 ↔
      ∃ dp ∈ docs, isDisabled false dp.1.docsrc = false ∧
        (run sat (sem dp.1) (nativeCfg defaults importOk) env0 dp.2).summary.failed = true := by
  have hz' : ∀ z ∈ C10.entriesOf sat sem defaults importOk env0 zeroDocs, z.doc.callname ≠ cmdAll := by
    intro z hzm
    simp only [C10.entriesOf, List.mem_map] at hzm
    obtain ⟨dp, hdp, rfl⟩ := hzm
    exact hz dp hdp
  rw [C10.exit_nonzero_iff_failed _ _ hz'
    (fun e he _ => entriesOf_returns sat sem defaults importOk env0 docs hframe e he)
    (fun e he => (C10.entriesOf_exclusive sat sem defaults importOk env0 docs e he).2)]
  have hres : ∀ dp : Doc × List RunPart,
      resultOfRun (run sat (sem dp.1) (nativeCfg defaults importOk) env0 dp.2) =
        .summary (run sat (sem dp.1) (nativeCfg defaults importOk) env0 dp.2).summary := by
    intro dp
    have := C09.return_mode_never_raises sat (sem dp.1) (nativeCfg defaults importOk) env0 dp.2 rfl rfl
      (hframe dp.1)
    simp [resultOfRun, this]
  simp only [C10.entriesOf, List.mem_map]
  constructor
  · rintro ⟨e, ⟨dp, hdp, rfl⟩, hd, hf⟩
    exact ⟨dp, hdp, hd, by simpa [Entry.failed, hres dp] using hf⟩
  · rintro ⟨dp, hdp, hd, hf⟩
    exact ⟨_, ⟨dp, hdp, rfl⟩, hd, by simpa [Entry.failed, hres dp] using hf⟩

/-- the frame hypothesis cannot be dropped: an oracle that raises without a doctest frame makes
    `run(on_error='return')` raise, the runner aborts (exit status 1) and no tally exists -/
theorem frames_needed :
    doctestModule cmdAll (C10.entriesOf (fun _ => some true)
      (fun (_ : Doc) (_ : Unit) _ _ => (ExecResult.raised [] "ValueError: boom\n".toList none, ()))
      [] true () [(⟨"f".toList, 0, ">>> f()".toList⟩, [{ part := { execLines := ["f()".toList] } }])]) []
      = .aborted := by
  decide +kernel

/-! ### non-vacuity: C15's example module satisfies the hypotheses -/
def tallySem : Doc → Unit → Nat → RunPart → ExecResult × Unit := fun _ => C15.exSem
def tallyDocs : List (Doc × List RunPart) := [(C15.exDoc, C15.exParts), (C15.kDoc, C15.kParts)]

theorem tallySem_frames : FramesAll tallySem := by
  intro d env i p o l
  simp only [tallySem, C15.exSem]
  split <;> simp

example : FramesAll tallySem ∧ cmdAll ≠ cmdList ∧ cmdAll ≠ cmdDump ∧
    (∀ z ∈ ([] : List (Doc × List RunPart)), z.1.callname ≠ cmdAll) :=
  ⟨tallySem_frames, by decide, by decide, by simp⟩

example : (match doctestModule cmdAll (C10.entriesOf (fun _ => some true) tallySem [] true () tallyDocs) [] with
    | .ran rs => (rs.nTotal, rs.nPassed, rs.nFailed, rs.nSkipped)
    | _ => (0, 0, 0, 0)) = (2, 1, 1, 0) := by decide +kernel

end Tally

/-! ## 4. C15 ∘ C10 ∘ C09 : both front ends exit non-zero iff a doctest failed

C15 `both_exit_nonzero_iff_failed` already has the native side computed by C10's runner model on
the entries of the run-loop model (`C10.entriesOf`). Its hypothesis `hesc` ("no native run lets the
could-not-clean-traceback error escape") is C09's conclusion; here it is replaced by C09's
hypothesis. K-C15-a (`hsame`) stays: it is a real difference between the two front ends. -/

section FrontEnds
variable {Env : Type}

theorem both_exit_nonzero_iff_failed_of_frames (sat : Str → Option Bool)
    (sem : Doc → Env → Nat → RunPart → ExecResult × Env)
    (defaults : List (String × Bool)) (importOk : Bool) (env0 : Env) (m zeroDocs : C15.Module)
    (hne : m ≠ [])
    (hz : ∀ z ∈ zeroDocs, z.1.callname ≠ cmdAll)
    (hframe : FramesAll sem)
    (hsame : ∀ dp ∈ m, isDisabled true dp.1.docsrc = isDisabled false dp.1.docsrc) :
    (pytestExit (C15.pytestVerdicts sat sem defaults importOk env0 m) ≠ 0 ↔
        C15.SomeFailed sat sem defaults importOk env0 m) ∧
    (exitCode (doctestModule (mainCommand none) (C10.entriesOf sat sem defaults importOk env0 m)
        (C10.entriesOf sat sem defaults importOk env0 zeroDocs)) ≠ 0 ↔
        C15.SomeFailed sat sem defaults importOk env0 m) :=
  C15.both_exit_nonzero_iff_failed sat sem defaults importOk env0 m zeroDocs hne hz
    (fun dp _ => by
      rw [C09.return_mode_never_raises sat (sem dp.1) (nativeCfg defaults importOk) env0 dp.2 rfl rfl
        (hframe dp.1)]
      simp)
    hsame

/-- ★ consequence: the two exit statuses are zero / non-zero TOGETHER -/
theorem exit_statuses_agree (sat : Str → Option Bool)
    (sem : Doc → Env → Nat → RunPart → ExecResult × Env)
    (defaults : List (String × Bool)) (importOk : Bool) (env0 : Env) (m zeroDocs : C15.Module)
    (hne : m ≠ []) (hz : ∀ z ∈ zeroDocs, z.1.callname ≠ cmdAll) (hframe : FramesAll sem)
    (hsame : ∀ dp ∈ m, isDisabled true dp.1.docsrc = isDisabled false dp.1.docsrc) :
    pytestExit (C15.pytestVerdicts sat sem defaults importOk env0 m) ≠ 0 ↔
    exitCode (doctestModule (mainCommand none) (C10.entriesOf sat sem defaults importOk env0 m)
        (C10.entriesOf sat sem defaults importOk env0 zeroDocs)) ≠ 0 := by
  obtain ⟨h1, h2⟩ := both_exit_nonzero_iff_failed_of_frames sat sem defaults importOk env0 m zeroDocs
    hne hz hframe hsame
  exact h1.trans h2.symm

/-- non-vacuity: the one-doctest module of C15's examples -/
example : [(C15.exDoc, C15.exParts)] ≠ ([] : C15.Module) ∧ FramesAll tallySem ∧
    (∀ dp ∈ [(C15.exDoc, C15.exParts)], isDisabled true dp.1.docsrc = isDisabled false dp.1.docsrc) :=
  ⟨by simp, tallySem_frames, by
    intro dp hdp
    simp only [List.mem_singleton] at hdp
    subst hdp
    decide +kernel⟩

end FrontEnds

/-! ## 5. C11 ∘ C04 : default options are a leading block directive, in every run of a session

C04 `cli_default_is_leading_block` is about ONE boolean option on the PRISTINE state
`RState.init []`; C11 `runstate_fresh` says that the state a run starts from, after any history, is
`freshRs template d`. The two clusters build the start state differently (a finding about the
models, both faithful to a different slice of the code):

* C04/C02 (`Xdoc.run`) : `RState.init cfg.defaults` — pristine table, defaults applied, no report
  style, no REQUIRES default;
* C11 (`World.runCore`) : `freshRs` = template (any value: it is shown never to change), defaults,
  optional REQUIRES default, THEN `set_report_style(reportchoice)`.

Bridge: `freshRs_eq_init` (pristine template, no REQUIRES default: `freshRs` is `RState.init`
followed by the report style), and the commutation `foldl_reportTable`: setting plain options
commutes with the report-style reset when every option is a key of the table — for two NEW keys the
dict insertion order would differ, which is why `OptionsOk.known` is a hypothesis (the option parser
only lets known options through). -/

section Defaults

/-- the options given as defaults are plain booleans known to the template: not `REQUIRES`
    (K-C04-c), not a `REPORT_*` choice (those go through `set_report_style`), not the report key -/
structure OptionsOk (t : Template) (d : DocDef) : Prop where
  plain : ∀ kv ∈ d.defaults, kv.1 ≠ "REQUIRES" ∧ kv.1.startsWith "REPORT_" = false
  notKey : ∀ kv ∈ d.defaults, kv.1 ≠ d.reportKey
  known : ∀ kv ∈ d.defaults, (alGet kv.1 t.bools).isSome = true

/-- the same doctest collected without `--options` -/
def noDefaults (d : DocDef) : DocDef := { d with defaults := [] }

/-- ★ C04 for a LIST of options (no hypothesis on the table): `--options=+K1,-K2,…` on the pristine
    state is the state a leading block directive `# xdoctest: +K1, -K2, …` produces -/
theorem cli_defaults_are_leading_block (sat : Str → Option Bool) (D : List (String × Bool))
    (h : ∀ kv ∈ D, kv.1 ≠ "REQUIRES" ∧ kv.1.startsWith "REPORT_" = false) :
    (RState.init []).update sat (leadingBlock D) = some (RState.init D) := by
  unfold RState.update
  rw [foldlM_leadingBlock sat D _ h]
  rfl

/-- C04's theorem is the one-option instance -/
example (sat : Str → Option Bool) (k : String) (b : Bool) (hk : k ≠ "REQUIRES")
    (hr : k.startsWith "REPORT_" = false) :
    (RState.init []).update sat [{ name := k, positive := b, inline := false }] = some (RState.init [(k, b)]) :=
  cli_defaults_are_leading_block sat [(k, b)] (fun kv hkv => by
    simp only [List.mem_singleton] at hkv; subst hkv; exact ⟨hk, hr⟩)

/-- where the two start states differ: C11's is C04's plus the report style (pristine template, no
    REQUIRES default) -/
theorem freshRs_eq_init (d : DocDef) (hreq : d.defaultsReq = none) :
    freshRs {} d = (RState.init d.defaults).setReportStyle d.reportKey := by
  simp [freshRs, hreq, RState.ofTemplate, RState.init]

/-- ★ the start state of a doctest run with default options is the state its option-less twin
    reaches by a leading block directive — for every template -/
theorem defaults_are_leading_block (sat : Str → Option Bool) (t : Template) (d : DocDef)
    (h : OptionsOk t d) :
    (freshRs t (noDefaults d)).update sat (leadingBlock d.defaults) = some (freshRs t d) := by
  unfold RState.update
  rw [foldlM_leadingBlock sat d.defaults _ h.plain]
  simp only [freshRs, noDefaults, RState.ofTemplate, List.foldl_nil, RState.setReportStyle_gBools]
  rw [foldl_reportTable d.reportKey d.defaults t.bools
    (fun kv hkv => ⟨(h.plain kv hkv).2, h.notKey kv hkv, h.known kv hkv⟩)]

/-- ★ `default_options_every_run` (C11 `runstate_fresh` ∘ C04): in EVERY run of a session — after any
    history of runs of any doctests with any `on_error`, whatever directives they left switched on
    — the directive state doctest `i` starts from is the state a leading block directive
    `# xdoctest: <options>` produces from the start state of the same doctest collected without
    options. The left-hand side mentions neither the history nor the world's doctest objects. -/
theorem default_options_every_run (P : Prog) (sat : Str → Option Bool) (sem : Sem) (w : World)
    (h : History) (i : Nat) (oe : OnError) (d : DocDef) (hd : P[i]? = some d)
    (hi : i < w.docs.length) (hok : OptionsOk w.template d) :
    (freshRs w.template (noDefaults d)).update sat (leadingBlock d.defaults) =
      some (runDoc P sat sem (execHist P sat sem w h) i oe).2.startRs := by
  rw [C11.runstate_fresh P sat sem w h i oe d hd hi]
  exact defaults_are_leading_block sat w.template d hok

/-- the same, both sides as runs: the option-less twin `P0[i]`, after ANY OTHER history `h0` in any
    other world with the same template, starts from a state that the leading block turns into the
    start state of `P[i]` after `h` -/
theorem default_options_every_run' (P P0 : Prog) (sat : Str → Option Bool) (sem sem0 : Sem)
    (w w0 : World) (h h0 : History) (i : Nat) (oe oe0 : OnError) (d : DocDef)
    (hd : P[i]? = some d) (hd0 : P0[i]? = some (noDefaults d))
    (hi : i < w.docs.length) (hi0 : i < w0.docs.length) (ht : w0.template = w.template)
    (hok : OptionsOk w.template d) :
    (runDoc P0 sat sem0 (execHist P0 sat sem0 w0 h0) i oe0).2.startRs.update sat (leadingBlock d.defaults) =
      some (runDoc P sat sem (execHist P sat sem w h) i oe).2.startRs := by
  rw [C11.runstate_fresh P0 sat sem0 w0 h0 i oe0 (noDefaults d) hd0 hi0, ht]
  exact default_options_every_run P sat sem w h i oe d hd hi hok

/-- ★ at the level of the part loop: prepend to the option-less twin a comment-only part carrying
    the block directive. Its step skips the part and leaves EXACTLY the start state of the doctest
    with default options, apart from the part being recorded as skipped (index 0) -/
theorem leading_block_step (sat : Str → Option Bool) (sem : NS → Nat → RunPart → ExecResult × NS)
    (cfg : RunCfg) (t : Template) (d : DocDef) (mg ns : NS) (p : RunPart)
    (hok : OptionsOk t d) (hp : p.directives = leadingBlock d.defaults)
    (hcode : p.part.hasAnyCode = false) :
    stepPart sat sem cfg (startState (noDefaults d) t mg ns) 0 p =
      .continue { startState d t mg ns with skipped := [0] } := by
  have hu := defaults_are_leading_block sat t d hok
  have henv : startEnvOf (noDefaults d) mg ns = startEnvOf d mg ns := rfl
  have hpre : preStage sat cfg (freshRs t (noDefaults d)) false p = .skip (freshRs t d) := by
    simp only [preStage, hp, hu, hcode]
    cases (freshRs t d).skips <;> simp
  simp only [stepPart, startState, hpre, applyAct, henv, List.nil_append]

/-- … hence the whole loop of the twin with the leading part continues as the loop of the doctest
    with default options, one index later -/
theorem leading_block_loop (sat : Str → Option Bool) (sem : NS → Nat → RunPart → ExecResult × NS)
    (cfg : RunCfg) (t : Template) (d : DocDef) (mg ns : NS) (p : RunPart)
    (hok : OptionsOk t d) (hp : p.directives = leadingBlock d.defaults)
    (hcode : p.part.hasAnyCode = false) :
    runLoop sat sem cfg (startState (noDefaults d) t mg ns) 0 (p :: d.parts) =
      runLoop sat sem cfg { startState d t mg ns with skipped := [0] } 1 d.parts := by
  simp only [runLoop, leading_block_step sat sem cfg t d mg ns p hok hp hcode]

/-! ### the whole run: a doctest with default options behaves like its twin with a leading block

The twin has one part more, so every part index it records is one higher (`shiftState`); the
execution oracle of the twin is the oracle of the doctest asked one index later (`hsem`: the index
is only the model's way of naming "the execution of this part"). -/

section Simulation
variable {Env : Type}

def shiftFailure (f : Failure) : Failure := { f with partIdx := f.partIdx + 1 }

/-- the same observable state, seen from a loop that ran one skipped part before -/
def shiftState (s : RunState Env) : RunState Env :=
  { env := s.env, rs := s.rs, unmatched := s.unmatched, skipped := 0 :: s.skipped.map (· + 1),
    executed := s.executed.map (· + 1), logged := s.logged.map (fun x => (x.1 + 1, x.2)),
    failure := s.failure.map shiftFailure, didImport := s.didImport }

def shiftStep : Step Env → Step Env
  | .continue s => .continue (shiftState s)
  | .stop s e => .stop (shiftState s) e

theorem applyAct_shift (cfg cfg' : RunCfg) (hoe : cfg'.onError = cfg.onError) (s : RunState Env)
    (i : Nat) (env' : Env) (a : Act) :
    applyAct cfg' (shiftState s) (i + 1) env' a = shiftStep (applyAct cfg s i env' a) := by
  cases a with
  | skip => simp [applyAct, shiftStep, shiftState]
  | ran out u => cases u <;> simp [applyAct, shiftStep, shiftState]
  | halt ex out fl =>
    rcases fl with _ | ⟨k, tb⟩ <;> cases ex <;>
      simp [applyAct, shiftStep, shiftState, endOf, hoe, shiftFailure]
  | escape out => simp [applyAct, shiftStep, shiftState]

theorem stepPart_shift (sat : Str → Option Bool) (sem semT : Env → Nat → RunPart → ExecResult × Env)
    (hsem : ∀ env i p, semT env (i + 1) p = sem env i p) (cfg cfg' : RunCfg)
    (hoe : cfg'.onError = cfg.onError) (himp : cfg'.importOk = cfg.importOk)
    (s : RunState Env) (i : Nat) (p : RunPart) :
    stepPart sat semT cfg' (shiftState s) (i + 1) p = shiftStep (stepPart sat sem cfg s i p) := by
  have hpre : preStage sat cfg' (shiftState s).rs (shiftState s).didImport p =
      preStage sat cfg s.rs s.didImport p := by
    simp [preStage, shiftState, himp]
  unfold stepPart
  rw [hpre]
  cases preStage sat cfg s.rs s.didImport p with
  | dirError => exact applyAct_shift cfg cfg' hoe s i s.env _
  | skip rs => exact applyAct_shift cfg cfg' hoe { s with rs := rs } i s.env _
  | importFail rs => exact applyAct_shift cfg cfg' hoe { s with rs := rs } i s.env _
  | exec rs =>
    have he : (shiftState s).env = s.env := rfl
    simp only [he, hsem]
    exact applyAct_shift cfg cfg' hoe { s with rs := rs, didImport := true } i _ _

theorem runLoop_shift (sat : Str → Option Bool) (sem semT : Env → Nat → RunPart → ExecResult × Env)
    (hsem : ∀ env i p, semT env (i + 1) p = sem env i p) (cfg cfg' : RunCfg)
    (hoe : cfg'.onError = cfg.onError) (himp : cfg'.importOk = cfg.importOk)
    (ps : List RunPart) (s : RunState Env) (i : Nat) :
    runLoop sat semT cfg' (shiftState s) (i + 1) ps =
      (shiftState (runLoop sat sem cfg s i ps).1, (runLoop sat sem cfg s i ps).2) := by
  induction ps generalizing s i with
  | nil => rfl
  | cons p ps ih =>
    simp only [runLoop, stepPart_shift sat sem semT hsem cfg cfg' hoe himp]
    cases stepPart sat sem cfg s i p with
    | «continue» s' => simp only [shiftStep]; exact ih s' (i + 1)
    | stop s' e => rfl

theorem summaryOf_shift (n : Nat) (s : RunState Env) :
    summaryOf (n + 1) (shiftState s) = summaryOf n s := by
  simp [summaryOf, shiftState]

end Simulation

/-- the option-less twin with the block directive in a leading comment-only part -/
def withLeadingBlock (d : DocDef) (p : RunPart) : DocDef := { noDefaults d with parts := p :: d.parts }

/-- ★ `default_options_run_like_leading_block`: ONE run, any template, module dict and left-over
    namespace, any `on_error`: the doctest with default options and its option-less twin with the
    leading block end the same way, with the same summary (passed / failed / skipped), the same
    captured outputs in the same order, the same failure one part later, the same skipped and
    executed parts one index later, and leave the same namespace behind. -/
theorem default_options_run_like_leading_block (sat : Str → Option Bool)
    (sem semT : NS → Nat → RunPart → ExecResult × NS)
    (hsem : ∀ env i p, semT env (i + 1) p = sem env i p)
    (t : Template) (d : DocDef) (mg ns : NS) (p : RunPart) (oe : OnError)
    (hok : OptionsOk t d) (hp : p.directives = leadingBlock d.defaults)
    (hcode : p.part.hasAnyCode = false) :
    let r := runCore sat sem d oe t mg ns
    let rT := runCore sat semT (withLeadingBlock d p) oe t mg ns
    rT.2.ending = r.2.ending ∧ rT.2.summary = r.2.summary ∧
    rT.2.logged.map (·.2) = r.2.logged.map (·.2) ∧
    rT.2.failure = r.2.failure.map shiftFailure ∧
    rT.2.skipped = 0 :: r.2.skipped.map (· + 1) ∧ rT.2.executed = r.2.executed.map (· + 1) ∧
    rT.1.ns = r.1.ns := by
  have hloop : runLoop sat semT (cfgOf (withLeadingBlock d p) oe)
      (startState (withLeadingBlock d p) t mg ns) 0 (withLeadingBlock d p).parts =
      (shiftState (runLoop sat sem (cfgOf d oe) (startState d t mg ns) 0 d.parts).1,
        (runLoop sat sem (cfgOf d oe) (startState d t mg ns) 0 d.parts).2) := by
    have h0 : startState (withLeadingBlock d p) t mg ns = startState (noDefaults d) t mg ns := rfl
    have h1 : (withLeadingBlock d p).parts = p :: d.parts := rfl
    have h2 : ({ startState d t mg ns with skipped := [0] } : RunState NS) =
        shiftState (startState d t mg ns) := rfl
    rw [h0, h1, leading_block_loop sat semT _ t d mg ns p hok hp hcode, h2]
    exact runLoop_shift sat sem semT hsem (cfgOf d oe) (cfgOf (withLeadingBlock d p) oe) rfl rfl
      d.parts _ 0
  intro r rT
  have hlen : (withLeadingBlock d p).parts.length = d.parts.length + 1 := rfl
  have hpm : (withLeadingBlock d p).pytestMode = d.pytestMode := rfl
  have hend : rT.2.ending = r.2.ending := by
    simp only [rT, r, runCore, hloop, hlen, hpm]
    cases (runLoop sat sem (cfgOf d oe) (startState d t mg ns) 0 d.parts).2 <;>
      simp [endingOf, shiftState]
  refine ⟨hend, ?_, ?_, ?_, ?_, ?_, ?_⟩
  · simp only [rT, r, runCore, hloop, hlen, summaryOf_shift]
  · simp only [rT, r, runCore, hloop, shiftState, List.map_map, Function.comp_def]
  · simp only [rT, r, runCore, hloop, shiftState]
  · simp only [rT, r, runCore, hloop, shiftState]
  · simp only [rT, r, runCore, hloop, shiftState]
  · have he : endingOf (withLeadingBlock d p).pytestMode (withLeadingBlock d p).parts.length
        (shiftState (runLoop sat sem (cfgOf d oe) (startState d t mg ns) 0 d.parts).1)
        (runLoop sat sem (cfgOf d oe) (startState d t mg ns) 0 d.parts).2 =
        endingOf d.pytestMode d.parts.length
          (runLoop sat sem (cfgOf d oe) (startState d t mg ns) 0 d.parts).1
          (runLoop sat sem (cfgOf d oe) (startState d t mg ns) 0 d.parts).2 := by
      have := hend
      simpa only [rT, r, runCore, hloop] using this
    simp only [rT, r, runCore, hloop, he]
    unfold nsAfter
    have hf : ∀ f : Option Failure, isImportFailure (f.map shiftFailure) = isImportFailure f := by
      intro f; cases f <;> simp [isImportFailure, shiftFailure]
    simp only [shiftState, hf]
    rfl

/-- ★ `default_options_every_run_outcome` (C11 ∘ C04, outcome form): two sessions with the same
    template and module dict, started clean and run under the native discipline (C11's hypotheses),
    ANY two histories `h`, `h0`. Doctest `i` of `P` has default options, doctest `i` of `P0` is its
    twin with the leading block. After the histories, the next run of either ends the same way, with
    the same summary and the same captured outputs: default options behave like a leading block
    directive in every doctest of a run, independently of what ran before. -/
theorem default_options_every_run_outcome (P P0 : Prog) (sat : Str → Option Bool) (sem sem0 : Sem)
    (w w0 : World) (h h0 : History) (i : Nat) (d : DocDef) (p : RunPart)
    (hd : P[i]? = some d) (hd0 : P0[i]? = some (withLeadingBlock d p))
    (hsem : ∀ env k q, sem0 i env (k + 1) q = sem i env k q)
    (hclean : C11.Clean w) (hclean0 : C11.Clean w0)
    (hnat : ∀ d ∈ P, d.pytestMode = false) (hnat0 : ∀ d ∈ P0, d.pytestMode = false)
    (hframe : C11.Frames sem) (hframe0 : C11.Frames sem0)
    (hr : ∀ s ∈ h, s.2 = .ret) (hr0 : ∀ s ∈ h0, s.2 = .ret)
    (ht : w0.template = w.template) (hm : w0.moduleGlobals = w.moduleGlobals)
    (hi : i < w.docs.length) (hi0 : i < w0.docs.length)
    (hok : OptionsOk w.template d) (hp : p.directives = leadingBlock d.defaults)
    (hcode : p.part.hasAnyCode = false) :
    let o := (runDoc P sat sem (execHist P sat sem w h) i .ret).2
    let o0 := (runDoc P0 sat sem0 (execHist P0 sat sem0 w0 h0) i .ret).2
    o0.ending = o.ending ∧ o0.summary = o.summary ∧ o0.logged.map (·.2) = o.logged.map (·.2) := by
  intro o o0
  have e1 : o = (runCore sat (sem i) d .ret w.template w.moduleGlobals []).2 := by
    simp only [o]
    rw [C11.runDoc_outcome_of_clean (C11.execHist_clean hclean hnat hframe h hr), hd]
    simp [execHist_docs_length, hi, execHist_template, execHist_moduleGlobals]
  have e2 : o0 = (runCore sat (sem0 i) (withLeadingBlock d p) .ret w.template w.moduleGlobals []).2 := by
    simp only [o0]
    rw [C11.runDoc_outcome_of_clean (C11.execHist_clean hclean0 hnat0 hframe0 h0 hr0), hd0]
    simp [execHist_docs_length, hi0, execHist_template, execHist_moduleGlobals, ht, hm]
  obtain ⟨a1, a2, a3, _⟩ := default_options_run_like_leading_block sat (sem i) (sem0 i) hsem
    w.template d w.moduleGlobals [] p .ret hok hp hcode
  rw [e1, e2]
  exact ⟨a1, a2, a3⟩

/-! ### non-vacuity -/

/-- decidable form of `OptionsOk` -/
def optionsOkB (t : Template) (d : DocDef) : Bool :=
  d.defaults.all fun kv => kv.1 != "REQUIRES" && !kv.1.startsWith "REPORT_" && kv.1 != d.reportKey &&
    (alGet kv.1 t.bools).isSome

theorem optionsOk_of_b {t : Template} {d : DocDef} (h : optionsOkB t d = true) : OptionsOk t d := by
  simp only [optionsOkB, List.all_eq_true, Bool.and_eq_true, bne_iff_ne, ne_eq,
    Bool.not_eq_eq_eq_not, Bool.not_true] at h
  exact ⟨fun kv hkv => ⟨(h kv hkv).1.1.1, (h kv hkv).1.1.2⟩, fun kv hkv => (h kv hkv).1.2,
    fun kv hkv => (h kv hkv).2⟩

/-- C11's example program, doctest 1 collected with `--options=+SKIP,-ELLIPSIS` -/
def optDoc : DocDef :=
  { parts := [{ part := { execLines := ["print(G)".toList] } }],
    defaults := [("SKIP", true), ("ELLIPSIS", false)] }
def optProg : Prog := [C11.exProg.headD optDoc, optDoc]
def optLead : RunPart :=
  { part := { execLines := ["# xdoctest: +SKIP, -ELLIPSIS".toList] },
    directives := leadingBlock optDoc.defaults }

example : OptionsOk {} optDoc ∧ optProg[1]? = some optDoc ∧
    1 < (World.initial optProg [("G", 10)]).docs.length ∧
    optLead.directives = leadingBlock optDoc.defaults ∧ optLead.part.hasAnyCode = false :=
  ⟨optionsOk_of_b (by decide +kernel), rfl, by decide, rfl, by decide +kernel⟩

example : ∀ kv ∈ optDoc.defaults, kv.1 ≠ "REQUIRES" ∧ kv.1.startsWith "REPORT_" = false :=
  (optionsOk_of_b (t := {}) (d := optDoc) (by decide +kernel)).plain
example : optDoc.defaultsReq = none := rfl
/-- `default_options_every_run'`: the twin program and an unrelated world with the same template -/
example : [noDefaults optDoc, noDefaults optDoc][1]? = some (noDefaults optDoc) ∧
    (World.initial [noDefaults optDoc, noDefaults optDoc] [("H", 1)]).template =
      (World.initial optProg [("G", 10)]).template ∧
    1 < (World.initial [noDefaults optDoc, noDefaults optDoc] [("H", 1)]).docs.length :=
  ⟨rfl, rfl, by decide⟩

/-- … and the conclusion is not trivial: after doctest 0 left SKIP on and was re-run, doctest 1
    starts with SKIP on BECAUSE OF ITS DEFAULT, ELLIPSIS off, and the report style set -/
example : let rs := (runDoc optProg C11.exSat (semMini C11.exCode)
      (execHist optProg C11.exSat (semMini C11.exCode) (World.initial optProg [("G", 10)])
        [(0, .ret), (0, .raise)]) 1 .ret).2.startRs
    (rs.getBool "SKIP", rs.getBool "ELLIPSIS", rs.getBool "REPORT_UDIFF") =
      (some true, some false, some true) := by decide +kernel

/-! non-vacuity of the outcome theorems: `print(1234)` with the want `1...4`, collected with
    `--options=-ELLIPSIS`; the twin carries `# xdoctest: -ELLIPSIS` in a leading comment-only part -/
def ellDoc : DocDef :=
  { parts := [{ part := { execLines := ["print(1234)".toList], wantLines := some ["1...4".toList] } }],
    defaults := [("ELLIPSIS", false)] }
def ellLead : RunPart :=
  { part := { execLines := ["# xdoctest: -ELLIPSIS".toList] }, directives := leadingBlock ellDoc.defaults }
def ellProg : Prog := [ellDoc]
def ellProg0 : Prog := [withLeadingBlock ellDoc ellLead]
def ellSem : Sem := semMini [[[.say 1234]]]
def ellSem0 : Sem := semMini [[[.nop], [.say 1234]]]

theorem ellSem_shift : ∀ env k q, ellSem0 0 env (k + 1) q = ellSem 0 env k q := fun _ _ _ => rfl

/-- all hypotheses of `default_options_every_run_outcome` (and of
    `default_options_run_like_leading_block`, `runLoop_shift`) hold on it -/
example : ellProg[0]? = some ellDoc ∧ ellProg0[0]? = some (withLeadingBlock ellDoc ellLead) ∧
    (∀ env k q, ellSem0 0 env (k + 1) q = ellSem 0 env k q) ∧
    C11.Clean (World.initial ellProg [("G", 10)]) ∧ C11.Clean (World.initial ellProg0 [("G", 10)]) ∧
    (∀ d ∈ ellProg, d.pytestMode = false) ∧ (∀ d ∈ ellProg0, d.pytestMode = false) ∧
    C11.Frames ellSem ∧ C11.Frames ellSem0 ∧
    (∀ s ∈ ([(0, .ret), (0, .ret)] : History), s.2 = .ret) ∧
    OptionsOk (World.initial ellProg [("G", 10)]).template ellDoc ∧
    ellLead.directives = leadingBlock ellDoc.defaults ∧ ellLead.part.hasAnyCode = false :=
  ⟨rfl, rfl, ellSem_shift, by decide, by decide, by decide, by decide, C11.semMini_frames _,
    C11.semMini_frames _, by decide, optionsOk_of_b (by decide +kernel), rfl, by decide +kernel⟩

/-- … and the outcome they share is the interesting one: with `-ELLIPSIS` the doctest FAILS (got/want),
    in both forms, after different histories; without the option it passes -/
example :
    (runDoc ellProg C11.exSat ellSem (execHist ellProg C11.exSat ellSem
      (World.initial ellProg [("G", 10)]) [(0, .ret), (0, .ret)]) 0 .ret).2.summary = ⟨false, true, false⟩ ∧
    (runDoc ellProg0 C11.exSat ellSem0 (execHist ellProg0 C11.exSat ellSem0
      (World.initial ellProg0 [("G", 10)]) []) 0 .ret).2.summary = ⟨false, true, false⟩ ∧
    (runDoc [noDefaults ellDoc] C11.exSat ellSem (World.initial [noDefaults ellDoc] [("G", 10)]) 0 .ret).2.summary
      = ⟨true, false, false⟩ := by
  decide +kernel

/-- the hypothesis `known` cannot be dropped: for an option that is not a key of the template the
    two states hold the same entries in a different order (dict insertion order) -/
theorem unknown_option_order :
    let t : Template := { bools := [("SKIP", false)] }
    let d : DocDef := { parts := [], defaults := [("NEW", true)] }
    ((freshRs t (noDefaults d)).update (fun _ => some true) (leadingBlock d.defaults)).map (·.gBools) =
      some [("SKIP", false), ("REPORT_UDIFF", true), ("NEW", true)] ∧
    (freshRs t d).gBools = [("SKIP", false), ("NEW", true), ("REPORT_UDIFF", true)] := by
  decide +kernel

end Defaults

end Xdoc.Compose2

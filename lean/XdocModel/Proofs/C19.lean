import XdocModel.Dump
import XdocModel.Lemmas.Lines
/-!
# C19 — The dump command emits every doctest statement, in order

Theorems about `Dump.dumpModule` (the model of `runner._convert_to_test_module`) for ALL lists of
examples whose parts have clean lines (no line-break character inside a line, no empty last line)
and whose names contain no newline. NOT proved, only observed by the correspondence (every real
dump is `ast.parse`d): that the emitted text is syntactically valid Python — there is no Python
grammar in the model. In particular re-indenting by four columns changes the CONTENT of a
multi-line string literal (finding K-C19-a); the theorems below are about lines, which is what the
conversion manipulates.
-/
namespace Xdoc.C19
open Xdoc Py Format Dump

def CleanLines (ls : List Str) : Prop := (∀ l ∈ ls, NoBreak l) ∧ ls.getLast? ≠ some []

/-- the exec lines that survive the star-import filter -/
def kept (p : Part) : List Str := removeStar p.execLines

/-- the want of a part as comment lines -/
def wantComments (p : Part) : List Str :=
  match p.wantLines with
  | some (w :: ws) =>
    if (joinWith ['\n'] (w :: ws)).isEmpty then []
    else "# doctest want:".toList :: (w :: ws).map ("# ".toList ++ ·)
  | _ => []

structure CleanPart (p : Part) : Prop where
  kept : ∃ x r, kept p = x :: r ∧ CleanLines (x :: r)
  want : ∀ l ∈ p.wantLines.getD [], '\n' ∉ l

theorem splitOn_joinWith_noNL (x : Str) (ls : List Str) (h : ∀ l ∈ x :: ls, '\n' ∉ l) :
    splitOn '\n' (joinWith ['\n'] (x :: ls)) = x :: ls := by
  rw [splitOn_joinWith, flatMap_splitOn_noNL _ h]

/-- ★ `wants_are_comments_after_their_part` (and the part's share of `dump_body_is_source`): the
    lines a part contributes to the function body are exactly its exec lines minus the lines
    containing `' import *'`, in order, each once, followed — if it has a want — by the line
    `# doctest want:` and every want line as a `# ` comment, in order -/
theorem wants_are_comments_after_their_part (p : Part) (hp : CleanPart p) :
    splitOn '\n' (dumpPart p) = kept p ++ wantComments p := by
  obtain ⟨x, r, hk, hc⟩ := hp.kept
  have hbody : formatPart { p with execLines := removeStar p.execLines }
      { linenos := false, want := false, prefix_ := false, partnos := false } = joinWith ['\n'] (x :: r) := by
    unfold formatPart formatPartLines
    simp only [Bool.false_eq_true, ↓reduceIte, Part.source]
    unfold kept at hk
    rw [hk, splitLines_joinWith _ hc.1 hc.2]
    simp
  have hx : splitOn '\n' (joinWith ['\n'] (x :: r)) = x :: r :=
    splitOn_joinWith_noNL x r (fun l hl => (hc.1 l hl).no_nl)
  unfold dumpPart
  simp only [hbody]
  unfold wantComments Part.want
  cases hw : p.wantLines with
  | none => simp [hx, hk]
  | some wl =>
    cases wl with
    | nil => simp [hx, hk]
    | cons w ws =>
      simp only
      have hwn : ∀ l ∈ w :: ws, '\n' ∉ l := by
        intro l hl; exact hp.want l (by simp [hw] at hl ⊢; exact hl)
      cases hj : joinWith ['\n'] (w :: ws) with
      | nil => simp [hx, hk]
      | cons c t =>
        simp only [List.isEmpty_cons, Bool.false_eq_true, ↓reduceIte]
        have e : joinWith ['\n'] (x :: r) ++ ['\n'] ++ "# doctest want:\n".toList ++ indent (c :: t) "# ".toList =
            joinWith ['\n'] (x :: r) ++ '\n' :: ("# doctest want:".toList ++ '\n' :: indent (c :: t) "# ".toList) := by
          simp
        rw [e, splitOn_append_nl, splitOn_append_nl, hx, splitOn_indent _ (by decide +kernel), ← hj,
          splitOn_joinWith_noNL w ws hwn, splitOn_noNL _ (by decide +kernel), hk]
        simp

/-- the lines of the function body: docstring header, import header, then part after part -/
def bodyLines (e : Example) : List Str :=
  docstrLines e ++ headerLines e ++ e.parts.flatMap (fun p => kept p ++ wantComments p)

def defLine (e : Example) : Str := "def ".toList ++ funcName e ++ "():".toList

structure CleanExample (e : Example) : Prop where
  parts : ∀ p ∈ e.parts, CleanPart p
  nonempty : e.parts ≠ []
  names : '\n' ∉ e.modname ∧ '\n' ∉ e.callname ∧ '\n' ∉ e.node ∧ ∀ u ∈ e.undefined, '\n' ∉ u

theorem not_mem_dots {s : Str} (h : '\n' ∉ s) : '\n' ∉ dotsToUnderscore s := by
  unfold dotsToUnderscore
  intro hm
  obtain ⟨c, hc, he⟩ := List.mem_map.mp hm
  split at he
  · cases he
  · subst he; exact h hc

theorem not_mem_joinWith_comma {ls : List Str} (h : ∀ u ∈ ls, '\n' ∉ u) : '\n' ∉ joinWith ", ".toList ls := by
  induction ls with
  | nil => simp [joinWith]
  | cons x r ih =>
    cases r with
    | nil => simpa [joinWith] using h x (by simp)
    | cons y r =>
      simp only [joinWith, List.append_assoc, List.mem_append, not_or]
      exact ⟨h x (by simp), by decide +kernel, ih (fun u hu => h u (List.mem_cons_of_mem _ hu))⟩

/-- ★ `dump_body_is_source`: the text of a test function is the `def` line followed by, each
    indented by exactly four blanks: the three docstring lines, the optional import line, and then
    for every part in order its exec lines minus star-imports and its want comments. Removing the
    header, the comment lines and the 4-column indent therefore leaves exactly the doctest's
    exec lines minus star-imports, each once, in order. -/
theorem dump_body_is_source (e : Example) (he : CleanExample e) :
    splitOn '\n' (dumpExample e) = defLine e :: (bodyLines e).map ("    ".toList ++ ·) := by
  obtain ⟨hm, hcn, hnode, hund⟩ := he.names
  have nm : ∀ {a b : Str}, '\n' ∉ a → '\n' ∉ b → '\n' ∉ a ++ b :=
    fun ha hb h => (List.mem_append.mp h).elim ha hb
  have hdef : '\n' ∉ defLine e := by
    unfold defLine funcName
    exact nm (nm (by decide +kernel) (nm (nm (nm (by decide +kernel) (not_mem_dots hm)) (by decide +kernel))
      (not_mem_dots hcn))) (by decide +kernel)
  have hparts : (e.parts.map dumpPart).flatMap (splitOn '\n') = e.parts.flatMap (fun p => kept p ++ wantComments p) := by
    have : ∀ qs : List Part, (∀ p ∈ qs, CleanPart p) →
        (qs.map dumpPart).flatMap (splitOn '\n') = qs.flatMap (fun p => kept p ++ wantComments p) := by
      intro qs hq
      induction qs with
      | nil => rfl
      | cons q qs ih =>
        simp only [List.map_cons, List.flatMap_cons]
        rw [wants_are_comments_after_their_part q (hq q (by simp)), ih (fun p hp => hq p (List.mem_cons_of_mem _ hp))]
    exact this e.parts he.parts
  have hbt : bodyTexts e = e.parts.map dumpPart := by
    unfold bodyTexts
    cases hps : e.parts with
    | nil => exact absurd hps he.nonempty
    | cons q qs => simp
  have hdoc : (docstrLines e).flatMap (splitOn '\n') = docstrLines e := by
    apply flatMap_splitOn_noNL
    intro l hl
    simp only [docstrLines, List.mem_cons, List.not_mem_nil, or_false] at hl
    rcases hl with rfl | rfl | rfl
    · decide
    · simp only [List.mem_append, not_or]; exact ⟨by decide +kernel, hnode⟩
    · decide
  have hhdr : (headerLines e).flatMap (splitOn '\n') = headerLines e := by
    apply flatMap_splitOn_noNL
    intro l hl
    unfold headerLines at hl
    split at hl
    · simp at hl
    · simp only [List.mem_cons, List.not_mem_nil, or_false] at hl
      subst hl
      simp only [List.mem_append, not_or]
      exact ⟨⟨⟨by decide +kernel, hm⟩, by decide +kernel⟩, not_mem_joinWith_comma hund⟩
  unfold dumpExample
  have e1 : "def ".toList ++ funcName e ++ "():\n".toList ++
      indent (joinWith ['\n'] (docstrLines e ++ headerLines e ++ bodyTexts e)) "    ".toList =
      defLine e ++ '\n' :: indent (joinWith ['\n'] (docstrLines e ++ headerLines e ++ bodyTexts e)) "    ".toList := by
    simp [defLine]
  simp only
  rw [e1, splitOn_append_nl, splitOn_noNL _ hdef, splitOn_indent _ (by decide +kernel)]
  have e2 : docstrLines e ++ headerLines e ++ bodyTexts e =
      "\"\"\"".toList :: (["converted from ".toList ++ e.node, "\"\"\"".toList] ++ headerLines e ++ bodyTexts e) := by
    simp [docstrLines]
  rw [e2, splitOn_joinWith, ← e2, List.flatMap_append, List.flatMap_append, hdoc, hhdr, hbt, hparts]
  rfl

/-- the lines of the whole module: the functions, separated by two empty lines -/
def moduleLines : List Example → List Str
  | [] => [[]]
  | [e] => defLine e :: (bodyLines e).map ("    ".toList ++ ·)
  | e :: f :: r => (defLine e :: (bodyLines e).map ("    ".toList ++ ·)) ++ [[], []] ++ moduleLines (f :: r)

theorem dump_module_lines (es : List Example) (he : ∀ e ∈ es, CleanExample e) :
    splitOn '\n' (dumpModule es) = moduleLines es := by
  unfold dumpModule
  induction es with
  | nil => rfl
  | cons e r ih =>
    cases r with
    | nil => simpa [joinWith, moduleLines] using dump_body_is_source e (he e (by simp))
    | cons f r =>
      have ih' := ih (fun x hx => he x (List.mem_cons_of_mem _ hx))
      simp only [List.map_cons, joinWith, moduleLines] at ih' ⊢
      have e1 : dumpExample e ++ "\n\n\n".toList ++ joinWith "\n\n\n".toList (dumpExample f :: r.map dumpExample) =
          dumpExample e ++ '\n' :: ([] ++ '\n' :: ([] ++ '\n' :: joinWith "\n\n\n".toList (dumpExample f :: r.map dumpExample))) := by
        simp
      rw [e1, splitOn_append_nl, splitOn_append_nl, splitOn_append_nl, dump_body_is_source e (he e (by simp)), ih']
      simp [splitOn]

/-- a line that starts a top-level statement: not empty, first character not a blank -/
def isTop : Str → Bool
  | [] => false
  | c :: _ => c != ' '

/-- ★ `dump_one_function_per_example`: the lines of the dumped module that start a top-level
    statement (first character not a blank, line not empty) are exactly the `def test_…():` lines,
    one per enabled example, in order -/
theorem dump_one_function_per_example (es : List Example) (he : ∀ e ∈ es, CleanExample e) (hne : es ≠ []) :
    (splitOn '\n' (dumpModule es)).filter isTop = es.map defLine := by
  rw [dump_module_lines es he]
  have hbody : ∀ ls : List Str, (ls.map ("    ".toList ++ ·)).filter isTop = [] := by
    intro ls
    induction ls with
    | nil => rfl
    | cons l ls ih => simp [isTop]
  have hdef : ∀ e : Example, isTop (defLine e) = true := by
    intro e; simp [defLine, isTop]
  induction es with
  | nil => exact absurd rfl hne
  | cons e r ih =>
    cases r with
    | nil =>
      simp only [moduleLines, List.filter_cons, hdef e, ↓reduceIte, hbody, List.map_cons, List.map_nil]
    | cons f r =>
      have ih' := ih (fun x hx => he x (List.mem_cons_of_mem _ hx)) (by simp)
      simp only [moduleLines, List.filter_append, List.filter_cons, hdef e, ↓reduceIte, hbody, List.map_cons] at ih' ⊢
      simp [ih', isTop]

/-! non-vacuity -/
def exPart1 : Part := { execLines := ["from os import *".toList, "x = 1".toList, "print(x)".toList],
                        wantLines := some ["1".toList] }
def exEx : Example := { modname := "pkg.m".toList, callname := "K.f".toList, node := "m.py::K.f:0".toList,
                        parts := [exPart1], undefined := ["K".toList] }

example : dumpModule [exEx] =
    "def test_pkg_m_K_f():\n    \"\"\"\n    converted from m.py::K.f:0\n    \"\"\"\n    from pkg.m import K\n    x = 1\n    print(x)\n    # doctest want:\n    # 1".toList := by
  decide +kernel

end Xdoc.C19

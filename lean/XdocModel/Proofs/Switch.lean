import XdocModel.Proofs.C16
/-!
# C16 — the analysis switch (`core.parse_calldefs`)

Model of the decision `parse_calldefs(module_identifier, analysis)` makes between the two collectors
(the deprecated `sys.argv` overrides are not modelled), and the statement of the property at the level
the user chooses a mode: for a pure-Python module of the fragment that imports, every accepted value of
`analysis` yields the same identifiers with the same docstrings (`mode_never_changes_tests`).
-/
namespace Xdoc.Switch
open Xdoc Py Static Xdoc.Dynamic

/-- the value of the `analysis` argument -/
inductive Analysis where
  | static | dynamic | auto
  /-- any other string: `raise KeyError(analysis)` -/
  | other
  deriving DecidableEq, Repr

inductive Outcome (α : Type) where
  | calldefs (x : α)
  /-- the import failed with ImportError / RuntimeError: a warning, `calldefs = None` -/
  | noCalldefs
  /-- `Exception('Static analysis required, but … requires dynamic analysis')`, `KeyError`, or the
      re-raised error of a failed import -/
  | raised
  deriving DecidableEq, Repr

/-- how the dynamic collector ends -/
inductive DynResult (α : Type) where
  | ok (x : α)
  | importError
  | otherError
  deriving DecidableEq, Repr

/-- `do_dynamic`; `none` = an exception before any collector runs -/
def doDynamic (a : Analysis) (needDynamic : Bool) : Option Bool :=
  match a with
  | .static => if needDynamic then none else some false
  | .dynamic => some true
  | .auto => some needDynamic
  | .other => none

/-- `parse_calldefs`; `needDynamic` = live module, compiled extension suffix or `.ipynb` -/
def parseCalldefs {α : Type} (a : Analysis) (needDynamic : Bool) (stat : α) (dyn : DynResult α) : Outcome α :=
  match doDynamic a needDynamic with
  | none => .raised
  | some false => .calldefs stat
  | some true =>
    match dyn with
    | .ok x => .calldefs x
    | .importError => .noCalldefs
    | .otherError => .raised

/-- on a path to a `.py` file `auto` IS `static`, whatever the import would do -/
theorem auto_is_static_for_py {α : Type} (stat : α) (dyn : DynResult α) :
    parseCalldefs .auto false stat dyn = parseCalldefs .static false stat dyn := rfl

/-- `static` never imports: its outcome does not depend on the dynamic collector -/
theorem static_ignores_import {α : Type} (nd : Bool) (stat : α) (d1 d2 : DynResult α) :
    parseCalldefs .static nd stat d1 = parseCalldefs .static nd stat d2 := by
  cases nd <;> rfl

/-- a module that needs the import is never silently analysed statically -/
theorem need_dynamic_never_static {α : Type} (a : Analysis) (stat : α) (dyn : DynResult α) (x : α)
    (h : parseCalldefs a true stat dyn = .calldefs x) : dyn = .ok x := by
  cases a <;> cases dyn <;> simp_all [parseCalldefs, doDynamic]

theorem unknown_mode_raises {α : Type} (nd : Bool) (stat : α) (dyn : DynResult α) :
    parseCalldefs .other nd stat dyn = .raised := rfl

/-- the pairs `(callname, docstring)` of an outcome -/
def outcomePairs : Outcome (List (Str × Option Str)) → Option (List (Str × Option Str))
  | .calldefs x => some x
  | _ => none

/-- ★ choosing the analysis mode never changes which tests exist: for a module of the fragment
    (`C16.InFragment`) given by the path of a `.py` file whose import succeeds, the three accepted
    modes return the same identifiers with the same docstrings, in the same order -/
theorem mode_never_changes_tests (loc : Locator) (modname other : Str) (m : Module)
    (h : C16.InFragment modname other m) (a : Analysis) (ha : a ≠ .other) :
    outcomePairs (parseCalldefs a false (Dynamic.pairs (visitModule loc m))
        (.ok (dynamicCollect (execModule modname other m)))) =
      some (Dynamic.pairs (visitModule loc m)) := by
  have e := C16.static_eq_dynamic loc modname other m h
  cases a <;> simp_all [parseCalldefs, doDynamic, outcomePairs]

/-- the hypothesis "the import succeeds" is needed: when it fails `dynamic` has no calldefs at all
    while `static` and `auto` still have them -/
theorem import_failure_separates_modes :
    parseCalldefs .dynamic false [("f".toList, some "d".toList)] .importError = .noCalldefs ∧
    parseCalldefs .auto false [("f".toList, some "d".toList)] .importError
      = .calldefs [("f".toList, some "d".toList)] := by decide

end Xdoc.Switch

import XdocModel.Lemmas.Chunk
import XdocModel.Lemmas.RunProgram
import XdocModel.Capture
/-!
# C01 — Doctest code runs exactly as written: each statement once, in order

Three groups of theorems, each for ALL inputs:

* the chunk splitter `Parser.packageChunk` (for every chunk and every answer `facts` of CPython's
  `ast.parse` on which it succeeds): the parts partition the de-prompted lines, cuts only at PS1
  lines that start a statement, only the last part has a want, offsets count the earlier lines;
* the run loop `Xdoc.runLoop` (for every execution oracle `sem`, requirement oracle `sat`,
  configuration): the environment is threaded through exactly the executed parts, each once, in
  order; with no skip and no early exit this is the plain program;
* `CaptureStdout` (for every interleaving of `start` / `write` / `exit`): the text logged by the
  i-th `exit` is exactly what was written while capturing since the previous one.

That executing a block of whole statements equals executing them one after the other in one dict is
an assumption about CPython (`sem` is a parameter), validated by the correspondence against a
plain `exec` of the de-prompted program.
-/
namespace Xdoc.C01
open Xdoc Py Parser Capture

/-! ## the chunk splitter -/

/-- the chunk's source lines without the chunk's indentation (prompts still there) -/
def sourceLinesOf (rawSrc : List Str) : List Str := rawSrc.map (·.drop (chunkIndent rawSrc))

/-- the de-prompted lines of the chunk: 4 more columns (`>>> ` / `... `) removed -/
def dePrompted (rawSrc : List Str) : List Str := (sourceLinesOf rawSrc).map (·.drop 4)

/-- ★ `chunk_partition`: the `exec_lines` of the parts, concatenated in order, are exactly the
    chunk's de-prompted lines (equality of lists: each line once, none added, none moved), and the
    same for the `orig_lines` (with prompts) -/
theorem chunk_partition {rawSrc rawWant : List Str} {lineno : Nat} {facts : ChunkFacts} {ps : List PPart}
    (h : packageChunk rawSrc rawWant lineno facts = .ok ps) :
    (ps.map (·.part.execLines)).flatten = dePrompted rawSrc ∧
    (ps.map (fun p => p.part.origLines.getD [])).flatten = sourceLinesOf rawSrc := by
  obtain ⟨c, ps1s, cuts, hsrc, _, hexec, _, _, hok, rfl⟩ := packageChunk_ok h
  obtain ⟨r, hr⟩ := hok.head
  have hs := hok.sorted
  rw [hr] at hs
  constructor
  · rw [execLines_partsOfCuts, hr, flatten_sliceCuts _ 0 r hs]
    simp [dePrompted, sourceLinesOf, hexec, hsrc]
  · have : (partsOfCuts c.mkMid c.mkLast cuts).map (fun p => p.part.origLines.getD []) =
        ((partsOfCuts c.mkMid c.mkLast cuts).map (·.part.origLines)).map (·.getD []) := by
      simp [List.map_map]
    rw [this, origLines_partsOfCuts, hr, List.map_map]
    have h2 : (fun x => x.getD []) ∘ (some : List Str → Option (List Str)) = id := by funext x; rfl
    rw [h2, List.map_id, flatten_sliceCuts _ 0 r hs]
    simp [sourceLinesOf, hsrc]

/-- ★ `cuts_at_statement_starts`: every part starts at line 0 of the chunk or at a line that
    CPython reports as the start of a top-level statement AND that carries a `>>> ` prompt
    (so a statement is never cut in two, and explicit `...` continuations stay with their
    statement) -/
theorem cuts_at_statement_starts {rawSrc rawWant : List Str} {lineno : Nat} {facts : ChunkFacts} {ps : List PPart}
    (h : packageChunk rawSrc rawWant lineno facts = .ok ps) :
    ∀ p ∈ ps, ∃ c, p.part.lineOffset = lineno + c ∧
      (c = 0 ∨ ∃ starts e, facts = .parsed starts e ∧ c ∈ starts ∧
        ∀ l, (sourceLinesOf rawSrc)[c]? = some l → l.take 4 = ">>> ".toList) := by
  obtain ⟨c, ps1s, cuts, hsrc, _, _, hln, hloc, hok, rfl⟩ := packageChunk_ok h
  intro p hp
  have hmem : p.part.lineOffset ∈ (partsOfCuts c.mkMid c.mkLast cuts).map (·.part.lineOffset) :=
    List.mem_map.mpr ⟨p, hp, rfl⟩
  rw [lineOffset_partsOfCuts] at hmem
  obtain ⟨x, hx, hxe⟩ := List.mem_map.mp hmem
  refine ⟨x, by rw [← hxe, hln], ?_⟩
  rcases hok.mem x hx with h0 | hin
  · exact Or.inl h0
  · obtain ⟨_, starts, e, hf, hall⟩ := locatePs1_ok hloc
    refine Or.inr ⟨starts, e, hf, (hall x hin).1, ?_⟩
    intro l hl
    exact (hall x hin).2 l (by simpa [sourceLinesOf, hsrc] using hl)

/-- ★ `only_last_part_has_want`: the chunk's want lines are attached to the last part and to no
    other; every earlier part is compiled in `exec` mode -/
theorem only_last_part_has_want {rawSrc rawWant : List Str} {lineno : Nat} {facts : ChunkFacts} {ps : List PPart}
    (h : packageChunk rawSrc rawWant lineno facts = .ok ps) :
    ∃ init last, ps = init ++ [last] ∧
      (∀ p ∈ init, p.part.wantLines = none ∧ p.part.compileMode = .exec) ∧
      last.part.wantLines = some (rawWant.map (·.drop (chunkIndent rawSrc))) := by
  obtain ⟨c, ps1s, cuts, _, hwant, _, _, _, hok, rfl⟩ := packageChunk_ok h
  obtain ⟨r, hr⟩ := hok.head
  obtain ⟨init, last, h1, h2, h3, _⟩ := want_partsOfCuts c 0 r
  exact ⟨init, last, by rw [hr, h1], h2, by rw [h3, hwant]⟩

/-- what CPython guarantees about the statement start lines: they are lines of the chunk -/
def FactsInRange (facts : ChunkFacts) (n : Nat) : Prop :=
  ∀ starts e, facts = .parsed starts e → ∀ s ∈ starts, s ≤ n

/-- ★ `part_offsets`: `line_offset = chunk start + number of lines of the earlier parts` -/
theorem part_offsets {rawSrc rawWant : List Str} {lineno : Nat} {facts : ChunkFacts} {ps : List PPart}
    (h : packageChunk rawSrc rawWant lineno facts = .ok ps) (hf : FactsInRange facts rawSrc.length) :
    OffsetsFrom lineno 0 ps := by
  obtain ⟨c, ps1s, cuts, hsrc, _, hexec, hln, hloc, hok, rfl⟩ := packageChunk_ok h
  obtain ⟨r, hr⟩ := hok.head
  have hs := hok.sorted
  rw [hr] at hs
  rw [hr, ← hln]
  apply offsets_partsOfCuts c 0 r hs
  intro x hx
  have hlen : c.execLines.length = rawSrc.length := by simp [hexec, hsrc]
  rw [hlen]
  rcases hok.mem x (hr ▸ hx) with h0 | hin
  · omega
  · obtain ⟨_, starts, e, hfe, hall⟩ := locatePs1_ok hloc
    exact hf starts e hfe x (hall x hin).1

/-- number of parts = number of cut points; the first part starts at the chunk's first line -/
theorem first_part_at_chunk_start {rawSrc rawWant : List Str} {lineno : Nat} {facts : ChunkFacts} {ps : List PPart}
    (h : packageChunk rawSrc rawWant lineno facts = .ok ps) :
    ∃ p rest, ps = p :: rest ∧ p.part.lineOffset = lineno := by
  obtain ⟨c, ps1s, cuts, _, _, _, hln, _, hok, rfl⟩ := packageChunk_ok h
  obtain ⟨r, hr⟩ := hok.head
  rw [hr]
  cases r with
  | nil => exact ⟨_, [], rfl, by simp [ChunkCtx.mkLast, ChunkCtx.mk', hln]⟩
  | cons b r => exact ⟨_, _, rfl, by simp [ChunkCtx.mkMid, ChunkCtx.mk', hln]⟩

/-! non-vacuity: a chunk with a directive break, a decorated statement after a want-less statement
    and a final expression with a want: three parts -/
def exSrc : List Str :=
  ["  >>> x = 1  # xdoctest: +SKIP".toList, "  >>> @deco".toList, "  ... def f():".toList,
   "  ...     return 2".toList, "  >>> f()".toList]
def exWant : List Str := ["  2".toList]
def exFacts : ChunkFacts := .parsed [0, 1, 4] true

example : (match packageChunk exSrc exWant 7 exFacts with
    | .ok ps => ps.map (fun p => (p.part.execLines.map String.ofList, p.part.lineOffset, p.part.wantLines.isSome, p.part.compileMode))
    | .error _ => []) =
    [(["x = 1  # xdoctest: +SKIP"], 7, false, .exec),
     (["@deco", "def f():", "    return 2"], 8, false, .exec),
     (["f()"], 11, true, .eval)] := by decide +kernel

example : FactsInRange exFacts exSrc.length := by
  intro starts e h s hs
  simp only [exFacts, ChunkFacts.parsed.injEq] at h
  obtain ⟨rfl, _⟩ := h
  simp only [List.mem_cons, List.not_mem_nil, or_false] at hs
  simp only [exSrc, List.length_cons, List.length_nil]
  omega

/-! ## the run loop -/

variable {Env : Type}

/-- the plain program: every part, in order, through `sem` in ONE environment; the outputs in order -/
def program (sem : Env → Nat → RunPart → ExecResult × Env) : Env → Nat → List RunPart → Env × List Str
  | env, _, [] => (env, [])
  | env, i, p :: ps =>
    ((program sem (sem env i p).2 (i + 1) ps).1, (sem env i p).1.stdout :: (program sem (sem env i p).2 (i + 1) ps).2)

theorem run_eq_program_loop (sat : Str → Option Bool) (sem : Env → Nat → RunPart → ExecResult × Env)
    (cfg : RunCfg) (ps : List RunPart) (s : RunState Env) (i : Nat)
    (hend : (runLoop sat sem cfg s i ps).2 = none)
    (hskip : (runLoop sat sem cfg s i ps).1.skipped = s.skipped) :
    (runLoop sat sem cfg s i ps).1.env = (program sem s.env i ps).1 ∧
    (runLoop sat sem cfg s i ps).1.logged.map (·.2) = s.logged.map (·.2) ++ (program sem s.env i ps).2 ∧
    (runLoop sat sem cfg s i ps).1.executed = s.executed ++ List.range' i ps.length := by
  induction ps generalizing s i with
  | nil => simp [runLoop, program]
  | cons p ps ih =>
    have h := stepPart_effect sat sem cfg s i p
    simp only [runLoop] at hend hskip ⊢
    cases hstep : stepPart sat sem cfg s i p with
    | «continue» s' =>
      rw [hstep] at h hend hskip
      simp only at hend hskip ⊢
      rcases h with ⟨h1, _⟩ | ⟨h1, h2, h3, h4⟩
      · obtain ⟨t, ht⟩ := runLoop_skipped_prefix sat sem cfg ps s' (i + 1)
        rw [hskip, h1] at ht
        have := congrArg List.length ht
        simp at this
      · obtain ⟨e1, e2, e3⟩ := ih s' (i + 1) hend (by rw [hskip, h1])
        refine ⟨by rw [e1, h3, program], ?_, ?_⟩
        · rw [e2, h4, h3, program]; simp
        · rw [e3, h2]; simp [List.range'_succ]
    | stop s' e =>
      rw [hstep] at hend
      simp at hend

theorem run_state (sat : Str → Option Bool) (sem : Env → Nat → RunPart → ExecResult × Env)
    (cfg : RunCfg) (env0 : Env) (parts : List RunPart) :
    (run sat sem cfg env0 parts).state =
      (runLoop sat sem cfg { env := env0, rs := RState.init cfg.defaults } 0 parts).1 := by
  unfold run
  simp only
  split <;> (try split) <;> simp

/-- ★ `run_eq_program`: if no part is skipped and the loop is not left early (no failure, no exit
    request), the final environment and the logged stdout — part by part, hence also concatenated —
    are those of the plain program, for EVERY semantics `sem` of executing a part; every part was
    executed exactly once, in order -/
theorem run_eq_program (sat : Str → Option Bool) (sem : Env → Nat → RunPart → ExecResult × Env)
    (cfg : RunCfg) (env0 : Env) (parts : List RunPart)
    (hend : (runLoop sat sem cfg { env := env0, rs := RState.init cfg.defaults } 0 parts).2 = none)
    (hskip : (run sat sem cfg env0 parts).state.skipped = []) :
    (run sat sem cfg env0 parts).state.env = (program sem env0 0 parts).1 ∧
    (run sat sem cfg env0 parts).state.logged.map (·.2) = (program sem env0 0 parts).2 ∧
    ((run sat sem cfg env0 parts).state.logged.map (·.2)).flatten = ((program sem env0 0 parts).2).flatten ∧
    (run sat sem cfg env0 parts).state.executed = List.range parts.length := by
  rw [run_state] at hskip ⊢
  have := run_eq_program_loop sat sem cfg parts { env := env0, rs := RState.init cfg.defaults } 0 hend
    (by rw [hskip])
  simp only [List.map_nil, List.nil_append] at this
  refine ⟨this.1, this.2.1, by rw [this.2.1], ?_⟩
  rw [this.2.2, List.range_eq_range']

/-- `program` is a left fold of `sem` over the parts (the statement of the property) -/
theorem program_eq_foldl (sem : Env → Nat → RunPart → ExecResult × Env) (ps : List RunPart) (env : Env) (i : Nat) :
    (program sem env i ps).1 =
      (ps.foldl (fun (acc : Env × Nat) p => ((sem acc.1 acc.2 p).2, acc.2 + 1)) (env, i)).1 := by
  induction ps generalizing env i with
  | nil => rfl
  | cons p ps ih => simp [program, ih]

/-- re-execution of a list of part indices, in the given order, in one environment -/
def replayStep (sem : Env → Nat → RunPart → ExecResult × Env) (parts : List RunPart)
    (acc : Env × List (Nat × Str)) (i : Nat) : Env × List (Nat × Str) :=
  match parts[i]? with
  | none => acc
  | some p => ((sem acc.1 i p).2, acc.2 ++ [(i, (sem acc.1 i p).1.stdout)])

def replay (sem : Env → Nat → RunPart → ExecResult × Env) (parts : List RunPart) (env0 : Env)
    (idxs : List Nat) : Env × List (Nat × Str) :=
  idxs.foldl (replayStep sem parts) (env0, [])

theorem tracks_loop (sat : Str → Option Bool) (sem : Env → Nat → RunPart → ExecResult × Env)
    (cfg : RunCfg) (parts : List RunPart) (env0 : Env) (ps : List RunPart) (s : RunState Env) (i : Nat)
    (hps : parts.drop i = ps) (ht : (s.env, s.logged) = replay sem parts env0 s.executed) :
    ((runLoop sat sem cfg s i ps).1.env, (runLoop sat sem cfg s i ps).1.logged) =
      replay sem parts env0 (runLoop sat sem cfg s i ps).1.executed := by
  induction ps generalizing s i with
  | nil => simpa [runLoop] using ht
  | cons p ps ih =>
    have hp : parts[i]? = some p := by
      have := congrArg (·[0]?) hps
      simpa using this
    have hps' : parts.drop (i + 1) = ps := by
      have := congrArg (List.drop 1) hps
      simpa [List.drop_drop, Nat.add_comm] using this
    have h := stepPart_effect sat sem cfg s i p
    have hexec : ∀ s' : RunState Env, Executed sem s s' i p →
        (s'.env, s'.logged) = replay sem parts env0 s'.executed := by
      intro s' ⟨h2, h3, h4⟩
      rw [h2, h3, h4]
      unfold replay at ht ⊢
      rw [List.foldl_append, ← ht]
      simp [replayStep, hp]
    have hunt : ∀ s' : RunState Env, Untouched s s' →
        (s'.env, s'.logged) = replay sem parts env0 s'.executed := by
      intro s' ⟨h2, h3, h4⟩
      rw [h2, h3, h4]; exact ht
    simp only [runLoop]
    cases hstep : stepPart sat sem cfg s i p with
    | «continue» s' =>
      rw [hstep] at h
      simp only
      rcases h with ⟨_, h2⟩ | ⟨_, h2⟩
      · exact ih s' (i + 1) hps' (hunt s' h2)
      · exact ih s' (i + 1) hps' (hexec s' h2)
    | stop s' e =>
      rw [hstep] at h
      simp only
      rcases h.2 with h2 | h2
      · exact hunt s' h2
      · exact hexec s' h2

/-- ★ `executed_once_in_order` (general form, with skips and a failure point): for every run,
    * the final environment and `logged_stdout` are those of re-executing exactly the recorded
      `executed` parts, in that order, in one environment;
    * `executed` is strictly increasing (each part at most once, in source order) and disjoint from
      the skipped parts, all indices are parts of the doctest;
    * if the loop ran to the end every part was skipped or executed; if a failure is recorded
      nothing after the failing part ran and everything before it was skipped or executed. -/
theorem executed_once_in_order (sat : Str → Option Bool) (sem : Env → Nat → RunPart → ExecResult × Env)
    (cfg : RunCfg) (env0 : Env) (parts : List RunPart) :
    let r := runLoop sat sem cfg { env := env0, rs := RState.init cfg.defaults } 0 parts
    (r.1.env, r.1.logged) = replay sem parts env0 r.1.executed ∧
    r.1.executed.Pairwise (· < ·) ∧ (r.1.skipped ++ r.1.executed).Nodup ∧
    (∀ j, j ∈ r.1.skipped ∨ j ∈ r.1.executed → j < parts.length) ∧
    (r.2 = none → r.1.failure = none ∧ r.1.skipped.length + r.1.executed.length = parts.length) ∧
    (∀ fl, r.1.failure = some fl → fl.partIdx ∉ r.1.skipped ∧ (∀ j ∈ r.1.executed, j ≤ fl.partIdx) ∧
        ∀ j, j < fl.partIdx → j ∈ r.1.skipped ∨ j ∈ r.1.executed) := by
  intro r
  have lr := runLoop_result sat sem cfg parts { env := env0, rs := RState.init cfg.defaults } 0
    (loopInv_init env0 _)
  simp only [Nat.zero_add] at lr
  refine ⟨?_, lr.executedSorted, lr.disjoint, lr.bound, lr.complete, ?_⟩
  · exact tracks_loop sat sem cfg parts env0 parts _ 0 (by simp) (by simp [replay])
  · intro fl hfl
    obtain ⟨_, h2, h3, _, _, h6⟩ := lr.failure fl hfl
    exact ⟨h2, h3, h6⟩

/-! non-vacuity of `run_eq_program`: two parts, nothing skipped, nothing fails; `sem` counts -/
def exParts : List RunPart :=
  [{ part := { execLines := ["x = 1".toList] } },
   { part := { execLines := ["print(x)".toList], wantLines := some ["1".toList] } }]
def exSem : Nat → Nat → RunPart → ExecResult × Nat := fun env i _ =>
  (.ok (if i = 1 then "1\n".toList else []) .notEvaled, env + 1)

example : (runLoop (fun _ => none) exSem {} { env := 0, rs := RState.init [] } 0 exParts).2 = none ∧
    (run (fun _ => none) exSem {} 0 exParts).state.skipped = [] ∧
    (run (fun _ => none) exSem {} 0 exParts).state.env = 2 := by decide +kernel

/-! ## `CaptureStdout` -/

/-- the buffer invariant: the file position is the end of the buffer, `_pos` is inside it -/
structure CapInv (c : Cap) : Prop where
  atEnd : c.filePos = c.buf.length
  posLe : c.pos ≤ c.buf.length

theorem writeAt_end (buf s : Str) : writeAt buf buf.length s = buf ++ s := by
  simp [writeAt]

theorem step_inv {c : Cap} (h : CapInv c) (e : Ev) : CapInv (step c e) := by
  cases e with
  | start => exact ⟨h.atEnd, h.posLe⟩
  | write s =>
    simp only [step]
    split
    · refine ⟨?_, ?_⟩
      · simp only; rw [h.atEnd, writeAt_end]; simp
      · simp only; rw [h.atEnd, writeAt_end]; have := h.posLe; simp; omega
    · exact ⟨h.atEnd, h.posLe⟩
  | «exit» => exact ⟨rfl, Nat.le_refl _⟩

/-- the model with its buffer and positions computes the buffer-free specification -/
theorem run_parts_eq_spec (evs : List Ev) (c : Cap) (h : CapInv c) :
    (Capture.run evs c).parts = c.parts ++ spec c.capturing (c.buf.drop c.pos) evs ∧
    (Capture.run evs c).outside = c.outside ++ uncaptured c.capturing evs := by
  induction evs generalizing c with
  | nil => simp [Capture.run, spec, uncaptured]
  | cons e evs ih =>
    have hi := ih (step c e) (step_inv h e)
    simp only [Capture.run, List.foldl_cons] at hi ⊢
    rw [hi.1, hi.2]
    cases e with
    | start => simp [step, spec, uncaptured]
    | write s =>
      simp only [step]
      cases hc : c.capturing with
      | true =>
        simp only [↓reduceIte, spec, uncaptured]
        rw [h.atEnd, writeAt_end, List.drop_append_of_le_length h.posLe]
        simp
      | false => simp [spec, uncaptured]
    | «exit» => simp [step, spec, uncaptured]

/-- ★ `capture_exact` (all interleavings): for EVERY sequence of `start` / `write` / `exit` events
    on a fresh capture object, the i-th logged text is exactly the concatenation of what was
    written while capturing between the (i-1)-th and the i-th `exit`, and what was written while
    not capturing went to the original stream, in order -/
theorem capture_exact (evs : List Ev) :
    (Capture.run evs).parts = spec false [] evs ∧ (Capture.run evs).outside = uncaptured false evs := by
  have := run_parts_eq_spec evs {} ⟨rfl, Nat.le_refl _⟩
  simpa using this

/-- nothing lost, nothing duplicated: the logs, concatenated, followed by what is not logged yet,
    are everything written while capturing -/
theorem spec_flatten (cap : Bool) (pend : Str) (evs : List Ev) :
    (spec cap pend evs).flatten ++ pending cap pend evs = pend ++ captured cap evs := by
  induction evs generalizing cap pend with
  | nil => simp [spec, pending, captured]
  | cons e evs ih =>
    cases e with
    | start => simp [spec, pending, captured, ih]
    | write s => cases cap <;> simp [spec, pending, captured, ih]
    | «exit» => simp [spec, pending, captured, ih]

theorem capture_nothing_lost (evs : List Ev) :
    (Capture.run evs).parts.flatten ++ pending false [] evs = captured false evs := by
  rw [(capture_exact evs).1]
  simpa using spec_flatten false [] evs

theorem spec_cycles (cs : List (List Str × List Str)) :
    spec false [] (cycles cs) = cs.map (fun c => c.2.flatten) ∧
    uncaptured false (cycles cs) = (cs.map (fun c => c.1.flatten)).flatten ∧
    pending false [] (cycles cs) = [] := by
  have hw : ∀ (ws : List Str) (pend : Str) (r : List Ev),
      spec true pend (ws.map .write ++ r) = spec true (pend ++ ws.flatten) r ∧
      uncaptured true (ws.map .write ++ r) = uncaptured true r ∧
      pending true pend (ws.map .write ++ r) = pending true (pend ++ ws.flatten) r := by
    intro ws
    induction ws with
    | nil => simp
    | cons w ws ih =>
      intro pend r
      simp only [List.map_cons, List.cons_append, spec, uncaptured, pending, ↓reduceIte, List.flatten_cons,
        List.nil_append]
      rw [(ih (pend ++ w) r).1, (ih (pend ++ w) r).2.1, (ih (pend ++ w) r).2.2]
      simp
  have hb : ∀ (bs : List Str) (r : List Ev),
      spec false [] (bs.map .write ++ r) = spec false [] r ∧
      uncaptured false (bs.map .write ++ r) = bs.flatten ++ uncaptured false r ∧
      pending false [] (bs.map .write ++ r) = pending false [] r := by
    intro bs
    induction bs with
    | nil => simp
    | cons b bs ih => intro r; simp [spec, uncaptured, pending, ih]
  induction cs with
  | nil => simp [cycles, spec, uncaptured, pending]
  | cons c cs ih =>
    obtain ⟨before, writes⟩ := c
    simp only [cycles, cycle, List.append_assoc, List.cons_append]
    rw [(hb before _).1, (hb before _).2.1, (hb before _).2.2]
    simp only [spec, uncaptured, pending]
    rw [(hw writes [] _).1, (hw writes [] _).2.1, (hw writes [] _).2.2]
    simp [spec, uncaptured, pending, ih]

/-- ★ `capture_exact` for a doctest run: one `with cap:` cycle per executed part, with arbitrary
    writes by others in between (the runner, another doctest run alternately, which uses its own
    capture object): the text logged for cycle i is exactly the concatenation of the writes made
    during cycle i — nothing lost, duplicated, moved to another part or taken from outside —, the
    logs concatenate to everything written inside the cycles, and `cap.text` after a cycle is that
    cycle's text -/
theorem capture_cycles (cs : List (List Str × List Str)) :
    (Capture.run (cycles cs)).parts = cs.map (fun c => c.2.flatten) ∧
    (Capture.run (cycles cs)).parts.flatten = (cs.map (fun c => c.2.flatten)).flatten ∧
    (Capture.run (cycles cs)).outside = (cs.map (fun c => c.1.flatten)).flatten := by
  obtain ⟨h1, h2⟩ := capture_exact (cycles cs)
  obtain ⟨s1, s2, _⟩ := spec_cycles cs
  exact ⟨by rw [h1, s1], by rw [h1, s1], by rw [h2, s2]⟩

/-- `cap.text` right after an `exit` is the text just logged (what `logged_stdout[partx]` receives) -/
theorem text_after_exit (evs : List Ev) :
    (Capture.run (evs ++ [.exit])).text = (Capture.run (evs ++ [.exit])).parts.getLast? := by
  simp [Capture.run, List.foldl_append, step]

/-! non-vacuity: an interleaving with output outside the cycles -/
example : (Capture.run (cycles [(["x".toList], ["a".toList, "b".toList]), ([], []), (["y".toList], ["c".toList])])).parts
    = ["ab".toList, [], "c".toList] := by decide +kernel

end Xdoc.C01

import XdocModel.Proofs.C13
import XdocModel.Lemmas.Labels
/-!
# C13 ☆ — `labels_are_intended` : on docstrings rendered from the grammar the labeller returns the
intended labels

"Source is exactly the prompt-prefixed lines plus the lines needed to complete a statement they
open; a want is exactly the non-blank lines that follow source up to the first blank line,
de-indented line or next prompt; everything else is text."

Results (all for EVERY list of blocks, by induction; helper lemmas in `Lemmas/Labels.lean`):

* `labels_are_intended_statement_false` : the statement as given in `Proofs/C13.lean` is FALSE.
  Counterexample: the well-formed statement `>>> x = [` / `... 1,` / `>>> 2]`. The labeller gives a
  continuation line with the `>>> ` prompt the label of the line BEFORE it (`curLab` is carried),
  so the third line is `dcnt`, whereas `Block.intended` says `dsrc`.
* `labels_are_actual` : under the ORIGINAL side conditions the labeller returns `Block.actual`, which
  differs from `Block.intended` only in that a continuation line without the `...` prompt inherits
  the label of the line before it.
* `labels_are_intended` : the repaired statement `labels_are_intended_repaired` = the original one
  plus ONE side condition (`Block.ContOrdered`: inside a statement no line without the `...` prompt
  follows a line with it), for the full grammar (any indentation, multi-line statements with either
  prompt, wants, blanks, prose).
* `labels_are_actual_general` / `labels_are_intended_general` : the same for a LARGER grammar
  (`Block.WellFormedG`, `SeparatedG`): a statement after the first of a block may open with the
  `...` prompt (the usual `>>> def f():` / `...     body`, which the oracle condition of the
  original grammar excludes because `def f():` alone is balanced for the tokenizer), a prompt may be
  bare (`>>>`, `...`), continuation lines may be old-style (four blanks instead of a prompt), and an
  example block may directly follow an example block (after a want at any indentation, after
  source at the same indentation).
-/
namespace Xdoc.C13
open Xdoc Py Parser

/-! ## what the labeller really does on the grammar -/

/-- the labels the labeller gives: like `Block.intended`, except that a continuation line without
    the `...` prompt gets the label of the line before it -/
def Block.actual : Block → List Label
  | .prose ls => ls.map fun _ => .text
  | .blank n => List.replicate n .text
  | .example _ stmts want => stmts.flatMap stmtLabels ++ want.map fun _ => .want

/-- an example block is followed by at least one blank line (or by nothing) -/
def Separated (bs : List Block) : Prop :=
  ∀ pre k stmts want b rest, bs = pre ++ Block.example k stmts want :: b :: rest → ∃ n, b = .blank (n + 1)

/-! ## the larger grammar -/

/-- side conditions of the larger grammar: prose is not a prompt; the first statement of an example
    opens with `>>>`, a later one with `>>>` or `...` (not bare); the other lines of a statement
    start with a prompt or four blanks; every statement is balanced as a whole and no strict prefix
    of it is; want lines as in `Block.WellFormed` -/
def Block.WellFormedG : Block → Prop
  | .prose ls => ∀ l ∈ ls, hasPrefix (strip l) [ps1] = false
  | .blank _ => True
  | .example _ stmts want =>
    (∃ s ss, stmts = s :: ss ∧ StmtOk1 s ∧ ∀ s' ∈ ss, StmtOk1 s' ∨ StmtOk2 s') ∧ ∀ w ∈ want, WantOk w

/-- what may follow an example block: a blank line, or another example block — after a want at any
    indentation, after source only at the same indentation (cf. finding K-C13-a) -/
def SeparatedG (bs : List Block) : Prop :=
  ∀ pre k stmts want b rest, bs = pre ++ Block.example k stmts want :: b :: rest →
    (∃ n, b = .blank (n + 1)) ∨ ∃ k' stmts' want', b = .example k' stmts' want' ∧ (want ≠ [] ∨ k' = k)

theorem SeparatedG.tail {b : Block} {bs : List Block} (h : SeparatedG (b :: bs)) : SeparatedG bs := by
  intro pre k stmts want b' rest hb
  exact h (b :: pre) k stmts want b' rest (by rw [hb]; rfl)

/-- what the state of the labeller allows as next block -/
def NextOk (st : LabelState) (bs : List Block) : Prop :=
  st.prev = .text ∨ ∃ k, ExDone k st ∧ ∀ b rest, bs = b :: rest →
    (∃ n, b = .blank (n + 1)) ∨ ∃ k' stmts' want', b = .example k' stmts' want' ∧ (st.prev = .want ∨ k' = k)

/-- the induction: from any state without a pending statement that is either text, or has just read
    an example block and is about to read a block that may follow it -/
theorem labels_run (bs : List Block) (hwf : ∀ b ∈ bs, b.WellFormedG) (hsep : SeparatedG bs)
    (st : LabelState) (hn : st.pending = none) (hp : NextOk st bs) :
    ∃ st', Run st (bs.flatMap Block.render) (bs.flatMap Block.actual) st' ∧ st'.pending = none := by
  induction bs generalizing st with
  | nil => exact ⟨st, Run.nil st, hn⟩
  | cons b bs ih =>
    have hwf' : ∀ b' ∈ bs, b'.WellFormedG := fun b' hb' => hwf b' (List.mem_cons_of_mem _ hb')
    have hb := hwf b List.mem_cons_self
    simp only [List.flatMap_cons]
    cases b with
    | prose ls =>
      have hp' : st.prev = .text := by
        rcases hp with h | ⟨k, -, h⟩
        · exact h
        · rcases h _ _ rfl with ⟨n, hn'⟩ | ⟨_, _, _, hn', -⟩ <;> cases hn'
      obtain ⟨st1, hr1, h1, h2⟩ := run_prose ls hb st hp' hn
      obtain ⟨st2, hr2, h3⟩ := ih hwf' hsep.tail st1 h2 (Or.inl h1)
      exact ⟨st2, hr1.append hr2, h3⟩
    | blank n =>
      obtain ⟨st1, hr1, h1, h2⟩ := run_blank n st hn
      have hp1 : st1.prev = .text := by
        apply h2
        rcases hp with h | ⟨k, -, h⟩
        · exact Or.inl h
        · rcases h _ _ rfl with ⟨n', hn'⟩ | ⟨_, _, _, hn', -⟩
          · cases hn'; exact Or.inr (Nat.succ_pos _)
          · cases hn'
      obtain ⟨st2, hr2, h3⟩ := ih hwf' hsep.tail st1 h1 (Or.inl hp1)
      exact ⟨st2, hr1.append hr2, h3⟩
    | «example» k stmts want =>
      obtain ⟨⟨s, ss, rfl, hs1, hss⟩, hw⟩ := hb
      have hready : SrcReady k st := by
        refine ⟨hn, ?_⟩
        rcases hp with h | ⟨k0, hd, h⟩
        · exact Or.inl h
        · rcases h _ _ rfl with ⟨n, hn'⟩ | ⟨k', s', w', hn', hk⟩
          · cases hn'
          · cases hn'
            rcases hk with hk | hk
            · exact Or.inr (Or.inl hk)
            · subst hk
              rcases hd.2 with h' | h'
              · exact Or.inr (Or.inl h')
              · exact Or.inr (Or.inr h')
      obtain ⟨st1, hr1, h1, h1w⟩ := run_example k s ss want hs1 hss hw st hready
      obtain ⟨st2, hr2, h3⟩ := ih hwf' hsep.tail st1 h1.1
        (Or.inr ⟨k, h1, fun b' rest' hbs => by
          rcases hsep [] k (s :: ss) want b' rest' (by rw [hbs]; rfl) with h | ⟨k', s', w', hb', hk⟩
          · exact Or.inl h
          · exact Or.inr ⟨k', s', w', hb', hk.elim (fun h => Or.inl (h1w h)) Or.inr⟩⟩)
      exact ⟨st2, hr1.append hr2, h3⟩

theorem labelLines_of_run {lines : List Str} {labs : List Label} {st' : LabelState}
    (h : Run {} lines labs st') (hn : st'.pending = none) :
    ∃ out, labelLines lines = .ok out ∧ out.map (·.1) = labs := by
  refine ⟨st'.out, ?_, by simpa using h.2⟩
  unfold labelLines
  rw [h.1]
  simp [hn]

/-- ★ what the labeller does on the larger grammar: the labels are `Block.actual` -/
theorem labels_are_actual_general (bs : List Block) (hwf : ∀ b ∈ bs, b.WellFormedG) (hsep : SeparatedG bs) :
    ∃ out, labelLines (bs.flatMap Block.render) = .ok out ∧ out.map (·.1) = bs.flatMap Block.actual := by
  obtain ⟨st', hr, hn⟩ := labels_run bs hwf hsep {} rfl (Or.inl rfl)
  exact labelLines_of_run hr hn

/-! ## the original grammar is part of the larger one -/

theorem knownPrefix_of_prompt {l : Str}
    (h : startsWith ">>> ".toList l = true ∨ startsWith "... ".toList l = true) : knownPrefix l = true := by
  unfold knownPrefix
  rcases h with h | h
  · rw [(ps1_line (hasPrefix_of_startsWith_ps1 h)).1]; decide +kernel
  · rw [(ps2_line (hasPrefix_of_startsWith_ps2 h)).1]; decide +kernel

theorem wellFormed_toG {b : Block} (h : b.WellFormed) : b.WellFormedG := by
  cases b with
  | prose ls => exact fun l hl => (h l hl).2
  | blank n => trivial
  | «example» k stmts want =>
    obtain ⟨hne, hs, hw⟩ := h
    have hs1 : ∀ s ∈ stmts, StmtOk1 s := by
      intro s hs'
      obtain ⟨first, rest, rfl, hf, hl, hb, hu⟩ := hs s hs'
      exact ⟨first, rest, rfl, hasPrefix_of_startsWith_ps1 hf,
        fun l hl' => knownPrefix_of_prompt (hl l hl'), hb, hu⟩
    cases stmts with
    | nil => exact absurd rfl hne
    | cons s ss =>
      exact ⟨⟨s, ss, rfl, hs1 s List.mem_cons_self, fun s' hs' => Or.inl (hs1 s' (List.mem_cons_of_mem _ hs'))⟩, hw⟩

theorem Separated.toG {bs : List Block} (h : Separated bs) : SeparatedG bs :=
  fun pre k stmts want b rest hb => Or.inl (h pre k stmts want b rest hb)

/-- ★ what the labeller does on the grammar, under the ORIGINAL side conditions: the labels are
    `Block.actual` -/
theorem labels_are_actual (bs : List Block) (hwf : ∀ b ∈ bs, b.WellFormed) (hsep : Separated bs) :
    ∃ out, labelLines (bs.flatMap Block.render) = .ok out ∧ out.map (·.1) = bs.flatMap Block.actual :=
  labels_are_actual_general bs (fun b hb => wellFormed_toG (hwf b hb)) hsep.toG

/-! ## the repair: one more side condition -/

/-- inside a statement, once a line has the `...` prompt, every later line has it too (no `>>> ` or
    unprefixed continuation line after a `... ` line) -/
def contOrdered : List Str → Bool
  | [] => true
  | l :: r => (!hasPrefix l [ps2] || r.all (hasPrefix · [ps2])) && contOrdered r

/-- the added side condition of the grammar -/
def Block.ContOrdered : Block → Prop
  | .example _ stmts _ => ∀ s ∈ stmts, contOrdered s = true
  | _ => True

theorem contLabels_all_ps2 (c : Label) (r : List Str) (h : ∀ m ∈ r, hasPrefix m [ps2] = true) :
    contLabels c r = r.map (contLabel .dsrc) := by
  induction r generalizing c with
  | nil => rfl
  | cons l r ih =>
    have hl := h l List.mem_cons_self
    have e1 : contLabel c l = .dcnt := by unfold contLabel; rw [if_pos hl]
    have e2 : contLabel .dsrc l = .dcnt := by unfold contLabel; rw [if_pos hl]
    simp only [contLabels, List.map_cons]
    rw [e1, e2, ih _ (fun m hm => h m (List.mem_cons_of_mem _ hm))]

theorem contLabels_ordered (r : List Str) (ho : contOrdered r = true) :
    contLabels .dsrc r = r.map (contLabel .dsrc) := by
  induction r with
  | nil => rfl
  | cons l r ih =>
    simp only [contOrdered, Bool.and_eq_true, Bool.or_eq_true, Bool.not_eq_true', List.all_eq_true] at ho
    simp only [contLabels, List.map_cons]
    rcases ho.1 with h | h
    · have e : contLabel .dsrc l = .dsrc := by unfold contLabel; rw [if_neg (by rw [h]; simp)]
      rw [e, ih ho.2]
    · rw [contLabels_all_ps2 _ r h]

theorem actual_eq_intended {b : Block} (ho : b.ContOrdered) : b.actual = b.intended := by
  cases b with
  | prose ls => rfl
  | blank n => rfl
  | «example» k stmts want =>
    simp only [Block.actual, Block.intended]
    congr 1
    induction stmts with
    | nil => rfl
    | cons s stmts ih =>
      simp only [List.flatMap_cons, id, List.map_append]
      rw [ih (fun s' hs' => ho s' (List.mem_cons_of_mem _ hs'))]
      congr 1
      exact contLabels_ordered s (ho s List.mem_cons_self)

theorem flatMap_actual_eq_intended (bs : List Block) (ho : ∀ b ∈ bs, b.ContOrdered) :
    bs.flatMap Block.actual = bs.flatMap Block.intended := by
  induction bs with
  | nil => rfl
  | cons b bs ih =>
    simp only [List.flatMap_cons]
    rw [actual_eq_intended (ho b List.mem_cons_self), ih (fun b' hb' => ho b' (List.mem_cons_of_mem _ hb'))]

/-- ★ on the larger grammar with the added side condition the labeller returns the intended labels -/
theorem labels_are_intended_general (bs : List Block) (hwf : ∀ b ∈ bs, b.WellFormedG ∧ b.ContOrdered)
    (hsep : SeparatedG bs) :
    ∃ out, labelLines (bs.flatMap Block.render) = .ok out ∧ out.map (·.1) = bs.flatMap Block.intended := by
  obtain ⟨out, h1, h2⟩ := labels_are_actual_general bs (fun b hb => (hwf b hb).1) hsep
  exact ⟨out, h1, by rw [h2, flatMap_actual_eq_intended bs (fun b hb => (hwf b hb).2)]⟩

/-- ☆ the repaired statement: `labels_are_intended_statement` with the side condition
    `Block.ContOrdered` added to `Block.WellFormed` (nothing else changed) -/
def labels_are_intended_repaired : Prop :=
  ∀ bs : List Block, (∀ b ∈ bs, b.WellFormed ∧ b.ContOrdered) →
    (∀ pre k stmts want b rest, bs = pre ++ Block.example k stmts want :: b :: rest →
        ∃ n, b = .blank (n + 1)) →
    ∃ out, labelLines (bs.flatMap Block.render) = .ok out ∧ out.map (·.1) = bs.flatMap Block.intended

/-- ★ for docstrings rendered from the (full) grammar the labeller returns the intended labels -/
theorem labels_are_intended : labels_are_intended_repaired :=
  fun bs hwf hsep =>
    labels_are_intended_general bs (fun b hb => ⟨wellFormed_toG (hwf b hb).1, (hwf b hb).2⟩) (Separated.toG hsep)


/-! ## decidable forms of the side conditions (for concrete instances and for a harness) -/

def stmtCoreB (s : List Str) : Bool :=
  s.tail.all knownPrefix && Lexer.isBalanced (s.map (·.drop 4)) &&
    (List.range s.length).all (fun n => n == 0 || !Lexer.isBalanced ((s.take n).map (·.drop 4)))

def stmtOk1B : List Str → Bool
  | [] => false
  | first :: rest => hasPrefix first [ps1] && stmtCoreB (first :: rest)

def stmtOk2B : List Str → Bool
  | [] => false
  | first :: rest => hasPrefix first [ps2] && !(strip first == ps2) && stmtCoreB (first :: rest)

def wantOkB (w : Str) : Bool :=
  !(strip w).isEmpty && !hasPrefix (strip w) [ps1, ps2] && indentOf w == 0 &&
    !((w.head?.map isSpace).getD false)

/-- `Block.WellFormedG ∧ Block.ContOrdered`, decided -/
def Block.checkG : Block → Bool
  | .prose ls => ls.all fun l => !hasPrefix (strip l) [ps1]
  | .blank _ => true
  | .example _ stmts want =>
    (match stmts with
     | [] => false
     | s :: ss => stmtOk1B s && ss.all fun s' => stmtOk1B s' || stmtOk2B s') &&
    want.all wantOkB && stmts.all contOrdered

/-- the ORIGINAL conditions on one statement, decided -/
def stmtOkB : List Str → Bool
  | [] => false
  | first :: rest =>
    startsWith ">>> ".toList first &&
    rest.all (fun l => startsWith ">>> ".toList l || startsWith "... ".toList l) &&
    Lexer.isBalanced ((first :: rest).map (·.drop 4)) &&
    (List.range (first :: rest).length).all
      (fun n => n == 0 || !Lexer.isBalanced (((first :: rest).take n).map (·.drop 4)))

/-- `Block.WellFormed ∧ Block.ContOrdered`, decided -/
def Block.check : Block → Bool
  | .prose ls => ls.all fun l => !(strip l).isEmpty && !hasPrefix (strip l) [ps1]
  | .blank _ => true
  | .example _ stmts want =>
    !stmts.isEmpty && stmts.all (fun s => stmtOkB s && contOrdered s) && want.all wantOkB

/-- `Separated`, decided -/
def separatedB : List Block → Bool
  | [] => true
  | b :: rest =>
    (match b, rest with
     | .example _ _ _, .blank (_ + 1) :: _ => true
     | .example _ _ _, _ :: _ => false
     | _, _ => true) && separatedB rest

/-- `SeparatedG`, decided -/
def separatedGB : List Block → Bool
  | [] => true
  | b :: rest =>
    (match b, rest with
     | .example _ _ _, .blank (_ + 1) :: _ => true
     | .example k _ want, .example k' _ _ :: _ => !want.isEmpty || k' == k
     | .example _ _ _, _ :: _ => false
     | _, _ => true) && separatedGB rest

theorem stmtCoreB_sound {s : List Str} (h : stmtCoreB s = true) : StmtCore s := by
  simp only [stmtCoreB, Bool.and_eq_true, List.all_eq_true, Bool.or_eq_true, List.mem_range,
    beq_iff_eq, Bool.not_eq_true'] at h
  obtain ⟨⟨h1, h2⟩, h3⟩ := h
  refine ⟨h1, h2, fun n h0 hn => ?_⟩
  rcases h3 n hn with h | h
  · omega
  · exact h

theorem stmtOk1B_sound {s : List Str} (h : stmtOk1B s = true) : StmtOk1 s := by
  cases s with
  | nil => cases h
  | cons first rest =>
    simp only [stmtOk1B, Bool.and_eq_true] at h
    exact ⟨first, rest, rfl, h.1, stmtCoreB_sound h.2⟩

theorem stmtOk2B_sound {s : List Str} (h : stmtOk2B s = true) : StmtOk2 s := by
  cases s with
  | nil => cases h
  | cons first rest =>
    simp only [stmtOk2B, Bool.and_eq_true, Bool.not_eq_true', beq_eq_false_iff_ne] at h
    exact ⟨first, rest, rfl, h.1.1, h.1.2, stmtCoreB_sound h.2⟩

theorem wantOkB_sound {w : Str} (h : wantOkB w = true) : WantOk w := by
  simp only [wantOkB, Bool.and_eq_true, Bool.not_eq_true', beq_iff_eq] at h
  exact ⟨h.1.1.1, h.1.1.2, h.1.2, h.2⟩

theorem Block.checkG_sound {b : Block} (h : b.checkG = true) : b.WellFormedG ∧ b.ContOrdered := by
  cases b with
  | prose ls =>
    simp only [Block.checkG, List.all_eq_true, Bool.not_eq_true'] at h
    exact ⟨h, trivial⟩
  | blank n => exact ⟨trivial, trivial⟩
  | «example» k stmts want =>
    cases stmts with
    | nil => simp [Block.checkG] at h
    | cons s ss =>
      simp only [Block.checkG, Bool.and_eq_true, List.all_eq_true, Bool.or_eq_true] at h
      obtain ⟨⟨⟨h1, h2⟩, h3⟩, h4⟩ := h
      exact ⟨⟨⟨s, ss, rfl, stmtOk1B_sound h1,
        fun s' hs' => (h2 s' hs').elim (fun h => Or.inl (stmtOk1B_sound h)) (fun h => Or.inr (stmtOk2B_sound h))⟩,
        fun w hw => wantOkB_sound (h3 w hw)⟩, h4⟩

theorem stmtOkB_sound {s : List Str} (h : stmtOkB s = true) :
    ∃ first rest, s = first :: rest ∧ startsWith ">>> ".toList first = true ∧
      (∀ l ∈ rest, startsWith ">>> ".toList l = true ∨ startsWith "... ".toList l = true) ∧
      Lexer.isBalanced (s.map (·.drop 4)) = true ∧
      ∀ n, 0 < n → n < s.length → Lexer.isBalanced ((s.take n).map (·.drop 4)) = false := by
  cases s with
  | nil => cases h
  | cons first rest =>
    simp only [stmtOkB, Bool.and_eq_true, List.all_eq_true, Bool.or_eq_true, List.mem_range,
      beq_iff_eq, Bool.not_eq_true'] at h
    obtain ⟨⟨⟨h1, h2⟩, h3⟩, h4⟩ := h
    refine ⟨first, rest, rfl, h1, h2, h3, fun n h0 hn => ?_⟩
    rcases h4 n hn with h | h
    · omega
    · exact h

theorem Block.check_sound {b : Block} (h : b.check = true) : b.WellFormed ∧ b.ContOrdered := by
  cases b with
  | prose ls =>
    simp only [Block.check, List.all_eq_true, Bool.and_eq_true, Bool.not_eq_true'] at h
    exact ⟨h, trivial⟩
  | blank n => exact ⟨trivial, trivial⟩
  | «example» k stmts want =>
    simp only [Block.check, Bool.and_eq_true, List.all_eq_true, Bool.not_eq_true'] at h
    obtain ⟨⟨h1, h2⟩, h3⟩ := h
    refine ⟨⟨?_, fun s hs => stmtOkB_sound (h2 s hs).1, fun w hw => wantOkB_sound (h3 w hw)⟩,
      fun s hs => (h2 s hs).2⟩
    intro hnil; rw [hnil] at h1; cases h1

theorem separatedB_sound {bs : List Block} (h : separatedB bs = true) : Separated bs := by
  induction bs with
  | nil =>
    intro pre k stmts want b rest hb
    have := congrArg List.length hb
    simp at this
  | cons b0 bs ih =>
    simp only [separatedB, Bool.and_eq_true] at h
    intro pre k stmts want b rest hb
    cases pre with
    | nil =>
      simp only [List.nil_append, List.cons.injEq] at hb
      obtain ⟨rfl, rfl⟩ := hb
      have h1 := h.1
      cases b with
      | prose ls => simp at h1
      | «example» k' s' w' => simp at h1
      | blank n =>
        cases n with
        | zero => simp at h1
        | succ n => exact ⟨n, rfl⟩
    | cons p pre =>
      simp only [List.cons_append, List.cons.injEq] at hb
      exact ih h.2 pre k stmts want b rest hb.2

theorem separatedGB_sound {bs : List Block} (h : separatedGB bs = true) : SeparatedG bs := by
  induction bs with
  | nil =>
    intro pre k stmts want b rest hb
    have := congrArg List.length hb
    simp at this
  | cons b0 bs ih =>
    simp only [separatedGB, Bool.and_eq_true] at h
    intro pre k stmts want b rest hb
    cases pre with
    | nil =>
      simp only [List.nil_append, List.cons.injEq] at hb
      obtain ⟨rfl, rfl⟩ := hb
      have h1 := h.1
      cases b with
      | prose ls => simp at h1
      | «example» k' s' w' =>
        simp only [Bool.or_eq_true, Bool.not_eq_true', beq_iff_eq] at h1
        refine Or.inr ⟨k', s', w', rfl, h1.elim (fun h => Or.inl ?_) Or.inr⟩
        intro hw; rw [hw] at h; cases h
      | blank n =>
        cases n with
        | zero => simp at h1
        | succ n => exact Or.inl ⟨n, rfl⟩
    | cons p pre =>
      simp only [List.cons_append, List.cons.injEq] at hb
      exact ih h.2 pre k stmts want b rest hb.2

/-- `labels_are_intended` with checkable hypotheses -/
theorem labels_are_intended_checked (bs : List Block) (hc : bs.all Block.check = true)
    (hs : separatedB bs = true) :
    ∃ out, labelLines (bs.flatMap Block.render) = .ok out ∧ out.map (·.1) = bs.flatMap Block.intended :=
  labels_are_intended bs (fun b hb => Block.check_sound (List.all_eq_true.mp hc b hb)) (separatedB_sound hs)

/-- `labels_are_intended_general` with checkable hypotheses -/
theorem labels_are_intended_general_checked (bs : List Block) (hc : bs.all Block.checkG = true)
    (hs : separatedGB bs = true) :
    ∃ out, labelLines (bs.flatMap Block.render) = .ok out ∧ out.map (·.1) = bs.flatMap Block.intended :=
  labels_are_intended_general bs (fun b hb => Block.checkG_sound (List.all_eq_true.mp hc b hb))
    (separatedGB_sound hs)

/-! ## non-vacuity -/

/-- prose; an example at indentation 4 with a three-line statement (`... ` prompts), a two-line
    statement (`>>> ` prompts) and a two-line want; blank lines; an example at indentation 0 without
    want; a blank line; indented prose -/
def exBlocks : List Block :=
  [.prose ["intro text".toList],
   .example 4 [[">>> x = [1,".toList, "...      2,".toList, "...      3]".toList],
               [">>> print(x,".toList, ">>>       sep='')".toList]]
     ["[1, 2, 3]".toList, "and more".toList],
   .blank 2,
   .example 0 [[">>> y = 1".toList]] [],
   .blank 1,
   .prose ["  the end".toList, "...".toList]]

example : exBlocks.all Block.check = true := by decide +kernel
example : separatedB exBlocks = true := by decide +kernel
example : ∀ b ∈ exBlocks, b.WellFormed ∧ b.ContOrdered :=
  fun b hb => Block.check_sound (List.all_eq_true.mp (by decide +kernel) b hb)
example : Separated exBlocks := separatedB_sound (by decide +kernel)
example : exBlocks.flatMap Block.intended =
    [.text, .dsrc, .dcnt, .dcnt, .dsrc, .dsrc, .want, .want, .text, .text, .dsrc, .text, .text, .text] := by
  decide +kernel
example : (labelLines (exBlocks.flatMap Block.render)).toOption.map (·.map (·.1)) =
    some (exBlocks.flatMap Block.intended) := by decide +kernel

/-- the larger grammar: `>>> def` / `... body` (two "statements" for the tokenizer), a bare `>>>`,
    an old-style continuation line, and example blocks that follow each other directly — after a
    want at another indentation, after source at the same indentation -/
def exBlocksG : List Block :=
  [.example 2 [[">>> def f():".toList], ["...     return 1".toList], [">>>".toList],
               [">>> x = [1,".toList, "     2]".toList]]
     ["out".toList],
   .example 0 [[">>> f()".toList]] [],
   .example 0 [[">>> g(".toList, "... )".toList]] ["1".toList],
   .blank 1,
   .prose ["".toList, "text".toList]]

example : exBlocksG.all Block.checkG = true := by decide +kernel
example : separatedGB exBlocksG = true := by decide +kernel
example : exBlocksG.all Block.check = false := by decide +kernel
example : exBlocksG.flatMap Block.intended =
    [.dsrc, .dcnt, .dsrc, .dsrc, .dsrc, .want, .dsrc, .dsrc, .dcnt, .want, .text, .text, .text] := by
  decide +kernel
example : (labelLines (exBlocksG.flatMap Block.render)).toOption.map (·.map (·.1)) =
    some (exBlocksG.flatMap Block.intended) := by decide +kernel

/-! ## the original statement is false -/

/-- the counterexample: one statement over three lines, the prompts `>>> `, `... `, `>>> ` -/
def cexBlocks : List Block :=
  [.example 2 [[">>> x = [".toList, "... 1,".toList, ">>> 2]".toList]] ["w".toList]]

/-- the original side conditions hold for the counterexample (below), the added one does not -/
example : cexBlocks.all Block.check = false := by decide +kernel

theorem cexBlocks_wf : ∀ b ∈ cexBlocks, b.WellFormed := by
  intro b hb
  simp only [cexBlocks, List.mem_singleton] at hb
  subst hb
  refine ⟨by simp, ?_, ?_⟩
  · intro s hs
    simp only [List.mem_singleton] at hs
    subst hs
    exact stmtOkB_sound (by decide +kernel)
  · intro w hw
    simp only [List.mem_singleton] at hw
    subst hw
    decide +kernel

theorem cexBlocks_sep : Separated cexBlocks := separatedB_sound (by decide +kernel)

/-- ✗ `labels_are_intended_statement` (as given in `Proofs/C13.lean`) does not hold -/
theorem labels_are_intended_statement_false : ¬ labels_are_intended_statement := by
  intro h
  obtain ⟨out, h1, h2⟩ := h cexBlocks cexBlocks_wf cexBlocks_sep
  have h3 : (labelLines (cexBlocks.flatMap Block.render)).toOption.map (·.map (·.1)) =
      some [.dsrc, .dcnt, .dcnt, .want] := by decide +kernel
  have h4 : cexBlocks.flatMap Block.intended = [.dsrc, .dcnt, .dsrc, .want] := by decide +kernel
  rw [h1] at h3
  simp only [Except.toOption, Option.map_some, Option.some.injEq] at h3
  rw [h2, h4] at h3
  revert h3; decide

/-- it is the only thing that goes wrong: the counterexample obeys `labels_are_actual` -/
example : cexBlocks.flatMap Block.actual = [.dsrc, .dcnt, .dcnt, .want] := by decide +kernel

end Xdoc.C13

import XdocModel.Proofs.C18
/-!
# C18 — `nDigits` is exactly `⌈log₁₀ (max 1 endline)⌉`

`le_pow_nDigits` shows the computed width is large enough; here: it is the LEAST such exponent
(`nDigits_minimal`), hence characterised uniquely (`nDigits_eq_iff`) — the integer meaning of
`int(math.ceil(math.log(max(1, endline), 10)))` in `DocTest.format_src` — with the closed forms at
the powers of ten, where the float computation is delicate (`nDigits_pow`, `nDigits_pow_succ`).
-/
namespace Xdoc.C18
open Xdoc Py Format

theorem nDigitsAux_minimal (n fuel d : Nat) (hd : ∀ d' < d, 10 ^ d' < n) :
    ∀ d' < nDigitsAux n fuel d (10 ^ d), 10 ^ d' < n := by
  induction fuel generalizing d with
  | zero => simpa [nDigitsAux] using hd
  | succ f ih =>
    simp only [nDigitsAux]
    split
    · exact hd
    · rename_i hgt
      have h := ih (d + 1) (by
        intro d' hd'
        rcases Nat.lt_succ_iff_lt_or_eq.mp hd' with h | h
        · exact hd d' h
        · subst h; omega)
      rwa [Nat.pow_succ] at h

/-- ★ no smaller width would do: below `nDigits n` every power of ten is `< max 1 n` -/
theorem nDigits_minimal (n d : Nat) (h : d < nDigits n) : 10 ^ d < max 1 n := by
  unfold nDigits at h
  have := nDigitsAux_minimal (max 1 n) (max 1 n) 0 (by intro d' hd'; omega)
  simp only [Nat.pow_zero] at this
  exact this d h

/-- ★ `nDigits n = d` iff `d` is the least exponent with `max 1 n ≤ 10^d` -/
theorem nDigits_eq_iff (n d : Nat) :
    nDigits n = d ↔ (max 1 n ≤ 10 ^ d ∧ ∀ d' < d, 10 ^ d' < max 1 n) := by
  have hle : max 1 n ≤ 10 ^ nDigits n := by
    have := le_pow_nDigits n
    have h1 : 1 ≤ 10 ^ nDigits n := Nat.pow_pos (by omega)
    omega
  constructor
  · rintro rfl; exact ⟨hle, fun d' h => nDigits_minimal n d' h⟩
  · rintro ⟨h1, h2⟩
    rcases Nat.lt_trichotomy (nDigits n) d with h | h | h
    · have := h2 _ h; omega
    · exact h
    · have := nDigits_minimal n d h; omega

/-- at a power of ten the width is the exponent (`999 → 3`, `1000 → 3`, `1001 → 4`) -/
theorem nDigits_pow (k : Nat) : nDigits (10 ^ k) = k := by
  rw [nDigits_eq_iff]
  have h1 : 1 ≤ 10 ^ k := Nat.pow_pos (by omega)
  refine ⟨by omega, fun d' hd' => ?_⟩
  have : 10 ^ d' < 10 ^ k := Nat.pow_lt_pow_right (by omega) hd'
  omega

theorem nDigits_pow_succ (k : Nat) : nDigits (10 ^ k + 1) = k + 1 := by
  rw [nDigits_eq_iff]
  have h1 : 1 ≤ 10 ^ k := Nat.pow_pos (by omega)
  have h2 : 10 ^ (k + 1) = 10 * 10 ^ k := by rw [Nat.pow_succ, Nat.mul_comm]
  refine ⟨by omega, fun d' hd' => ?_⟩
  have : 10 ^ d' ≤ 10 ^ k := Nat.pow_le_pow_right (by omega) (by omega)
  omega

example : nDigits 0 = 0 ∧ nDigits 1 = 0 ∧ nDigits 9 = 1 ∧ nDigits 10 = 1 ∧ nDigits 11 = 2 ∧ nDigits 1000 = 3 := by
  decide +kernel

end Xdoc.C18

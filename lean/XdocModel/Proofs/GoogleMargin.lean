import XdocModel.Lemmas.Google
/-!
# The first-line rule of `split_google_docblocks`, after repair 6117f16 (property C07)

A docstring whose text starts on the line of its opening quotes has a first line without margin,
while every other line carries the margin of the code it sits in (blanks **or tabs**).
`split_google_docblocks` pads the first line so that the second `textwrap.dedent` can remove the
margin. `prepLines_margin` says that this works for EVERY margin made of blanks and tabs: the
prepared lines are the first line followed by the other lines with the margin removed
(whitespace-only lines emptied). Before the repair the padding was `' ' * n` and the statement
was false for a tab margin: `prepLines_margin_old_padding_fails` keeps the old padding as a
definition and evaluates the counterexample in the kernel. `dedentLines_margin` is the underlying
fact about `textwrap.dedent` (the computed margin is the greatest common prefix).
-/
namespace Xdoc.Google
open Xdoc Py

/-- what the theorem promises for one line behind the first -/
def unmargin (mg : Str) (l : Str) : Str := if l.all isBlank then [] else l.drop mg.length

theorem commonPrefix_prefix_left (a b : Str) : commonPrefix a b <+: a := by
  induction a generalizing b with
  | nil => cases b <;> exact List.nil_prefix
  | cons x a ih =>
    cases b with
    | nil => exact List.nil_prefix
    | cons y b =>
      simp only [commonPrefix]
      split
      · exact (List.cons_prefix_cons).mpr ⟨rfl, ih b⟩
      · exact List.nil_prefix

theorem commonPrefix_prefix_right (a b : Str) : commonPrefix a b <+: b := by
  induction a generalizing b with
  | nil => cases b <;> exact List.nil_prefix
  | cons x a ih =>
    cases b with
    | nil => exact List.nil_prefix
    | cons y b =>
      simp only [commonPrefix]
      split
      · rename_i h; subst h; exact (List.cons_prefix_cons).mpr ⟨rfl, ih b⟩
      · exact List.nil_prefix

theorem prefix_commonPrefix (p a b : Str) (ha : p <+: a) (hb : p <+: b) : p <+: commonPrefix a b := by
  induction p generalizing a b with
  | nil => exact List.nil_prefix
  | cons c p ih =>
    obtain ⟨ra, rfl⟩ := ha
    obtain ⟨rb, rfl⟩ := hb
    simp only [List.cons_append, commonPrefix, if_true]
    exact (List.cons_prefix_cons).mpr ⟨rfl, ih _ _ (List.prefix_append _ _) (List.prefix_append _ _)⟩

/-- the margin `textwrap.dedent` computes is a prefix of every leading-whitespace string … -/
theorem foldl_commonPrefix_prefix (i : Str) (is : List Str) :
    ∀ x ∈ i :: is, is.foldl commonPrefix i <+: x := by
  induction is generalizing i with
  | nil => intro x hx; simp at hx; subst hx; exact List.prefix_refl _
  | cons j js ih =>
    intro x hx
    simp only [List.foldl_cons]
    rcases List.mem_cons.mp hx with rfl | hx
    · exact (ih (commonPrefix x j) _ (List.mem_cons_self)).trans (commonPrefix_prefix_left _ _)
    · rcases List.mem_cons.mp hx with rfl | hx
      · exact (ih (commonPrefix i x) _ (List.mem_cons_self)).trans (commonPrefix_prefix_right _ _)
      · exact ih _ x (List.mem_cons_of_mem _ hx)

/-- … and every common prefix of them is a prefix of it -/
theorem prefix_foldl_commonPrefix (p i : Str) (is : List Str) (h : ∀ x ∈ i :: is, p <+: x) :
    p <+: is.foldl commonPrefix i := by
  induction is generalizing i with
  | nil => exact h i (List.mem_cons_self)
  | cons j js ih =>
    simp only [List.foldl_cons]
    apply ih
    intro x hx
    rcases List.mem_cons.mp hx with rfl | hx
    · exact prefix_commonPrefix _ _ _ (h i (List.mem_cons_self)) (h j (List.mem_cons_of_mem _ (List.mem_cons_self)))
    · exact h x (List.mem_cons_of_mem _ (List.mem_cons_of_mem _ hx))

theorem takeWhile_isBlank_append (mg t : Str) (h : mg.all isBlank = true) :
    (mg ++ t).takeWhile isBlank = mg ++ t.takeWhile isBlank := by
  induction mg with
  | nil => rfl
  | cons c mg ih =>
    simp only [List.all_cons, Bool.and_eq_true] at h
    simp [List.takeWhile, h.1, ih h.2]

theorem dropPrefix?_append_self (mg t : Str) : dropPrefix? mg (mg ++ t) = some t := by
  induction mg with
  | nil => rfl
  | cons c mg ih => simp [dropPrefix?, ih]

theorem all_isBlank_append (mg t : Str) (h : mg.all isBlank = true) :
    (mg ++ t).all isBlank = t.all isBlank := by
  simp [List.all_append, h]

/-- a line of the shape the theorem speaks about: whitespace-only, or the margin followed by something
    that is not whitespace-only -/
def HasMargin (mg : Str) (l : Str) : Prop :=
  l.all isBlank = true ∨ ∃ t, l = mg ++ t ∧ t.all isBlank = false

theorem dedentLines_margin (mg : Str) (ls : List Str) (hmg : mg.all isBlank = true)
    (hall : ∀ l ∈ ls, HasMargin mg l)
    (hwit : ∃ l ∈ ls, ∃ c r, l = mg ++ c :: r ∧ isBlank c = false) :
    dedentLines ls = ls.map (unmargin mg) := by
  unfold dedentLines
  simp only
  generalize hI : ((ls.map fun l => if l.all isBlank then [] else l).filterMap
      fun l => if l.isEmpty then none else some (l.takeWhile isBlank)) = I
  have hmemI : ∀ x ∈ I, mg <+: x := by
    intro x hx
    rw [← hI] at hx
    simp only [List.mem_filterMap, List.mem_map] at hx
    obtain ⟨l', ⟨l, hl, rfl⟩, hx⟩ := hx
    rcases hall l hl with hb | ⟨t, rfl, ht⟩
    · simp [hb] at hx
    · have hnb : (mg ++ t).all isBlank = false := by rw [all_isBlank_append _ _ hmg]; exact ht
      simp only [hnb, Bool.false_eq_true, if_false] at hx
      split at hx
      · cases hx
      · cases hx
        rw [takeWhile_isBlank_append _ _ hmg]
        exact List.prefix_append _ _
  have hwitI : mg ∈ I := by
    obtain ⟨l, hl, c, r, rfl, hc⟩ := hwit
    rw [← hI]
    simp only [List.mem_filterMap, List.mem_map]
    refine ⟨mg ++ c :: r, ⟨mg ++ c :: r, hl, ?_⟩, ?_⟩
    · have : (mg ++ c :: r).all isBlank = false := by
        rw [all_isBlank_append _ _ hmg]; simp [hc]
      simp [this]
    · have hne : (mg ++ c :: r).isEmpty = false := by cases mg <;> rfl
      simp only [hne, Bool.false_eq_true, if_false]
      rw [takeWhile_isBlank_append _ _ hmg]
      simp [List.takeWhile, hc]
  cases I with
  | nil => cases hwitI
  | cons i is =>
    simp only
    have hM : is.foldl commonPrefix i = mg := by
      have h1 := foldl_commonPrefix_prefix i is mg hwitI
      have h2 := prefix_foldl_commonPrefix mg i is hmemI
      exact List.IsPrefix.eq_of_length_le h1 (h2.length_le)
    rw [hM]
    simp only [List.map_map]
    apply List.map_congr_left
    intro l hl
    simp only [Function.comp, unmargin]
    rcases hall l hl with hb | ⟨t, rfl, ht⟩
    · simp only [hb, if_true]
      cases mg <;> rfl
    · have hnb : (mg ++ t).all isBlank = false := by rw [all_isBlank_append _ _ hmg]; exact ht
      simp [hnb, dropPrefix?_append_self]

theorem prepLines_step (docstr : Str) (l0 l1 : Str) (rest : List Str) (i0 i1 : Nat) (is : List Nat)
    (h1 : dedentLines (splitOn '\n' docstr) = l0 :: l1 :: rest) (h2 : l0.length ≠ 0)
    (h3 : ((l0 :: l1 :: rest).filter (fun l => l.length > 0)).map getIndentation = i0 :: i1 :: is) :
    prepLines docstr = dedentLines ((leadOf (is.foldl min i1) (l1 :: rest) ++ l0) :: l1 :: rest) := by
  unfold prepLines
  simp only [h1]
  have : (l0.length != 0) = true := by simpa using h2
  simp only [this, if_true, h3]

theorem isSpace_of_isBlank (c : Char) (h : isBlank c = true) : isSpace c = true := by
  simp only [isBlank, Bool.or_eq_true, beq_iff_eq] at h
  rcases h with rfl | rfl <;> decide +kernel

theorem all_isSpace_of_all_isBlank (mg : Str) (h : mg.all isBlank = true) : mg.all isSpace = true := by
  simp only [List.all_eq_true] at *
  intro c hc; exact isSpace_of_isBlank c (h c hc)

theorem getIndentation_eq (l : Str) : getIndentation l = (l.takeWhile isSpace).length := by
  unfold getIndentation lstrip
  have := List.takeWhile_append_dropWhile (p := isSpace) (l := l)
  have h2 := congrArg List.length this
  simp only [List.length_append] at h2
  omega

theorem getIndentation_append (mg t : Str) (h : mg.all isSpace = true) :
    getIndentation (mg ++ t) = mg.length + getIndentation t := by
  rw [getIndentation_eq, getIndentation_eq]
  induction mg with
  | nil => simp
  | cons c mg ih =>
    simp only [List.all_cons, Bool.and_eq_true] at h
    simp only [List.cons_append, List.takeWhile_cons, h.1, if_true, List.length_cons, ih h.2]
    omega

theorem foldl_min_eq (k i : Nat) (is : List Nat) (hall : ∀ x ∈ i :: is, k ≤ x) (hmem : k ∈ i :: is) :
    is.foldl min i = k := by
  induction is generalizing i with
  | nil => simp at hmem; simpa using hmem.symm
  | cons j js ih =>
    simp only [List.foldl_cons]
    apply ih
    · intro x hx
      rcases List.mem_cons.mp hx with rfl | hx
      · have := hall i (List.mem_cons_self); have := hall j (List.mem_cons_of_mem _ List.mem_cons_self); omega
      · exact hall x (List.mem_cons_of_mem _ (List.mem_cons_of_mem _ hx))
    · rcases List.mem_cons.mp hmem with rfl | hm
      · have := hall j (List.mem_cons_of_mem _ List.mem_cons_self)
        have : min k j = k := by omega
        rw [this]; exact List.mem_cons_self
      · rcases List.mem_cons.mp hm with rfl | hm
        · have := hall i List.mem_cons_self
          have : min i k = k := by omega
          rw [this]; exact List.mem_cons_self
        · exact List.mem_cons_of_mem _ hm

theorem unmargin_unmargin_nil (mg l : Str) : unmargin mg (unmargin [] l) = unmargin mg l := by
  unfold unmargin
  by_cases h : l.all isBlank = true
  · simp [h]
  · simp [h]

/-- a non-empty line of the first dedent's output is a line of the body that starts with the margin -/
theorem mem_body'_shape (mg : Str) (body : List Str) (hmg : mg.all isBlank = true)
    (hall : ∀ l ∈ body, HasMargin mg l) (y : Str) (hy : y ∈ body.map (unmargin [])) (hlen : y.length > 0) :
    ∃ t, y = mg ++ t ∧ t.all isBlank = false := by
  obtain ⟨l, hl, rfl⟩ := List.mem_map.mp hy
  rcases hall l hl with hb | ⟨t, rfl, ht⟩
  · simp [unmargin, hb] at hlen
  · have hnb : (mg ++ t).all isBlank = false := by rw [all_isBlank_append _ _ hmg]; exact ht
    exact ⟨t, by simp [unmargin, hnb], ht⟩

/-- **The first-line rule of `split_google_docblocks` (after repair 6117f16).**  The docstring's first line starts with
    text (it follows the opening quotes), every other line is whitespace-only or starts with the margin `mg` — ANY string of
    blanks and tabs — and one of them is indented by exactly the margin. Then the lines the block splitter works on are the
    first line as it is, followed by the other lines with the margin removed (whitespace-only lines emptied). -/
theorem prepLines_margin (docstr : Str) (c0 : Char) (r0 : Str) (body : List Str) (mg : Str)
    (hsplit : splitOn '\n' docstr = (c0 :: r0) :: body)
    (hc0 : isSpace c0 = false)
    (hmg : mg.all isBlank = true)
    (hall : ∀ l ∈ body, HasMargin mg l)
    (hwit : ∃ l ∈ body, ∃ c r, l = mg ++ c :: r ∧ isSpace c = false) :
    prepLines docstr = (c0 :: r0) :: body.map (unmargin mg) := by
  have hb0 : isBlank c0 = false := by
    cases h : isBlank c0 with
    | false => rfl
    | true => rw [isSpace_of_isBlank c0 h] at hc0; cases hc0
  have hl0nb : (c0 :: r0).all isBlank = false := by simp [hb0]
  have hmgs := all_isSpace_of_all_isBlank mg hmg
  -- the first dedent only empties the whitespace-only lines
  have hd1 : dedentLines (splitOn '\n' docstr) = (c0 :: r0) :: body.map (unmargin []) := by
    rw [hsplit, dedentLines_margin [] _ rfl]
    · simp [unmargin, hl0nb]
    · intro l hl
      rcases List.mem_cons.mp hl with rfl | hl
      · right; exact ⟨c0 :: r0, rfl, hl0nb⟩
      · rcases hall l hl with hb | ⟨t, rfl, ht⟩
        · left; exact hb
        · right; exact ⟨mg ++ t, rfl, by rw [all_isBlank_append _ _ hmg]; exact ht⟩
    · exact ⟨c0 :: r0, List.mem_cons_self, c0, r0, rfl, hb0⟩
  obtain ⟨lw, hlw, cw, rw', rfl, hcw⟩ := hwit
  have hbw : isBlank cw = false := by
    cases h : isBlank cw with
    | false => rfl
    | true => rw [isSpace_of_isBlank cw h] at hcw; cases hcw
  have hwnb : (mg ++ cw :: rw').all isBlank = false := by
    rw [all_isBlank_append _ _ hmg]; simp [hbw]
  -- the witness survives the first dedent
  have hw' : (mg ++ cw :: rw') ∈ body.map (unmargin []) :=
    List.mem_map.mpr ⟨_, hlw, by simp [unmargin, hwnb]⟩
  have hwlen : (mg ++ cw :: rw').length > 0 := by simp; omega
  have hwind : getIndentation (mg ++ cw :: rw') = mg.length := by
    rw [getIndentation_append _ _ hmgs, getIndentation_eq]
    simp [List.takeWhile, hcw]
  -- the indentations of the non-empty later lines
  generalize hN : ((body.map (unmargin [])).filter (fun l => l.length > 0)).map getIndentation = N
  have hNall : ∀ x ∈ N, mg.length ≤ x := by
    intro x hx
    rw [← hN] at hx
    obtain ⟨y, hy, rfl⟩ := List.mem_map.mp hx
    obtain ⟨hy1, hy2⟩ := List.mem_filter.mp hy
    obtain ⟨t, rfl, _⟩ := mem_body'_shape mg body hmg hall y hy1 (by simpa using hy2)
    rw [getIndentation_append _ _ hmgs]; omega
  have hNmem : mg.length ∈ N := by
    rw [← hN]
    exact List.mem_map.mpr ⟨_, List.mem_filter.mpr ⟨hw', by simpa using hwlen⟩, hwind⟩
  obtain ⟨b, bs, hbody⟩ : ∃ b bs, body = b :: bs := by
    cases body with
    | nil => cases hlw
    | cons b bs => exact ⟨b, bs, rfl⟩
  cases N with
  | nil => cases hNmem
  | cons i1 is =>
    have hmin : is.foldl min i1 = mg.length := foldl_min_eq _ _ _ hNall hNmem
    have h3 : (((c0 :: r0) :: unmargin [] b :: bs.map (unmargin [])).filter (fun l => l.length > 0)).map getIndentation
        = getIndentation (c0 :: r0) :: i1 :: is := by
      rw [List.filter_cons_of_pos (by simp), List.map_cons, ← hN, hbody, List.map_cons]
    have hstep := prepLines_step docstr (c0 :: r0) (unmargin [] b) (bs.map (unmargin [])) _ i1 is
      (by rw [hd1, hbody, List.map_cons]) (by simp) h3
    rw [hstep, hmin]
    -- what the first line is padded with is the margin itself
    have hlead : leadOf mg.length (unmargin [] b :: bs.map (unmargin [])) = mg := by
      have hb' : unmargin [] b :: bs.map (unmargin []) = body.map (unmargin []) := by rw [hbody, List.map_cons]
      rw [hb']
      unfold leadOf
      cases hf : (body.map (unmargin [])).find? (fun l => decide (l.length > 0) && getIndentation l == mg.length) with
      | none =>
        have := List.find?_eq_none.mp hf _ hw'
        simp [hwind] at this
      | some y =>
        have hp := List.find?_some hf
        have hy := List.mem_of_find?_eq_some hf
        simp only [Bool.and_eq_true, decide_eq_true_eq, beq_iff_eq] at hp
        obtain ⟨t, rfl, _⟩ := mem_body'_shape mg body hmg hall y hy hp.1
        simp
    rw [hlead]
    have hb' : unmargin [] b :: bs.map (unmargin []) = body.map (unmargin []) := by rw [hbody, List.map_cons]
    rw [hb', dedentLines_margin mg _ hmg]
    · have h0 : unmargin mg (mg ++ c0 :: r0) = c0 :: r0 := by
        have : (mg ++ c0 :: r0).all isBlank = false := by rw [all_isBlank_append _ _ hmg]; exact hl0nb
        simp [unmargin, this]
      simp only [List.map_cons, h0, List.map_map]
      congr 1
      apply List.map_congr_left
      intro l _
      exact unmargin_unmargin_nil mg l
    · intro l hl
      rcases List.mem_cons.mp hl with rfl | hl
      · right; exact ⟨c0 :: r0, rfl, hl0nb⟩
      · obtain ⟨l', hl', rfl⟩ := List.mem_map.mp hl
        rcases hall l' hl' with hb | ⟨t, rfl, ht⟩
        · left; simp [unmargin, hb]
        · right
          have hnb : (mg ++ t).all isBlank = false := by rw [all_isBlank_append _ _ hmg]; exact ht
          exact ⟨t, by simp [unmargin, hnb], ht⟩
    · exact ⟨mg ++ c0 :: r0, List.mem_cons_self, c0, r0, rfl, hb0⟩

/-- the padding before the repair: `' ' * indent_adjust` -/
def prepLinesOld (docstr : Str) : List Str :=
  let ls := dedentLines (splitOn '\n' docstr)
  match ls with
  | l0 :: l1 :: rest =>
    if l0.length != 0 then
      match ((l0 :: l1 :: rest).filter (fun l => l.length > 0)).map getIndentation with
      | _ :: i1 :: is =>
        dedentLines ((List.replicate (is.foldl min i1) ' ' ++ l0) :: l1 :: rest)
      | _ => ls
    else ls
  | _ => ls

def tabDoc : Str := "Summary.\n\tExample:\n\t\t>>> f()\n\t".toList

/-- with the old padding the conclusion of `prepLines_margin` fails for a tab margin (nothing is dedented) … -/
theorem prepLines_margin_old_padding_fails :
    prepLinesOld tabDoc = [" Summary.".toList, "\tExample:".toList, "\t\t>>> f()".toList, []] := by decide +kernel

/-- … and the repaired code gives what the theorem says (non-vacuity: the hypotheses hold for this docstring with `mg = "\t"`) -/
theorem prepLines_margin_tab_witness :
    prepLines tabDoc = ["Summary.".toList, "Example:".toList, "\t>>> f()".toList, []] ∧
    (splitGoogle tabDoc).map (fun b => (b.key, b.offset)) = [("__DOC__".toList, 0), ("Example".toList, 1)] := by decide +kernel

example : prepLines tabDoc = ("Summary.".toList) :: ["\tExample:".toList, "\t\t>>> f()".toList, "\t".toList].map (unmargin "\t".toList) :=
  prepLines_margin tabDoc 'S' "ummary.".toList _ "\t".toList (by decide +kernel) (by decide +kernel) (by decide +kernel)
    (by
      intro l hl
      simp only [List.mem_cons, List.not_mem_nil, or_false] at hl
      rcases hl with rfl | rfl | rfl
      · right; exact ⟨"Example:".toList, by decide +kernel, by decide +kernel⟩
      · right; exact ⟨"\t>>> f()".toList, by decide +kernel, by decide +kernel⟩
      · left; decide +kernel)
    ⟨"\tExample:".toList, by simp, 'E', "xample:".toList, by decide +kernel, by decide +kernel⟩
end Xdoc.Google

import XdocModel.Proofs.C19
/-!
# C19 — the star-import filter of the dump, statement by statement

`dump_body_is_source` states what the dumped function body is in terms of `kept p`; the theorems here
state what `kept p` is in terms of the part's own exec lines, for ALL parts (no cleanliness hypothesis):
a line is dumped iff it is an exec line without `' import *'` (`mem_kept_iff`), as often as it occurs
in the source (`count_kept`), in source order (`kept_sublist`); nothing is dropped when there is no
star import (`kept_eq_of_no_star`); the filter acts line by line, so that consecutive star imports
all go (`removeStar_append`, `removeStar_cons_star`, cf. seeded change C19-5A) and a second pass
changes nothing (`removeStar_idem`).
-/
namespace Xdoc.C19
open Xdoc Py Format Dump

/-- the predicate of the filter: `' import *' in line` -/
def isStar (l : Str) : Bool := contains " import *".toList l

theorem removeStar_eq_filter (ls : List Str) : removeStar ls = ls.filter (fun l => !isStar l) := rfl

theorem mem_removeStar_iff (ls : List Str) (l : Str) :
    l ∈ removeStar ls ↔ l ∈ ls ∧ isStar l = false := by
  simp [removeStar_eq_filter]

/-- a line is dumped iff it is one of the part's exec lines and holds no `' import *'` -/
theorem mem_kept_iff (p : Part) (l : Str) : l ∈ kept p ↔ l ∈ p.execLines ∧ isStar l = false :=
  mem_removeStar_iff _ _

/-- the dumped lines of a part are its exec lines in source order, some left out, none invented -/
theorem kept_sublist (p : Part) : List.Sublist (kept p) p.execLines := by
  unfold kept; rw [removeStar_eq_filter]; exact List.filter_sublist

/-- every line that is not a star import is dumped exactly as often as the source has it -/
theorem count_kept (p : Part) (l : Str) (h : isStar l = false) :
    (kept p).count l = p.execLines.count l := by
  unfold kept; rw [removeStar_eq_filter, List.count_filter]; simp [h]

/-- a star import is never dumped -/
theorem count_kept_star (p : Part) (l : Str) (h : isStar l = true) : (kept p).count l = 0 := by
  rw [List.count_eq_zero]; intro hm; have := (mem_kept_iff p l).1 hm; simp [h] at this

/-- no star import among the exec lines: the dump has every one of them, unchanged -/
theorem kept_eq_of_no_star (p : Part) (h : ∀ l ∈ p.execLines, isStar l = false) :
    kept p = p.execLines := by
  unfold kept; rw [removeStar_eq_filter, List.filter_eq_self]; intro l hl; simp [h l hl]

/-- the filter acts line by line … -/
theorem removeStar_append (a b : List Str) : removeStar (a ++ b) = removeStar a ++ removeStar b := by
  simp [removeStar_eq_filter]

/-- … so a star import goes whatever precedes or follows it (two consecutive ones both go) -/
theorem removeStar_cons_star (l : Str) (ls : List Str) (h : isStar l = true) :
    removeStar (l :: ls) = removeStar ls := by
  simp [removeStar_eq_filter, h]

theorem removeStar_cons_keep (l : Str) (ls : List Str) (h : isStar l = false) :
    removeStar (l :: ls) = l :: removeStar ls := by
  simp [removeStar_eq_filter, h]

theorem removeStar_idem (ls : List Str) : removeStar (removeStar ls) = removeStar ls := by
  simp [removeStar_eq_filter]

/-- the number of lines the dump leaves out of a part is the number of its star imports -/
theorem kept_length (p : Part) :
    (kept p).length + (p.execLines.filter isStar).length = p.execLines.length := by
  unfold kept; rw [removeStar_eq_filter]
  induction p.execLines with
  | nil => rfl
  | cons x xs ih => cases hx : isStar x <;> simp [hx] <;> omega

-- non-vacuity: two consecutive star imports (one with a trailing remark) between two statements
example : removeStar ["x = 1".toList, "from os import *".toList, "from sys import *  # all".toList,
    "print(x)".toList] = ["x = 1".toList, "print(x)".toList] := by decide +kernel

end Xdoc.C19

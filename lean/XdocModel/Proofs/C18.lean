import XdocModel.Lemmas.Lines
import XdocModel.Parser
/-!
# C18 — Displayed doctest source is faithful and re-parses to the same doctest

Theorems about `Format.formatPart` / `formatParts` / `formatSrc` (the model of
`DoctestPart.format_part`, `DocTest.format_parts`, `DocTest.format_src` with `colored=False`) for
ALL part lists whose lines are "clean": no character at which `str.splitlines` breaks inside a
line, and no empty last line (`'\n'.join(lines).splitlines()` silently drops an empty last line —
the parser never produces one: its lines come from `splitlines`, and every orig line starts with a
prompt). The re-parse statement is kept in full as `ReparseSame`; proved is its core: the line
list the labeller receives is exactly the prompt-prefixed source lines followed by the want lines,
part after part.
-/
namespace Xdoc.C18
open Xdoc Py Format

/-- lines that survive `'\n'.join(...).splitlines()` unchanged -/
def CleanLines (ls : List Str) : Prop := (∀ l ∈ ls, NoBreak l) ∧ ls.getLast? ≠ some []

/-- a part as the parser builds it: original (prompt-prefixed) lines present and non-empty -/
structure CleanPart (p : Part) : Prop where
  orig : ∃ x ls, p.origLines = some (x :: ls) ∧ CleanLines (x :: ls)
  want : CleanLines (p.wantLines.getD [])

def origOf (p : Part) : List Str := p.origLines.getD []
def wantOf (p : Part) : List Str := p.wantLines.getD []

theorem want_text_lines (p : Part) (h : CleanLines (wantOf p)) :
    wantText p = joinWith ['\n'] (wantOf p) ∧
    ((wantText p).isEmpty = true ↔ wantOf p = []) := by
  unfold wantText Part.want wantOf at *
  cases hw : p.wantLines with
  | none => simp [joinWith]
  | some wl =>
    cases wl with
    | nil => simp [joinWith]
    | cons l ls =>
      simp only [Option.getD_some, true_and]
      rw [hw] at h
      simp only [Option.getD_some] at h
      constructor
      · intro he
        exfalso
        -- an empty joined text means the only line is empty, which `CleanLines` excludes
        cases ls with
        | nil => simp [joinWith] at he; exact h.2 (by simp [he])
        | cons m r => simp [joinWith] at he
      · intro he; cases he

theorem want_lines_fmt (p : Part) (h : CleanLines (wantOf p)) (f : Str → Str) :
    (if (wantText p).isEmpty = true then [] else (splitLines (wantText p)).map f) = (wantOf p).map f := by
  obtain ⟨hw1, hw2⟩ := want_text_lines p h
  by_cases he : wantOf p = []
  · rw [if_pos (hw2.mpr he), he]; rfl
  · rw [if_neg (fun hh => he (hw2.mp hh)), hw1, splitLines_joinWith _ h.1 h.2]

/-- the two line lists of `format_part` without numbers: the original lines, the want lines -/
theorem formatPartLines_plain (p : Part) (hp : CleanPart p) (o : FmtOpts)
    (h1 : o.linenos = false) (h2 : o.partnos = false) (h3 : o.prefix_ = true) (h4 : o.want = true) :
    formatPartLines p o = (origOf p, wantOf p) := by
  obtain ⟨x, ls, ho, hc⟩ := hp.orig
  unfold formatPartLines
  simp only [h1, h2, h3, h4, ho, ↓reduceIte, Bool.false_eq_true]
  rw [splitLines_joinWith _ hc.1 hc.2, want_lines_fmt p hp.want]
  simp [origOf, ho]

theorem splitOn_joinWith_clean (x : Str) (ls : List Str) (h : ∀ l ∈ x :: ls, NoBreak l) :
    splitOn '\n' (joinWith ['\n'] (x :: ls)) = x :: ls := by
  rw [splitOn_joinWith, flatMap_splitOn_noNL _ (fun l hl => (h l hl).no_nl)]

/-- ★ `format_lines_faithful` (one part): the `\n`-separated lines of the formatted text are the
    original source lines then the want lines — each once, in order, nothing else -/
theorem format_part_faithful (p : Part) (hp : CleanPart p) (o : FmtOpts)
    (h1 : o.linenos = false) (h2 : o.partnos = false) (h3 : o.prefix_ = true) (h4 : o.want = true) :
    splitOn '\n' (formatPart p o) = origOf p ++ wantOf p := by
  unfold formatPart
  rw [formatPartLines_plain p hp o h1 h2 h3 h4]
  obtain ⟨x, ls, ho, hc⟩ := hp.orig
  simp only [origOf, ho, Option.getD_some]
  cases hw : wantOf p with
  | nil => simp [splitOn_joinWith_clean x ls hc.1]
  | cons y r =>
    have hwc := hp.want
    unfold wantOf at hw
    rw [hw] at hwc
    simp only [List.isEmpty_cons, Bool.false_eq_true, ↓reduceIte, List.append_assoc, List.singleton_append]
    rw [splitOn_append_nl, splitOn_joinWith_clean x ls hc.1, splitOn_joinWith_clean y r hwc.1]

/-- ★ `format_lines_faithful`: without colours and numbers the displayed text is, part after part,
    `orig_lines` then `want_lines`, each line once, in order -/
theorem format_lines_faithful (parts : List Part) (hp : ∀ p ∈ parts, CleanPart p) (hne : parts ≠ [])
    (lineno : Nat) (o : SrcOpts)
    (h1 : o.linenos = false) (h2 : o.partnos = false) (h3 : o.prefix_ = true) (h4 : o.want = true) :
    splitOn '\n' (formatSrc parts lineno o) = parts.flatMap (fun p => origOf p ++ wantOf p) := by
  unfold formatSrc formatParts
  have key : ∀ (qs : List Part), (∀ p ∈ qs, CleanPart p) →
      (qs.map fun p => formatPart p (partOpts parts lineno o)).flatMap (splitOn '\n') =
        qs.flatMap (fun p => origOf p ++ wantOf p) := by
    intro qs hq
    induction qs with
    | nil => rfl
    | cons q qs ih =>
      simp only [List.map_cons, List.flatMap_cons]
      rw [format_part_faithful q (hq q (by simp)) _ (by simp [partOpts, h1]) (by simp [partOpts, h2])
        (by simp [partOpts, h3]) (by simp [partOpts, h4]), ih (fun p hp' => hq p (List.mem_cons_of_mem _ hp'))]
  cases parts with
  | nil => exact absurd rfl hne
  | cons q qs =>
    rw [List.map_cons, splitOn_joinWith]
    exact key (q :: qs) hp

/-! ## line numbers -/

theorem addLineNumbersFrom_getElem? (nd c : Nat) (ls : List Str) (i : Nat) :
    (addLineNumbersFrom nd c ls)[i]? = ls[i]?.map (numbered nd (c + i)) := by
  induction ls generalizing c i with
  | nil => simp [addLineNumbersFrom]
  | cons l ls ih =>
    cases i with
    | zero => simp [addLineNumbersFrom]
    | succ i =>
      simp only [addLineNumbersFrom, List.getElem?_cons_succ, ih]
      congr 2; omega

/-- the start line `format_parts` uses: 1 (doctest-relative) or the doctest's line in the file -/
def startlineOf (lineno : Nat) (o : SrcOpts) : Nat := if o.linenos && o.offsetLinenos then lineno else 1

/-- the one digit count `format_parts` hands to every part -/
def digitsOf (parts : List Part) (lineno : Nat) (o : SrcOpts) : Nat :=
  nDigits (startlineOf lineno o + (parts.map Part.nLines).sum)

/-- ★ `line_numbers_correct`: with line numbers on, the i-th displayed source line of a part is
    the decimal numeral of `startline + line_offset + i` (doctest-relative: `startline = 1`;
    file-relative: `= lineno`), right-justified in ONE field width for the whole doctest, one blank,
    then the original line; the want lines are shifted by that width plus one; the numeral denotes
    that number -/
theorem line_numbers_correct (parts : List Part) (lineno : Nat) (o : SrcOpts) (p : Part) (hp : CleanPart p)
    (h1 : o.linenos = true) (h2 : o.partnos = false) (h3 : o.prefix_ = true) (h4 : o.want = true) :
    let nd := digitsOf parts lineno o
    let start := startlineOf lineno o
    (∀ i, (formatPartLines p (partOpts parts lineno o)).1[i]? =
        (origOf p)[i]?.map (fun l => rjust nd (decimal (start + p.lineOffset + i)) ++ [' '] ++ l)) ∧
    (formatPartLines p (partOpts parts lineno o)).2 = (wantOf p).map (List.replicate (nd + 1) ' ' ++ ·) ∧
    (∀ k, Nat.ofDigitChars 10 (decimal k) 0 = k) := by
  intro nd start
  obtain ⟨x, ls, ho, hc⟩ := hp.orig
  refine ⟨?_, ?_, fun k => Nat.ofDigitChars_ten_toDigits⟩
  · intro i
    unfold formatPartLines partOpts
    simp only [h1, h2, h3, ho, ↓reduceIte, Bool.false_eq_true]
    rw [splitLines_joinWith _ hc.1 hc.2]
    simp only [addLineNumbers, Option.getD_some, origOf, ho]
    rw [addLineNumbersFrom_getElem?]
    simp only [nd, start, digitsOf, startlineOf, h1]
    rfl
  · unfold formatPartLines partOpts
    simp only [h1, h2, h3, h4, ho, ↓reduceIte, Bool.false_eq_true]
    rw [want_lines_fmt p hp.want]
    simp only [nd, digitsOf, startlineOf, h1, Nat.zero_add]

/-- same width: a number below `10^nd` is displayed in exactly `nd` columns -/
theorem number_width (nd k : Nat) (hnd : 0 < nd) (hk : k < 10 ^ nd) : (rjust nd (decimal k)).length = nd := by
  have : (decimal k).length ≤ nd := (Nat.length_toDigits_le_iff (by omega) hnd).mpr hk
  simp [rjust]; omega

/-- `nDigits` is large enough: `endline ≤ 10 ^ nDigits endline` -/
theorem nDigitsAux_spec (n fuel d : Nat) (hf : n ≤ 10 ^ (d + fuel)) : n ≤ 10 ^ nDigitsAux n fuel d (10 ^ d) := by
  induction fuel generalizing d with
  | zero => simpa [nDigitsAux] using hf
  | succ f ih =>
    simp only [nDigitsAux]
    split
    · assumption
    · have := ih (d + 1) (by rw [show d + 1 + f = d + (f + 1) by omega]; exact hf)
      rwa [Nat.pow_succ] at this

theorem le_pow_nDigits (n : Nat) : n ≤ 10 ^ nDigits n := by
  unfold nDigits
  have h : max 1 n ≤ 10 ^ (0 + max 1 n) := by
    rw [Nat.zero_add]; exact Nat.le_of_lt (Nat.lt_pow_self (by omega))
  have := nDigitsAux_spec (max 1 n) (max 1 n) 0 h
  simp only [Nat.pow_zero] at this
  omega

/-- BEYOND THE PROPERTY (alignment is not claimed by C18; kept as a remark about the model):
    all displayed numbers have the same width whenever every displayed line number is below the
    doctest's `endline = startline + Σ n_lines` (true when no text lies between the parts; see the
    witness below for what the code does otherwise) -/
theorem same_width (parts : List Part) (lineno : Nat) (o : SrcOpts) (k : Nat)
    (hk : k < startlineOf lineno o + (parts.map Part.nLines).sum) (hnd : 0 < digitsOf parts lineno o) :
    (rjust (digitsOf parts lineno o) (decimal k)).length = digitsOf parts lineno o :=
  number_width _ k hnd (Nat.lt_of_lt_of_le hk (le_pow_nDigits _))

/-! ## re-parsing -/

/-- the doctest parts of a parse result -/
def partsOf (pieces : List Parser.Piece) : List Part :=
  pieces.filterMap fun x => match x with | .part p => some p.part | .text _ => none

/-- ☆ the full statement (NOT proved: it needs `labels_are_intended` for the grammar of formatted
    text, a C13 stretch goal): formatting the parts of a parsed doctest (prompts and wants, no
    numbers) and parsing the text again gives the same executable lines, wants and modes -/
def ReparseSame : Prop :=
  ∀ (docstr : Str) (facts : List Parser.ChunkFacts) (pieces : List Parser.Piece),
    Parser.parse docstr facts = .ok pieces →
    ∃ facts' pieces', Parser.parse (formatSrc (partsOf pieces) 0 { linenos := false }) facts' = .ok pieces' ∧
      ((partsOf pieces').map (·.execLines)).flatten = ((partsOf pieces).map (·.execLines)).flatten ∧
      ((partsOf pieces').filterMap Part.want) = ((partsOf pieces).filterMap Part.want) ∧
      ((partsOf pieces').filter (·.wantLines.isSome)).map (·.compileMode) =
        ((partsOf pieces).filter (·.wantLines.isSome)).map (·.compileMode)

theorem expandTabsGo_noTab (s : Str) (h : '\t' ∉ s) (col : Nat) : Parser.expandTabsGo col s = s := by
  induction s generalizing col with
  | nil => rfl
  | cons c s ih =>
    have hc : c ≠ '\t' := fun e => h (by simp [e])
    have hs : '\t' ∉ s := fun hm => h (List.mem_cons_of_mem _ hm)
    simp only [Parser.expandTabsGo, beq_iff_eq, hc, ↓reduceIte, Bool.or_eq_true]
    split <;> rw [ih hs]

theorem joinWith_splitOn (s : Str) : joinWith ['\n'] (splitOn '\n' s) = s := by
  induction s with
  | nil => rfl
  | cons c s ih =>
    simp only [splitOn]
    cases hs : splitOn '\n' s with
    | nil => exact absurd hs (splitOn_ne_nil s)
    | cons h t =>
      rw [hs] at ih
      split
      · next hc => subst hc; simp [joinWith, ih]
      · cases t with
        | nil => simp [joinWith] at ih ⊢; exact ih
        | cons y t => simp [joinWith] at ih ⊢; exact ih

theorem mem_joinWith_nl {c : Char} {ls : List Str} (h : c ∈ joinWith ['\n'] ls) : c = '\n' ∨ ∃ l ∈ ls, c ∈ l := by
  induction ls with
  | nil => simp [joinWith] at h
  | cons x r ih =>
    cases r with
    | nil => exact Or.inr ⟨x, by simp, by simpa [joinWith] using h⟩
    | cons y r =>
      simp only [joinWith, List.append_assoc, List.mem_append, List.mem_cons, List.not_mem_nil, or_false] at h
      rcases h with h | h | h
      · exact Or.inr ⟨x, by simp, h⟩
      · exact Or.inl h
      · rcases ih h with h | ⟨l, hl, hc⟩
        · exact Or.inl h
        · exact Or.inr ⟨l, List.mem_cons_of_mem _ hl, hc⟩

/-- the provable core of `reparse_same` (`reparse_input_determined`): for clean parts the formatted
    text IS the `\n`-join of the prompt-prefixed source lines and the want lines, part after part,
    and (no tabs in them) `expandtabs` leaves it alone — so what the second parse sees is determined
    by `orig_lines` and `want_lines` alone, each line once, in order. What is missing for
    `ReparseSame`: that the labeller gives those lines their intended labels (C13 stretch goal). -/
theorem reparse_same_partial (parts : List Part) (hp : ∀ p ∈ parts, CleanPart p) (hne : parts ≠ [])
    (hnotab : ∀ p ∈ parts, ∀ l ∈ origOf p ++ wantOf p, '\t' ∉ l) :
    formatSrc parts 0 { linenos := false } = joinWith ['\n'] (parts.flatMap (fun p => origOf p ++ wantOf p)) ∧
    Parser.expandTabs (formatSrc parts 0 { linenos := false }) = formatSrc parts 0 { linenos := false } := by
  have hlines := format_lines_faithful parts hp hne 0 { linenos := false } rfl rfl rfl rfl
  have h1 : formatSrc parts 0 { linenos := false } =
      joinWith ['\n'] (parts.flatMap (fun p => origOf p ++ wantOf p)) := by
    rw [← hlines, joinWith_splitOn]
  refine ⟨h1, ?_⟩
  apply expandTabsGo_noTab
  rw [h1]
  intro hm
  rcases mem_joinWith_nl hm with h | ⟨l, hl, hc⟩
  · cases h
  · obtain ⟨p, hpm, hlp⟩ := List.mem_flatMap.mp hl
    exact hnotab p hpm l hlp hc

/-! non-vacuity and the width witness -/
def exParts : List Part :=
  [{ execLines := ["x = 1".toList], origLines := some [">>> x = 1".toList], lineOffset := 0 },
   { execLines := ["x".toList], wantLines := some ["1".toList], origLines := some [">>> x".toList],
     lineOffset := 1, compileMode := .eval }]

example : formatSrc exParts 8 { linenos := true, offsetLinenos := true } =
    " 8 >>> x = 1\n 9 >>> x\n   1".toList := by decide +kernel

example : formatSrc exParts 7 { linenos := false } = ">>> x = 1\n>>> x\n1".toList := by decide +kernel

theorem exParts_clean : ∀ p ∈ exParts, CleanPart p := by
  intro p hp
  simp only [exParts, List.mem_cons, List.not_mem_nil, or_false] at hp
  rcases hp with rfl | rfl
  · exact ⟨⟨_, _, rfl, by
      refine ⟨?_, by simp⟩
      intro l hl c hc
      simp only [List.mem_cons, List.not_mem_nil, or_false] at hl
      subst hl
      revert c hc
      decide +kernel⟩, by simp [CleanLines]⟩
  · refine ⟨⟨_, _, rfl, ?_⟩, ?_⟩
    · refine ⟨?_, by simp⟩
      intro l hl c hc
      simp only [List.mem_cons, List.not_mem_nil, or_false] at hl
      subst hl
      revert c hc
      decide +kernel
    · refine ⟨?_, by simp⟩
      intro l hl c hc
      simp only [Option.getD_some, List.mem_cons, List.not_mem_nil, or_false] at hl
      subst hl
      revert c hc
      decide +kernel

/-- BEYOND THE PROPERTY (C18 speaks about the displayed NUMBERS, not about the width of their column; the
    check's verdict does not depend on alignment): prose between two chunks is not counted in `n_lines`, so the digit
    count is too small for the later line numbers and the display is misaligned: `'2 '` vs `'104 '` -/
def gapParts : List Part :=
  [{ execLines := ["a = 1".toList], origLines := some [">>> a = 1".toList], lineOffset := 0 },
   { execLines := ["a".toList], wantLines := some ["1".toList], origLines := some [">>> a".toList],
     lineOffset := 103, compileMode := .eval }]

theorem width_not_uniform_witness :
    formatSrc gapParts 1 { linenos := true } = "1 >>> a = 1\n104 >>> a\n  1".toList := by
  decide +kernel

end Xdoc.C18

import XdocModel.Plugin
import XdocModel.Lemmas.Plugin
import XdocModel.Lemmas.Runner
import XdocModel.Proofs.C10
/-!
# C15 — the pytest plugin and the native runner give the same verdict for every doctest

Both verdicts are functions of the outcome of the SAME run-loop model (`Example.lean`) on the same
parts and oracles; only `on_error` (`raise` / `return`) and the mode (`pytest` / `native`) differ.
The theorems hold for ALL part lists, requirement / execution / import oracles and option defaults.
-/
namespace Xdoc.C15
open Xdoc Py

variable {Env : Type}

/-! ## one doctest -/

/-- the core: how the two runs of the same doctest end, and that the verdicts read off them agree.
    The native run either returns a summary or lets the "Could not clean traceback" error escape
    (C09's hypothesis excludes the latter); in the first case the native verdict is the pytest
    verdict, in the second pytest reports `failed` and the native run is aborted. -/
theorem run_verdicts (sat : Str → Option Bool) (sem : Env → Nat → RunPart → ExecResult × Env)
    (defaults : List (String × Bool)) (importOk : Bool) (env0 : Env) (parts : List RunPart) :
    ((run sat sem (nativeCfg defaults importOk) env0 parts).ending = .returned ∧
      nativeVerdict (run sat sem (nativeCfg defaults importOk) env0 parts) =
        some (pytestVerdictOfRun (run sat sem (pytestCfg defaults importOk) env0 parts))) ∨
    ((run sat sem (nativeCfg defaults importOk) env0 parts).ending = .escaped ∧
      nativeVerdict (run sat sem (nativeCfg defaults importOk) env0 parts) = none ∧
      pytestVerdictOfRun (run sat sem (pytestCfg defaults importOk) env0 parts) = .failed) := by
  have eP := run_eq sat sem (pytestCfg defaults importOk) env0 parts
  have eN := run_eq sat sem (nativeCfg defaults importOk) env0 parts
  have hloop := runLoop_raise_ret sat sem (pytestCfg defaults importOk) (nativeCfg defaults importOk)
    rfl rfl rfl parts { env := env0, rs := RState.init defaults } 0 rfl
  have r := C02.run_result sat sem (nativeCfg defaults importOk) env0 parts
  have hl := runLoop_logged sat sem (nativeCfg defaults importOk) parts
    { env := env0, rs := RState.init defaults } 0 rfl
  have hdP : (pytestCfg defaults importOk).defaults = defaults := rfl
  have hdN : (nativeCfg defaults importOk).defaults = defaults := rfl
  rw [hdP, hloop] at eP
  rw [hdN] at eN r
  rcases hL : runLoop sat sem (nativeCfg defaults importOk) { env := env0, rs := RState.init defaults } 0 parts
    with ⟨sN, eNd⟩
  rw [hL] at eP eN r hl
  simp only at eP eN r hl
  obtain ⟨ePs, -, ePe⟩ := eP
  obtain ⟨-, eNsum, eNe⟩ := eN
  simp only [nativeVerdict, resultOfRun, pytestVerdictOfRun, anythingRan, ePs, ePe, eNsum, eNe]
  have hlog : sN.logged.isEmpty = sN.executed.isEmpty := by
    unfold LoggedOk at hl
    rw [← hl]; cases sN.logged <;> simp
  have hmN : (nativeCfg defaults importOk).pytestMode = false := rfl
  have hmP : (pytestCfg defaults importOk).pytestMode = true := rfl
  cases eNd with
  | none =>
    obtain ⟨hf, hcount⟩ := r.complete rfl
    simp only [liftEnd, pluginEndingOf, hmN, hmP, Bool.and_false, Bool.false_eq_true, ↓reduceIte, Bool.and_true]
    by_cases hsk : sN.skipped.length = parts.length
    · simp [hsk, summaryOf, hf, nativeVerdictOfResult, verdictOfSummary]
    · have hex : sN.executed ≠ [] := by
        intro hnil; rw [hnil] at hcount; simp at hcount; exact hsk hcount
      have : sN.executed.isEmpty = false := by cases h : sN.executed <;> simp_all
      simp [hsk, summaryOf, hf, nativeVerdictOfResult, verdictOfSummary, hlog, this]
  | some e =>
    have hstop := r.stopped rfl
    have hne : ¬ sN.skipped.length = parts.length := by omega
    rcases r.ending e rfl with ⟨he, _⟩ | ⟨he, hf⟩ | ⟨fl, _, hbad, _⟩
    · subst he
      cases hf : sN.failure with
      | none =>
        have hex := r.stoppedRan rfl hf
        have : sN.executed.isEmpty = false := by cases h : sN.executed <;> simp_all
        simp [liftEnd, liftEnd1, pluginEndingOf, hf, summaryOf, hne, nativeVerdictOfResult, verdictOfSummary, hlog, this]
      | some fl =>
        simp [liftEnd, liftEnd1, pluginEndingOf, hf, summaryOf, hne, nativeVerdictOfResult, verdictOfSummary]
    · subst he
      simp [liftEnd, liftEnd1, pluginEndingOf, nativeVerdictOfResult]
    · cases hbad

/-- native-disabled implies pytest-disabled (the pytest pattern list extends the native one) -/
theorem disabled_native_imp_pytest (src : Str) (h : isDisabled false src = true) :
    isDisabled true src = true := by
  simp only [isDisabled, disableKeywordsFor, List.any_eq_true] at h ⊢
  obtain ⟨kw, hkw, hm⟩ := h
  refine ⟨kw, ?_, hm⟩
  simp only [List.append_nil, Bool.false_eq_true, ↓reduceIte, List.mem_map] at hkw
  obtain ⟨k, hk, rfl⟩ := hkw
  simp only [↓reduceIte, List.map_append, List.mem_append, List.mem_map]
  exact Or.inl ⟨k, hk, rfl⟩

/-- ★ `front_ends_agree`: for every doctest that is not force-disabled and every run result (all
    parts, all oracles, all option defaults) the verdict pytest reports for the item equals the
    verdict the native runner reports (passed / failed / skipped), unless the "Could not clean
    traceback" error escapes `run` (then pytest says failed and the native run is aborted).
    A force-disabled doctest is `skipped` under pytest and omitted by the native `all`. -/
theorem front_ends_agree (sat : Str → Option Bool) (sem : Env → Nat → RunPart → ExecResult × Env)
    (defaults : List (String × Bool)) (importOk : Bool) (env0 : Env) (d : Doc) (parts : List RunPart) :
    let oP := run sat sem (pytestCfg defaults importOk) env0 parts
    let oN := run sat sem (nativeCfg defaults importOk) env0 parts
    (isDisabled true d.docsrc = false → oN.ending ≠ .escaped →
        nativeVerdict oN = some (pytestVerdict d.docsrc oP)) ∧
    (isDisabled true d.docsrc = false → oN.ending = .escaped →
        nativeVerdict oN = none ∧ pytestVerdict d.docsrc oP = .failed) ∧
    (isDisabled true d.docsrc = true → pytestVerdict d.docsrc oP = .skipped) ∧
    (isDisabled false d.docsrc = true → ∀ docs : List Doc, d ∉ nativeRun docs) := by
  have h := run_verdicts sat sem defaults importOk env0 parts
  intro oP oN
  refine ⟨?_, ?_, ?_, ?_⟩
  · intro hd hne
    rcases h with ⟨_, h2⟩ | ⟨h1, _⟩
    · simp only [pytestVerdict, hd, Bool.false_eq_true, ↓reduceIte]
      exact h2
    · exact absurd h1 hne
  · intro hd hesc
    rcases h with ⟨h1, _⟩ | ⟨_, h2, h3⟩
    · rw [hesc] at h1; cases h1
    · simp only [pytestVerdict, hd, Bool.false_eq_true, ↓reduceIte]
      exact ⟨h2, h3⟩
  · intro hd; simp [pytestVerdict, hd]
  · intro hd docs hmem
    have := (List.mem_filter.mp hmem).2
    simp [hd] at this

/-- the two front ends name the doctests of a module identically: pytest's item names are the
    names `list` prints -/
theorem same_identifiers (examples : List Entry) :
    pytestItems (examples.map (·.doc)) = listNames examples := by
  simp [pytestItems, listNames]

/-- the `anything_ran()` test of `runtest` never fires on its own: whenever `run` returns under
    pytest, something was logged (an all-skipped run has already called `pytest.skip()` inside
    `run`) -/
theorem anything_ran_redundant (sat : Str → Option Bool) (sem : Env → Nat → RunPart → ExecResult × Env)
    (defaults : List (String × Bool)) (importOk : Bool) (env0 : Env) (parts : List RunPart)
    (h : (run sat sem (pytestCfg defaults importOk) env0 parts).ending = .returned) :
    anythingRan (run sat sem (pytestCfg defaults importOk) env0 parts) = true := by
  have eP := run_eq sat sem (pytestCfg defaults importOk) env0 parts
  have r := C02.run_result sat sem (pytestCfg defaults importOk) env0 parts
  have hl := runLoop_logged sat sem (pytestCfg defaults importOk) parts
    { env := env0, rs := RState.init defaults } 0 rfl
  have hdP : (pytestCfg defaults importOk).defaults = defaults := rfl
  rw [hdP] at eP r
  rcases hL : runLoop sat sem (pytestCfg defaults importOk) { env := env0, rs := RState.init defaults } 0 parts
    with ⟨sN, eNd⟩
  rw [hL] at eP r hl
  simp only at eP r hl
  obtain ⟨ePs, -, ePe⟩ := eP
  rw [ePe] at h
  simp only [anythingRan, ePs]
  have hlog : sN.logged.isEmpty = sN.executed.isEmpty := by
    unfold LoggedOk at hl
    rw [← hl]; cases sN.logged <;> simp
  have key : sN.executed ≠ [] → (!sN.logged.isEmpty) = true := by
    intro hex
    have : sN.executed.isEmpty = false := by cases h' : sN.executed <;> simp_all
    simp [hlog, this]
  have hmP : (pytestCfg defaults importOk).pytestMode = true := rfl
  cases eNd with
  | none =>
    obtain ⟨hf, hcount⟩ := r.complete rfl
    by_cases hsk : sN.skipped.length = parts.length
    · simp [pluginEndingOf, hsk, hmP] at h
    · apply key
      intro hnil; rw [hnil] at hcount; simp at hcount; exact hsk hcount
  | some e =>
    simp only [pluginEndingOf] at h
    subst h
    rcases r.ending _ rfl with ⟨_, hf | hbad⟩ | ⟨hbad, _⟩ | ⟨fl, hbad, _, _⟩
    · exact key (r.stoppedRan rfl hf)
    · cases hbad
    · cases hbad
    · cases hbad

/-! ## the whole module: exit status -/

/-- a module as both front ends see it: collected doctests with their parts -/
abbrev Module := List (Doc × List RunPart)

def pytestVerdicts (sat : Str → Option Bool) (sem : Doc → Env → Nat → RunPart → ExecResult × Env)
    (defaults : List (String × Bool)) (importOk : Bool) (env0 : Env) (m : Module) : List Verdict :=
  m.map fun dp => pytestVerdict dp.1.docsrc (run sat (sem dp.1) (pytestCfg defaults importOk) env0 dp.2)

/-- the failing doctests of the module: not force-disabled, and the run records a failure -/
def SomeFailed (sat : Str → Option Bool) (sem : Doc → Env → Nat → RunPart → ExecResult × Env)
    (defaults : List (String × Bool)) (importOk : Bool) (env0 : Env) (m : Module) : Prop :=
  ∃ dp ∈ m, isDisabled false dp.1.docsrc = false ∧
    (run sat (sem dp.1) (nativeCfg defaults importOk) env0 dp.2).summary.failed = true

/-- ★ `both_exit_nonzero_iff_failed`: for every module with at least one collected doctest, all
    oracles and option defaults, when no "Could not clean traceback" error escapes and no doctest
    uses the pytest-only disabling pattern (K-C15-a), `pytest --xdoctest-modules` and
    `python -m xdoctest <mod> all` both exit non-zero exactly when some doctest that is not
    force-disabled failed. -/
theorem both_exit_nonzero_iff_failed (sat : Str → Option Bool)
    (sem : Doc → Env → Nat → RunPart → ExecResult × Env)
    (defaults : List (String × Bool)) (importOk : Bool) (env0 : Env) (m zeroDocs : Module)
    (hne : m ≠ [])
    (hz : ∀ z ∈ zeroDocs, z.1.callname ≠ cmdAll)
    (hesc : ∀ dp ∈ m, (run sat (sem dp.1) (nativeCfg defaults importOk) env0 dp.2).ending ≠ .escaped)
    (hsame : ∀ dp ∈ m, isDisabled true dp.1.docsrc = isDisabled false dp.1.docsrc) :
    (pytestExit (pytestVerdicts sat sem defaults importOk env0 m) ≠ 0 ↔
        SomeFailed sat sem defaults importOk env0 m) ∧
    (exitCode (doctestModule (mainCommand none) (C10.entriesOf sat sem defaults importOk env0 m)
        (C10.entriesOf sat sem defaults importOk env0 zeroDocs)) ≠ 0 ↔
        SomeFailed sat sem defaults importOk env0 m) := by
  -- per doctest: what the native result is, and when pytest says failed
  have hper : ∀ dp ∈ m,
      resultOfRun (run sat (sem dp.1) (nativeCfg defaults importOk) env0 dp.2) =
        .summary (run sat (sem dp.1) (nativeCfg defaults importOk) env0 dp.2).summary ∧
      (pytestVerdictOfRun (run sat (sem dp.1) (pytestCfg defaults importOk) env0 dp.2) = .failed ↔
        (run sat (sem dp.1) (nativeCfg defaults importOk) env0 dp.2).summary.failed = true) := by
    intro dp hdp
    have h := run_verdicts sat (sem dp.1) defaults importOk env0 dp.2
    have hx := C10.run_summary_exclusive sat (sem dp.1) (nativeCfg defaults importOk) env0 dp.2
    rcases h with ⟨h1, h2⟩ | ⟨h1, _⟩
    · have hres : resultOfRun (run sat (sem dp.1) (nativeCfg defaults importOk) env0 dp.2) =
          .summary (run sat (sem dp.1) (nativeCfg defaults importOk) env0 dp.2).summary := by
        simp [resultOfRun, h1]
      refine ⟨hres, ?_⟩
      simp only [nativeVerdict, hres, nativeVerdictOfResult, Option.some.injEq] at h2
      rw [← h2]
      simp only [verdictOfSummary]
      rcases hx with ⟨a, b, c⟩ | ⟨a, b, c⟩ | ⟨a, b, c⟩ <;> simp [a, b, c]
    · exact absurd h1 (hesc dp hdp)
  constructor
  · -- pytest
    have hnonempty : (pytestVerdicts sat sem defaults importOk env0 m).isEmpty = false := by
      cases m with
      | nil => exact absurd rfl hne
      | cons a l => simp [pytestVerdicts]
    simp only [pytestExit, hnonempty, Bool.false_eq_true, ↓reduceIte]
    have : (pytestVerdicts sat sem defaults importOk env0 m).contains .failed = true ↔
        SomeFailed sat sem defaults importOk env0 m := by
      simp only [List.contains_iff_mem, pytestVerdicts, List.mem_map, SomeFailed]
      constructor
      · rintro ⟨dp, hdp, hv⟩
        refine ⟨dp, hdp, ?_⟩
        unfold pytestVerdict at hv
        rw [hsame dp hdp] at hv
        cases hd : isDisabled false dp.1.docsrc
        · simp only [hd, Bool.false_eq_true, ↓reduceIte] at hv
          exact ⟨rfl, ((hper dp hdp).2).mp hv⟩
        · simp [hd] at hv
      · rintro ⟨dp, hdp, hd, hf⟩
        refine ⟨dp, hdp, ?_⟩
        unfold pytestVerdict
        rw [hsame dp hdp, hd]
        simp only [Bool.false_eq_true, ↓reduceIte]
        exact ((hper dp hdp).2).mpr hf
    rw [← this]
    cases (pytestVerdicts sat sem defaults importOk env0 m).contains .failed <;> simp
  · -- native: C10
    have hz' : ∀ z ∈ C10.entriesOf sat sem defaults importOk env0 zeroDocs, z.doc.callname ≠ cmdAll := by
      intro z hzm
      simp only [C10.entriesOf, List.mem_map] at hzm
      obtain ⟨dp, hdp, rfl⟩ := hzm
      exact hz dp hdp
    have hret : ∀ e ∈ C10.entriesOf sat sem defaults importOk env0 m,
        isDisabled false e.doc.docsrc = false → e.returns := by
      intro e he _
      simp only [C10.entriesOf, List.mem_map] at he
      obtain ⟨dp, hdp, rfl⟩ := he
      exact ⟨_, (hper dp hdp).1⟩
    have hex : ∀ e ∈ C10.entriesOf sat sem defaults importOk env0 m, ∀ s, e.result = .summary s → s.Exclusive :=
      fun e he => (C10.entriesOf_exclusive sat sem defaults importOk env0 m e he).2
    rw [C10.exit_nonzero_iff_failed _ _ hz' hret hex]
    simp only [SomeFailed, C10.entriesOf, List.mem_map]
    constructor
    · rintro ⟨e, ⟨dp, hdp, rfl⟩, hd, hf⟩
      refine ⟨dp, hdp, hd, ?_⟩
      simpa [Entry.failed, (hper dp hdp).1] using hf
    · rintro ⟨dp, hdp, hd, hf⟩
      refine ⟨_, ⟨dp, hdp, rfl⟩, hd, ?_⟩
      simpa [Entry.failed, (hper dp hdp).1] using hf

/-! ## options -/

/-- both option parsers feed `default_runtime_state` through the same function: given the same
    option string on the command line they produce the same defaults (when no option is given
    natively, a config file in the working directory may supply one that pytest never reads) -/
theorem option_parsers_agree (opts : Str) :
    pytestDefaults (some opts) = nativeDefaults (some opts) ∧
    pytestDefaults none = nativeDefaults none [] := by
  constructor <;> simp [pytestDefaults, nativeDefaults, populateFromCli]

/-! ## K-C15-a : the `# pytest.skip` pattern disables under pytest only -/

def kDoc : Doc := ⟨"f".toList, 0, ">>> # pytest.skip\n>>> print(1)\n2".toList⟩
def kParts : List RunPart :=
  [{ part := { execLines := ["# pytest.skip".toList, "print(1)".toList], wantLines := some ["2".toList] } }]
def kSem : Unit → Nat → RunPart → ExecResult × Unit := fun _ _ _ => (.ok "1\n".toList .notEvaled, ())

/-- witness of K-C15-a: a failing doctest whose first line is `>>> # pytest.skip` is force-disabled
    for pytest only: pytest reports `skipped` (exit status 0), the native runner runs it and
    reports `failed` (exit status 1) -/
theorem pytest_skip_pattern_disables_pytest_only :
    isDisabled true kDoc.docsrc = true ∧ isDisabled false kDoc.docsrc = false ∧
    pytestVerdict kDoc.docsrc (run (fun _ => some true) kSem (pytestCfg [] true) () kParts) = .skipped ∧
    nativeVerdict (run (fun _ => some true) kSem (nativeCfg [] true) () kParts) = some .failed ∧
    pytestExit [.skipped] = 0 ∧
    exitCode (doctestModule cmdAll
      [⟨kDoc, resultOfRun (run (fun _ => some true) kSem (nativeCfg [] true) () kParts)⟩] []) = 1 := by
  decide +kernel

/-! ### non-vacuity -/
section Examples
def exParts : List RunPart :=
  [{ part := { execLines := ["print(1)".toList], wantLines := some ["1".toList] } },
   { part := { execLines := ["print(3)".toList], wantLines := some ["4".toList] },
     directives := [{ name := "SKIP", inline := true }] }]
def exSem : Unit → Nat → RunPart → ExecResult × Unit := fun _ i _ =>
  (if i == 0 then .ok "1\n".toList .notEvaled else .ok "3\n".toList .notEvaled, ())
def exOne : List RunPart :=
  [{ part := { execLines := ["print(1)".toList], wantLines := some ["1".toList] } }]
def exDoc : Doc := ⟨"g".toList, 0, ">>> print(1)\n1\n>>> print(3)  # xdoctest: +SKIP\n4".toList⟩

example : isDisabled true exDoc.docsrc = false := by decide +kernel
example : (run (fun _ => some true) exSem (nativeCfg [] true) () exParts).ending ≠ .escaped := by decide +kernel
example : pytestVerdict exDoc.docsrc (run (fun _ => some true) exSem (pytestCfg [] true) () exParts) = .passed := by
  decide +kernel
example : nativeVerdict (run (fun _ => some true) exSem (nativeCfg [] true) () exParts) = some .passed := by
  decide +kernel
/-- under `--options=+SKIP` both say skipped (pytest through `pytest.skip()` inside `run`) -/
example : (run (fun _ => some true) exSem (pytestCfg [("SKIP", true)] true) () exOne).ending = .pytestSkip := by
  decide +kernel
example : nativeVerdict (run (fun _ => some true) exSem (nativeCfg [("SKIP", true)] true) () exOne) = some .skipped := by
  decide +kernel
example : pytestDefaults (some "-ELLIPSIS,+skip".toList) = some [("ELLIPSIS", false), ("SKIP", true)] := by
  decide +kernel
example : pytestDefaults (some "+nonsense".toList) = none := by decide +kernel
/-- a doctest that fails before anything ran (compile-only error in the first executed part, malformed
    directive, import error): pytest says failed (the error is re-raised), the native runner says failed -/
example : pytestVerdict [] (run C10.earlySat C10.earlySem (pytestCfg [] true) () C10.pCompile) = .failed ∧
    nativeVerdict (run C10.earlySat C10.earlySem (nativeCfg [] true) () C10.pCompile) = some .failed ∧
    pytestVerdict [] (run C10.earlySat C10.earlySem (pytestCfg [] true) () C10.pDirective) = .failed ∧
    nativeVerdict (run C10.earlySat C10.earlySem (nativeCfg [] true) () C10.pDirective) = some .failed ∧
    pytestVerdict [] (run C10.earlySat C10.earlySem (pytestCfg [] false) () C10.pPlain) = .failed ∧
    nativeVerdict (run C10.earlySat C10.earlySem (nativeCfg [] false) () C10.pPlain) = some .failed := by
  decide +kernel
end Examples

end Xdoc.C15

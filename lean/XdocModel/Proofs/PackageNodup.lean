import XdocModel.Static
/-!
# `package_modpaths` yields no path twice (properties C07 "each exactly once" and C10 "every collected doctest runs once")

The membership theorems of `Proofs/C07.lean` (`package_walk_spec`, `package_walk_inits`) say WHICH paths are
yielded; this file adds that each is yielded ONCE: `packageModpaths_nodup`, for every directory tree whose listings do
not repeat a name, every depth and every setting of `with_pkg` / `with_mod` / `recursive` / `check`. The proof is an
induction over the tree with three shape lemmas (a file of the directory is `path ++ [f]` with `f ≠ __init__.py`, a
sub-package's init is `path ++ [d, __init__.py]`, everything below is `path ++ d :: r` with `r` neither empty nor
`[__init__.py]`). Round-4 seed C10-4B (the root `__init__.py` also yielded "when the walk visits it") is a violation of
exactly this statement; `visit_variant_yields_root_twice` evaluates that variant in the kernel.
-/
namespace Xdoc.Static
open Xdoc Py

/-- names of the direct entries of a listing -/
def entryNames : Fs → List Str
  | .nil => []
  | .file n r => n :: entryNames r
  | .dir n _ r => n :: entryNames r

/-- no directory lists a name twice (what a file system guarantees) -/
def NamesDistinct : Fs → Prop
  | .nil => True
  | .file n r => n ∉ entryNames r ∧ NamesDistinct r
  | .dir n sub r => n ∉ entryNames r ∧ NamesDistinct sub ∧ NamesDistinct r

theorem mem_yieldFiles_shape (cfg : WalkCfg) (path : List Str) (l : Fs) (q : List Str)
    (h : q ∈ yieldFiles cfg path l) : ∃ n ∈ entryNames l, q = path ++ [n] ∧ n ≠ initPy := by
  induction l with
  | nil => simp [yieldFiles] at h
  | file n rest ih =>
    simp only [yieldFiles, List.mem_append] at h
    rcases h with h | h
    · split at h
      · rename_i hc
        simp only [List.mem_singleton] at h
        simp only [Bool.and_eq_true, bne_iff_ne, ne_eq] at hc
        exact ⟨n, by simp [entryNames], h, hc.2⟩
      · cases h
    · obtain ⟨m, hm, hq⟩ := ih h
      exact ⟨m, by simp [entryNames, hm], hq⟩
  | dir n sub rest _ ih =>
    simp only [yieldFiles] at h
    obtain ⟨m, hm, hq⟩ := ih h
    exact ⟨m, by simp [entryNames, hm], hq⟩

theorem mem_yieldInits_shape (path : List Str) (l : Fs) (q : List Str)
    (h : q ∈ yieldInits path l) : ∃ n ∈ entryNames l, q = path ++ [n, initPy] := by
  induction l with
  | nil => simp [yieldInits] at h
  | file n rest ih =>
    simp only [yieldInits] at h
    obtain ⟨m, hm, hq⟩ := ih h
    exact ⟨m, by simp [entryNames, hm], hq⟩
  | dir n sub rest _ ih =>
    simp only [yieldInits, List.mem_append] at h
    rcases h with h | h
    · split at h
      · simp only [List.mem_singleton] at h
        exact ⟨n, by simp [entryNames], h⟩
      · cases h
    · obtain ⟨m, hm, hq⟩ := ih h
      exact ⟨m, by simp [entryNames, hm], hq⟩

/-- what `yieldHere` yields below `path`: one more component that is not `__init__.py`, or a directory name and `__init__.py` -/
theorem mem_yieldHere_shape (cfg : WalkCfg) (path : List Str) (l : Fs) (q : List Str)
    (h : q ∈ yieldHere cfg path l) :
    ∃ n ∈ entryNames l, (q = path ++ [n] ∧ n ≠ initPy) ∨ q = path ++ [n, initPy] := by
  simp only [yieldHere, List.mem_append] at h
  rcases h with h | h
  · split at h
    · obtain ⟨n, hn, hq, hne⟩ := mem_yieldFiles_shape cfg path l q h
      exact ⟨n, hn, Or.inl ⟨hq, hne⟩⟩
    · cases h
  · split at h
    · obtain ⟨n, hn, hq⟩ := mem_yieldInits_shape path l q h
      exact ⟨n, hn, Or.inr hq⟩
    · cases h

/-- what the walk yields below `path`: at least two more components, and never just `[name, __init__.py]`... of the
    directory itself: `path ++ n :: r` with `r` neither empty nor `[__init__.py]` -/
theorem mem_walkSubs_shape (cfg : WalkCfg) (path : List Str) (l : Fs) (q : List Str)
    (h : q ∈ walkSubs cfg path l) :
    ∃ n ∈ entryNames l, ∃ r, q = path ++ n :: r ∧ r ≠ [] ∧ r ≠ [initPy] := by
  induction l generalizing path with
  | nil => simp [walkSubs] at h
  | file n rest ih =>
    simp only [walkSubs] at h
    obtain ⟨m, hm, r, hq⟩ := ih path h
    exact ⟨m, by simp [entryNames, hm], r, hq⟩
  | dir n sub rest ihs ihr =>
    simp only [walkSubs, List.mem_append] at h
    rcases h with h | h
    · split at h
      · simp only [List.mem_append] at h
        rcases h with h | h
        · obtain ⟨m, _, hq⟩ := mem_yieldHere_shape cfg (path ++ [n]) sub q h
          rcases hq with ⟨hq, hne⟩ | hq
          · refine ⟨n, by simp [entryNames], [m], by simp [hq], by simp, ?_⟩
            intro hc; simp only [List.cons.injEq, and_true] at hc; exact hne hc
          · exact ⟨n, by simp [entryNames], [m, initPy], by simp [hq], by simp, by simp⟩
        · obtain ⟨m, _, r, hq, hr1, _⟩ := ihs (path ++ [n]) h
          refine ⟨n, by simp [entryNames], m :: r, by simp [hq], by simp, ?_⟩
          intro hc; simp only [List.cons.injEq] at hc; exact hr1 hc.2
      · cases h
    · obtain ⟨m, hm, r, hq⟩ := ihr path h
      exact ⟨m, by simp [entryNames, hm], r, hq⟩

theorem yieldFiles_nodup (cfg : WalkCfg) (path : List Str) (l : Fs) (h : NamesDistinct l) :
    (yieldFiles cfg path l).Nodup := by
  induction l with
  | nil => simp [yieldFiles]
  | file n rest ih =>
    simp only [NamesDistinct] at h
    simp only [yieldFiles]
    split
    · simp only [List.singleton_append, List.nodup_cons]
      refine ⟨?_, ih h.2⟩
      intro hm
      obtain ⟨m, hm, hq, _⟩ := mem_yieldFiles_shape cfg path rest _ hm
      have : n = m := by simpa using List.append_cancel_left hq
      exact h.1 (this ▸ hm)
    · simpa using ih h.2
  | dir n sub rest _ ih =>
    simp only [NamesDistinct] at h
    simpa only [yieldFiles] using ih h.2.2

theorem yieldInits_nodup (path : List Str) (l : Fs) (h : NamesDistinct l) :
    (yieldInits path l).Nodup := by
  induction l with
  | nil => simp [yieldInits]
  | file n rest ih =>
    simp only [NamesDistinct] at h
    simpa only [yieldInits] using ih h.2
  | dir n sub rest _ ih =>
    simp only [NamesDistinct] at h
    simp only [yieldInits]
    split
    · simp only [List.singleton_append, List.nodup_cons]
      refine ⟨?_, ih h.2.2⟩
      intro hm
      obtain ⟨m, hm, hq⟩ := mem_yieldInits_shape path rest _ hm
      have : n = m := by
        have := List.append_cancel_left hq
        simpa using this
      exact h.1 (this ▸ hm)
    · simpa using ih h.2.2

theorem yieldHere_nodup (cfg : WalkCfg) (path : List Str) (l : Fs) (h : NamesDistinct l) :
    (yieldHere cfg path l).Nodup := by
  simp only [yieldHere]
  rw [List.nodup_append]
  refine ⟨?_, ?_, ?_⟩
  · split
    · exact yieldFiles_nodup cfg path l h
    · exact List.nodup_nil
  · split
    · exact yieldInits_nodup path l h
    · exact List.nodup_nil
  · intro a ha b hb hab
    subst hab
    split at ha
    · split at hb
      · obtain ⟨n, _, hq, _⟩ := mem_yieldFiles_shape cfg path l _ ha
        obtain ⟨m, _, hq'⟩ := mem_yieldInits_shape path l _ hb
        rw [hq] at hq'
        have := congrArg List.length (List.append_cancel_left hq')
        simp at this
      · cases hb
    · cases ha

/-- the files and `__init__.py`s of a directory and everything the walk yields below it: no path twice -/
theorem here_walk_nodup (cfg : WalkCfg) (path : List Str) (l : Fs) (h : NamesDistinct l)
    (hw : (walkSubs cfg path l).Nodup) : (yieldHere cfg path l ++ walkSubs cfg path l).Nodup := by
  rw [List.nodup_append]
  refine ⟨yieldHere_nodup cfg path l h, hw, ?_⟩
  intro a ha b hb hab
  subst hab
  obtain ⟨n, _, hq⟩ := mem_yieldHere_shape cfg path l _ ha
  obtain ⟨m, _, r, hq', hr1, hr2⟩ := mem_walkSubs_shape cfg path l _ hb
  rcases hq with ⟨hq, _⟩ | hq
  · rw [hq] at hq'
    have := List.append_cancel_left hq'
    simp only [List.cons.injEq] at this
    exact hr1 this.2.symm
  · rw [hq] at hq'
    have := List.append_cancel_left hq'
    simp only [List.cons.injEq] at this
    exact hr2 this.2.symm

theorem walkSubs_nodup (cfg : WalkCfg) (l : Fs) (h : NamesDistinct l) :
    ∀ path, (walkSubs cfg path l).Nodup := by
  induction l with
  | nil => intro path; simp [walkSubs]
  | file n rest ih =>
    intro path
    simp only [NamesDistinct] at h
    simpa only [walkSubs] using ih h.2 path
  | dir n sub rest ihs ihr =>
    intro path
    simp only [NamesDistinct] at h
    simp only [walkSubs]
    rw [List.nodup_append]
    refine ⟨?_, ihr h.2.2 path, ?_⟩
    · split
      · exact here_walk_nodup cfg (path ++ [n]) sub h.2.1 (ihs h.2.1 _)
      · exact List.nodup_nil
    · intro a ha b hb hab
      subst hab
      obtain ⟨m, hm, r, hq, _⟩ := mem_walkSubs_shape cfg path rest _ hb
      split at ha
      · -- everything yielded for the directory `n` starts with `path ++ [n]`
        have hpre : ∃ r', a = path ++ n :: r' := by
          rcases List.mem_append.mp ha with ha | ha
          · obtain ⟨x, _, hx⟩ := mem_yieldHere_shape cfg (path ++ [n]) sub _ ha
            rcases hx with ⟨hx, _⟩ | hx
            · exact ⟨[x], by simp [hx]⟩
            · exact ⟨[x, initPy], by simp [hx]⟩
          · obtain ⟨x, _, r', hx, _⟩ := mem_walkSubs_shape cfg (path ++ [n]) sub _ ha
            exact ⟨x :: r', by simp [hx]⟩
        obtain ⟨r', hr'⟩ := hpre
        rw [hr'] at hq
        have := List.append_cancel_left hq
        simp only [List.cons.injEq] at this
        exact h.1 (this.1 ▸ hm)
      · cases ha

/-- **No module of a package tree is yielded twice.** `package_modpaths(pkgpath, with_pkg=…, with_mod=…)` — what
    `core.package_calldefs` iterates over, so what the native runner and the pytest plugin collect from — lists every path at most once,
    for every directory tree whose listings do not repeat a name, every depth, every choice of the options. (Round-4 seed C10-4B, the root
    `__init__.py` yielded "when the walk visits it" as well, is exactly a violation of this statement.) -/
theorem packageModpaths_nodup (cfg : WalkCfg) (check : Bool) (root : Root)
    (h : match root with | .file => True | .dir l => NamesDistinct l) :
    (packageModpaths cfg check root).Nodup := by
  cases root with
  | file => simp [packageModpaths]
  | dir l =>
    simp only at h
    simp only [packageModpaths]
    rw [List.nodup_append]
    refine ⟨?_, ?_, ?_⟩
    · split <;> simp
    · split
      · split
        · exact here_walk_nodup cfg [] l h (walkSubs_nodup cfg l h [])
        · simpa using yieldHere_nodup cfg [] l h
      · exact List.nodup_nil
    · intro a ha b hb hab
      subst hab
      split at ha
      · simp only [List.mem_singleton] at ha
        subst ha
        split at hb
        · have hb' : [initPy] ∈ yieldHere cfg [] l ∨ [initPy] ∈ walkSubs cfg [] l := by
            split at hb
            · exact List.mem_append.mp hb
            · left; simpa using hb
          rcases hb' with hb | hb
          · obtain ⟨n, _, hq⟩ := mem_yieldHere_shape cfg [] l _ hb
            rcases hq with ⟨hq, hne⟩ | hq
            · simp only [List.nil_append, List.cons.injEq, and_true] at hq
              exact hne hq.symm
            · simp at hq
          · obtain ⟨n, _, r, hq, hr1, _⟩ := mem_walkSubs_shape cfg [] l _ hb
            simp only [List.nil_append, List.cons.injEq] at hq
            exact hr1 hq.2.symm
        · cases hb
      · cases ha

/-- a package: `__init__.py`, a module, a data file, a sub-package with a module, a directory that is not a package -/
def demoTree : Fs :=
  .file "__init__.py".toList (.file "m1.py".toList (.file "data.txt".toList
    (.dir "sub".toList (.file "__init__.py".toList (.file "m2.py".toList .nil))
      (.dir "notpkg".toList (.file "x.py".toList .nil) .nil))))

example : NamesDistinct demoTree := by
  simp only [demoTree, NamesDistinct, entryNames]
  decide +kernel

example : packageModpaths { withPkg := true } true (.dir demoTree) =
    [["__init__.py".toList], ["m1.py".toList], ["sub".toList, "__init__.py".toList], ["sub".toList, "m2.py".toList]] := by
  decide +kernel

/-- the walk of round-4 seed C10-4B: a package directory yields its own `__init__.py` when it is visited (instead of its
    parent yielding it), while the root's is still yielded in front of the walk -/
def walkVisit (path : List Str) : Fs → List (List Str)
  | .nil => []
  | .file _ rest => walkVisit path rest
  | .dir n sub rest =>
    (if hasEntry initPy sub then
      [path ++ [n, initPy]] ++ yieldFiles {} (path ++ [n]) sub ++ walkVisit (path ++ [n]) sub else [])
      ++ walkVisit path rest

def packageModpathsVisit (l : Fs) : List (List Str) :=
  (if hasEntry initPy l then [[initPy]] else []) ++
  (if hasEntry initPy l then [[initPy]] ++ yieldFiles {} [] l ++ walkVisit [] l else [])

theorem visit_variant_yields_root_twice :
    ¬ (packageModpathsVisit demoTree).Nodup ∧ (packageModpathsVisit demoTree).count ["__init__.py".toList] = 2 := by
  decide +kernel

end Xdoc.Static

import XdocModel.Parser
import XdocModel.Lemmas.Parser
/-!
# C13 — Parsing partitions the docstring: each line is text, source or want, once

Property theorems about the model `Parser.parse` (helper lemmas and the spec predicates `Tiles`,
`SrcTiles`, `Covers`, `LineRel`, `HackRel`, `WantFollows`, `Cls` live in `Lemmas/Parser.lean`).

Reading guide for the spec predicates:

* `LineRel line (lab, out)` : the labelled line `out` is the input line, verbatim — except that a
  SOURCE line may have the continuation prompt `... ` inserted at some column (the documented
  triple-quote hack of `_complete_source`); text and want lines are always verbatim.
* `Tiles ps o L` : the pieces `ps`, in order, tile the lines `L`, the first of which is line number
  `o`: a text piece is `'\n'.join` of its lines; the parts of a chunk tile the chunk's source lines
  (`SrcTiles`: `orig_lines[i] = line[k:]`, `exec_lines[i] = line[k:][4:]` for the chunk's indent `k`,
  `line_offset` = number of lines before the part's first line), the chunk's want lines (`line[k:]`)
  follow and belong to the chunk's LAST part, every earlier part has `want_lines = None`.
-/
namespace Xdoc.C13
open Xdoc Py Parser

/-! ## the four layers -/

/-- (a) the labeller emits one labelled line per input line, in order, verbatim up to the hack -/
theorem label_preserves_lines {ls : List Str} {out : List LLine} (h : labelLines ls = .ok out) :
    Forall2 LineRel ls out :=
  labelLines_lines h

/-- (a') without a triple quote anywhere, the labelled lines are exactly the input lines -/
theorem label_verbatim {ls : List Str} {out : List LLine}
    (hl : ∀ l ∈ ls, containsTriple l = false) (h : labelLines ls = .ok out) :
    out.map (·.2) = ls :=
  labelLines_verbatim hl h

/-- (b) grouping is a partition of the labelled lines, in order, and keeps the kind of every line:
    text lines end up in text chunks, `dsrc`/`dcnt` lines in the source of a code chunk, want lines
    in its want -/
theorem grouping_is_partition {labeled : List LLine} {cs : List Chunk} (h : groupLines labeled = .ok cs) :
    cs.flatMap chunkLines = labeled.map (·.2) ∧ cs.flatMap chunkCls = labeled.map clsLine :=
  ⟨groupLines_flat h, groupLines_cls h⟩

/-- (c) the parts of one chunk tile its source lines; `line_offset` = chunk start + lines before;
    only the last part has the want -/
theorem chunk_partition {src want : List Str} {lineno : Nat} {facts : ChunkFacts} {parts : List PPart}
    (h : packageChunk src want lineno facts = .ok parts) :
    SrcTiles (chunkIndentP src) want parts lineno src :=
  packageChunk_tiles h

/-- (d) the running line counter of `_package_groups` -/
theorem package_groups_tiles {cs : List Chunk} {fs : List ChunkFacts} {o : Nat} {ps : List Piece}
    (h : packageGroups cs fs o = .ok ps) : Tiles ps o (cs.flatMap chunkLines) :=
  packageGroups_tiles h

/-! ## the property -/

/-- ★ Parsing partitions the docstring. For EVERY docstring and EVERY answer of the CPython oracle
    on which the model parser succeeds: with `L = prepareLines docstr` the lines the labeller sees
    (tab-expanded, common indent removed), there is a labelling `labeled` of `L`, line by line
    (`LineRel`: verbatim, up to the triple-quote hack on source lines), such that the parts, in order,
    tile those lines starting at line 0 (`Tiles`), and every line keeps its kind through grouping. -/
theorem parse_partition (docstr : Str) (facts : List ChunkFacts) (ps : List Piece)
    (h : parse docstr facts = .ok ps) :
    ∃ (labeled : List LLine) (chunks : List Chunk),
      labelLines (prepareLines docstr) = .ok labeled ∧
      Forall2 LineRel (prepareLines docstr) labeled ∧
      chunks.flatMap chunkCls = labeled.map clsLine ∧
      Tiles ps 0 (chunks.flatMap chunkLines) ∧
      chunks.flatMap chunkLines = labeled.map (·.2) := by
  unfold parse at h
  split at h
  · simp at h
  · rename_i labeled hl
    split at h
    · simp at h
    · rename_i chunks hg
      split at h
      · simp at h
      · rename_i ps' hp
        simp only [Except.ok.injEq] at h; subst h
        exact ⟨labeled, chunks, hl, labelLines_lines hl, groupLines_cls hg, packageGroups_tiles hp,
          groupLines_flat hg⟩

/-- ★ the same without the hack: if no line contains a triple quote, the parts tile exactly the
    lines of the (tab-expanded, de-indented) docstring -/
theorem parse_partition_verbatim (docstr : Str) (facts : List ChunkFacts) (ps : List Piece)
    (hq : ∀ l ∈ prepareLines docstr, containsTriple l = false)
    (h : parse docstr facts = .ok ps) :
    Tiles ps 0 (prepareLines docstr) := by
  obtain ⟨labeled, chunks, hl, _, _, ht, hf⟩ := parse_partition docstr facts ps h
  rw [hf, labelLines_verbatim hq hl] at ht
  exact ht

/-- ★ text is neither executed nor compared, source is source, want is want: a line is in a text
    piece / in the source of a code chunk / in its want exactly according to its label -/
theorem text_is_not_source (docstr : Str) (labeled : List LLine) (chunks : List Chunk)
    (hl : labelLines (prepareLines docstr) = .ok labeled) (hc : chunksOf docstr = .ok chunks) :
    chunks.flatMap chunkCls = labeled.map clsLine := by
  unfold chunksOf at hc
  simp only [hl, bind, Except.bind] at hc
  exact groupLines_cls hc

/-- ★ a want is never the first line and never follows text: it directly follows source (or an
    earlier line of the same want) -/
theorem want_is_after_source {ls : List Str} {out : List LLine} (h : labelLines ls = .ok out) :
    WantFollows out :=
  labelLines_wantFollows h

/-- the number of lines is preserved: the parts account for every line the labeller saw -/
theorem parse_line_count (docstr : Str) (facts : List ChunkFacts) (ps : List Piece)
    (h : parse docstr facts = .ok ps) :
    ∃ chunks : List Chunk, Tiles ps 0 (chunks.flatMap chunkLines) ∧
      (chunks.flatMap chunkLines).length = (prepareLines docstr).length := by
  obtain ⟨labeled, chunks, _, hr, _, ht, hf⟩ := parse_partition docstr facts ps h
  exact ⟨chunks, ht, by rw [hf, List.length_map, hr.length_eq]⟩

/-! ## the stretch goal, kept visible

`labels_are_intended` (☆): for docstrings rendered from a grammar of labelled blocks the labeller
returns the intended labels. Only the statement is given; it is NOT proved (see the C13 report).
The correspondence suite checks it on every generated docstring instead. -/

/-- a building block with the label every line is meant to get -/
inductive Block where
  | prose (lines : List Str)                 -- non-blank lines that do not start with a prompt
  | blank (n : Nat)
  | example (indent : Nat) (stmts : List (List Str)) (want : List Str)
      -- each statement = its prompt-prefixed lines (`>>> ` first, `>>> `/`... ` after)

def Block.render : Block → List Str
  | .prose ls => ls
  | .blank n => List.replicate n []
  | .example k stmts want =>
    (stmts.flatMap id).map (List.replicate k ' ' ++ ·) ++ want.map (List.replicate k ' ' ++ ·)

def Block.intended : Block → List Label
  | .prose ls => ls.map fun _ => .text
  | .blank n => List.replicate n .text
  | .example _ stmts want =>
    (stmts.flatMap id).map (fun l => if hasPrefix l [ps2] then Label.dcnt else Label.dsrc) ++
      want.map fun _ => .want

/-- side conditions of the grammar: prose is not a prompt and not blank; every statement is
    balanced as a whole and no strict prefix of it is; want lines are non-blank, are not prompts and,
    after a statement, the first one is not a bare `...` -/
def Block.WellFormed : Block → Prop
  | .prose ls => ∀ l ∈ ls, (strip l).isEmpty = false ∧ hasPrefix (strip l) [ps1] = false
  | .blank _ => True
  | .example _ stmts want =>
    stmts ≠ [] ∧
    (∀ s ∈ stmts, ∃ first rest, s = first :: rest ∧ startsWith ">>> ".toList first = true ∧
        (∀ l ∈ rest, startsWith ">>> ".toList l = true ∨ startsWith "... ".toList l = true) ∧
        Lexer.isBalanced (s.map (·.drop 4)) = true ∧
        ∀ n, 0 < n → n < s.length → Lexer.isBalanced ((s.take n).map (·.drop 4)) = false) ∧
    (∀ w ∈ want, (strip w).isEmpty = false ∧ hasPrefix (strip w) [ps1, ps2] = false ∧
        indentOf w = 0 ∧ (w.head?.map isSpace).getD false = false)

/-- ☆ the full statement (not proved): a prose block after an example must be separated by a blank
    line, the first block is arbitrary -/
def labels_are_intended_statement : Prop :=
  ∀ bs : List Block, (∀ b ∈ bs, b.WellFormed) →
    (∀ pre k stmts want b rest, bs = pre ++ Block.example k stmts want :: b :: rest →
        ∃ n, b = .blank (n + 1)) →
    ∃ out, labelLines (bs.flatMap Block.render) = .ok out ∧ out.map (·.1) = bs.flatMap Block.intended

/-! ## non-vacuity: concrete docstrings on which the model parser succeeds -/

def exDoc : Str :=
  "  intro text\n  >>> x = [1,\n  ...      2]\n  >>> print(x)\n  [1, 2]\n\n  more text".toList

/-- the CPython facts of its two code chunks (the `>>>`/`...` statement is a chunk of its own):
    one statement starting at line 0, not an expression; one expression statement at line 0 -/
def exFacts : List ChunkFacts := [.parsed [0] false, .parsed [0] true]

def isOk {ε α : Type} : Except ε α → Bool
  | .ok _ => true
  | .error _ => false

example : isOk (parse exDoc exFacts) = true := by decide +kernel
example : (match parse exDoc exFacts with | .ok ps => ps.length | .error _ => 0) = 4 := by decide +kernel
example : (chunksOf exDoc).toOption.map (·.length) = some 4 := by decide +kernel
example : prepareLines exDoc =
    ["intro text".toList, ">>> x = [1,".toList, "...      2]".toList, ">>> print(x)".toList,
     "[1, 2]".toList, [], "more text".toList] := by decide +kernel
example : (labelLines (prepareLines exDoc)).toOption.map (·.map (·.1)) =
    some [.text, .dsrc, .dcnt, .dsrc, .want, .text, .text] := by decide +kernel
example : ∀ l ∈ prepareLines exDoc, containsTriple l = false := by decide +kernel
/-- the triple-quote hack really fires in the model: the middle line gets a `... ` prompt -/
example : (labelLines [">>> x = '''".toList, "abc".toList, ">>> '''".toList]).toOption.map (·.map (·.2)) =
    some [">>> x = '''".toList, "... abc".toList, ">>> '''".toList] := by decide +kernel
/-- a malformed docstring: the hypothesis of `parse_partition` can fail -/
example : isOk (parse ">>> x = (\n\ntext".toList []) = false := by decide +kernel

/-! ## witnesses of the known findings (the model reproduces them; replayed on the code every run) -/

/-- K-C13-a: a prompt directly after a source line at another indentation is not source -/
theorem witness_K_C13_a :
    (labelLines (prepareLines "    >>> x = 1\n>>> y = 2\n".toList)).toOption.map (·.map (·.1)) = some [.dsrc, .text] ∧
    (labelLines (prepareLines ">>> x = 1\n    >>> y = 2\n".toList)).toOption.map (·.map (·.1)) = some [.dsrc, .want] := by
  decide +kernel

/-- K-C13-b: mixed continuation styles followed by a want: the statement is cut in two and rejected -/
theorem witness_K_C13_b :
    (chunksOf ">>> t = \"\"\"first\n    indented body\nlast\"\"\"\nv\n".toList).toOption =
      some [.code [">>> t = \"\"\"first".toList] [],
            .code ["    indented body".toList, "... last\"\"\"".toList] ["v".toList]] ∧
    isOk (parse ">>> t = \"\"\"first\n    indented body\nlast\"\"\"\nv\n".toList []) = false := by
  decide +kernel

/-- K-C13-c: the common indent is sliced off lines it was not measured on -/
theorem witness_K_C13_c :
    prepareLines "    a\n    b\x0cXYZW\n".toList = ["a".toList, "b".toList] := by
  decide +kernel

end Xdoc.C13

import XdocModel.Proofs.C04
/-!
# Every condition of a REQUIRES directive counts on its own (property C04)

`Directive.effects()` yields one effect per condition of `REQUIRES(c₁, …, cₙ)`, `RuntimeState.update` applies them one after
the other. `requires_block_every_condition` states the result at the level of the pending set, for every list of conditions.
-/
namespace Xdoc.C04
open Xdoc Py

/-- the effects of a REQUIRES directive when every condition can be evaluated: ONE effect per condition, in order -/
theorem effects_requires_total (satb : Str → Bool) (pos inl : Bool) (args : List Str) :
    ({ name := "REQUIRES", positive := pos, args := args, inline := inl } : Directive).effects (fun a => some (satb a))
      = some (args.map fun a => if satb a then Effect.noop
          else (if pos then Effect.setAdd "REQUIRES" a else Effect.setRemove "REQUIRES" a)) := by
  simp only [Directive.effects, beq_self_eq_true, if_true]
  induction args with
  | nil => rfl
  | cons a as ih =>
    simp only [List.mapM_cons, List.map_cons, ih]
    cases satb a <;> rfl

theorem mem_setInsert (v x : Str) (s : List Str) : x ∈ setInsert v s ↔ x ∈ s ∨ x = v := by
  unfold setInsert
  split
  · rename_i h
    constructor
    · exact Or.inl
    · rintro (h' | rfl)
      · exact h'
      · simpa using h
  · simp

theorem mem_setErase (v x : Str) (s : List Str) : x ∈ setErase v s ↔ x ∈ s ∧ x ≠ v := by
  simp [setErase]

/-- the persistent requirement set after the effects of a block `+REQUIRES(args)` -/
theorem foldl_add_block (satb : Str → Bool) (args : List Str) (s : RState) (x : Str) :
    x ∈ ((args.map fun a => if satb a then Effect.noop else Effect.setAdd "REQUIRES" a).foldl
        (RState.applyEffect false) s).gReq ↔ x ∈ s.gReq ∨ (x ∈ args ∧ satb x = false) := by
  induction args generalizing s with
  | nil => simp
  | cons a as ih =>
    simp only [List.map_cons, List.foldl_cons]
    rw [ih]
    cases ha : satb a
    · simp only [Bool.false_eq_true, if_false, RState.applyEffect, mem_setInsert, List.mem_cons]
      constructor
      · rintro ((h | rfl) | ⟨h, h2⟩)
        · exact Or.inl h
        · exact Or.inr ⟨Or.inl rfl, ha⟩
        · exact Or.inr ⟨Or.inr h, h2⟩
      · rintro (h | ⟨rfl | h, h2⟩)
        · exact Or.inl (Or.inl h)
        · exact Or.inl (Or.inr rfl)
        · exact Or.inr ⟨h, h2⟩
    · simp only [if_true, RState.applyEffect, List.mem_cons]
      constructor
      · rintro (h | ⟨h, h2⟩)
        · exact Or.inl h
        · exact Or.inr ⟨Or.inr h, h2⟩
      · rintro (h | ⟨rfl | h, h2⟩)
        · exact Or.inl h
        · rw [ha] at h2; cases h2
        · exact Or.inr ⟨h, h2⟩

theorem foldl_remove_block (satb : Str → Bool) (args : List Str) (s : RState) (x : Str) :
    x ∈ ((args.map fun a => if satb a then Effect.noop else Effect.setRemove "REQUIRES" a).foldl
        (RState.applyEffect false) s).gReq ↔ x ∈ s.gReq ∧ ¬ (x ∈ args ∧ satb x = false) := by
  induction args generalizing s with
  | nil => simp
  | cons a as ih =>
    simp only [List.map_cons, List.foldl_cons]
    rw [ih]
    cases ha : satb a
    · simp only [Bool.false_eq_true, if_false, RState.applyEffect, mem_setErase, List.mem_cons]
      constructor
      · rintro ⟨⟨h, hne⟩, h2⟩
        refine ⟨h, ?_⟩
        rintro ⟨rfl | h3, h4⟩
        · exact hne rfl
        · exact h2 ⟨h3, h4⟩
      · rintro ⟨h, h2⟩
        refine ⟨⟨h, ?_⟩, ?_⟩
        · rintro rfl; exact h2 ⟨Or.inl rfl, ha⟩
        · rintro ⟨h3, h4⟩; exact h2 ⟨Or.inr h3, h4⟩
    · simp only [if_true, RState.applyEffect, List.mem_cons]
      constructor
      · rintro ⟨h, h2⟩
        refine ⟨h, ?_⟩
        rintro ⟨rfl | h3, h4⟩
        · rw [ha] at h4; cases h4
        · exact h2 ⟨h3, h4⟩
      · rintro ⟨h, h2⟩
        exact ⟨h, fun ⟨h3, h4⟩ => h2 ⟨Or.inr h3, h4⟩⟩

/-- ★ **every condition of a block REQUIRES directive counts on its own.** After `# xdoctest: +REQUIRES(c₁, …, cₙ)` the pending set is the old one
    plus EVERY unmet `cᵢ`; after `-REQUIRES(c₁, …, cₙ)` it is the old one minus EVERY unmet `cᵢ` — for every list of conditions, in any order,
    with met ones anywhere in between. (Round-5 seed C04-5A, which keyed the collected effects by `effect.key` so that only the LAST unmet
    condition survived, violates exactly this.) -/
theorem requires_block_every_condition (satb : Str → Bool) (pos : Bool) (args : List Str) (s : RState) :
    ∃ s', RState.applyDirective (fun a => some (satb a)) s
        { name := "REQUIRES", positive := pos, args := args, inline := false } = some s' ∧
      ∀ x, x ∈ s'.gReq ↔
        if pos then x ∈ s.gReq ∨ (x ∈ args ∧ satb x = false)
        else x ∈ s.gReq ∧ ¬ (x ∈ args ∧ satb x = false) := by
  unfold RState.applyDirective
  rw [effects_requires_total]
  refine ⟨_, rfl, ?_⟩
  intro x
  cases pos
  · simpa using foldl_remove_block satb args s x
  · simpa using foldl_add_block satb args s x

/-- non-vacuity, and the witness of seed C04-5A: `+REQUIRES(a, b)` with both unmet, then `-REQUIRES(b)`: `a` is still pending -/
example :
    let sat : Str → Option Bool := fun _ => some false
    let s0 : RState := { gBools := [] }
    ((RState.applyDirective sat s0 { name := "REQUIRES", positive := true, args := ["a".toList, "b".toList], inline := false }).bind
      fun s1 => RState.applyDirective sat s1 { name := "REQUIRES", positive := false, args := ["b".toList], inline := false }).map (·.gReq)
      = some ["a".toList] := by decide +kernel

end Xdoc.C04

import XdocModel.Proofs.C06
/-!
# C06 — corollaries of `ellipsis_iff_spec` a user relies on directly

`...` alone matches every output (including the empty one and multi-line text); `prefix...` is
"starts with", `...suffix` is "ends with", `a...b` is "starts with a, ends with b, and is long enough
for both" — for ALL texts `got`, by instantiating the specification (no evaluation of the matcher on
samples). The three literal wants are evaluated by the kernel (`decide +kernel`) only to obtain their split.
-/
namespace Xdoc.C06
open Xdoc Py Re

/-- ★ a want that is just `...` accepts every output -/
theorem bare_ellipsis_matches_everything (got : Str) : ellipsisMatch got dots = true := by
  have hd : contains dots dots = true := by decide +kernel
  rw [ellipsis_iff_spec got dots hd]
  exact ⟨[], [], [], by decide +kernel, got, by simp, .nil _⟩

/-- ★ `...` surrounded by blanks and line breaks is still only a wildcard -/
theorem padded_ellipsis_matches_everything (got : Str) : ellipsisMatch got " \n... \n".toList = true := by
  have hd : contains dots " \n... \n".toList = true := by decide +kernel
  rw [ellipsis_iff_spec got _ hd]
  exact ⟨[], [], [], by decide +kernel, got, by simp, .nil _⟩

/-- ★ whenever the want splits into exactly two pieces, matching is "starts with the first, ends with the
    last, without overlap" -/
theorem two_pieces_iff (got want first last : Str) (hd : contains dots want = true)
    (hs : splitEllipsis want = [first, last]) :
    ellipsisMatch got want = true ↔ ∃ mid, got = first ++ mid ++ last := by
  rw [ellipsis_iff_spec got want hd]
  constructor
  · rintro ⟨f, ms, l, he, mid, hg, _⟩
    rw [hs] at he
    have h1 : first = f ∧ [last] = ms ++ [l] := by simpa using he
    obtain ⟨rfl, h2⟩ := h1
    have h3 : ms = [] := by
      cases ms with
      | nil => rfl
      | cons a as => cases as <;> simp at h2
    subst h3
    have : last = l := by simpa using h2
    subst this
    exact ⟨mid, hg⟩
  · rintro ⟨mid, hg⟩
    exact ⟨first, [], last, by simpa using hs, mid, hg, .nil _⟩

/-- no overlap: the output must be at least as long as the two pieces together (`aa...aa` does not
    match `aaa`) -/
theorem two_pieces_length (got want first last : Str) (hd : contains dots want = true)
    (hs : splitEllipsis want = [first, last]) (hm : ellipsisMatch got want = true) :
    first.length + last.length ≤ got.length := by
  obtain ⟨mid, rfl⟩ := (two_pieces_iff got want first last hd hs).mp hm
  simp only [List.length_append]; omega

example : ellipsisMatch "".toList dots = true := bare_ellipsis_matches_everything _
example : ¬ (ellipsisMatch "aaa".toList "aa...aa".toList = true) := by
  intro h
  have := two_pieces_length "aaa".toList "aa...aa".toList "aa".toList "aa".toList (by decide +kernel) (by decide +kernel) h
  simp at this

end Xdoc.C06

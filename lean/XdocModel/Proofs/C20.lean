import XdocModel.Stdlib
import XdocModel.Lemmas.Stdlib
import XdocModel.Lemmas.StdMarker
import XdocModel.Proofs.C05
/-!
# C20 — Backwards compatible: what passes under the standard doctest module passes here

Two executable models side by side: `Std.stdCheck` (CPython's `OutputChecker.check_output` for the
flags a standard doctest can select through the property's directives) and `checkOutput` (xdoctest).
`Std.corrFlags sf` is the xdoctest runtime state of a doctest that carries the standard directives
`sf`: the regenerated defaults with ELLIPSIS / NORMALIZE_WHITESPACE / IGNORE_EXCEPTION_DETAIL
switched on when the directive is present.

Property theorems only; helper lemmas live in `Lemmas/Stdlib.lean`.
-/
namespace Xdoc.C20
open Xdoc Py Re
open _root_.Xdoc.Std

/-! ## 1. the ellipsis matchers (all strings, no guard) -/

/-- ★ KEY LEMMA: a standard `_ellipsis_match` is an xdoctest `_ellipsis_match`, for ALL strings.
    xdoctest splits the want on `\s*\.\.\.\s*`, the standard module on `...` literally; the
    whitespace xdoctest strips from the pieces is handed to the wildcards (`Scattered`). -/
theorem std_ellipsis_implies_xdoc_ellipsis (got want : Str) (h : stdEllipsis got want = true) :
    ellipsisMatch got want = true :=
  stdEllipsis_implies_ellipsisMatch got want h

/-- ★ the pieces correspond one to one: each xdoctest piece is the standard piece minus text on
    its left and right (`PRel`), whatever the want -/
theorem pieces_correspond (want : Str) : PRel [] (splitDots want) (splitEllipsis want) :=
  split_rel_top want

/-- ★ with ELLIPSIS on, `_check_match` of xdoctest accepts whatever the standard equality-or-
    ellipsis step accepts -/
theorem std_ellipsis_implies_checkMatch (f : Flags) (got want : Str) (hf : f.ellipsis = true)
    (h : got = want ∨ stdEllipsis got want = true) : checkMatch f got want = true := by
  unfold checkMatch
  rcases h with rfl | h
  · simp
  · simp [hf, std_ellipsis_implies_xdoc_ellipsis got want h]

/-! ## 2. the flags a standard doctest runs under in xdoctest (from the regenerated defaults) -/

theorem corrFlags_normWs (sf : StdFlags) : (corrFlags sf).normWs = true := by
  have : defaultFlags.normWs = true := by decide +kernel
  simp [corrFlags, this]

theorem corrFlags_ellipsis (sf : StdFlags) : (corrFlags sf).ellipsis = true := by
  have : defaultFlags.ellipsis = true := by decide +kernel
  simp [corrFlags, this]

theorem corrFlags_ignWs (sf : StdFlags) : (corrFlags sf).ignWs = false := by
  have : defaultFlags.ignWs = false := by decide +kernel
  simp [corrFlags, this]

theorem corrFlags_noBlank (sf : StdFlags) : (corrFlags sf).noBlank = false := by
  have : defaultFlags.noBlank = false := by decide +kernel
  simp [corrFlags, this]

/-- ★ every standard directive is honoured: the corresponding xdoctest flag is on -/
theorem corrFlags_dominates (sf : StdFlags) :
    (sf.ellipsis = true → (corrFlags sf).ellipsis = true) ∧
    (sf.normWs = true → (corrFlags sf).normWs = true) ∧
    (sf.ignDetail = true → (corrFlags sf).ignDetail = true) := by
  refine ⟨fun h => ?_, fun h => ?_, fun h => ?_⟩ <;> simp [corrFlags, h]

/-! ## 3. guards -/

def isAscii (s : Str) : Bool := s.all fun c => decide (c.toNat < 128)

/-- what xdoctest's always-on removals must leave alone (each excluded class is witnessed below) -/
structure XGuards (s : Str) : Prop where
  /-- no ANSI CSI sequence (K-C20-f) -/
  ansi : stripAnsi s = s
  /-- no `u'` / `b'` string-prefix letters (K-C20-g) -/
  pu : removePrefixes 'u' 'U' s = s
  pb : removePrefixes 'b' 'B' s = s
  /-- no carriage return (K-C20-h) -/
  cr : '\r' ∉ s

/-- the guards of the main statement -/
structure Guards (got want : Str) : Prop where
  /-- the standard module compares backslash-escaped texts (K-C20-d) -/
  asciiGot : isAscii got = true
  asciiWant : isAscii want = true
  /-- `True`/`1`, `False`/`0` (K-C20-e) -/
  notTrueFor1 : trueFor1 got want = false
  /-- the literal marker is not part of the output (K-C20-b) -/
  noMarkerInGot : contains marker got = false
  xGot : XGuards got
  xWant : XGuards want

/-- the statement of the property at checker level, under the guards -/
def stdlib_match_implies_xdoc_match_statement : Prop :=
  ∀ (sf : StdFlags) (got want : Str), Guards got want →
    stdCheck sf got want = true → checkOutput (corrFlags sf) got want = true

/-- the same without any guard (FALSE of the unchanged code: `unguarded_false`) -/
def stdlib_match_implies_xdoc_match_unguarded : Prop :=
  ∀ (sf : StdFlags) (got want : Str),
    stdCheck sf got want = true → checkOutput (corrFlags sf) got want = true

/-! ## 4. the part that is proved -/

/-- ★ identical texts pass under both, whatever they contain (no guard) -/
theorem identical_passes (sf : StdFlags) (s : Str) :
    stdCheck sf s s = true ∧ checkOutput (corrFlags sf) s s = true := by
  refine ⟨?_, C05.checkOutput_refl _ _⟩
  simp [stdCheck]

theorem norm1_got_eq (f : Flags) (hn : f.normWs = true) (hi : f.ignWs = false) {g : Str}
    (hx : XGuards g) : norm1 f false g = collapse g := by
  have hcr : '\r' ∉ rstrip (stripTrailingWs g) := fun hm =>
    hx.cr ((wsDel_stripTrailingWs g).mem _ ((wsDel_rstrip _).mem _ hm))
  simp only [norm1, wsNorm, baseNorm, hn, hi, Bool.false_and, Bool.true_or, ↓reduceIte,
    Bool.false_eq_true, hx.ansi, hx.pu, hx.pb, eraseCrLines_id hcr]
  exact ((wsDel_stripTrailingWs g).trans_collapse (wsDel_rstrip _)).symm

theorem norm1_want_eq (f : Flags) (hn : f.normWs = true) (hi : f.ignWs = false) {w : Str}
    (hx : XGuards w) (hm : contains marker w = false) : norm1 f true w = collapse w := by
  have hcr : '\r' ∉ rstrip (stripTrailingWs w) := fun hm =>
    hx.cr ((wsDel_stripTrailingWs w).mem _ ((wsDel_rstrip _).mem _ hm))
  have e : (if (true && !f.noBlank) = true then removeBlanklineMarker w else w) = w := by
    split
    · exact removeBlanklineMarker_id hm
    · rfl
  simp only [norm1, wsNorm, baseNorm, hn, hi, Bool.true_or, ↓reduceIte,
    Bool.false_eq_true, hx.ansi, hx.pu, hx.pb, e, eraseCrLines_id hcr]
  exact ((wsDel_stripTrailingWs w).trans_collapse (wsDel_rstrip _)).symm

/-- equal normal forms pass `_check_match`, with or without the quote step -/
theorem checkMatch_normalize_of_eq (f : Flags) (g w : Str) (h : norm1 f false g = norm1 f true w) :
    checkMatch f (normalize f g w).1 (normalize f g w).2 = true := by
  unfold normalize
  simp only [h]
  cases f.normRepr <;> simp [normReprStep, checkMatch]

/-- what a standard match WITHOUT the ELLIPSIS step means: the whitespace-collapsed texts agree
    (the want carrying no marker) -/
theorem std_noellipsis_collapse (sf : StdFlags) (G W : Str) (hE : sf.ellipsis = false)
    (hG : isAscii G = true) (hW : isAscii W = true) (hM : contains marker W = false)
    (hT : trueFor1 G W = false) (h : stdCheck sf G W = true) : collapse G = collapse W := by
  unfold stdCheck at h
  simp only [toAscii_ascii G hG, toAscii_ascii W hW, hT, Bool.false_eq_true, ↓reduceIte,
    stdBlankWant_id hM, hE, Bool.false_and] at h
  have hg : collapse (stdBlankGot G) = collapse G := (wsDel_stdBlankGot G).collapse_eq.symm
  by_cases h1 : G = W
  · rw [h1]
  · by_cases h2 : stdBlankGot G = W
    · rw [← hg, h2]
    · simp only [beq_iff_eq, h1, h2, ↓reduceIte] at h
      cases hn : sf.normWs
      · simp [hn] at h
      · simp only [hn, ↓reduceIte, Bool.true_and] at h
        rw [← hg]
        by_cases h3 : collapse (stdBlankGot G) = collapse W
        · exact h3
        · simp [h3] at h

/-- what a standard match means in general (want without marker): the whitespace-collapsed texts
    agree, or — only with the ELLIPSIS directive — they are related by xdoctest's wildcard matcher.
    Chain for the ELLIPSIS step: standard `_ellipsis_match` ⇒ xdoctest `_ellipsis_match` on the same
    texts (`std_ellipsis_implies_xdoc_ellipsis`) ⇒ on the collapsed texts (`C05.ellipsisMatch_collapse`). -/
theorem std_collapse_match (sf : StdFlags) (G W : Str)
    (hG : isAscii G = true) (hW : isAscii W = true) (hM : contains marker W = false)
    (hT : trueFor1 G W = false) (h : stdCheck sf G W = true) :
    collapse G = collapse W ∨
      (sf.ellipsis = true ∧ ellipsisMatch (collapse G) (collapse W) = true) := by
  cases hE : sf.ellipsis
  · exact Or.inl (std_noellipsis_collapse sf G W hE hG hW hM hT h)
  · unfold stdCheck at h
    simp only [toAscii_ascii G hG, toAscii_ascii W hW, hT, Bool.false_eq_true, ↓reduceIte,
      stdBlankWant_id hM, hE, Bool.true_and] at h
    have hg : collapse (stdBlankGot G) = collapse G := (wsDel_stdBlankGot G).collapse_eq.symm
    by_cases h1 : G = W
    · rw [h1]; exact Or.inl rfl
    · by_cases h2 : stdBlankGot G = W
      · rw [← hg, h2]; exact Or.inl rfl
      · simp only [beq_iff_eq, h1, h2, ↓reduceIte] at h
        cases hn : sf.normWs
        · simp only [hn, Bool.false_eq_true, ↓reduceIte, Bool.false_and] at h
          have := C05.ellipsisMatch_collapse _ _ (std_ellipsis_implies_xdoc_ellipsis _ _ h)
          rw [hg] at this
          exact Or.inr ⟨rfl, this⟩
        · simp only [hn, ↓reduceIte, Bool.true_and] at h
          by_cases h3 : collapse (stdBlankGot G) = collapse W
          · rw [← hg]; exact Or.inl h3
          · have h' : stdEllipsis (collapse (stdBlankGot G)) (collapse W) = true := by
              simpa [h3] using h
            have := std_ellipsis_implies_xdoc_ellipsis _ _ h'
            rw [hg] at this
            exact Or.inr ⟨rfl, this⟩

/-- ◐ CORE of the partial result (all four flag settings). `G`/`W` are the texts the standard checker compared, `Gx`/`Wx`
    the texts xdoctest compares for the same example; they may differ by whitespace (xdoctest's
    want has no final newline; in `eval` mode its got is the bare `repr`). If the standard check
    passes and the want carries no marker, xdoctest accepts. -/
theorem stdlib_match_implies_xdoc_match_core (sf : StdFlags) (G W Gx Wx : Str)
    (hG : isAscii G = true) (hW : isAscii W = true) (hT : trueFor1 G W = false)
    (hM : contains marker W = false) (hMx : contains marker Wx = false)
    (hxg : XGuards Gx) (hxw : XGuards Wx)
    (hcg : collapse Gx = collapse G) (hcw : collapse Wx = collapse W)
    (h : stdCheck sf G W = true) : checkOutput (corrFlags sf) Gx Wx = true := by
  rw [C05.checkOutput_unfold]
  refine Or.inr (Or.inr (checkMatch_normalize_of_match _ _ _ ?_))
  rw [norm1_got_eq _ (corrFlags_normWs sf) (corrFlags_ignWs sf) hxg,
    norm1_want_eq _ (corrFlags_normWs sf) (corrFlags_ignWs sf) hxw hMx, hcg, hcw]
  rcases std_collapse_match sf G W hG hW hM hT h with hc | ⟨_, hc⟩
  · simp [checkMatch, hc]
  · simp [checkMatch, corrFlags_ellipsis sf, hc]

/-- ◐ `stdlib_match_implies_xdoc_match_partial`: the guarded statement for ALL FOUR flag settings
    (none, ELLIPSIS, NORMALIZE_WHITESPACE, both) and all got/want, for wants without the marker.
    The ELLIPSIS step goes through xdoctest's always-on whitespace collapsing by
    `C05.ellipsisMatch_collapse` ("collapse respects the piece decomposition") and through the quote
    step of NORMALIZE_REPR by `checkMatch_normalize_of_match` (a matching pair is left alone).
    MISSING for the full statement `stdlib_match_implies_xdoc_match_statement`: wants that contain
    `<BLANKLINE>` (the two marker substitutions differ textually and agree only up to whitespace
    when got has no marker): `stdlib_match_implies_xdoc_match_marker_statement` below, covered by
    the correspondence run. -/
theorem stdlib_match_implies_xdoc_match_partial (sf : StdFlags) (got want : Str)
    (hg : Guards got want) (hM : contains marker want = false)
    (h : stdCheck sf got want = true) : checkOutput (corrFlags sf) got want = true :=
  stdlib_match_implies_xdoc_match_core sf got want got want hg.asciiGot hg.asciiWant
    hg.notTrueFor1 hM hM hg.xGot hg.xWant rfl rfl h

/-! ### wants that contain `<BLANKLINE>` -/

/-- what a standard match means in general: identical texts, or the whitespace-collapsed got agrees
    with the collapsed want AFTER the standard marker substitution, or (ELLIPSIS) is related to it by
    xdoctest's wildcard matcher -/
theorem std_collapse_match_gen (sf : StdFlags) (G W : Str)
    (hG : isAscii G = true) (hW : isAscii W = true)
    (hT : trueFor1 G W = false) (h : stdCheck sf G W = true) :
    G = W ∨ collapse G = collapse (stdBlankWant W) ∨
      (sf.ellipsis = true ∧ ellipsisMatch (collapse G) (collapse (stdBlankWant W)) = true) := by
  unfold stdCheck at h
  simp only [toAscii_ascii G hG, toAscii_ascii W hW, hT, Bool.false_eq_true, ↓reduceIte] at h
  have hg : collapse (stdBlankGot G) = collapse G := (wsDel_stdBlankGot G).collapse_eq.symm
  generalize stdBlankWant W = W' at h ⊢
  by_cases h1 : G = W
  · exact Or.inl h1
  · refine Or.inr ?_
    by_cases h2 : stdBlankGot G = W'
    · rw [← hg, h2]; exact Or.inl rfl
    · simp only [beq_iff_eq, h1, h2, ↓reduceIte] at h
      cases hn : sf.normWs
      · simp only [hn, Bool.false_eq_true, ↓reduceIte, Bool.false_and, Bool.and_eq_true] at h
        have := C05.ellipsisMatch_collapse _ _ (std_ellipsis_implies_xdoc_ellipsis _ _ h.2)
        rw [hg] at this
        exact Or.inr ⟨h.1, this⟩
      · simp only [hn, ↓reduceIte, Bool.true_and] at h
        by_cases h3 : collapse (stdBlankGot G) = collapse W'
        · rw [← hg]; exact Or.inl h3
        · have h' : sf.ellipsis = true ∧ stdEllipsis (collapse (stdBlankGot G)) (collapse W') = true := by
            simpa [h3] using h
          have := std_ellipsis_implies_xdoc_ellipsis _ _ h'.2
          rw [hg] at this
          exact Or.inr ⟨h'.1, this⟩

/-- xdoctest's normal form of a want whose marker lines are all recognised by the standard module -/
theorem norm1_want_marker_eq (f : Flags) (hn : f.normWs = true) (hi : f.ignWs = false) (hb : f.noBlank = false)
    {w : Str} (hx : XGuards w) (hm : contains marker (stdBlankWant w) = false) :
    norm1 f true w = collapse (stdBlankWant w) := by
  have hcr0 : '\r' ∉ removeBlanklineMarker w := by
    intro hmem
    rcases rm_mem _ w (Nat.le_refl _) _ hmem with h | h
    · exact hx.cr h
    · cases h
  have hcr : '\r' ∉ rstrip (stripTrailingWs (removeBlanklineMarker w)) := fun hm' =>
    hcr0 ((wsDel_stripTrailingWs _).mem _ ((wsDel_rstrip _).mem _ hm'))
  simp only [norm1, wsNorm, baseNorm, hn, hi, hb, Bool.true_or, ↓reduceIte, Bool.not_false, Bool.and_self,
    Bool.false_eq_true, hx.ansi, hx.pu, hx.pb, eraseCrLines_id hcr]
  rw [← ((wsDel_stripTrailingWs _).trans_collapse (wsDel_rstrip _)), collapse_removeMarker_eq hm]

/-- ◐ wants WITH markers, all four flag settings: if every marker occurrence of the want is a marker
    line for the standard module (no marker is left after its substitution), a standard match implies
    an xdoctest match, under the guards. -/
theorem stdlib_match_implies_xdoc_match_marker_lines (sf : StdFlags) (got want : Str)
    (hg : Guards got want) (hm : contains marker (stdBlankWant want) = false)
    (h : stdCheck sf got want = true) : checkOutput (corrFlags sf) got want = true := by
  rw [C05.checkOutput_unfold]
  rcases std_collapse_match_gen sf got want hg.asciiGot hg.asciiWant hg.notTrueFor1 h with h1 | hc
  · exact Or.inr (Or.inl h1)
  · refine Or.inr (Or.inr (checkMatch_normalize_of_match _ _ _ ?_))
    rw [norm1_got_eq _ (corrFlags_normWs sf) (corrFlags_ignWs sf) hg.xGot,
      norm1_want_marker_eq _ (corrFlags_normWs sf) (corrFlags_ignWs sf) (corrFlags_noBlank sf) hg.xWant hm]
    rcases hc with hc | ⟨_, hc⟩
    · simp [checkMatch, hc]
    · simp [checkMatch, corrFlags_ellipsis sf, hc]

theorem marker_plain : ∀ c ∈ marker, isSpace c = false ∧ c ≠ '.' := by decide +kernel

/-- ★ a marker the standard substitution leaves in the want (an occurrence that is not a marker line)
    has to be matched literally: a got without the marker cannot pass the standard check, unless the
    texts are identical -/
theorem std_rejects_leftover_marker (sf : StdFlags) (G W : Str)
    (hG : isAscii G = true) (hW : isAscii W = true) (hT : trueFor1 G W = false)
    (hmG : contains marker G = false) (hL : contains marker (stdBlankWant W) = true) (hne : G ≠ W) :
    stdCheck sf G W = false := by
  cases h : stdCheck sf G W with
  | false => rfl
  | true =>
    exfalso
    obtain ⟨m, hm⟩ := marker_head
    have hp : ∀ c ∈ '<' :: m, isSpace c = false ∧ c ≠ '.' := by rw [← hm]; exact marker_plain
    have hs : ∀ c ∈ '<' :: m, isSpace c = false := fun c hc => (hp c hc).1
    have hcw : contains ('<' :: m) (collapse (stdBlankWant W)) = true := by
      rw [← hm]; exact contains_collapse_of_contains (fun c hc => (marker_plain c hc).1) hL
    have hfin : contains ('<' :: m) (collapse G) = true → False := by
      intro hc
      have := contains_of_contains_collapse hs hc
      rw [← hm, hmG] at this; cases this
    rcases std_collapse_match_gen sf G W hG hW hT h with h1 | h2 | ⟨_, h3⟩
    · exact hne h1
    · exact hfin (by rw [h2]; exact hcw)
    · exact hfin (ellipsisMatch_contains hp h3 hcw)

/-- what remains of `stdlib_match_implies_xdoc_match_statement`: the wants that contain the marker -/
def stdlib_match_implies_xdoc_match_marker_statement : Prop :=
  ∀ (sf : StdFlags) (got want : Str), Guards got want → contains marker want = true →
    stdCheck sf got want = true → checkOutput (corrFlags sf) got want = true

/-- ★★ `stdlib_match_implies_xdoc_match`: the guarded statement of C20 at checker level, for ALL
    got/want and all four flag settings (none, ELLIPSIS, NORMALIZE_WHITESPACE, both), wants with or
    without `<BLANKLINE>`: whatever `doctest.OutputChecker.check_output` accepts, xdoctest's
    `check_output` accepts under the runtime state of a standard doctest. No guard beyond `Guards`
    is needed for the marker: a marker occurrence that is not a marker line survives the standard
    substitution and then forces the marker into got (`std_rejects_leftover_marker`), which
    `Guards.noMarkerInGot` excludes; marker lines are handled by `collapse_removeMarker_eq`. -/
theorem stdlib_match_implies_xdoc_match : stdlib_match_implies_xdoc_match_statement := by
  intro sf got want hg hs
  by_cases hne : got = want
  · rw [hne]; exact C05.checkOutput_refl _ _
  · cases hm : contains marker (stdBlankWant want)
    · exact stdlib_match_implies_xdoc_match_marker_lines sf got want hg hm hs
    · have := std_rejects_leftover_marker sf got want hg.asciiGot hg.asciiWant hg.notTrueFor1
        hg.noMarkerInGot hm hne
      rw [this] at hs; cases hs

/-- in particular the part that was left open: wants containing the marker -/
theorem stdlib_match_implies_xdoc_match_marker : stdlib_match_implies_xdoc_match_marker_statement :=
  fun sf got want hg _ hs => stdlib_match_implies_xdoc_match sf got want hg hs

/-- ◐ end-to-end form for `exec`/`single` parts: the standard want ends with the newline the
    parser adds, xdoctest's want is the same text without it; got is the captured stdout -/
theorem stdlib_match_implies_xdoc_match_partial_stdout (sf : StdFlags) (got want : Str)
    (hG : isAscii got = true) (hW : isAscii (want ++ ['\n']) = true)
    (hT : trueFor1 got (want ++ ['\n']) = false)
    (hM : contains marker (want ++ ['\n']) = false) (hMx : contains marker want = false)
    (hxg : XGuards got) (hxw : XGuards want)
    (h : stdCheck sf got (want ++ ['\n']) = true) : checkOutput (corrFlags sf) got want = true := by
  refine stdlib_match_implies_xdoc_match_core sf got (want ++ ['\n']) got want hG hW hT hM hMx
    hxg hxw rfl ?_ h
  have : WsDel (want ++ (['\n'] ++ [])) (want ++ []) :=
    WsDel.append_left _ (WsDel.dropRun _ [] [] (by simp [isSpace_nl]) .nil rfl)
  simpa using this.collapse_eq.symm

/-- ◐ end-to-end form for `eval` parts that print nothing: the REPL shows `repr + '\n'`,
    xdoctest compares the bare `repr` -/
theorem stdlib_match_implies_xdoc_match_partial_value (sf : StdFlags) (r want : Str)
    (hG : isAscii (replGot [] (.value r)) = true) (hW : isAscii (want ++ ['\n']) = true)
    (hT : trueFor1 (replGot [] (.value r)) (want ++ ['\n']) = false)
    (hM : contains marker (want ++ ['\n']) = false) (hMx : contains marker want = false)
    (hxg : XGuards r) (hxw : XGuards want)
    (h : stdCheck sf (replGot [] (.value r)) (want ++ ['\n']) = true) :
    checkGotVsWant (corrFlags sf) want [] (.value r) = .ok := by
  have hnl : ∀ s : Str, collapse s = collapse (s ++ ['\n']) := by
    intro s
    have : WsDel (s ++ (['\n'] ++ [])) (s ++ []) :=
      WsDel.append_left _ (WsDel.dropRun _ [] [] (by simp [isSpace_nl]) .nil rfl)
    simpa using this.collapse_eq.symm
  have := stdlib_match_implies_xdoc_match_core sf (replGot [] (.value r)) (want ++ ['\n']) r want
    hG hW hT hM hMx hxg hxw (by simpa [replGot] using hnl r) (hnl want) h
  simp [checkGotVsWant, this]

/-! ## 5. the excluded classes: kernel-checked witnesses (each replayed on the real code) -/

private def f00 : StdFlags := { ellipsis := false, normWs := false }
private def fNW : StdFlags := { ellipsis := false, normWs := true }
private def fEL : StdFlags := { ellipsis := true, normWs := false }

/-- K-C20-a : an example that prints AND returns a non-None value. The REPL shows stdout followed
    by the echo, the standard module accepts their concatenation; xdoctest's `eval` mode compares
    stdout OR the value, never both. -/
theorem witness_K_C20_a :
    stdCheck f00 (replGot "in f 3\n".toList (.value "5".toList)) "in f 3\n5\n".toList = true ∧
    checkGotVsWant (corrFlags f00) "in f 3\n5".toList "in f 3\n".toList (.value "5".toList) = .differs := by
  decide +kernel

/-- K-C20-b : the output contains the literal marker. End-to-end shape (`print('<BLANKLINE>')`):
    the standard texts are identical, xdoctest's want has lost its final newline, is not identical
    to got any more, and the marker is removed from the want only. -/
theorem witness_K_C20_b :
    stdCheck f00 "<BLANKLINE>\n".toList "<BLANKLINE>\n".toList = true ∧
    checkOutput (corrFlags f00) "<BLANKLINE>\n".toList "<BLANKLINE>".toList = false := by
  decide +kernel

/-- K-C20-b at checker level (same texts on both sides), NORMALIZE_WHITESPACE -/
theorem witness_K_C20_b_checker :
    stdCheck fNW "<BLANKLINE>".toList " <BLANKLINE>".toList = true ∧
    checkOutput (corrFlags fNW) "<BLANKLINE>".toList " <BLANKLINE>".toList = false := by
  decide +kernel

/-- K-C20-d : the standard module folds both texts to backslash-escaped ASCII before comparing -/
theorem witness_K_C20_d :
    stdCheck f00 "é".toList "\\xe9".toList = true ∧
    checkOutput (corrFlags f00) "é".toList "\\xe9".toList = false := by
  decide +kernel

/-- K-C20-e : `True` for `1` (DONT_ACCEPT_TRUE_FOR_1 is off by default in the standard module) -/
theorem witness_K_C20_e :
    stdCheck f00 "True\n".toList "1\n".toList = true ∧
    checkOutput (corrFlags f00) "True\n".toList "1\n".toList = false := by
  decide +kernel

/-- K-C20-f : xdoctest deletes ANSI CSI sequences from got; a want that spells part of one literally
    (here followed by an ellipsis) no longer finds it -/
theorem witness_K_C20_f :
    stdCheck fEL "\x1b[0m".toList "\x1b[...".toList = true ∧
    checkOutput (corrFlags fEL) "\x1b[0m".toList "\x1b[...".toList = false := by
  decide +kernel

/-- K-C20-g : xdoctest deletes the `u`/`b` string-prefix letter in front of a quote -/
theorem witness_K_C20_g :
    stdCheck fEL "u'".toList "u...".toList = true ∧
    checkOutput (corrFlags fEL) "u'".toList "u...".toList = false := by
  decide +kernel

/-- K-C20-h : xdoctest erases output lines that end in a bare carriage return -/
theorem witness_K_C20_h :
    stdCheck fNW "a\ra".toList "a a".toList = true ∧
    checkOutput (corrFlags fNW) "a\ra".toList "a a".toList = false := by
  decide +kernel

/-- K-C20-k : only when the USER switches NORMALIZE_WHITESPACE off. The standard checker empties every
    line of got made of whitespace other than newline (form feed here); xdoctest strips blanks and tabs
    only. With xdoctest's default options the whitespace collapsing hides the difference (third part). -/
theorem witness_K_C20_k :
    stdCheck f00 "\x0c\n\"".toList "\n\"".toList = true ∧
    checkOutput { corrFlags f00 with normWs := false } "\x0c\n\"".toList "\n\"".toList = false ∧
    checkOutput (corrFlags f00) "\x0c\n\"".toList "\n\"".toList = true := by
  decide +kernel

/-- the unguarded sentence is false of the model (and of the code: the witnesses are replayed) -/
theorem unguarded_false : ¬ stdlib_match_implies_xdoc_match_unguarded := by
  intro h
  have w := witness_K_C20_e
  rw [h f00 _ _ w.1] at w
  exact absurd w.2 (by simp)

/-- each single guard is needed: dropping it makes the guarded statement false at the witness -/
theorem guard_true_for_1_needed :
    ¬ (∀ sf got want, stdCheck sf got want = true → checkOutput (corrFlags sf) got want = true ∨
        trueFor1 got want = false) := by
  intro h
  have w := witness_K_C20_e
  rcases h f00 _ _ w.1 with h | h
  · rw [h] at w; exact absurd w.2 (by simp)
  · revert h; decide +kernel

/-! ## 6. exceptions -/

/-- ★ same regular expression, `match` there and `search` here: a want the standard parser
    recognises as an expected traceback is recognised by xdoctest with the same message -/
theorem exc_extract_agrees (b m : Str) (h : stdExcMatch b = some m) : excSearch b = some m := by
  unfold stdExcMatch at h
  unfold excSearch
  cases hs : splitOn '\n' b with
  | nil => simp [hs] at h
  | cons l ls =>
    simp only [hs] at h
    split at h
    · rename_i hl
      simp only [excSearchLines, hl, ↓reduceIte, h]
    · cases h

/-- ★ the detail stripping is the same function (the two Python functions are statement for
    statement identical; both are compared with this model function by the harness) -/
theorem strip_details_agree (msg : Str) : stdStripDetails msg = stripExceptionDetails msg := rfl

/-- ★ `exc_check_agrees`: same last-line rule, same detail stripping. `b` is the dedented traceback
    want as xdoctest sees it (`codeblock want`); the standard parser hands the same block WITH its
    final newline to `_EXCEPTION_RE.match`. If the standard runner accepts the raised exception,
    xdoctest's `check_exception` does — given the output-level implication for the two pairs of
    texts that are actually compared (`himp1`: message, end-to-end form; `himp2`: bare names; both
    are instances of the C20 statement) and a non-empty expected exception name (xdoctest refuses
    an empty stripped want since 6b19a71, see `witness_exc_empty_name`). -/
theorem exc_check_agrees (sf : StdFlags) (excGot want : Str)
    (himp1 : ∀ m, stdCheck sf excGot (m ++ ['\n']) = true → checkOutput (corrFlags sf) excGot m = true)
    (himp2 : ∀ g w, stdCheck sf g w = true → checkOutput (corrFlags sf) g w = true)
    (hne : ∀ m, stdExcMatch (codeblock want) = some m → stripExceptionDetails m ≠ [])
    (h : stdExcCheck sf excGot (codeblock want ++ ['\n']) = some true) :
    checkException (corrFlags sf) excGot want = some true := by
  unfold stdExcCheck at h
  rw [stdExcMatch_append_nl] at h
  cases hm : stdExcMatch (codeblock want) with
  | none => simp [hm] at h
  | some m =>
    simp only [hm, Option.map_some, Option.some.injEq, Bool.or_eq_true, Bool.and_eq_true,
      stdStripDetails, stripExceptionDetails_append_nl] at h
    have hx : extractExcWant want = some m := exc_extract_agrees _ _ hm
    unfold checkException
    simp only [hx]
    rcases h with h | ⟨hd, h⟩
    · simp [himp1 m h]
    · have hd' : (corrFlags sf).ignDetail = true := by simp [corrFlags, hd]
      have := hne m hm
      by_cases h1 : checkOutput (corrFlags sf) excGot m = true
      · simp [h1]
      · simp [h1, hd', himp2 _ _ h, this]

/-- the hypothesis `hne` is needed: with an expected name that strips to nothing the standard
    module can still say yes (both sides strip to the empty text) -/
theorem witness_exc_empty_name :
    stdExcCheck { ellipsis := false, normWs := false, ignDetail := true } "a.: x".toList
      "Traceback (most recent call last):\nb.: y".toList = some true ∧
    checkException (corrFlags { ellipsis := false, normWs := false, ignDetail := true }) "a.: x".toList
      "Traceback (most recent call last):\nb.: y".toList = some false := by
  decide +kernel

/-! ## 7. directives -/

/-- ★ `# doctest: +X` is parsed like `# xdoctest: +X`: `DIRECTIVE_RE` yields the same option text -/
theorem doctest_prefix_accepted (opts : Str) :
    directiveReMatch ("doctest:".toList ++ opts) = directiveReMatch ("xdoctest:".toList ++ opts) := by
  simp [directiveReMatch, lowerAscii, dropPrefix?]

/-- ★ and so the same directive comes out, for every option text and both placements -/
theorem doctest_prefix_same_directive (opts : Str) (inline : Bool) :
    (directiveReMatch ("doctest:".toList ++ opts)).bind (parseDirectiveOptstr · inline) =
    (directiveReMatch ("xdoctest:".toList ++ opts)).bind (parseDirectiveOptstr · inline) := by
  rw [doctest_prefix_accepted]

/-! ## non-vacuity -/

example : stdEllipsis "a  xb".toList "a ...b".toList = true := by decide +kernel
example : ellipsisMatch "a  xb".toList "a ...b".toList = true := by decide +kernel
example : splitDots "a ... b....c".toList = ["a ".toList, " b".toList, ".c".toList] := by decide +kernel
example : splitEllipsis "a ... b....c".toList = ["a".toList, "b".toList, ".c".toList] := by decide +kernel
-- a pair satisfying every hypothesis of the partial theorem, matched only through the
-- whitespace-only-line rule and NORMALIZE_WHITESPACE
example : stdCheck fNW "a\n \nb  c\n".toList "a\n\nb c\n".toList = true := by decide +kernel
example : isAscii "a\n \nb  c\n".toList = true ∧ contains marker "a\n\nb c\n".toList = false ∧
    trueFor1 "a\n \nb  c\n".toList "a\n\nb c\n".toList = false := by decide +kernel
example : stripAnsi "a\n \nb  c\n".toList = "a\n \nb  c\n".toList ∧
    removePrefixes 'u' 'U' "a\n \nb  c\n".toList = "a\n \nb  c\n".toList := by decide +kernel
example : checkOutput (corrFlags fNW) "a\n \nb  c\n".toList "a\n\nb c\n".toList = true := by decide +kernel
-- an ELLIPSIS instance of the partial theorem: all hypotheses hold, matched only through the wildcard
example : stdCheck fEL "x = 12  s\n".toList "x = ... s\n".toList = true ∧
    contains marker "x = ... s\n".toList = false ∧ isAscii "x = 12  s\n".toList = true := by decide +kernel
-- a quoted want with an ellipsis: the quote step leaves the matching pair alone
example : checkOutput (corrFlags fEL) "'a b c'".toList "'a ... c'".toList = true := by decide +kernel
-- an instance of the full theorem with markers: three marker lines (one followed by blanks), matched through them
example : stdCheck f00 "a\n\n\nb\n\nc\n".toList "a\n<BLANKLINE>\n<BLANKLINE>  \nb\n<BLANKLINE>\nc\n".toList = true ∧
    contains marker (stdBlankWant "a\n<BLANKLINE>\n<BLANKLINE>  \nb\n<BLANKLINE>\nc\n".toList) = false ∧
    contains marker "a\n\n\nb\n\nc\n".toList = false := by decide +kernel
-- a marker that is not a marker line is left behind by the standard substitution
example : contains marker (stdBlankWant "a <BLANKLINE>\n".toList) = true := by decide +kernel
-- marker and ellipsis cases, evaluated
example : stdCheck f00 "a\n\nb\n".toList "a\n<BLANKLINE>\nb\n".toList = true ∧
    checkOutput (corrFlags f00) "a\n\nb\n".toList "a\n<BLANKLINE>\nb".toList = true := by decide +kernel
example : stdCheck fEL "x = 12 s\n".toList "x = ... s\n".toList = true ∧
    checkOutput (corrFlags fEL) "x = 12 s\n".toList "x = ... s".toList = true := by decide +kernel
example : stdExcMatch "Traceback (most recent call last):\n  ...\nValueError: m\n".toList
    = some "ValueError: m\n".toList := by decide +kernel
example : stdExcCheck f00 "ValueError: m\n".toList
    (codeblock "Traceback (most recent call last):\n  ...\nValueError: m\n".toList ++ ['\n']) = some true := by
  decide +kernel
example : directiveReMatch "doctest: +ELLIPSIS".toList = some "+ELLIPSIS".toList := by decide +kernel
example : (directiveReMatch "doctest: +NORMALIZE_WHITESPACE".toList).bind (parseDirectiveOptstr · true)
    = some { name := "NORMALIZE_WHITESPACE", positive := true, args := [], inline := true } := by
  decide +kernel

end Xdoc.C20

import XdocModel.Bracket
/-!
# C12 — Process-global state is restored after every outcome

Theorems about the bracket model (`Bracket.lean`), for ALL bodies (arbitrary functions on the
process state: they may replace `sys.stdout`, rebind or edit `warnings.filters`, edit `sys.path`),
ALL endings (normal, Exception, SystemExit, KeyboardInterrupt), all part lists:

* `stdout_restored` : after `DocTest.run` `sys.stdout` is the object it was before;
  `stderr_untouched` : the brackets never write `sys.stderr`;
* `filters_restored` : `warnings.filters` (the same list object with the same contents),
  `showwarning`, `_showwarnmsg_impl` are what they were;
* `syspath_restored` : `with PythonPathContext(dpath, index)` around a body that leaves `sys.path`
  as it found it restores the list exactly, whatever the ending, for every index `≤ len` — 0, -1 and
  EVERY negative integer (clamped since b193b74); `syspath_restored_far_index` for larger indices
  when `dpath` is not already listed; `syspath_restored_every_index`: for every integer index the
  entries are the same afterwards (a permutation) and `__exit__` raises nothing but, possibly, its
  own warning; `withPPC_no_index_error`;
* partial, for bodies that do edit `sys.path`: `syspath_one_occurrence_removed` — exactly one
  occurrence of `dpath` is gone and all other entries keep their order, also when the warning about
  the mangled path is raised as an error (after the removal, c14b47c); `RuntimeError` only when
  `dpath` is absent.
-/
namespace Xdoc.C12
open Xdoc

/-! ## sys.stdout / sys.stderr -/

theorem withCap_stdout (c : Cap) (lr : PState → Bool) (b : Body) (st : PState) (he : c.enabled = true) :
    (withCap c lr b st).1.stdout = c.orig := by
  simp [withCap, Cap.exit, Cap.stop, he]

theorem partsLoop_stdout (c : Cap) (he : c.enabled = true)
    (parts : List PartBody) (st : PState) (hne : parts ≠ []) :
    (partsLoop c parts st).1.stdout = c.orig := by
  induction parts generalizing st with
  | nil => exact absurd rfl hne
  | cons p rest ih =>
    have h1 := withCap_stdout c p.logRaises p.body st he
    simp only [partsLoop]
    have hrest : ∀ s, s.stdout = c.orig → (partsLoop c rest s).1.stdout = c.orig := by
      intro s hs
      cases rest with
      | nil => simpa [partsLoop] using hs
      | cons q r => exact ih s (by simp)
    split
    · exact hrest _ h1
    · split
      · exact hrest _ h1
      · exact h1
    · exact h1

/-- ★ `stdout_restored`: for every list of executed parts, every body — even one that replaces
    `sys.stdout` — every ending of every part, and every capture-stream failure, `sys.stdout` after
    the run is the object it was before, provided the pre-import (run outside the capture) does not
    itself replace `sys.stdout` -/
theorem stdout_restored (capObj freshList logAppend showOrig : Obj) (pre : Body)
    (parts : List PartBody) (st : PState) (hpre : ∀ s, (pre s).1.stdout = s.stdout) :
    (runBracket capObj freshList logAppend showOrig pre parts st).1.stdout = st.stdout := by
  simp only [runBracket, withCatchWarnings, cwExit, cwEnter]
  cases parts with
  | nil => rfl
  | cons p rest =>
    simp only
    split
    · exact partsLoop_stdout (Cap.new true capObj st) rfl (p :: rest) _ (by simp)
    · rw [hpre]

/-- ★ whatever the pre-import does: once a part has been captured, `sys.stdout` is the object it
    was when the run started -/
theorem stdout_restored_after_part (capObj freshList logAppend showOrig : Obj)
    (pre : Body) (parts : List PartBody) (st : PState) (hne : parts ≠ [])
    (hpre : (pre (cwEnter freshList logAppend showOrig st).2).2 = .normal) :
    (runBracket capObj freshList logAppend showOrig pre parts st).1.stdout = st.stdout := by
  simp only [runBracket, withCatchWarnings, cwExit]
  cases parts with
  | nil => exact absurd rfl hne
  | cons p rest =>
    simp only [hpre]
    exact partsLoop_stdout (Cap.new true capObj st) rfl (p :: rest) _ (by simp)

theorem partsLoop_stderr (c : Cap) (parts : List PartBody) (st : PState)
    (hb : ∀ p ∈ parts, ∀ s, (p.body s).1.stderr = s.stderr) :
    (partsLoop c parts st).1.stderr = st.stderr := by
  induction parts generalizing st with
  | nil => rfl
  | cons p rest ih =>
    have h1 : (withCap c p.logRaises p.body st).1.stderr = st.stderr := by
      have := hb p (by simp) (c.start st)
      simp only [withCap, Cap.exit, Cap.stop, Cap.start] at this ⊢
      split <;> simp_all
    have hr := fun s => ih s (fun q hq => hb q (by simp [hq]))
    simp only [partsLoop]
    split
    · rw [hr, h1]
    · split
      · rw [hr, h1]
      · exact h1
    · exact h1

/-- ★ `sys.stderr` is never touched by the brackets: if no body replaces it, it is unchanged -/
theorem stderr_untouched (capObj freshList logAppend showOrig : Obj) (pre : Body)
    (parts : List PartBody) (st : PState) (hpre : ∀ s, (pre s).1.stderr = s.stderr)
    (hb : ∀ p ∈ parts, ∀ s, (p.body s).1.stderr = s.stderr) :
    (runBracket capObj freshList logAppend showOrig pre parts st).1.stderr = st.stderr := by
  simp only [runBracket, withCatchWarnings, cwExit, cwEnter]
  cases parts with
  | nil => rfl
  | cons p rest =>
    simp only
    split
    · rw [partsLoop_stderr _ _ _ hb, hpre]
    · rw [hpre]

/-! ## warnings -/

/-- ★ `filters_restored`: for every body and ending, `warnings.filters` is the same list object
    with the same contents, and `showwarning` / `_showwarnmsg_impl` are the same objects -/
theorem filters_restored (capObj freshList logAppend showOrig : Obj) (pre : Body)
    (parts : List PartBody) (st : PState) :
    let r := (runBracket capObj freshList logAppend showOrig pre parts st).1
    r.filters = st.filters ∧ r.showwarning = st.showwarning ∧ r.showwarnmsgImpl = st.showwarnmsgImpl := by
  simp [runBracket, withCatchWarnings, cwExit, cwEnter]

theorem catch_warnings_restores (freshList logAppend showOrig : Obj) (body : Body) (st : PState) :
    let r := (withCatchWarnings freshList logAppend showOrig body st).1
    r.filters = st.filters ∧ r.showwarning = st.showwarning ∧ r.showwarnmsgImpl = st.showwarnmsgImpl := by
  simp [withCatchWarnings, cwExit, cwEnter]

/-! ## sys.path -/

/-- the index stored by `__enter__` is never negative (b193b74) -/
theorem ppcEnterIndex_nonneg (len : Nat) (index : Int) : 0 ≤ ppcEnterIndex len index := by
  unfold ppcEnterIndex; split
  · split <;> omega
  · omega

theorem ppcExit_after_insert (w : Bool) (dpath : String) (path : List String) (idx : Int)
    (h0 : 0 ≤ idx) (h1 : idx ≤ path.length) :
    ppcExit w dpath idx (pyInsert path idx dpath) = (path, .clean) := by
  have hpos : pyInsertPos path.length idx = idx.toNat := by
    unfold pyInsertPos
    have : ¬ idx < 0 := by omega
    have : idx.toNat ≤ path.length := by omega
    simp [*]
  have hlen : (pyInsert path idx dpath).length = path.length + 1 := by
    unfold pyInsert; rw [hpos, List.length_insertIdx]; simp; omega
  unfold ppcExit
  rw [hlen]
  have hn : ¬ ((path.length + 1 : Nat) : Int) ≤ idx := by omega
  simp only [hn, if_false]
  have hip : pyIndexPos (path.length + 1) idx = some idx.toNat := by
    unfold pyIndexPos
    have : ¬ idx < 0 := by omega
    have : idx.toNat < path.length + 1 := by omega
    simp [*]
  rw [hip]
  simp only
  have hget : (pyInsert path idx dpath)[idx.toNat]? = some dpath := by
    unfold pyInsert; rw [hpos]
    rw [List.getElem?_insertIdx_self]
    have : idx.toNat ≤ path.length := by omega
    simp [this]
  rw [hget]
  simp only [if_true]
  unfold pyInsert
  rw [hpos, List.eraseIdx_insertIdx_self]

/-- ★ `syspath_restored`: if the body leaves `sys.path` as it found it, the exit restores the
    original list exactly and silently — for every ending of the body (the import succeeded, raised,
    or was interrupted), whether or not warnings are errors, and for EVERY index up to the length of
    the list: 0, -1, and every negative integer however large (clamped by `__enter__`) -/
theorem syspath_restored (dpath : String) (index : Int) (body : Body) (st : PState) (w : Bool)
    (hbody : ∀ s, (body s).1.sysPath = s.sysPath) (hhi : index ≤ st.sysPath.length) :
    (withPPC dpath index body st w).1.sysPath = st.sysPath ∧
    (withPPC dpath index body st w).2.2 = .clean ∧
    (withPPC dpath index body st w).2.1 = (body { st with sysPath := (ppcEnter dpath index st.sysPath).2 }).2 := by
  have h0 := ppcEnterIndex_nonneg st.sysPath.length index
  have h1 : ppcEnterIndex st.sysPath.length index ≤ st.sysPath.length := by
    unfold ppcEnterIndex; split
    · split <;> omega
    · omega
  have := ppcExit_after_insert w dpath st.sysPath _ h0 h1
  refine ⟨?_, ?_, ?_⟩ <;> simp [withPPC, ppcEnter, hbody, this, exitEnding]

theorem far_index_enter (dpath : String) (index : Int) (path : List String)
    (hhi : (path.length : Int) < index) :
    ppcEnter dpath index path = (index, path ++ [dpath]) := by
  have hidx : ppcEnterIndex path.length index = index := by unfold ppcEnterIndex; split <;> omega
  have hpos : pyInsertPos path.length index = path.length := by
    unfold pyInsertPos
    have : ¬ index < 0 := by omega
    have : ¬ index.toNat ≤ path.length := by omega
    simp [*]
  simp [ppcEnter, hidx, pyInsert, hpos, List.insertIdx_length_self]

theorem far_index_exit (w : Bool) (dpath : String) (index : Int) (path : List String)
    (hhi : (path.length : Int) < index) :
    ppcExit w dpath index (path ++ [dpath]) = ppcRecover w dpath (path ++ [dpath]) := by
  unfold ppcExit
  have : ((path ++ [dpath]).length : Int) ≤ index := by simp; omega
  simp only [this, if_true]

/-- ★ an index beyond the end (the entry is appended, found again by search): restored exactly when
    `dpath` was not already listed — with a warning, or, when warnings are errors, with that warning
    raised AFTER the entry was removed (c14b47c) -/
theorem syspath_restored_far_index (dpath : String) (index : Int) (body : Body) (st : PState) (w : Bool)
    (hbody : ∀ s, (body s).1.sysPath = s.sysPath)
    (hhi : (st.sysPath.length : Int) < index) (hnew : dpath ∉ st.sysPath) :
    (withPPC dpath index body st w).1.sysPath = st.sysPath ∧
    (withPPC dpath index body st w).2.2 = (if w then .warnRaised else .recovered) := by
  have hrec : ppcRecover w dpath (st.sysPath ++ [dpath]) = (st.sysPath, if w then .warnRaised else .recovered) := by
    unfold ppcRecover
    have : (st.sysPath ++ [dpath]).idxOf? dpath = some st.sysPath.length := by
      rw [List.idxOf?_eq_some_iff]
      refine ⟨by simp, by simp, ?_⟩
      intro j hj hc
      rw [List.getElem_append_left hj] at hc
      exact hnew (hc ▸ List.getElem_mem hj)
    rw [this]
    simp only
    rw [List.eraseIdx_append_of_length_le (Nat.le_refl _)]
    simp
  refine ⟨?_, ?_⟩ <;>
    simp [withPPC, far_index_enter dpath index st.sysPath hhi, hbody, far_index_exit w dpath index st.sysPath hhi, hrec]

/-- ★ `syspath_restored_every_index`: for EVERY integer index, every ending, with or without
    warnings-as-errors, a body that leaves `sys.path` alone gets it back with exactly the entries it
    had (a permutation; the very same list for every index up to the length, and for larger indices
    whenever `dpath` was not already listed), and `__exit__` raises neither `RuntimeError` nor
    `IndexError`. (For an index beyond the end with `dpath` already listed, the search finds the older
    occurrence: the entries are the same, `dpath` ends up last — see the example below.) -/
theorem syspath_restored_every_index (dpath : String) (index : Int) (body : Body) (st : PState) (w : Bool)
    (hbody : ∀ s, (body s).1.sysPath = s.sysPath) :
    (withPPC dpath index body st w).1.sysPath.Perm st.sysPath ∧
    (withPPC dpath index body st w).2.2 ≠ .runtimeError ∧
    (withPPC dpath index body st w).2.2 ≠ .indexError ∧
    ((index ≤ st.sysPath.length ∨ dpath ∉ st.sysPath) → (withPPC dpath index body st w).1.sysPath = st.sysPath) := by
  by_cases hhi : index ≤ st.sysPath.length
  · obtain ⟨h1, h2, _⟩ := syspath_restored dpath index body st w hbody hhi
    rw [h1, h2]
    exact ⟨List.Perm.refl _, by simp, by simp, fun _ => rfl⟩
  · have hhi' : (st.sysPath.length : Int) < index := by omega
    have hmem : dpath ∈ st.sysPath ++ [dpath] := by simp
    have hsome : ∃ k, (st.sysPath ++ [dpath]).idxOf? dpath = some k := by
      cases h : (st.sysPath ++ [dpath]).idxOf? dpath with
      | none => exact absurd hmem (List.idxOf?_eq_none_iff.mp h)
      | some k => exact ⟨k, rfl⟩
    obtain ⟨k, hk⟩ := hsome
    have herase : (st.sysPath ++ [dpath]).eraseIdx k = (st.sysPath ++ [dpath]).erase dpath := by
      rw [List.erase_eq_eraseIdx, hk]
    have hperm : ((st.sysPath ++ [dpath]).erase dpath).Perm st.sysPath := by
      have h1 : (st.sysPath ++ [dpath]).Perm (dpath :: (st.sysPath ++ [dpath]).erase dpath) :=
        List.perm_cons_erase hmem
      have h2 : (st.sysPath ++ [dpath]).Perm (dpath :: st.sysPath) := List.perm_append_singleton _ _
      exact (List.Perm.cons_inv (h1.symm.trans h2))
    have hrec : ppcRecover w dpath (st.sysPath ++ [dpath]) =
        ((st.sysPath ++ [dpath]).erase dpath, if w then .warnRaised else .recovered) := by
      simp [ppcRecover, hk, herase]
    have hp : (withPPC dpath index body st w).1.sysPath = (st.sysPath ++ [dpath]).erase dpath := by
      simp [withPPC, far_index_enter dpath index st.sysPath hhi', hbody, far_index_exit w dpath index st.sysPath hhi', hrec]
    have hr : (withPPC dpath index body st w).2.2 = (if w then .warnRaised else .recovered) := by
      simp [withPPC, far_index_enter dpath index st.sysPath hhi', hbody, far_index_exit w dpath index st.sysPath hhi', hrec]
    refine ⟨hp ▸ hperm, ?_, ?_, ?_⟩
    · rw [hr]; split <;> simp
    · rw [hr]; split <;> simp
    · intro h
      rcases h with h | h
      · exact absurd h hhi
      · exact (syspath_restored_far_index dpath index body st w hbody hhi' h).1

/-- removing the entry at a position that holds `d` removes one occurrence of `d` and keeps the
    order of everything else -/
theorem eraseIdx_one_occurrence (d : String) (l : List String) (k : Nat) (h : l[k]? = some d) :
    (l.eraseIdx k).filter (· ≠ d) = l.filter (· ≠ d) ∧ (l.eraseIdx k).count d + 1 = l.count d := by
  induction l generalizing k with
  | nil => simp at h
  | cons x xs ih =>
    cases k with
    | zero =>
      simp at h; subst h
      simp
    | succ k =>
      simp at h
      obtain ⟨h1, h2⟩ := ih k h
      simp only [List.eraseIdx_cons_succ, List.filter_cons, List.count_cons]
      constructor
      · rw [h1]
      · omega

theorem ppcRecover_spec (w : Bool) (d : String) (path : List String) :
    let r := ppcRecover w d path
    (r.2 = (if w then .warnRaised else .recovered) ∧ r.1.filter (· ≠ d) = path.filter (· ≠ d) ∧
        r.1.count d + 1 = path.count d) ∨
    (r.2 = .runtimeError ∧ r.1 = path ∧ d ∉ path) := by
  simp only [ppcRecover]
  cases h : path.idxOf? d with
  | none => exact Or.inr ⟨rfl, rfl, List.idxOf?_eq_none_iff.mp h⟩
  | some k =>
    obtain ⟨hk, hget, _⟩ := List.idxOf?_eq_some_iff.mp h
    have := eraseIdx_one_occurrence d path k (by rw [List.getElem?_eq_getElem hk, hget])
    exact Or.inl ⟨rfl, this.1, this.2⟩

/-- the endings of `__exit__` in which the temporary entry has been removed -/
def Removed (r : ExitResult) : Prop := r = .clean ∨ r = .recovered ∨ r = .warnRaised

/-- ◐ `syspath_one_occurrence_removed` (bodies that edit `sys.path`; every stored index, every
    list, with or without warnings-as-errors): unless `dpath` is absent, exactly one occurrence of
    `dpath` has been removed and every other entry keeps its place in the order — ALSO when the
    warning about the mangled path is raised as an error (it is raised after the removal, c14b47c);
    `RuntimeError` only when `dpath` is absent (nothing to remove); `IndexError` only for a negative
    stored index (which `__enter__` never stores) -/
theorem syspath_one_occurrence_removed (w : Bool) (d : String) (idx : Int) (path : List String) :
    let r := ppcExit w d idx path
    (Removed r.2 ∧ r.1.filter (· ≠ d) = path.filter (· ≠ d) ∧ r.1.count d + 1 = path.count d) ∨
    (r.2 = .runtimeError ∧ r.1 = path ∧ d ∉ path) ∨
    (r.2 = .indexError ∧ r.1 = path ∧ idx < 0) := by
  have hrec := ppcRecover_spec w d path
  simp only at hrec
  have hrem : Removed (if w then ExitResult.warnRaised else ExitResult.recovered) := by
    cases w <;> simp [Removed]
  simp only [ppcExit]
  split
  · rcases hrec with ⟨a, b, c⟩ | ⟨a, b, c⟩
    · exact Or.inl ⟨a ▸ hrem, b, c⟩
    · exact Or.inr (Or.inl ⟨a, b, c⟩)
  · split
    · rename_i hlen hpos
      refine Or.inr (Or.inr ⟨rfl, rfl, ?_⟩)
      unfold pyIndexPos at hpos
      split at hpos
      · assumption
      · split at hpos
        · simp at hpos
        · omega
    · rename_i k hpos
      split
      · rename_i hget
        have := eraseIdx_one_occurrence d path k hget
        exact Or.inl ⟨Or.inl rfl, this.1, this.2⟩
      · rcases hrec with ⟨a, b, c⟩ | ⟨a, b, c⟩
        · exact Or.inl ⟨a ▸ hrem, b, c⟩
        · exact Or.inr (Or.inl ⟨a, b, c⟩)

/-- ★ with a stored index `≥ 0` `__exit__` never raises `IndexError`, however the body changed
    `sys.path` (bc2ba1f) … -/
theorem exit_no_index_error (w : Bool) (d : String) (idx : Int) (path : List String) (h : 0 ≤ idx) :
    (ppcExit w d idx path).2 ≠ .indexError := by
  have := syspath_one_occurrence_removed w d idx path
  simp only at this
  rcases this with ⟨h1, _⟩ | ⟨h1, _⟩ | ⟨_, _, h3⟩
  · rcases h1 with h1 | h1 | h1 <;> rw [h1] <;> simp
  · rw [h1]; simp
  · omega

/-- ★ … and `__enter__` stores such an index for EVERY integer it is given (b193b74): whatever the
    index and whatever the body does to `sys.path`, the `with` statement never ends in `IndexError` -/
theorem withPPC_no_index_error (dpath : String) (index : Int) (body : Body) (st : PState) (w : Bool) :
    (withPPC dpath index body st w).2.2 ≠ .indexError := by
  simp only [withPPC, ppcEnter]
  exact exit_no_index_error w dpath _ _ (ppcEnterIndex_nonneg _ _)

/-- ◐ the same for the whole `with` statement around an arbitrary body: the temporary entry (one
    occurrence) is gone unless the body itself removed every occurrence -/
theorem withPPC_one_occurrence_removed (dpath : String) (index : Int) (body : Body) (st : PState) (w : Bool) :
    let after := (body { st with sysPath := (ppcEnter dpath index st.sysPath).2 }).1.sysPath
    let r := withPPC dpath index body st w
    (Removed r.2.2 ∧ r.1.sysPath.filter (· ≠ dpath) = after.filter (· ≠ dpath) ∧
        r.1.sysPath.count dpath + 1 = after.count dpath) ∨
    (r.2.2 = .runtimeError ∧ r.1.sysPath = after ∧ dpath ∉ after ∧ r.2.1 = .exception) := by
  have := syspath_one_occurrence_removed w dpath (ppcEnter dpath index st.sysPath).1
    (body { st with sysPath := (ppcEnter dpath index st.sysPath).2 }).1.sysPath
  have hni := withPPC_no_index_error dpath index body st w
  simp only at this
  simp only [withPPC] at hni ⊢
  rcases this with ⟨a, b, c⟩ | ⟨a, b, c⟩ | ⟨a, _, _⟩
  · exact Or.inl ⟨a, b, c⟩
  · exact Or.inr ⟨a, b, c, by rw [a]; rfl⟩
  · exact absurd a hni

/-! ## non-vacuity and witnesses -/

def st0 : PState :=
  { stdout := 1, stderr := 2, filters := { id := 3, items := [7, 8] }, showwarning := 4,
    showwarnmsgImpl := 5, sysPath := ["a", "b", "c"] }

/-- a body that prints, replaces `sys.stdout`, adds a warning filter, rebinds `warnings.filters` -/
def nasty (e : Ending) : PartBody :=
  { body := opsBody [.setStdout 77, .addFilter 9, .rebindFilters 50, .setShowwarning 51] e }

example : (runBracket 10 11 12 13 (opsBody [] .normal)
    [nasty .normal, nasty .keyboardInterrupt, nasty .normal] st0) = (st0, .keyboardInterrupt) := by
  decide +kernel
/-- the capture stream was closed by the body: `log_part` raises, `stop()` still runs -/
example : (runBracket 10 11 12 13 (opsBody [] .normal) [{ nasty .normal with logRaises := fun _ => true }] st0)
    = (st0, .exception) := by decide +kernel
/-- instance of `syspath_restored` with index -1, the import failing -/
example : (withPPC "d" (-1) (opsBody [] .exception) st0).1.sysPath = ["a", "b", "c"] :=
  (syspath_restored "d" (-1) (opsBody [] .exception) st0 false (fun _ => rfl) (by decide)).1
example : (withPPC "d" (-1) (opsBody [] .normal) st0) = (st0, .normal, .clean) := by decide +kernel
/-- the former K-C12-a input (index below `-2·len-2`): clamped to the front, removed silently -/
example : (withPPC "d" (-9) (opsBody [] .normal) st0) = (st0, .normal, .clean) := by decide +kernel
example : (withPPC "d" (-100) (opsBody [] .keyboardInterrupt) st0 true) = (st0, .keyboardInterrupt, .clean) := by
  decide +kernel
/-- the imported module inserts an entry in front: recovered by search, the entry of the module stays -/
example : (withPPC "d" (-1) (opsBody [.pathInsert 0 "x"] .normal) st0).1.sysPath = ["x", "a", "b", "c"] ∧
    (withPPC "d" (-1) (opsBody [.pathInsert 0 "x"] .normal) st0).2.2 = .recovered := by decide +kernel
/-- the same while warnings are errors (c14b47c): the warning propagates as an exception, the
    temporary entry is gone all the same -/
example : (withPPC "d" (-1) (opsBody [.pathInsert 0 "x"] .normal) st0 true) =
    ({ st0 with sysPath := ["x", "a", "b", "c"] }, .exception, .warnRaised) := by decide +kernel
/-- `dpath` already listed and the body shifts the list: the WRONG occurrence is removed (the
    multiset is right, the order of the other entries is kept, the position of `dpath` is not) -/
example : (withPPC "a" (-1) (opsBody [.pathInsert 0 "x"] .normal) st0).1.sysPath = ["x", "b", "c", "a"] := by
  decide +kernel
/-- index beyond the end AND `dpath` already listed, body untouched: same entries, `dpath` moved last
    (why `syspath_restored_every_index` states a permutation for this corner) -/
example : (withPPC "a" 10 (opsBody [] .normal) st0).1.sysPath = ["b", "c", "a"] := by decide +kernel
/-- the body removed the entry itself: RuntimeError, nothing else changes -/
example : (withPPC "d" 0 (opsBody [.pathRemove "d"] .normal) st0) = (st0, .exception, .runtimeError) := by
  decide +kernel
/-- index beyond the end: appended, recovered by search (before bc2ba1f: IndexError and a leak) -/
example : (withPPC "d" 10 (opsBody [] .normal) st0) = (st0, .normal, .recovered) := by decide +kernel

end Xdoc.C12

import XdocModel.Example
import XdocModel.Lemmas.Example
/-!
# C02 — Got/want verdicts are exact: no false pass, no false fail

Theorems about the run-loop model (`Example.lean`) for ALL part lists, ALL execution oracles `sem`
(what CPython does when a part runs), all requirement oracles `sat` and all configurations.
-/
namespace Xdoc.C02
open Xdoc Py

variable {Env : Type}

/-! ## the got/want check over trailing outputs -/

/-- the texts a want is compared with: the concatenation of the last `k ≥ 1` entries of
    `unmatched ++ [stdout]`, shortest first -/
def candidates : List Str → Str → List Str
  | [], acc => [acc]
  | u :: us, acc => acc :: candidates us (u ++ acc)

/-- the verdict over the candidates (after the repair of `DoctestPart.check`): satisfied if SOME candidate is; otherwise the repr
    error if one occurred; otherwise "differs" -/
def verdictOf : List GotWant → GotWant
  | [] => .differs
  | .ok :: _ => .ok
  | .differs :: r => verdictOf r
  | .reprError :: r =>
    match verdictOf r with
    | .ok => .ok
    | _ => .reprError

theorem checkTrailing_eq (f : Flags) (want : Str) (ev : EvalResult) (us : List Str) (acc : Str) :
    checkTrailing f want ev us acc =
      verdictOf ((candidates us acc).map fun c => checkGotVsWant f want c ev) := by
  induction us generalizing acc with
  | nil =>
    simp only [checkTrailing, candidates, List.map_cons, List.map_nil]
    cases checkGotVsWant f want acc ev <;> simp [verdictOf]
  | cons u us ih =>
    simp only [checkTrailing, candidates, List.map_cons]
    cases h : checkGotVsWant f want acc ev
    · simp [verdictOf]
    · simp [verdictOf, ih]
    · simp only [verdictOf, ih]
      generalize verdictOf (List.map (fun c => checkGotVsWant f want c ev) (candidates us (u ++ acc))) = v
      cases v <;> rfl

/-- the verdict is "satisfied" exactly when some candidate is -/
theorem verdictOf_ok_iff (l : List GotWant) : verdictOf l = .ok ↔ .ok ∈ l := by
  induction l with
  | nil => simp [verdictOf]
  | cons g l ih =>
    cases g with
    | ok => simp [verdictOf]
    | differs => simp [verdictOf, ih]
    | reprError =>
      simp only [verdictOf, List.mem_cons, reduceCtorEq, false_or]
      rw [← ih]
      cases verdictOf l <;> simp

/-- every candidate is the concatenation of a non-empty suffix of `unmatched ++ [stdout]` -/
theorem candidates_spec (us : List Str) (acc c : Str) :
    c ∈ candidates us acc ↔ ∃ k, k ≤ us.length ∧ c = (us.take k).reverse.flatten ++ acc := by
  induction us generalizing acc with
  | nil => simp [candidates]
  | cons u us ih =>
    simp only [candidates, List.mem_cons, ih, List.length_cons]
    constructor
    · rintro (h | ⟨k, hk, h⟩)
      · exact ⟨0, by omega, by simp [h]⟩
      · exact ⟨k + 1, by omega, by simp [h]⟩
    · rintro ⟨k, hk, h⟩
      cases k with
      | zero => exact Or.inl (by simpa using h)
      | succ k => exact Or.inr ⟨k, by omega, by simpa using h⟩

/-- ★ `want_ok_iff` (FULL since the repair of `DoctestPart.check`; before it the statement needed the hypothesis "the value's repr
    does not raise", and the excluded point was a false fail of the real code, see `want_ok_iff_old_code_fails`): a want is satisfied
    iff SOME trailing portion of the output produced since the previous want (the last `k` outputs, `k ≥ 0` earlier ones plus this
    part's own) satisfies `check_got_vs_want`: stdout, or the value's repr when there is no stdout, or either when both exist. -/
theorem want_ok_iff (f : Flags) (want out : Str) (ev : EvalResult) (unm : List Str) :
    partCheck f want out ev unm = .ok ↔
      ∃ k, k ≤ unm.length ∧
        checkGotVsWant f want (((unm.reverse.take k).reverse).flatten ++ out) ev = .ok := by
  unfold partCheck
  rw [checkTrailing_eq, verdictOf_ok_iff]
  simp only [List.mem_map]
  constructor
  · rintro ⟨c, hc, h⟩
    obtain ⟨k, hk, rfl⟩ := (candidates_spec _ _ _).mp hc
    exact ⟨k, by simpa using hk, h⟩
  · rintro ⟨k, hk, h⟩
    exact ⟨_, (candidates_spec _ _ _).mpr ⟨k, by simpa using hk, rfl⟩, h⟩

/-- the search as it was before the repair: a repr error ended it at once -/
def checkTrailingOld (f : Flags) (want : Str) (ev : EvalResult) : List Str → Str → GotWant
  | [], acc => checkGotVsWant f want acc ev
  | u :: us, acc =>
    match checkGotVsWant f want acc ev with
    | .ok => .ok
    | .reprError => .reprError
    | .differs => checkTrailingOld f want ev us (u ++ acc)

/-- the false fail that was repaired: `>>> print('a')` / `>>> badp(1)` (prints `q1`, returns a value whose repr raises) with the
    want `a` / `q1`: the want equals everything written since the previous want, the old search stopped at the first candidate -/
def demoFlags : Flags := { ellipsis := true, normWs := true, ignWs := false, normRepr := true, noBlank := false }

theorem want_ok_iff_old_code_fails :
    checkTrailingOld demoFlags "a\nq1".toList .reprRaises ["a\n".toList] "q1\n".toList = .reprError ∧
    partCheck demoFlags "a\nq1".toList "q1\n".toList .reprRaises ["a\n".toList] = .ok := by decide +kernel

/-- the three ways a single candidate text satisfies a want (`check_got_vs_want`) -/
theorem candidate_ok_iff (f : Flags) (want got : Str) (r : Str) :
    checkGotVsWant f want got (.value r) = .ok ↔
      (got = [] ∧ checkOutput f r want = true) ∨
      (got ≠ [] ∧ (checkOutput f got want = true ∨ checkOutput f r want = true)) := by
  unfold checkGotVsWant
  cases got with
  | nil => simp
  | cons c g =>
    simp only [List.isEmpty_cons, Bool.false_eq_true, ↓reduceIte]
    split
    · simp_all
    · split <;> simp_all

theorem candidate_ok_iff_noeval (f : Flags) (want got : Str) :
    checkGotVsWant f want got .notEvaled = .ok ↔ checkOutput f got want = true := by
  unfold checkGotVsWant; simp only; split <;> simp_all

/-! ## decisions for one part -/

/-- ★ code without a want never fails because of what it prints or returns -/
theorem no_want_never_fails (f : Flags) (iw : Bool) (unm : List Str) (out : Str) (ev : EvalResult) :
    decideExec f iw none unm (.ok out ev) = .ran out .append := rfl

/-- ★ a want that is there but ignored (IGNORE_WANT on) is never compared — whatever the output — and it still ENDS the window of
    "output since the previous want": the unmatched output is cleared, exactly as after a compared want (round-6 seed C02-6A treated
    such a part like one without a want, so that a later want could be satisfied by output from before the ignored one) -/
theorem ignored_want_closes_window (f : Flags) (want : Str) (unm : List Str) (out : Str) (ev : EvalResult) :
    decideExec f true (some want) unm (.ok out ev) = .ran out .clear := rfl

/-- ★ with a want (and IGNORE_WANT off) the part fails with a got/want error exactly when the
    check over the trailing outputs says "differs"; otherwise the loop goes on and the unmatched
    output is cleared -/
theorem want_decision (f : Flags) (want : Str) (unm : List Str) (out : Str) (ev : EvalResult) :
    decideExec f false (some want) unm (.ok out ev) =
      match partCheck f want out ev unm with
      | .ok => .ran out .clear
      | .differs => .halt true out (some (.gotWant, 1))
      | .reprError => .halt true out (some (.reprError, 1)) := by
  simp only [decideExec, Bool.false_eq_true, ↓reduceIte]
  cases partCheck f want out ev unm <;> rfl

/-! ## the whole run -/

/-- facts about every run, for all inputs -/
theorem run_result (sat : Str → Option Bool) (sem : Env → Nat → RunPart → ExecResult × Env)
    (cfg : RunCfg) (env0 : Env) (parts : List RunPart) :
    LoopResult sem cfg parts.length
      (runLoop sat sem cfg { env := env0, rs := RState.init cfg.defaults } 0 parts).1
      (runLoop sat sem cfg { env := env0, rs := RState.init cfg.defaults } 0 parts).2 := by
  have := runLoop_result sat sem cfg parts { env := env0, rs := RState.init cfg.defaults } 0
    (loopInv_init env0 _)
  simpa using this

theorem run_state_eq (sat : Str → Option Bool) (sem : Env → Nat → RunPart → ExecResult × Env)
    (cfg : RunCfg) (env0 : Env) (parts : List RunPart) :
    (run sat sem cfg env0 parts).state =
      (runLoop sat sem cfg { env := env0, rs := RState.init cfg.defaults } 0 parts).1 ∧
    (run sat sem cfg env0 parts).summary =
      summaryOf parts.length (runLoop sat sem cfg { env := env0, rs := RState.init cfg.defaults } 0 parts).1 := by
  unfold run
  simp only
  split <;> (try split) <;> simp

/-- ★ `first_bad_want_stops` (general form): a recorded failure is attributed to a part that was
    not skipped; every part before it was skipped or executed, each executed part ran exactly once
    and in order (`executed` is strictly increasing), and no part after it ran. -/
theorem failure_stops (sat : Str → Option Bool) (sem : Env → Nat → RunPart → ExecResult × Env)
    (cfg : RunCfg) (env0 : Env) (parts : List RunPart) (fl : Failure)
    (h : (run sat sem cfg env0 parts).state.failure = some fl) :
    let st := (run sat sem cfg env0 parts).state
    fl.partIdx < parts.length ∧ fl.partIdx ∉ st.skipped ∧
    st.executed.Pairwise (· < ·) ∧ (∀ j ∈ st.executed, j ≤ fl.partIdx) ∧
    (∀ j, j < fl.partIdx → j ∈ st.skipped ∨ j ∈ st.executed) := by
  have r := run_result sat sem cfg env0 parts
  rw [(run_state_eq sat sem cfg env0 parts).1] at h ⊢
  obtain ⟨h1, h2, h3, _, _, h6⟩ := r.failure fl h
  exact ⟨h1, h2, r.executedSorted, h3, h6⟩

/-- ★ `verdict_trichotomy`: the summary says exactly one of passed / failed / skipped -/
theorem verdict_trichotomy (sat : Str → Option Bool) (sem : Env → Nat → RunPart → ExecResult × Env)
    (cfg : RunCfg) (env0 : Env) (parts : List RunPart) :
    let s := (run sat sem cfg env0 parts).summary
    (s.passed = true ∧ s.failed = false ∧ s.skipped = false) ∨
    (s.passed = false ∧ s.failed = true ∧ s.skipped = false) ∨
    (s.passed = false ∧ s.failed = false ∧ s.skipped = true) := by
  have r := run_result sat sem cfg env0 parts
  rw [(run_state_eq sat sem cfg env0 parts).2]
  simp only [summaryOf]
  cases hf : (runLoop sat sem cfg { env := env0, rs := RState.init cfg.defaults } 0 parts).1.failure with
  | none =>
    by_cases hs : (runLoop sat sem cfg { env := env0, rs := RState.init cfg.defaults } 0 parts).1.skipped.length = parts.length
    · simp [hs]
    · simp [hs]
  | some fl =>
    have := r.failure fl hf
    have hlt := r.stopped this.2.2.2.2.1
    have : ¬ (runLoop sat sem cfg { env := env0, rs := RState.init cfg.defaults } 0 parts).1.skipped.length = parts.length := by omega
    simp [this]

/-- ★ a doctest passes exactly when nothing failed and something was not skipped -/
theorem passed_iff (sat : Str → Option Bool) (sem : Env → Nat → RunPart → ExecResult × Env)
    (cfg : RunCfg) (env0 : Env) (parts : List RunPart) :
    let o := run sat sem cfg env0 parts
    o.summary.passed = true ↔ o.state.failure = none ∧ o.state.skipped.length ≠ parts.length := by
  simp only
  rw [(run_state_eq sat sem cfg env0 parts).2, (run_state_eq sat sem cfg env0 parts).1]
  simp [summaryOf]

/-- ★ one in which nothing ran is reported skipped, never passed: a passed doctest executed
    at least one part -/
theorem passed_ran_something (sat : Str → Option Bool) (sem : Env → Nat → RunPart → ExecResult × Env)
    (cfg : RunCfg) (env0 : Env) (parts : List RunPart)
    (h : (run sat sem cfg env0 parts).summary.passed = true) :
    (run sat sem cfg env0 parts).state.executed ≠ [] := by
  have r := run_result sat sem cfg env0 parts
  obtain ⟨hf, hs⟩ := (passed_iff sat sem cfg env0 parts).mp h
  rw [(run_state_eq sat sem cfg env0 parts).1] at hf hs ⊢
  cases he : (runLoop sat sem cfg { env := env0, rs := RState.init cfg.defaults } 0 parts).2 with
  | none =>
    have := (r.complete he).2
    intro hnil
    rw [hnil] at this
    simp at this
    exact hs this
  | some e => exact r.stoppedRan (by simp [he]) hf

/-- ★ skipped means: every part was skipped, nothing ran, nothing failed -/
theorem skipped_iff (sat : Str → Option Bool) (sem : Env → Nat → RunPart → ExecResult × Env)
    (cfg : RunCfg) (env0 : Env) (parts : List RunPart) :
    let o := run sat sem cfg env0 parts
    o.summary.skipped = true ↔ o.state.skipped.length = parts.length := by
  simp only
  rw [(run_state_eq sat sem cfg env0 parts).2, (run_state_eq sat sem cfg env0 parts).1]
  simp [summaryOf]

/-! ### non-vacuity: a concrete three-part doctest (`x = 1`, `print(x)` with want, another print) -/
section Example
def exParts : List RunPart :=
  [{ part := { execLines := ["x = 1".toList] } },
   { part := { execLines := ["print(x)".toList], wantLines := some ["2".toList] } },
   { part := { execLines := ["print(3)".toList] } }]
def exSem : Unit → Nat → RunPart → ExecResult × Unit := fun _ i _ =>
  (if i == 0 then .ok [] .notEvaled else if i == 1 then .ok "1\n".toList .notEvaled else .ok "3\n".toList .notEvaled, ())
example : (run (fun _ => some true) exSem {} () exParts).state.failure
    = some { kind := .gotWant, partIdx := 1 } := by decide +kernel
example : (run (fun _ => some true) exSem {} () exParts).state.executed = [0, 1] := by decide +kernel
example : (run (fun _ => some true) exSem {} () exParts).summary
    = { passed := false, failed := true, skipped := false } := by decide +kernel
end Example

end Xdoc.C02

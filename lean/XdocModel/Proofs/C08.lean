import XdocModel.Lemmas.LineNumbers
import XdocModel.Proofs.C07
import XdocModel.Example
/-!
# C08 — reported line numbers point at the real lines of the source file

Pure index arithmetic over the models of `_find_docstr_startpos_workaround`, the google block
offsets, the freeform `curr_offset`, the re-basing in `doctest_from_parts`, and
`failed_line_offset` / `failed_lineno`. Conventions: `F` = the lines of the file (0-based list),
`a` = 0-based index of the line on which the docstring literal starts, so `doclineno = a + 1`;
file line NUMBER `n` (1-based, what xdoctest reports) is `F[n - 1]`.

Outside the model (CPython facts, checked by the harness on every generated file): `end_lineno` of
the docstring node; that line `i` of the docstring value is written on file line `a + i`
(`LiteralLayout`: true for literals without line-continuation or newline escapes); traceback
line numbers. The parser's tiling of the docstring (`Tiled`) is property C13.
-/
namespace Xdoc.C08
open Xdoc Py Static Google Core

/-! ## where the docstring starts -/

theorem pyIndex_nat {α : Type} (xs : List α) (a : Nat) : pyIndex xs (a : Int) = xs[a]? := by
  simp [pyIndex]

theorem tripStep_at (docstr : Str) (src : List Str) (a b : Nat) (la lb trip : Str)
    (hab : a ≤ b) (hla : src[a]? = some la) (hn : countChar '\n' docstr = b - a) :
    tripStep (countChar '\n' docstr) src (b + 1) lb trip =
      .ok (if endOk trip lb && startOk trip la then some (a : Int) else none) := by
  unfold tripStep
  have hc : ((b + 1 : Nat) : Int) - (countChar '\n' docstr : Nat) - 1 = (a : Int) := by
    rw [hn]; omega
  by_cases he : endOk trip lb = true
  · simp only [he, if_true, hc, pyIndex_nat, hla, Bool.true_and]
    by_cases hs : startOk trip la = true <;> simp [hs]
  · simp [he]

/-- **the docstring start is found**: a literal that occupies the file lines `a..b` (0-based), whose
    value has `b - a` newline characters, whose first line — after `strip()` — starts with the
    triple quote `trip`, optionally preceded by one of `r R u U`, and whose last line — after
    removing a trailing comment and `strip()` — ends with the same triple quote, is located at
    line `a`: `doclineno = a + 1`, `doclineno_end = b + 1`. -/
theorem docstart_correct (docstr : Str) (src : List Str) (a b : Nat) (la lb trip : Str)
    (hab : a ≤ b) (hla : src[a]? = some la) (hlb : src[b]? = some lb)
    (hn : countChar '\n' docstr = b - a) (ht : trip ∈ trips)
    (hend : endOk trip lb = true) (hstart : startOk trip la = true) :
    docLines src ⟨docstr, b + 1, a + 1⟩ = .ok ((a : Int) + 1, b + 1) := by
  unfold docLines
  cases Generated.docstartUsesNodeLineno
  case true => simp
  simp only [Bool.false_eq_true, if_false]
  unfold findDocStart
  simp only [Nat.add_sub_cancel, hlb]
  rw [tripStep_at docstr src a b la lb _ hab hla hn, tripStep_at docstr src a b la lb _ hab hla hn]
  simp only [trips, List.mem_cons, List.not_mem_nil, or_false] at ht
  rcases ht with rfl | rfl
  · simp [hend, hstart]
  · by_cases h1 : (endOk tripS lb && startOk tripS la) = true
    · simp [h1]
    · simp [h1, hend, hstart]

/-- a string literal whose last line does not end in a triple quote is taken to be on one line -/
theorem docstart_oneline (docstr : Str) (src : List Str) (b : Nat) (lb : Str) (hlb : src[b]? = some lb)
    (h1 : endOk tripS lb = false) (h2 : endOk tripD lb = false) :
    docLines src ⟨docstr, b + 1, b + 1⟩ = .ok ((b : Int) + 1, b + 1) := by
  unfold docLines
  cases Generated.docstartUsesNodeLineno
  case true => simp
  simp only [Bool.false_eq_true, if_false]
  unfold findDocStart
  simp [hlb, tripStep, h1, h2]

/-- non-vacuity: `def f():` / `    R"""Summary.` / `` / `    Example:` / `    """  # end` -/
example : (docLines ["def f():".toList, "    R\"\"\"Summary.".toList, [], "    Example:".toList,
                    "    \"\"\"  # end".toList]
    ⟨"Summary.\n\n    Example:\n    ".toList, 5, 2⟩).toOption = some (2, 5) := by decide +kernel
example : endOk "\"\"\"".toList "    \"\"\"  # end".toList = true := by decide +kernel
example : startOk "\"\"\"".toList "    R\"\"\"Summary.".toList = true := by decide +kernel
example : startOk "'''".toList "  u'''x".toList = true := by decide +kernel
/-- the pathological end line of the upstream doctest: both quote styles pass the end test -/
example : endOk "'''".toList "''' # \"\"\" # ''' # \"\"\"".toList = true ∧
          endOk "\"\"\"".toList "''' # \"\"\" # ''' # \"\"\"".toList = true := by decide +kernel

/-! ## google: the offset of a block is the index of its tag line -/

theorem google_offset_is_tag_index (docstr callname : Str) (lineno i : Nat) (e : Ex)
    (he : (googleAll docstr callname lineno)[i]? = some e) :
    ∃ b pre l0 val post, (exampleBlocks docstr)[i]? = some b ∧
      prepLines docstr = pre ++ (l0 :: val) ++ post ∧ b.offset = pre.length ∧
      isTagLine l0 = true ∧ e.lineno = lineno + pre.length + 1 ∧ e.num = i ∧
      e.docsrc = joinWith ['\n'] (dedentLines val) := by
  have h := (C07.one_example_per_block_in_order docstr callname lineno).2 i
  rw [he] at h
  cases hb : (exampleBlocks docstr)[i]? with
  | none => rw [hb] at h; simp at h
  | some b =>
    rw [hb] at h
    simp only [Option.map_some, Option.some.injEq] at h
    have hmem : b ∈ exampleBlocks docstr := List.mem_of_getElem? hb
    unfold exampleBlocks at hmem
    obtain ⟨hm1, hm2⟩ := List.mem_filter.mp hmem
    obtain ⟨pre, l0, val, post, h1, h2, h3, _, _, h6⟩ := C07.example_block_starts_at_tag docstr b hm1 hm2
    refine ⟨b, pre, l0, val, post, rfl, h1, h2, h3, ?_, ?_, ?_⟩
    · rw [h]; simp [h2]
    · rw [h]
    · rw [h]; exact h6

/-- CPython fact (trusted; checked by the harness on every generated file): line `i` of the
    docstring value is written on file line `a + i` (0-based) -/
def LiteralLayout (F : List Str) (a : Nat) (docstr : Str) : Prop :=
  ∀ i l, (splitOn '\n' docstr)[i]? = some l → ∃ fl, F[a + i]? = some fl ∧ l <:+: fl

theorem getElem?_mid {α : Type} (pre val post : List α) (l0 : α) (k : Nat) (v : α) (h : val[k]? = some v) :
    (pre ++ (l0 :: val) ++ post)[pre.length + 1 + k]? = some v := by
  have hk : k < val.length := by
    rcases Nat.lt_or_ge k val.length with h' | h'
    · exact h'
    · rw [List.getElem?_eq_none h'] at h; cases h
  rw [List.append_assoc, List.getElem?_append_right (by omega)]
  have : pre.length + 1 + k - pre.length = k + 1 := by omega
  rw [this, List.cons_append, List.getElem?_cons_succ, List.getElem?_append_left hk]
  exact h

/-- **google, every body line is where `lineno` says**: for the `i`-th example of a docstring that
    starts on file line `a + 1`, line `k` of the example's source (`part.line_offset = k` for a part
    that starts there) is the text of file line number `lineno + k`, i.e. `F[lineno + k - 1]`, up to
    the indentation `dedent` removed -/
theorem part_line_is_file_line_google (F : List Str) (a : Nat) (docstr callname : Str) (i : Nat) (e : Ex)
    (hlay : LiteralLayout F a docstr) (he : (googleAll docstr callname (a + 1))[i]? = some e) :
    ∃ body, e.docsrc = joinWith ['\n'] body ∧
      ∀ k bl, body[k]? = some bl → ∃ fl, F[e.lineno + k - 1]? = some fl ∧ bl <:+: fl := by
  obtain ⟨b, pre, l0, val, post, _, h1, _, _, h4, _, h6⟩ := google_offset_is_tag_index docstr callname (a + 1) i e he
  refine ⟨dedentLines val, h6, ?_⟩
  intro k bl hk
  obtain ⟨vl, hvl, hs1⟩ := dedentLines_suffix val k bl hk
  have hp : (prepLines docstr)[pre.length + 1 + k]? = some vl := by rw [h1]; exact getElem?_mid pre val post l0 k vl hvl
  obtain ⟨l, hl, hs2⟩ := prepLines_suffix docstr _ vl (by omega) hp
  obtain ⟨fl, hfl, hs3⟩ := hlay _ l hl
  refine ⟨fl, ?_, ?_⟩
  · rw [h4]
    have : a + 1 + pre.length + 1 + k - 1 = a + (pre.length + 1 + k) := by omega
    rw [this]; exact hfl
  · exact ((hs1.trans hs2).isInfix).trans hs3

/-! ## freeform: `curr_offset` is the offset of the first kept part -/

theorem freeform_offset_is_first_part_offset (pieces : List FPiece) (callname : Str) (lineno : Nat) (e : Ex)
    (ht : Tiled 0 pieces) (he : e ∈ freeform pieces callname lineno) :
    ∃ p0 ps, (pieces.foldl fstep {}).curParts = p0 :: ps ∧
      e.lineno = lineno + p0.lineOffset ∧ e.num = 0 ∧ e.parts = some (rebase (p0 :: ps)) ∧
      ∀ p ∈ p0 :: ps, p0.lineOffset ≤ p.lineOffset := by
  obtain ⟨off', h1, h2, h3, _⟩ := finv_fold pieces {} 0 (by simp [FInv]) ht
  unfold freeform at he
  simp only at he
  cases hc : (pieces.foldl fstep {}).curParts with
  | nil => rw [hc] at he; simp at he
  | cons p0 ps =>
    rw [hc] at he
    simp only [List.mem_singleton] at he
    refine ⟨p0, ps, rfl, ?_, ?_, ?_, ?_⟩
    · rw [he, h2 p0 (by rw [hc]; rfl)]
    · rw [he]
    · rw [he]
    · intro p hp; exact h3 p (by rw [hc]; exact hp) p0 (by rw [hc]; rfl)

theorem rebase_getElem? (p0 : Part) (ps : List Part) (k : Nat) :
    (rebase (p0 :: ps))[k]? = ((p0 :: ps)[k]?).map fun p => { p with lineOffset := p.lineOffset - p0.lineOffset } := by
  cases k <;> simp [rebase]

/-- **freeform, every part is where `lineno + line_offset` says**: after the re-basing, the docstring
    line at which the parser placed the `k`-th kept part is the text of file line number
    `lineno + part.line_offset`, and the first part has offset 0 (so `lineno` is the first prompt) -/
theorem part_line_is_file_line_freeform (F : List Str) (a : Nat) (docstr callname : Str)
    (pieces : List FPiece) (e : Ex) (hlay : LiteralLayout F a docstr) (ht : Tiled 0 pieces)
    (he : e ∈ freeform pieces callname (a + 1)) :
    ∃ orig reb, (pieces.foldl fstep {}).curParts = orig ∧ e.parts = some reb ∧ reb.length = orig.length ∧
      (∀ p', reb[0]? = some p' → p'.lineOffset = 0) ∧
      ∀ (k : Nat) (p p' : Part) (l : Str), orig[k]? = some p → reb[k]? = some p' →
        (splitOn '\n' docstr)[p.lineOffset]? = some l →
        ∃ fl, F[e.lineno + p'.lineOffset - 1]? = some fl ∧ l <:+: fl := by
  obtain ⟨p0, ps, h1, h2, _, h4, h5⟩ := freeform_offset_is_first_part_offset pieces callname (a + 1) e ht he
  refine ⟨p0 :: ps, rebase (p0 :: ps), h1, h4, by simp [rebase], ?_, ?_⟩
  · intro p' hp'
    rw [rebase_getElem?] at hp'
    simp at hp'; rw [← hp']
  · intro k p p' l hp hp' hl
    rw [rebase_getElem?, hp] at hp'
    simp only [Option.map_some, Option.some.injEq] at hp'
    obtain ⟨fl, hfl, hs⟩ := hlay _ l hl
    refine ⟨fl, ?_, hs⟩
    have hle := h5 p (List.mem_of_getElem? hp)
    rw [h2, ← hp']
    have : a + 1 + p0.lineOffset + (p.lineOffset - p0.lineOffset) - 1 = a + p.lineOffset := by omega
    simp only
    rw [this]; exact hfl

/-! ## the failing line -/

/-- an exception: `failed_lineno = lineno + part.line_offset + tb_lineno - 1`, the file line of line
    `tb_lineno` (1-based, from the OUTERMOST traceback frame that belongs to the doctest) of the
    failing part: the raising line inside a multi-line statement, or the doctest line that called
    the failing code -/
theorem failed_lineno_exception (lineno : Nat) (p : Part) (i t : Nat) (ht : 1 ≤ t) :
    failedLineno lineno p { kind := .exception, partIdx := i, tbLineno := t } =
      (lineno + p.lineOffset) + (t - 1) := by
  simp only [failedLineno, failedLineOffset]; omega

/-- an error found when the part is compiled is located the same way (`lineno` of the error) -/
theorem failed_lineno_compile (lineno : Nat) (p : Part) (i t : Nat) (ht : 1 ≤ t) :
    failedLineno lineno p { kind := .compile, partIdx := i, tbLineno := t } =
      (lineno + p.lineOffset) + (t - 1) := by
  simp only [failedLineno, failedLineOffset]; omega

/-- a got/want mismatch: the first line of the offending want (it follows the part's exec lines) -/
theorem failed_lineno_gotwant (lineno : Nat) (p : Part) (i t : Nat) :
    failedLineno lineno p { kind := .gotWant, partIdx := i, tbLineno := t } =
      (lineno + p.lineOffset) + p.nExecLines := by
  simp only [failedLineno, failedLineOffset]; omega

/-- non-vacuity: a part at offset 3 of a doctest reported at line 10, 2 exec lines; the exception is
    raised on the second line of the statement -/
example : failedLineno 10 { execLines := ["f(".toList, "  1/0)".toList], lineOffset := 3 }
    { kind := .exception, partIdx := 0, tbLineno := 2 } = 14 := by decide
example : failedLineno 10 { execLines := ["f(".toList, "  1)".toList], wantLines := some ["x".toList], lineOffset := 3 }
    { kind := .gotWant, partIdx := 0 } = 15 := by decide

/-! ## `lineno` and the first prompt -/

/-- the full statement of the property's first sentence for google examples -/
def lineno_is_first_prompt_google_statement : Prop :=
  ∀ (docstr callname : Str) (lineno i : Nat) (e : Ex),
    (googleAll docstr callname lineno)[i]? = some e →
    ∀ body, e.docsrc = joinWith ['\n'] body →
      ∃ l, body[0]? = some l ∧ startsWith ">>>".toList (lstrip l) = true

/-- **partial**: freeform — `lineno` IS the line of the first part (offset 0 after re-basing, see
    `part_line_is_file_line_freeform`); google — `lineno` is the first line of the block BODY
    (`google_offset_is_tag_index`), which is the first prompt exactly when the body starts with a
    prompt. Otherwise (K-C08-a) `lineno` points at the prose/blank line that opens the body, while
    `lineno + parts[0].line_offset` is still the first prompt. Witness: -/
theorem lineno_is_first_prompt_google_false : ¬ lineno_is_first_prompt_google_statement := by
  intro h
  have := h "Example:\n    some text\n    >>> f()\n".toList "f".toList 1 0
    { callname := "f".toList, num := 0, lineno := 2, docsrc := "some text\n>>> f()\n".toList,
      blockType := some "Example".toList } (by decide +kernel)
    ["some text".toList, ">>> f()".toList, []] (by decide +kernel)
  obtain ⟨l, h1, h2⟩ := this
  simp at h1; subst h1
  revert h2; decide +kernel

/-- what does hold for google (partial): the reported line is the line after the tag line -/
theorem lineno_is_first_prompt_partial (docstr callname : Str) (lineno i : Nat) (e : Ex)
    (he : (googleAll docstr callname lineno)[i]? = some e) :
    ∃ b, (exampleBlocks docstr)[i]? = some b ∧ e.lineno = lineno + b.offset + 1 := by
  obtain ⟨b, pre, _, _, _, h0, _, h2, _, h4, _⟩ := google_offset_is_tag_index docstr callname lineno i e he
  exact ⟨b, h0, by rw [h4, h2]⟩

/-! ## non-vacuity of the layout and tiling hypotheses -/

/-- non-vacuity of `LiteralLayout`: `def f():` / `    """a` / `    b"""` holds the docstring `a\n    b` from file line index 1 -/
example : LiteralLayout ["def f():".toList, "    \"\"\"a".toList, "    b\"\"\"".toList] 1 "a\n    b".toList := by
  intro i l h
  rcases i with _ | _ | i
  · have : l = "a".toList := by simpa [splitOn] using h.symm
    subst this
    exact ⟨_, rfl, "    \"\"\"".toList, [], by decide⟩
  · have : l = "    b".toList := by simpa [splitOn] using h.symm
    subst this
    exact ⟨_, rfl, [], "\"\"\"".toList, by decide⟩
  · simp [splitOn] at h

/-- non-vacuity of `Tiled` and of the freeform theorems: prose (2 lines), a part of 2 lines at offset 2, prose,
    a part at offset 5 -/
def demoPieces : List FPiece :=
  [.text "intro\n".toList,
   .part { execLines := ["x = 1".toList], wantLines := some ["1".toList], lineOffset := 2,
           origLines := some [">>> x = 1".toList] },
   .text "between".toList,
   .part { execLines := ["y = 2".toList], lineOffset := 5, origLines := some [">>> y = 2".toList] }]

example : Tiled 0 demoPieces := by
  refine ⟨?_, ?_, ?_⟩ <;> first | rfl | trivial | decide

example : (freeform demoPieces "f".toList 10).map (fun e => (e.lineno, (e.parts.getD []).map (·.lineOffset))) =
    [(12, [0, 3])] := by decide +kernel

end Xdoc.C08
